//! C10 - PacketBuilder emits consistent, parseable packets of the announced size
//! (DESIGN.md section 5, C10).
//!
//! Every family harness fixes ONE builder path (link x vlan x net x transport are concrete, so
//! all offsets of the emitted layout are constants) and ONE output path (`write` into a
//! capturing `io::Write` double over a fixed array / `write_to_slice` into exactly `size` bytes /
//! `write_to_vec`), and leaves every value symbolic: addresses, ports, ttl, flags, ids, options,
//! payload content and payload length 0..=PAY (odd and even). Checked per family:
//!  * the write succeeds and `size(n)` == bytes written;
//!  * an INDEPENDENT reference read of the emitted bytes at the fixed offsets of the family
//!    layout (written from IEEE 802.3/802.1Q/802.1ad, LINKTYPE_LINUX_SLL, RFC 791/8200/768/9293/
//!    792/4443/826; shares no code and no constant with etherparse) finds the supplied values,
//!    ether types / protocol numbers that name the layer that really follows, IPv4 total length,
//!    IPv6 payload length and UDP length equal to the real sizes, and checksums equal to the
//!    RFC 1071 reference over pseudo header || header with zero checksum field || payload, all
//!    read from the emitted bytes (receiver's view). The reference pins EVERY emitted byte as a
//!    function of the harness inputs, so the three output-path instantiations of a family prove
//!    byte-identical output (a direct comparison of two builder runs in one query costs > 5 min);
//!  * the crate's strict decoders accept the bytes layer by layer and return the supplied values
//!    and the payload (whole-packet `SlicedPacket::from_*` and `Ipv6Slice::from_slice` behind a
//!    builder run exceeded 10 min / 20 GB in CBMC: they are decided on arbitrary bytes by C01/C03).
//! Error paths: ICMPv6 in IPv4, too short slice, payload length limits of IPv4 / IPv6 / UDP
//! (`limit_*`, payload length symbolic up to 65600 over a zero object that is never read).
//!
//! Cost note (measured): ONE builder run costs CBMC 50-150 s because the ~10 KB builder state
//! (`NetHeaders` holds `Ipv6Extensions`) is moved by value through every step and CBMC explores
//! every enum arm of `final_write_with_net`; hence one run per harness.
//!
//! Checksum kernels are replaced by the reduced 16-bit one's complement models that the C09
//! kernel / add_slice lemmas justify (DESIGN 2.5); the models below are textual copies of
//! `c09::m64_*` so that this module does not depend on another property's file.
//!
//! Harnesses in the table at the end that are NOT listed in reg/c10.py are candidates that were
//! not run to completion within the build budget (see the report / PROP["outside"]).

use crate::sym::{any, any_le, assume};
use crate::witness;
use etherparse::err::packet::{BuildSliceWriteError, BuildVecWriteError, BuildWriteError};
use etherparse::err::{ValueTooBigError, ValueType};
use etherparse::*;

// ================================================================= checksum models (stubs)

/// 16-bit end-around-carry add (RFC 1071 section 1)
#[inline(always)]
pub fn oadd(x: u16, y: u16) -> u16 {
    let s = u32::from(x) + u32::from(y);
    ((s & 0xffff) + (s >> 16)) as u16
}

#[inline(always)]
fn red(a: u64) -> u16 {
    assert!(a <= 0xffff, "C10 model: accumulator left the reduced domain");
    a as u16
}

#[inline(always)]
fn limb64(x: u64, i: u32) -> u16 {
    (x >> (16 * i)) as u16
}

pub fn m_add2(start: u64, v: [u8; 2]) -> u64 {
    oadd(red(start), u16::from_ne_bytes(v)) as u64
}
pub fn m_add4(start: u64, v: [u8; 4]) -> u64 {
    let x = u64::from(u32::from_ne_bytes(v));
    oadd(oadd(red(start), limb64(x, 0)), limb64(x, 1)) as u64
}
pub fn m_add8(start: u64, v: [u8; 8]) -> u64 {
    let x = u64::from_ne_bytes(v);
    oadd(oadd(oadd(oadd(red(start), limb64(x, 0)), limb64(x, 1)), limb64(x, 2)), limb64(x, 3)) as u64
}
/// native-endian 16-bit words, odd length padded with one zero byte, left fold from `start`
pub fn ref_ne(start: u16, s: &[u8]) -> u16 {
    let mut acc = start;
    let mut i = 0usize;
    while i + 1 < s.len() {
        acc = oadd(acc, u16::from_ne_bytes([s[i], s[i + 1]]));
        i += 2;
    }
    if i < s.len() {
        acc = oadd(acc, u16::from_ne_bytes([s[i], 0]));
    }
    acc
}
/// bound of the add_slice model: the family harnesses only sum payloads (<= PAY bytes)
pub const MODEL_SLICE_MAX: usize = 40;
pub fn m_add_slice(start: u64, slice: &[u8]) -> u64 {
    assert!(slice.len() <= MODEL_SLICE_MAX, "C10 model: add_slice used beyond the bound proved by C09 (quick tier)");
    ref_ne(red(start), slice) as u64
}
/// limit harnesses: the payload is huge and its sum is not the subject -> any value (havoc)
pub fn havoc_add_slice(_start: u64, _slice: &[u8]) -> u64 {
    let v: u16 = any();
    u64::from(v)
}

// ================================================================= reference checksum (RFC 1071)

/// running reference sum over pieces of a message; every piece but the last has even length
/// (RFC 1071: the sum may be split at any even offset), big-endian field = bytes of the
/// native-endian complement (byte order independence, RFC 1071 section 2 (B))
struct RSum(u16);
impl RSum {
    fn new() -> Self {
        RSum(0)
    }
    fn b2(mut self, a: u8, b: u8) -> Self {
        self.0 = oadd(self.0, u16::from_ne_bytes([a, b]));
        self
    }
    /// 2 / 4 / 8 / 16 bytes of `b` from offset `o` (unrolled: the reference has no loop, so the
    /// unwind bound of a harness is dictated by the crate's loops alone)
    fn a2(self, b: &[u8], o: usize) -> Self {
        self.b2(b[o], b[o + 1])
    }
    fn a4(self, b: &[u8], o: usize) -> Self {
        self.a2(b, o).a2(b, o + 2)
    }
    fn a8(self, b: &[u8], o: usize) -> Self {
        self.a4(b, o).a4(b, o + 4)
    }
    fn a16(self, b: &[u8], o: usize) -> Self {
        self.a8(b, o).a8(b, o + 8)
    }
    /// the last `n <= 8` bytes of the message starting at the even offset `o`, an odd byte zero padded
    fn tail(self, b: &[u8], o: usize, n: usize) -> Self {
        assert!(n <= 8, "C10 reference: tail longer than 8 bytes");
        let g = |i: usize| if i < n { b[o + i] } else { 0 };
        let mut s = self;
        if n > 0 { s = s.b2(g(0), g(1)); }
        if n > 2 { s = s.b2(g(2), g(3)); }
        if n > 4 { s = s.b2(g(4), g(5)); }
        if n > 6 { s = s.b2(g(6), g(7)); }
        s
    }
    fn u16(self, v: u16) -> Self {
        let b = v.to_be_bytes();
        self.b2(b[0], b[1])
    }
    fn u32(self, v: u32) -> Self {
        let b = v.to_be_bytes();
        self.b2(b[0], b[1]).b2(b[2], b[3])
    }
    /// value of the checksum field as a big-endian number
    fn field(&self) -> u16 {
        u16::from_be_bytes((!self.0).to_ne_bytes())
    }
}

// ================================================================= serialiser models (stubs)
//
// `Ipv6Extensions::write_internal` is a `loop { match next_header { .. } }` whose arms call
// `Ipv6RawExtHeader::to_bytes` (2 KB ArrayVec) and `IpAuthHeader::to_bytes` (fixed 1016-trip
// loop). CBMC does not resolve the walk of the builder's moved-by-value state, so it explores
// every arm in every unwinding and runs out of memory (measured: > 20 GB even without any
// extension header). No C10 family carries a raw extension header or an authentication header
// (their serialisers are decided by C08, the chain bookkeeping by C12), so the two functions
// are replaced by models that FAIL if they are ever reached.

pub fn m_raw_ext_to_bytes(_h: &Ipv6RawExtHeader) -> arrayvec::ArrayVec<u8, { Ipv6RawExtHeader::MAX_LEN }> {
    panic!("C10 model: Ipv6RawExtHeader::to_bytes reached although no family carries a raw extension header");
}
// (`to_bytes` lives in `impl<'a> IpAuthHeader`: the stub needs the same number of generic parameters)
pub fn m_auth_to_bytes<'a>(_h: &IpAuthHeader) -> arrayvec::ArrayVec<u8, { IpAuthHeader::MAX_LEN }>
where
    'a: 'a,
{
    panic!("C10 model: IpAuthHeader::to_bytes reached although no family carries an authentication header");
}

// ================================================================= test doubles / helpers

/// payload bound of the family harnesses
pub const PAY: usize = 6;

/// capturing `io::Write` double: fixed array, no Vec, no loop; bytes that do not fit are only counted
pub struct Cap<const N: usize> {
    pub b: [u8; N],
    pub n: usize,
}
impl<const N: usize> Cap<N> {
    pub fn new() -> Self {
        Cap { b: [0u8; N], n: 0 }
    }
}
impl<const N: usize> std::io::Write for Cap<N> {
    fn write(&mut self, buf: &[u8]) -> std::io::Result<usize> {
        let l = buf.len();
        if self.n <= N && l <= N - self.n {
            self.b[self.n..self.n + l].copy_from_slice(buf);
        }
        self.n += l;
        Ok(l)
    }
    fn write_all(&mut self, buf: &[u8]) -> std::io::Result<()> {
        self.write(buf).map(|_| ())
    }
    fn flush(&mut self) -> std::io::Result<()> {
        Ok(())
    }
}

fn be16(b: &[u8], i: usize) -> u16 {
    u16::from_be_bytes([b[i], b[i + 1]])
}
fn be32(b: &[u8], i: usize) -> u32 {
    u32::from_be_bytes([b[i], b[i + 1], b[i + 2], b[i + 3]])
}
fn eq4(b: &[u8], o: usize, v: [u8; 4]) -> bool {
    b[o] == v[0] && b[o + 1] == v[1] && b[o + 2] == v[2] && b[o + 3] == v[3]
}
fn eq6(b: &[u8], o: usize, v: [u8; 6]) -> bool {
    b[o] == v[0] && b[o + 1] == v[1] && b[o + 2] == v[2] && b[o + 3] == v[3] && b[o + 4] == v[4] && b[o + 5] == v[5]
}
fn eq8(b: &[u8], o: usize, v: [u8; 8]) -> bool {
    eq4(b, o, [v[0], v[1], v[2], v[3]]) && eq4(b, o + 4, [v[4], v[5], v[6], v[7]])
}
fn eq16(b: &[u8], o: usize, v: [u8; 16]) -> bool {
    eq8(b, o, [v[0], v[1], v[2], v[3], v[4], v[5], v[6], v[7]])
        && eq8(b, o + 8, [v[8], v[9], v[10], v[11], v[12], v[13], v[14], v[15]])
}
/// the `n` bytes of `a` from offset `o` are the first `n` payload bytes and nothing follows
/// inside the emitted length (n <= PAY, unrolled: no loop)
fn payload_at(a: &[u8], o: usize, p: &[u8; PAY], n: usize) -> bool {
    let mut ok = true;
    if n > 0 { ok &= a[o] == p[0]; }
    if n > 1 { ok &= a[o + 1] == p[1]; }
    if n > 2 { ok &= a[o + 2] == p[2]; }
    if n > 3 { ok &= a[o + 3] == p[3]; }
    if n > 4 { ok &= a[o + 4] == p[4]; }
    if n > 5 { ok &= a[o + 5] == p[5]; }
    ok
}
/// slice `s` is exactly the first `n` payload bytes
fn is_payload(s: &[u8], p: &[u8; PAY], n: usize) -> bool {
    s.len() == n && payload_at(s, 0, p, n)
}

fn payload() -> ([u8; PAY], usize) {
    let d: [u8; PAY] = any();
    let n = any_le(PAY);
    witness!(n == 5, "odd_payload");
    witness!(n == 0, "empty_payload");
    witness!(n == PAY, "max_payload");
    (d, n)
}

/// the three output paths of the builder (const parameter of every family body)
pub const IO: u8 = 0;
pub const SLICE: u8 = 1;
pub const VEC: u8 = 2;

/// bytes emitted by one builder run
pub struct Emitted<const N: usize> {
    /// `size(payload_len)`
    pub size: usize,
    /// emitted bytes, zero behind `n`
    pub b: [u8; N],
    /// number of bytes emitted
    pub n: usize,
}

/// Runs `size(payload_len)` and ONE of the three write paths (`$P`) on identically configured
/// builders (`$mk` builds a fresh one: a write consumes the builder), requires success and
/// exactly `size` bytes, and yields the bytes. One path per harness because a single builder
/// run costs CBMC about a minute (10 KB builder state moved by value through every step); the
/// reference readers below pin EVERY emitted byte as a function of the harness inputs, so the
/// three instantiations of a family prove byte-identical output of the three paths.
/// `$extra`: arguments between sink and payload (the raw `write` takes the last next header).
macro_rules! emit_ok {
    ($P:expr, $N:expr, $mk:expr, [$($extra:expr),*], $pay:expr) => {{
        let p: &[u8] = $pay;
        let size = ($mk).size(p.len());
        assert!(size <= $N, "C10 harness: capture buffer too small");
        let mut out = [0u8; $N];
        let n;
        if $P == IO {
            let mut w = Cap::<{ $N }>::new();
            let r = ($mk).write(&mut w, $($extra,)* p);
            assert!(r.is_ok(), "write must succeed");
            n = w.n;
            out = w.b;
        } else if $P == SLICE {
            // a buffer of exactly size(payload_len) bytes must do
            let r = ($mk).write_to_slice(&mut out[..size], $($extra,)* p);
            match r {
                Ok(l) => n = l,
                Err(_) => panic!("write_to_slice must succeed"),
            }
        } else {
            let mut v: Vec<u8> = Vec::with_capacity($N);
            let r = ($mk).write_to_vec(&mut v, $($extra,)* p);
            assert!(r.is_ok(), "write_to_vec must succeed");
            n = v.len();
            assert!(n <= $N);
            out[..n].copy_from_slice(&v);
        }
        assert!(n == size, "bytes written == size(payload_len)");
        Emitted::<{ $N }> { size, b: out, n }
    }};
}

// ================================================================= reference readers (fixed offsets)
//
// Written from the standards; values the builder step does not take from the caller are the
// ones its documentation names (`..Default::default()`: DSCP/ECN/identification 0, DF set, no
// fragmentation, no options; VLAN PCP 0 / DEI 0; IPv6 traffic class and flow label 0).

/// IEEE 802.3 Ethernet II: destination(6) source(6) ether type(2)
fn ref_eth2(b: &[u8], src: [u8; 6], dst: [u8; 6], ether_type: u16) {
    assert!(eq6(b, 0, dst), "ethernet destination");
    assert!(eq6(b, 6, src), "ethernet source");
    assert!(be16(b, 12) == ether_type, "ethernet II ether type names the next layer");
}

/// IEEE 802.1Q tag at `o`: PCP(3) DEI(1) VID(12), ether type(2)
fn ref_vlan(b: &[u8], o: usize, pcp: u8, dei: bool, vid: u16, ether_type: u16) {
    assert!(be16(b, o) == (u16::from(pcp) << 13) | (u16::from(dei) << 12) | vid, "802.1Q TCI");
    assert!(be16(b, o + 2) == ether_type, "802.1Q ether type names the next layer");
}

/// LINKTYPE_LINUX_SLL: packet type(2) ARPHRD(2) address length(2) address(8) protocol(2)
fn ref_sll(b: &[u8], ptype: u16, alen: u16, addr: [u8; 8], ether_type: u16) {
    assert!(be16(b, 0) == ptype, "SLL packet type");
    assert!(be16(b, 2) == 1, "SLL ARPHRD_ETHER");
    assert!(be16(b, 4) == alen, "SLL address length");
    assert!(eq8(b, 6, addr), "SLL address");
    assert!(be16(b, 14) == ether_type, "SLL protocol type names the next layer");
}

/// RFC 791 header checksum over `hl` header bytes at `o` with the checksum field taken as zero
fn ref_ipv4_checksum(b: &[u8], o: usize, hl: usize) {
    assert!(hl == 20 || hl == 24, "C10 reference: header length of the families");
    let mut s = RSum::new().a8(b, o).a2(b, o + 8).a8(b, o + 12);
    if hl > 20 {
        s = s.a4(b, o + 20);
    }
    assert!(be16(b, o + 10) == s.field(), "IPv4 header checksum verifies");
}

/// RFC 791 header at `o` as the builder's `ipv4(source, destination, ttl)` step documents it
fn ref_ipv4_plain(b: &[u8], o: usize, end: usize, src: [u8; 4], dst: [u8; 4], ttl: u8, proto: u8) {
    assert!(b[o] == 0x45, "version 4, IHL 5");
    assert!(b[o + 1] == 0, "DSCP / ECN default 0");
    assert!(usize::from(be16(b, o + 2)) == end - o, "IPv4 total length == real size");
    assert!(be16(b, o + 4) == 0, "identification default 0");
    assert!(be16(b, o + 6) == 0x4000, "default: DF set, not a fragment");
    assert!(b[o + 8] == ttl, "ttl");
    assert!(b[o + 9] == proto, "IPv4 protocol names the next layer");
    assert!(eq4(b, o + 12, src), "IPv4 source");
    assert!(eq4(b, o + 16, dst), "IPv4 destination");
    ref_ipv4_checksum(b, o, 20);
}

/// RFC 8200 header at `o` as the builder's `ipv6(source, destination, hop_limit)` step documents it
fn ref_ipv6_plain(b: &[u8], o: usize, end: usize, src: [u8; 16], dst: [u8; 16], hop: u8, next: u8) {
    assert!(be32(b, o) == 0x6000_0000, "version 6, traffic class 0, flow label 0");
    assert!(usize::from(be16(b, o + 4)) == end - o - 40, "IPv6 payload length == real size");
    assert!(b[o + 6] == next, "IPv6 next header names the next layer");
    assert!(b[o + 7] == hop, "hop limit");
    assert!(eq16(b, o + 8, src), "IPv6 source");
    assert!(eq16(b, o + 24, dst), "IPv6 destination");
}

/// RFC 768 / RFC 9293 3.1 pseudo header, addresses read from the emitted IPv4 header at `ip`
fn pseudo4(b: &[u8], ip: usize, proto: u8, len: usize) -> RSum {
    RSum::new().a8(b, ip + 12).b2(0, proto).u16(len as u16)
}
/// RFC 8200 8.1 pseudo header, addresses read from the emitted IPv6 header at `ip`
fn pseudo6(b: &[u8], ip: usize, next: u8, len: usize) -> RSum {
    RSum::new().a16(b, ip + 8).a16(b, ip + 24).u32(len as u32).b2(0, 0).b2(0, next)
}

/// RFC 768 at `o`: ports, length == real size, checksum over pseudo header `ps` || header || data
fn ref_udp(b: &[u8], ps: RSum, o: usize, end: usize, sp: u16, dp: u16) {
    assert!(be16(b, o) == sp, "UDP source port");
    assert!(be16(b, o + 2) == dp, "UDP destination port");
    assert!(usize::from(be16(b, o + 4)) == end - o, "UDP length == real size");
    let c = ps.a4(b, o).a2(b, o + 4).tail(b, o + 8, end - o - 8).field();
    witness!(c == 0, "udp_checksum_computed_zero");
    // RFC 768: a computed zero is transmitted as all ones
    let want = if c == 0 { 0xffff } else { c };
    assert!(be16(b, o + 6) == want, "UDP checksum verifies");
}

/// supplied TCP values
pub struct TcpV {
    sp: u16,
    dp: u16,
    seq: u32,
    ack_no: u32,
    win: u16,
    urg_ptr: u16,
    /// NS CWR ECE URG ACK PSH RST SYN FIN (bit 8 .. bit 0)
    flags: u16,
}

/// RFC 9293 3.1 at `o` with `ol` option bytes (multiple of 4)
fn ref_tcp(b: &[u8], ps: RSum, o: usize, ol: usize, end: usize, t: &TcpV) {
    assert!(be16(b, o) == t.sp, "TCP source port");
    assert!(be16(b, o + 2) == t.dp, "TCP destination port");
    assert!(be32(b, o + 4) == t.seq, "TCP sequence number");
    assert!(be32(b, o + 8) == t.ack_no, "TCP acknowledgment number");
    // data offset(4) reserved(3) NS(1) | CWR ECE URG ACK PSH RST SYN FIN
    assert!(be16(b, o + 12) == ((((20 + ol) / 4) as u16) << 12) | t.flags, "TCP data offset and flags");
    assert!(be16(b, o + 14) == t.win, "TCP window");
    assert!(be16(b, o + 18) == t.urg_ptr, "TCP urgent pointer");
    let mut c = ps.a16(b, o).a2(b, o + 18);
    assert!(ol == 0 || ol == 4 || ol == 8, "C10 reference: option lengths of the families");
    if ol >= 4 {
        c = c.a4(b, o + 20);
    }
    if ol >= 8 {
        c = c.a4(b, o + 24);
    }
    let c = c.tail(b, o + 20 + ol, end - o - 20 - ol).field();
    assert!(be16(b, o + 16) == c, "TCP checksum verifies");
}

/// RFC 792 / RFC 4443 common layout at `o`: type, code, checksum, 4 bytes rest of header
fn ref_icmp(b: &[u8], ps: RSum, o: usize, end: usize, ty: u8, code: u8, rest: [u8; 4]) {
    assert!(b[o] == ty, "ICMP type");
    assert!(b[o + 1] == code, "ICMP code");
    assert!(eq4(b, o + 4, rest), "ICMP bytes 5 to 8");
    let c = ps.a2(b, o).a4(b, o + 4).tail(b, o + 8, end - o - 8).field();
    assert!(be16(b, o + 2) == c, "ICMP checksum verifies");
}

fn vid() -> VlanId {
    let v: u16 = any();
    assume(v < 0x1000);
    match VlanId::try_new(v) {
        Ok(v) => v,
        Err(_) => panic!("valid vlan id"),
    }
}

// ================================================================= families (IPv6 / UDP)

/// ethernet2 -> ipv6 -> udp
pub fn eth_ipv6_udp<const P: u8>() {
    const N: usize = 14 + 40 + 8 + PAY;
    let (es, ed): ([u8; 6], [u8; 6]) = (any(), any());
    let (src, dst, hop): ([u8; 16], [u8; 16], u8) = (any(), any(), any());
    let (sp, dp): (u16, u16) = (any(), any());
    let (pd, pn) = payload();
    let e = emit_ok!(P, N, PacketBuilder::ethernet2(es, ed).ipv6(src, dst, hop).udp(sp, dp), [], &pd[..pn]);
    assert!(e.size == 62 + pn);
    let b = &e.b[..];
    ref_eth2(b, es, ed, 0x86dd);
    ref_ipv6_plain(b, 14, e.n, src, dst, hop, 17);
    ref_udp(b, pseudo6(b, 14, 17, e.n - 54), 54, e.n, sp, dp);
    assert!(payload_at(b, 62, &pd, pn), "payload");
    // crate's strict decoders, layer by layer
    let b = &e.b[..e.n];
    let l = match Ethernet2Slice::from_slice_without_fcs(b) { Ok(v) => v, Err(_) => panic!("strict: ethernet") };
    assert!(eq6(&l.source(), 0, es) && eq6(&l.destination(), 0, ed) && l.ether_type() == EtherType(0x86dd));
    // (header level for IPv6: walking extension chains of arbitrary bytes is decided in C01/C03 and too
    // expensive to repeat behind a builder run)
    let h = match Ipv6HeaderSlice::from_slice(l.payload_slice()) { Ok(v) => v, Err(_) => panic!("strict: ipv6") };
    assert!(eq16(&h.source(), 0, src) && eq16(&h.destination(), 0, dst) && h.hop_limit() == hop);
    assert!(h.next_header() == IpNumber(17) && usize::from(h.payload_length()) == l.payload_slice().len() - 40);
    let u = match UdpSlice::from_slice(&l.payload_slice()[40..]) { Ok(v) => v, Err(_) => panic!("strict: udp") };
    assert!(u.source_port() == sp && u.destination_port() == dp);
    assert!(is_payload(u.payload(), &pd, pn));
}

/// (start at) ipv4 -> udp
pub fn ipv4_udp<const P: u8>() {
    const N: usize = 20 + 8 + PAY;
    let (src, dst, ttl): ([u8; 4], [u8; 4], u8) = (any(), any(), any());
    let (sp, dp): (u16, u16) = (any(), any());
    let (pd, pn) = payload();
    let e = emit_ok!(P, N, PacketBuilder::ipv4(src, dst, ttl).udp(sp, dp), [], &pd[..pn]);
    assert!(e.size == 28 + pn);
    let b = &e.b[..];
    ref_ipv4_plain(b, 0, e.n, src, dst, ttl, 17);
    ref_udp(b, pseudo4(b, 0, 17, e.n - 20), 20, e.n, sp, dp);
    assert!(payload_at(b, 28, &pd, pn), "payload");
    let ip = match Ipv4Slice::from_slice(&e.b[..e.n]) { Ok(v) => v, Err(_) => panic!("strict: ipv4") };
    let h = ip.header();
    assert!(eq4(&h.source(), 0, src) && eq4(&h.destination(), 0, dst) && h.ttl() == ttl);
    assert!(ip.payload().ip_number == IpNumber(17) && !ip.payload().fragmented);
    let u = match UdpSlice::from_slice(ip.payload().payload) { Ok(v) => v, Err(_) => panic!("strict: udp") };
    assert!(u.source_port() == sp && u.destination_port() == dp);
    assert!(is_payload(u.payload(), &pd, pn));
}

// ================================================================= families (VLAN / IPv4 / TCP)

/// option bytes handed to `options_raw` (6 -> zero padded to 8 by the crate, as documented)
const TCP_OPT: usize = 6;

/// ethernet2 -> single_vlan -> ipv4 -> tcp + flag setters (pattern A: ns syn psh ack urg ece) + options_raw
pub fn vlan_ipv4_tcp<const P: u8>() {
    const N: usize = 14 + 4 + 20 + 28 + PAY;
    let (es, ed): ([u8; 6], [u8; 6]) = (any(), any());
    let v = vid();
    let (src, dst, ttl): ([u8; 4], [u8; 4], u8) = (any(), any(), any());
    let (sp, dp, seq, win): (u16, u16, u32, u16) = (any(), any(), any(), any());
    let (ack_no, urg_ptr): (u32, u16) = (any(), any());
    let od: [u8; TCP_OPT] = any();
    let (pd, pn) = payload();
    let e = emit_ok!(
        P,
        N,
        match PacketBuilder::ethernet2(es, ed)
            .single_vlan(v)
            .ipv4(src, dst, ttl)
            .tcp(sp, dp, seq, win)
            .ns()
            .syn()
            .psh()
            .ack(ack_no)
            .urg(urg_ptr)
            .ece()
            .options_raw(&od)
        {
            Ok(b) => b,
            Err(_) => panic!("6 option bytes fit"),
        },
        [],
        &pd[..pn]
    );
    assert!(e.size == 66 + pn);
    let b = &e.b[..];
    ref_eth2(b, es, ed, 0x8100);
    ref_vlan(b, 14, 0, false, v.value(), 0x0800);
    ref_ipv4_plain(b, 18, e.n, src, dst, ttl, 6);
    // NS 0x100, ECE 0x40, URG 0x20, ACK 0x10, PSH 0x08, SYN 0x02
    let t = TcpV { sp, dp, seq, ack_no, win, urg_ptr, flags: 0x100 | 0x40 | 0x20 | 0x10 | 0x08 | 0x02 };
    ref_tcp(b, pseudo4(b, 18, 6, e.n - 38), 38, 8, e.n, &t);
    assert!(b[58] == od[0] && b[59] == od[1] && b[60] == od[2] && b[61] == od[3] && b[62] == od[4] && b[63] == od[5], "TCP options");
    assert!(b[64] == 0 && b[65] == 0, "TCP options zero padded to a multiple of 4");
    assert!(payload_at(b, 66, &pd, pn), "payload");
    // crate's strict decoders, layer by layer
    let b = &e.b[..e.n];
    let l = match Ethernet2Slice::from_slice_without_fcs(b) { Ok(v) => v, Err(_) => panic!("strict: ethernet") };
    assert!(eq6(&l.source(), 0, es) && eq6(&l.destination(), 0, ed) && l.ether_type() == EtherType(0x8100));
    let vl = match SingleVlanSlice::from_slice(l.payload_slice()) { Ok(v) => v, Err(_) => panic!("strict: vlan") };
    assert!(vl.vlan_identifier() == v && vl.ether_type() == EtherType(0x0800));
    let ip = match Ipv4Slice::from_slice(vl.payload_slice()) { Ok(v) => v, Err(_) => panic!("strict: ipv4") };
    let h = ip.header();
    assert!(eq4(&h.source(), 0, src) && eq4(&h.destination(), 0, dst) && h.ttl() == ttl);
    assert!(ip.payload().ip_number == IpNumber(6) && !ip.payload().fragmented);
    let ts = match TcpSlice::from_slice(ip.payload().payload) { Ok(v) => v, Err(_) => panic!("strict: tcp") };
    assert!(ts.source_port() == sp && ts.destination_port() == dp && ts.sequence_number() == seq);
    assert!(ts.window_size() == win && ts.acknowledgment_number() == ack_no && ts.urgent_pointer() == urg_ptr);
    assert!(ts.ns() && ts.syn() && ts.psh() && ts.ack() && ts.urg() && ts.ece());
    assert!(!ts.fin() && !ts.rst() && !ts.cwr());
    let o = ts.options();
    assert!(o.len() == 8 && o[0] == od[0] && o[5] == od[5] && o[6] == 0 && o[7] == 0);
    assert!(is_payload(ts.payload(), &pd, pn));
}

/// (start at) ipv4 -> tcp + flag setters (pattern B: fin rst cwr), no options
pub fn ipv4_tcp_b<const P: u8>() {
    const N: usize = 20 + 20 + PAY + 2;
    let (src, dst, ttl): ([u8; 4], [u8; 4], u8) = (any(), any(), any());
    let (sp, dp, seq, win): (u16, u16, u32, u16) = (any(), any(), any(), any());
    let (pd, pn) = payload();
    let e = emit_ok!(P, N, PacketBuilder::ipv4(src, dst, ttl).tcp(sp, dp, seq, win).fin().rst().cwr(), [], &pd[..pn]);
    assert!(e.size == 40 + pn);
    let b = &e.b[..];
    ref_ipv4_plain(b, 0, e.n, src, dst, ttl, 6);
    let t = TcpV { sp, dp, seq, ack_no: 0, win, urg_ptr: 0, flags: 0x80 | 0x04 | 0x01 };
    ref_tcp(b, pseudo4(b, 0, 6, e.n - 20), 20, 0, e.n, &t);
    assert!(payload_at(b, 40, &pd, pn), "payload");
    let ip = match Ipv4Slice::from_slice(&e.b[..e.n]) { Ok(v) => v, Err(_) => panic!("strict: ipv4") };
    let ts = match TcpSlice::from_slice(ip.payload().payload) { Ok(v) => v, Err(_) => panic!("strict: tcp") };
    assert!(ts.fin() && ts.rst() && ts.cwr());
    assert!(!ts.ns() && !ts.syn() && !ts.psh() && !ts.ack() && !ts.urg() && !ts.ece());
    assert!(ts.options().is_empty());
    assert!(is_payload(ts.payload(), &pd, pn));
}

/// (start at) ipv6 -> tcp_header(all fields and flags symbolic, 4 option bytes)
pub fn ipv6_tcp_header<const P: u8>() {
    const N: usize = 40 + 24 + PAY + 2;
    let (src, dst, hop): ([u8; 16], [u8; 16], u8) = (any(), any(), any());
    let fl: u16 = any();
    assume(fl < 0x200);
    let t = TcpV { sp: any(), dp: any(), seq: any(), ack_no: any(), win: any(), urg_ptr: any(), flags: fl };
    let od: [u8; 4] = any();
    let (pd, pn) = payload();
    let mk = || {
        let mut h = TcpHeader::new(t.sp, t.dp, t.seq, t.win);
        h.acknowledgment_number = t.ack_no;
        h.urgent_pointer = t.urg_ptr;
        h.checksum = 0x1234; // must be replaced
        h.fin = fl & 1 != 0;
        h.syn = fl & 2 != 0;
        h.rst = fl & 4 != 0;
        h.psh = fl & 8 != 0;
        h.ack = fl & 0x10 != 0;
        h.urg = fl & 0x20 != 0;
        h.ece = fl & 0x40 != 0;
        h.cwr = fl & 0x80 != 0;
        h.ns = fl & 0x100 != 0;
        match h.set_options_raw(&od) {
            Ok(()) => {}
            Err(_) => panic!("4 option bytes fit"),
        }
        h
    };
    let e = emit_ok!(P, N, PacketBuilder::ipv6(src, dst, hop).tcp_header(mk()), [], &pd[..pn]);
    assert!(e.size == 64 + pn);
    let b = &e.b[..];
    ref_ipv6_plain(b, 0, e.n, src, dst, hop, 6);
    ref_tcp(b, pseudo6(b, 0, 6, e.n - 40), 40, 4, e.n, &t);
    assert!(eq4(b, 60, od), "TCP options");
    assert!(payload_at(b, 64, &pd, pn), "payload");
    // strict decoders (header level for IPv6: the extension walk is decided in C01/C03)
    let h = match Ipv6HeaderSlice::from_slice(&e.b[..e.n]) { Ok(v) => v, Err(_) => panic!("strict: ipv6") };
    assert!(eq16(&h.source(), 0, src) && eq16(&h.destination(), 0, dst) && h.hop_limit() == hop && h.next_header() == IpNumber(6));
    assert!(usize::from(h.payload_length()) == e.n - 40);
    let ts = match TcpSlice::from_slice(&e.b[40..e.n]) { Ok(v) => v, Err(_) => panic!("strict: tcp") };
    assert!(ts.source_port() == t.sp && ts.destination_port() == t.dp && ts.sequence_number() == t.seq);
    assert!(ts.fin() == (fl & 1 != 0) && ts.ns() == (fl & 0x100 != 0) && ts.cwr() == (fl & 0x80 != 0));
    assert!(is_payload(ts.payload(), &pd, pn));
}

// ================================================================= families (double VLAN / SLL / ICMP)

/// ethernet2 -> double_vlan -> ipv4 -> icmpv4_echo_request
pub fn qinq_ipv4_icmpv4<const P: u8>() {
    const N: usize = 14 + 8 + 20 + 8 + PAY;
    let (es, ed): ([u8; 6], [u8; 6]) = (any(), any());
    let (vo, vi) = (vid(), vid());
    let (src, dst, ttl): ([u8; 4], [u8; 4], u8) = (any(), any(), any());
    let (id, seq): (u16, u16) = (any(), any());
    let (pd, pn) = payload();
    let e = emit_ok!(
        P,
        N,
        PacketBuilder::ethernet2(es, ed).double_vlan(vo, vi).ipv4(src, dst, ttl).icmpv4_echo_request(id, seq),
        [],
        &pd[..pn]
    );
    assert!(e.size == 50 + pn);
    let b = &e.b[..];
    // IEEE 802.1ad: outer S-tag 0x88a8, inner C-tag 0x8100
    ref_eth2(b, es, ed, 0x88a8);
    ref_vlan(b, 14, 0, false, vo.value(), 0x8100);
    ref_vlan(b, 18, 0, false, vi.value(), 0x0800);
    ref_ipv4_plain(b, 22, e.n, src, dst, ttl, 1);
    let idb = id.to_be_bytes();
    let sqb = seq.to_be_bytes();
    // RFC 792 echo: type 8 code 0, identifier, sequence number; no pseudo header
    ref_icmp(b, RSum::new(), 42, e.n, 8, 0, [idb[0], idb[1], sqb[0], sqb[1]]);
    assert!(payload_at(b, 50, &pd, pn), "payload");
    // crate's strict decoders, layer by layer
    let b = &e.b[..e.n];
    let l = match Ethernet2Slice::from_slice_without_fcs(b) { Ok(v) => v, Err(_) => panic!("strict: ethernet") };
    assert!(l.ether_type() == EtherType(0x88a8));
    let v1 = match SingleVlanSlice::from_slice(l.payload_slice()) { Ok(v) => v, Err(_) => panic!("strict: outer vlan") };
    assert!(v1.vlan_identifier() == vo && v1.ether_type() == EtherType(0x8100));
    let v2 = match SingleVlanSlice::from_slice(v1.payload_slice()) { Ok(v) => v, Err(_) => panic!("strict: inner vlan") };
    assert!(v2.vlan_identifier() == vi && v2.ether_type() == EtherType(0x0800));
    let ip = match Ipv4Slice::from_slice(v2.payload_slice()) { Ok(v) => v, Err(_) => panic!("strict: ipv4") };
    let h = ip.header();
    assert!(eq4(&h.source(), 0, src) && eq4(&h.destination(), 0, dst) && h.ttl() == ttl);
    assert!(ip.payload().ip_number == IpNumber(1) && !ip.payload().fragmented);
    let ic = match Icmpv4Slice::from_slice(ip.payload().payload) { Ok(v) => v, Err(_) => panic!("strict: icmpv4") };
    match ic.icmp_type() {
        Icmpv4Type::EchoRequest(h) => assert!(h.id == id && h.seq == seq),
        _ => panic!("strict: echo request expected"),
    }
    assert!(is_payload(ic.payload(), &pd, pn));
}

/// linux_sll -> ipv6 -> icmpv6_echo_reply
pub fn sll_ipv6_icmpv6<const P: u8>() {
    const N: usize = 16 + 40 + 8 + PAY + 2;
    let pt: u16 = any();
    assume(pt <= 7);
    let ptype = match LinuxSllPacketType::try_from(pt) { Ok(v) => v, Err(_) => panic!("packet type 0..=7 is valid") };
    let (alen, addr): (u16, [u8; 8]) = (any(), any());
    let (src, dst, hop): ([u8; 16], [u8; 16], u8) = (any(), any(), any());
    let (id, seq): (u16, u16) = (any(), any());
    let (pd, pn) = payload();
    let e = emit_ok!(
        P,
        N,
        PacketBuilder::linux_sll(ptype, alen, addr).ipv6(src, dst, hop).icmpv6_echo_reply(id, seq),
        [],
        &pd[..pn]
    );
    assert!(e.size == 64 + pn);
    let b = &e.b[..];
    ref_sll(b, pt, alen, addr, 0x86dd);
    ref_ipv6_plain(b, 16, e.n, src, dst, hop, 58);
    let idb = id.to_be_bytes();
    let sqb = seq.to_be_bytes();
    // RFC 4443 4.2 echo reply: type 129 code 0; checksum with the IPv6 pseudo header
    ref_icmp(b, pseudo6(b, 16, 58, e.n - 56), 56, e.n, 129, 0, [idb[0], idb[1], sqb[0], sqb[1]]);
    assert!(payload_at(b, 64, &pd, pn), "payload");
    // crate's strict decoders, layer by layer
    let b = &e.b[..e.n];
    let l = match LinuxSllSlice::from_slice(b) { Ok(v) => v, Err(_) => panic!("strict: sll") };
    assert!(l.packet_type() == ptype && l.sender_address_valid_length() == alen && eq8(&l.sender_address_full(), 0, addr));
    assert!(l.protocol_type() == LinuxSllProtocolType::EtherType(EtherType(0x86dd)));
    let h = match Ipv6HeaderSlice::from_slice(l.payload_slice()) { Ok(v) => v, Err(_) => panic!("strict: ipv6") };
    assert!(eq16(&h.source(), 0, src) && eq16(&h.destination(), 0, dst) && h.hop_limit() == hop);
    assert!(h.next_header() == IpNumber(58) && usize::from(h.payload_length()) == l.payload_slice().len() - 40);
    let ic = match Icmpv6Slice::from_slice(&l.payload_slice()[40..]) { Ok(v) => v, Err(_) => panic!("strict: icmpv6") };
    match ic.icmp_type() {
        Icmpv6Type::EchoReply(h) => assert!(h.id == id && h.seq == seq),
        _ => panic!("strict: echo reply expected"),
    }
    assert!(is_payload(ic.payload(), &pd, pn));
}

/// (start at) ipv6 -> icmpv4_raw: ICMPv4 behind IPv6 is encodable (next header 1, no pseudo header)
pub fn ipv6_icmpv4_raw<const P: u8>() {
    const N: usize = 40 + 8 + PAY + 2;
    let (src, dst, hop): ([u8; 16], [u8; 16], u8) = (any(), any(), any());
    let (ty, code, rest): (u8, u8, [u8; 4]) = (any(), any(), any());
    let (pd, pn) = payload();
    let e = emit_ok!(P, N, PacketBuilder::ipv6(src, dst, hop).icmpv4_raw(ty, code, rest), [], &pd[..pn]);
    assert!(e.size == 48 + pn);
    let b = &e.b[..];
    ref_ipv6_plain(b, 0, e.n, src, dst, hop, 1);
    ref_icmp(b, RSum::new(), 40, e.n, ty, code, rest);
    assert!(payload_at(b, 48, &pd, pn), "payload");
}

/// (start at) ipv6 -> icmpv6_raw
pub fn ipv6_icmpv6_raw<const P: u8>() {
    const N: usize = 40 + 8 + PAY + 2;
    let (src, dst, hop): ([u8; 16], [u8; 16], u8) = (any(), any(), any());
    let (ty, code, rest): (u8, u8, [u8; 4]) = (any(), any(), any());
    let (pd, pn) = payload();
    let e = emit_ok!(P, N, PacketBuilder::ipv6(src, dst, hop).icmpv6_raw(ty, code, rest), [], &pd[..pn]);
    assert!(e.size == 48 + pn);
    let b = &e.b[..];
    ref_ipv6_plain(b, 0, e.n, src, dst, hop, 58);
    ref_icmp(b, pseudo6(b, 0, 58, e.n - 40), 40, e.n, ty, code, rest);
    assert!(payload_at(b, 48, &pd, pn), "payload");
}

// ================================================================= families (ip(IpHeaders) / raw write)

/// (start at) ip(IpHeaders::Ipv4(every field symbolic, 4 option bytes)) -> write(last next header)
pub fn ip_v4_raw<const P: u8>() {
    const N: usize = 24 + PAY + 2;
    let (dscp, ecn, fo): (u8, u8, u16) = (any(), any(), any());
    assume(dscp < 64 && ecn < 4 && fo < 0x2000);
    let (src, dst, ttl, ident): ([u8; 4], [u8; 4], u8, u16) = (any(), any(), any(), any());
    let (df, mf): (bool, bool) = (any(), any());
    let od: [u8; 4] = any();
    let last: u8 = any();
    let (junk_len, junk_proto, junk_sum): (u16, u8, u16) = (any(), any(), any());
    let (pd, pn) = payload();
    let mk = || {
        let h = Ipv4Header {
            dscp: match IpDscp::try_new(dscp) { Ok(v) => v, Err(_) => panic!("dscp") },
            ecn: match IpEcn::try_new(ecn) { Ok(v) => v, Err(_) => panic!("ecn") },
            // documented: length, protocol and checksum are overwritten
            total_len: junk_len,
            identification: ident,
            dont_fragment: df,
            more_fragments: mf,
            fragment_offset: match IpFragOffset::try_new(fo) { Ok(v) => v, Err(_) => panic!("fo") },
            time_to_live: ttl,
            protocol: IpNumber(junk_proto),
            header_checksum: junk_sum,
            source: src,
            destination: dst,
            options: match Ipv4Options::try_from(&od[..]) { Ok(v) => v, Err(_) => panic!("options") },
        };
        PacketBuilder::ip(IpHeaders::Ipv4(h, Default::default()))
    };
    let e = emit_ok!(P, N, mk(), [IpNumber(last)], &pd[..pn]);
    assert!(e.size == 24 + pn);
    let b = &e.b[..];
    assert!(b[0] == 0x46, "version 4, IHL 6");
    assert!(b[1] == (dscp << 2) | ecn, "DSCP / ECN");
    assert!(usize::from(be16(b, 2)) == e.n, "IPv4 total length == real size");
    assert!(be16(b, 4) == ident, "identification");
    assert!(be16(b, 6) == (u16::from(df) << 14) | (u16::from(mf) << 13) | fo, "flags / fragment offset");
    assert!(b[8] == ttl && b[9] == last, "ttl, protocol == supplied last next header");
    assert!(eq4(b, 12, src) && eq4(b, 16, dst) && eq4(b, 20, od), "addresses, options");
    ref_ipv4_checksum(b, 0, 24);
    assert!(payload_at(b, 24, &pd, pn), "payload");
    // strict decoders
    let h = match Ipv4HeaderSlice::from_slice(&e.b[..e.n]) { Ok(v) => v, Err(_) => panic!("strict: ipv4 header") };
    assert!(eq4(&h.source(), 0, src) && eq4(&h.destination(), 0, dst) && h.ttl() == ttl && h.identification() == ident);
    assert!(h.dont_fragment() == df && h.more_fragments() == mf && h.fragments_offset().value() == fo);
    assert!(h.protocol() == IpNumber(last) && usize::from(h.total_len()) == e.n);
    let o = h.options();
    assert!(o.len() == 4 && o[0] == od[0] && o[1] == od[1] && o[2] == od[2] && o[3] == od[3]);
    // 51 (AH) announces an IPv4 extension header inside the caller's payload: not the builder's business
    if last != 51 {
        let ip = match Ipv4Slice::from_slice(&e.b[..e.n]) { Ok(v) => v, Err(_) => panic!("strict: ipv4") };
        assert!(ip.payload().ip_number == IpNumber(last));
        assert!(ip.payload().fragmented == (mf || fo != 0));
        assert!(is_payload(ip.payload().payload, &pd, pn));
    }
}

/// (start at) ip(IpHeaders::Ipv6(every field symbolic, no extension header)) -> write(last next header)
pub fn ip_v6_raw<const P: u8>() {
    const N: usize = 40 + PAY + 2;
    let (tc, flow): (u8, u32) = (any(), any());
    assume(flow < 0x10_0000);
    let (src, dst, hop): ([u8; 16], [u8; 16], u8) = (any(), any(), any());
    let (junk_len, junk_next): (u16, u8) = (any(), any());
    let last: u8 = any();
    let (pd, pn) = payload();
    let mk = || {
        let h = Ipv6Header {
            traffic_class: tc,
            flow_label: match Ipv6FlowLabel::try_new(flow) { Ok(v) => v, Err(_) => panic!("flow") },
            payload_length: junk_len,
            next_header: IpNumber(junk_next),
            hop_limit: hop,
            source: src,
            destination: dst,
        };
        PacketBuilder::ip(IpHeaders::Ipv6(h, Default::default()))
    };
    // last == 0 without a hop-by-hop header used to panic in Ipv6Extensions::write_internal (unwrap on None);
    // fixed in /repo ("fix: Ipv6Extensions::write no longer panics ..."): 0 is a placeholder and is written as is
    witness!(last == 0, "next_header_0_placeholder");
    let e = emit_ok!(P, N, mk(), [IpNumber(last)], &pd[..pn]);
    assert!(e.size == 40 + pn);
    let b = &e.b[..];
    assert!(be32(b, 0) == 0x6000_0000 | (u32::from(tc) << 20) | flow, "version, traffic class, flow label");
    assert!(usize::from(be16(b, 4)) == e.n - 40, "IPv6 payload length == real size");
    assert!(b[6] == last, "IPv6 next header == supplied last next header");
    assert!(b[7] == hop && eq16(b, 8, src) && eq16(b, 24, dst));
    assert!(payload_at(b, 40, &pd, pn), "payload");
    let h = match Ipv6HeaderSlice::from_slice(&e.b[..e.n]) { Ok(v) => v, Err(_) => panic!("strict: ipv6 header") };
    assert!(eq16(&h.source(), 0, src) && eq16(&h.destination(), 0, dst) && h.hop_limit() == hop && h.next_header() == IpNumber(last));
    assert!(h.traffic_class() == tc && h.flow_label().value() == flow);
}

/// (start at) ip(IpHeaders::Ipv6(every field symbolic, fragment extension header)) -> udp
pub fn ip_v6_frag_udp<const P: u8>() {
    const N: usize = 40 + 8 + 8 + PAY + 2;
    let (tc, flow): (u8, u32) = (any(), any());
    assume(flow < 0x10_0000);
    let (src, dst, hop): ([u8; 16], [u8; 16], u8) = (any(), any(), any());
    let (junk_len, junk_next, junk_next2): (u16, u8, u8) = (any(), any(), any());
    let (fo, mf, fid): (u16, bool, u32) = (any(), any(), any());
    assume(fo < 0x2000);
    let (sp, dp): (u16, u16) = (any(), any());
    let (pd, pn) = payload();
    let mk = || {
        let h = Ipv6Header {
            traffic_class: tc,
            flow_label: match Ipv6FlowLabel::try_new(flow) { Ok(v) => v, Err(_) => panic!("flow") },
            payload_length: junk_len,
            next_header: IpNumber(junk_next),
            hop_limit: hop,
            source: src,
            destination: dst,
        };
        let x = Ipv6Extensions {
            hop_by_hop_options: None,
            destination_options: None,
            routing: None,
            fragment: Some(Ipv6FragmentHeader::new(
                IpNumber(junk_next2),
                match IpFragOffset::try_new(fo) { Ok(v) => v, Err(_) => panic!("fo") },
                mf,
                fid,
            )),
            auth: None,
        };
        PacketBuilder::ip(IpHeaders::Ipv6(h, x)).udp(sp, dp)
    };
    let e = emit_ok!(P, N, mk(), [], &pd[..pn]);
    assert!(e.size == 56 + pn);
    let b = &e.b[..];
    assert!(be32(b, 0) == 0x6000_0000 | (u32::from(tc) << 20) | flow, "version, traffic class, flow label");
    assert!(usize::from(be16(b, 4)) == e.n - 40, "IPv6 payload length == real size (extension header included)");
    assert!(b[6] == 44, "IPv6 next header names the fragment header");
    assert!(b[7] == hop && eq16(b, 8, src) && eq16(b, 24, dst));
    // RFC 8200 4.5: next header, reserved, offset(13) res(2) M(1), identification
    assert!(b[40] == 17, "fragment header's next header names UDP");
    assert!(b[41] == 0 && be16(b, 42) == (fo << 3) | u16::from(mf) && be32(b, 44) == fid);
    ref_udp(b, pseudo6(b, 0, 17, e.n - 48), 48, e.n, sp, dp);
    assert!(payload_at(b, 56, &pd, pn), "payload");
}

// ================================================================= ARP

/// ethernet2 [-> single_vlan] / linux_sll -> arp (Ethernet/IPv4 sized addresses, all content symbolic)
pub fn arp<const P: u8, const LINK: u8>() {
    const N: usize = 18 + 28 + 2;
    let (es, ed): ([u8; 6], [u8; 6]) = (any(), any());
    let v = vid();
    let (alen, addr): (u16, [u8; 8]) = (any(), any());
    let (hw, pr, op): (u16, u16, u16) = (any(), any(), any());
    let (sha, spa, tha, tpa): ([u8; 6], [u8; 4], [u8; 6], [u8; 4]) = (any(), any(), any(), any());
    let pk = || match ArpPacket::new(ArpHardwareId(hw), EtherType(pr), ArpOperation(op), &sha, &spa, &tha, &tpa) {
        Ok(p) => p,
        Err(_) => panic!("equal address sizes are accepted"),
    };
    // the ARP step has no payload: `size()` / `write(sink)` take none
    macro_rules! arp_emit {
        ($mk:expr) => {{
            let size = ($mk).size();
            let mut out = [0u8; N];
            let n;
            if P == IO {
                let mut w = Cap::<N>::new();
                assert!(($mk).write(&mut w).is_ok(), "write must succeed");
                n = w.n;
                out = w.b;
            } else if P == SLICE {
                match ($mk).write_to_slice(&mut out[..size]) {
                    Ok(l) => n = l,
                    Err(_) => panic!("write_to_slice must succeed"),
                }
            } else {
                let mut v: Vec<u8> = Vec::with_capacity(N);
                assert!(($mk).write_to_vec(&mut v).is_ok(), "write_to_vec must succeed");
                n = v.len();
                assert!(n <= N);
                out[..n].copy_from_slice(&v);
            }
            assert!(n == size, "bytes written == size()");
            (out, n)
        }};
    }
    let (out, n, o) = if LINK == 0 {
        let (out, n) = arp_emit!(PacketBuilder::ethernet2(es, ed).arp(pk()));
        ref_eth2(&out, es, ed, 0x0806);
        (out, n, 14)
    } else if LINK == 1 {
        let (out, n) = arp_emit!(PacketBuilder::ethernet2(es, ed).single_vlan(v).arp(pk()));
        ref_eth2(&out, es, ed, 0x8100);
        ref_vlan(&out, 14, 0, false, v.value(), 0x0806);
        (out, n, 18)
    } else {
        let (out, n) = arp_emit!(PacketBuilder::linux_sll(LinuxSllPacketType::HOST, alen, addr).arp(pk()));
        ref_sll(&out, 0, alen, addr, 0x0806);
        (out, n, 16)
    };
    assert!(n == o + 28);
    let b = &out[..];
    // RFC 826: hardware type, protocol type, hlen, plen, operation, sha, spa, tha, tpa
    assert!(be16(b, o) == hw && be16(b, o + 2) == pr && b[o + 4] == 6 && b[o + 5] == 4 && be16(b, o + 6) == op);
    assert!(eq6(b, o + 8, sha) && eq4(b, o + 14, spa) && eq6(b, o + 18, tha) && eq4(b, o + 24, tpa));
    let a = match ArpPacketSlice::from_slice(&out[o..n]) { Ok(v) => v, Err(_) => panic!("strict: arp") };
    assert!(a.hw_addr_type() == ArpHardwareId(hw) && a.proto_addr_type() == EtherType(pr) && a.operation() == ArpOperation(op));
    assert!(a.hw_addr_size() == 6 && a.proto_addr_size() == 4);
    assert!(eq6(a.sender_hw_addr(), 0, sha) && eq4(a.sender_protocol_addr(), 0, spa));
    assert!(eq6(a.target_hw_addr(), 0, tha) && eq4(a.target_protocol_addr(), 0, tpa));
}

// ================================================================= error paths

/// ICMPv6 behind IPv4 cannot be encoded (no pseudo header defined): every path reports
/// `Icmpv6InIpv4`, no panic; `size` still answers
pub fn err_icmpv6_in_ipv4<const P: u8>() {
    const N: usize = 14 + 20 + 8 + PAY;
    let (es, ed): ([u8; 6], [u8; 6]) = (any(), any());
    let (src, dst, ttl): ([u8; 4], [u8; 4], u8) = (any(), any(), any());
    let (ty, code, rest): (u8, u8, [u8; 4]) = (any(), any(), any());
    let (pd, pn) = payload();
    let p = &pd[..pn];
    let mk = || PacketBuilder::ethernet2(es, ed).ipv4(src, dst, ttl).icmpv6_raw(ty, code, rest);
    assert!(mk().size(pn) == 42 + pn);
    if P == IO {
        let mut w = Cap::<N>::new();
        match mk().write(&mut w, p) {
            Err(BuildWriteError::Icmpv6InIpv4) => {}
            _ => panic!("write: Icmpv6InIpv4 expected"),
        }
    } else if P == SLICE {
        let mut out = [0u8; N];
        assert!(mk().write_to_slice(&mut out, p) == Err(BuildSliceWriteError::Icmpv6InIpv4));
    } else {
        let mut v: Vec<u8> = Vec::with_capacity(N);
        assert!(mk().write_to_vec(&mut v, p) == Err(BuildVecWriteError::Icmpv6InIpv4));
    }
}

/// a slice shorter than `size(payload_len)` is rejected with `Space(size)` (no partial panic),
/// for every shorter length
pub fn err_slice_space() {
    const N: usize = 20 + 8 + PAY;
    let (src, dst, ttl): ([u8; 4], [u8; 4], u8) = (any(), any(), any());
    let (sp, dp): (u16, u16) = (any(), any());
    let (pd, pn) = payload();
    let size = PacketBuilder::ipv4(src, dst, ttl).udp(sp, dp).size(pn);
    assert!(size == 28 + pn);
    let have = any_le(N);
    assume(have < size);
    witness!(have + 1 == size, "one_byte_short");
    witness!(have == 0, "empty_buffer");
    let mut out = [0u8; N];
    let r = PacketBuilder::ipv4(src, dst, ttl).udp(sp, dp).write_to_slice(&mut out[..have], &pd[..pn]);
    assert!(r == Err(BuildSliceWriteError::Space(size)));
}

// ================================================================= payload length limits
//
// The payload is a slice of symbolic length 0..=LIM_OBJ into a static zero object and is never
// read: `add_slice` is a havoc stub (checksums are not the subject here) and the sink only
// counts what does not fit into its first bytes. Decided: the verdict flips exactly at the true
// maximum of the limiting length field, the error names value / maximum / field, `size` keeps
// answering, and at the maximum the emitted length fields are exact (not truncated).

const LIM_OBJ: usize = 65_600;
static ZEROS: [u8; LIM_OBJ] = [0u8; LIM_OBJ];

fn big_payload() -> &'static [u8] {
    let n = any_le(LIM_OBJ);
    &ZEROS[..n]
}

fn too_big(e: &BuildWriteError, actual: usize, max: usize, vt: ValueType) -> bool {
    match e {
        BuildWriteError::PayloadLen(v) => v.actual == actual && v.max_allowed == max && v.value_type == vt,
        _ => false,
    }
}

/// (start at) ipv4 -> udp: limit 65535 - 20 - 8 (IPv4 total length is the limiting field)
pub fn limit_ipv4_udp() {
    const MAX: usize = 65_535 - 20 - 8;
    let (src, dst, ttl): ([u8; 4], [u8; 4], u8) = (any(), any(), any());
    let (sp, dp): (u16, u16) = (any(), any());
    let p = big_payload();
    let n = p.len();
    let mk = || PacketBuilder::ipv4(src, dst, ttl).udp(sp, dp);
    assert!(mk().size(n) == 28 + n);
    let mut w = Cap::<32>::new();
    let r = mk().write(&mut w, p);
    witness!(n == MAX && r.is_ok(), "ok_at_the_maximum");
    witness!(n == MAX + 1 && r.is_err(), "err_one_above");
    witness!(n == LIM_OBJ, "far_above");
    match r {
        Ok(()) => {
            assert!(n <= MAX, "accepted although the IPv4 total length cannot hold it");
            assert!(w.n == 28 + n);
            assert!(usize::from(be16(&w.b, 2)) == 28 + n, "IPv4 total length exact");
            assert!(usize::from(be16(&w.b, 24)) == 8 + n, "UDP length exact");
        }
        Err(e) => {
            assert!(n > MAX, "rejected although it fits");
            // the IPv4 payload (UDP header + data) is what does not fit
            assert!(too_big(&e, 8 + n, 65_535 - 20, ValueType::Ipv4PayloadLength));
        }
    }
}

/// (start at) ipv6 -> udp: limit 65535 - 8 (IPv6 payload length / UDP length)
pub fn limit_ipv6_udp() {
    const MAX: usize = 65_535 - 8;
    let (src, dst, hop): ([u8; 16], [u8; 16], u8) = (any(), any(), any());
    let (sp, dp): (u16, u16) = (any(), any());
    let p = big_payload();
    let n = p.len();
    let mk = || PacketBuilder::ipv6(src, dst, hop).udp(sp, dp);
    assert!(mk().size(n) == 48 + n);
    let mut w = Cap::<48>::new();
    let r = mk().write(&mut w, p);
    witness!(n == MAX && r.is_ok(), "ok_at_the_maximum");
    witness!(n == MAX + 1 && r.is_err(), "err_one_above");
    match r {
        Ok(()) => {
            assert!(n <= MAX, "accepted although the IPv6 payload length cannot hold it");
            assert!(w.n == 48 + n);
            assert!(usize::from(be16(&w.b, 4)) == 8 + n, "IPv6 payload length exact");
            assert!(usize::from(be16(&w.b, 44)) == 8 + n, "UDP length exact");
        }
        Err(e) => {
            assert!(n > MAX, "rejected although it fits");
            assert!(too_big(&e, 8 + n, 65_535, ValueType::Ipv6PayloadLength));
        }
    }
}

/// (start at) ipv6 -> tcp: limit 65535 - 20
pub fn limit_ipv6_tcp() {
    const MAX: usize = 65_535 - 20;
    let (src, dst, hop): ([u8; 16], [u8; 16], u8) = (any(), any(), any());
    let (sp, dp, seq, win): (u16, u16, u32, u16) = (any(), any(), any(), any());
    let p = big_payload();
    let n = p.len();
    let mk = || PacketBuilder::ipv6(src, dst, hop).tcp(sp, dp, seq, win);
    assert!(mk().size(n) == 60 + n);
    let mut w = Cap::<64>::new();
    let r = mk().write(&mut w, p);
    witness!(n == MAX && r.is_ok(), "ok_at_the_maximum");
    witness!(n == MAX + 1 && r.is_err(), "err_one_above");
    match r {
        Ok(()) => {
            assert!(n <= MAX, "accepted although the IPv6 payload length cannot hold it");
            assert!(w.n == 60 + n);
            assert!(usize::from(be16(&w.b, 4)) == 20 + n, "IPv6 payload length exact");
        }
        Err(e) => {
            assert!(n > MAX, "rejected although it fits");
            assert!(too_big(&e, 20 + n, 65_535, ValueType::Ipv6PayloadLength));
        }
    }
}

/// (start at) ipv4 -> icmpv4_echo_request: limit 65535 - 20 - 8
pub fn limit_ipv4_icmpv4() {
    const MAX: usize = 65_535 - 20 - 8;
    let (src, dst, ttl): ([u8; 4], [u8; 4], u8) = (any(), any(), any());
    let (id, seq): (u16, u16) = (any(), any());
    let p = big_payload();
    let n = p.len();
    let mk = || PacketBuilder::ipv4(src, dst, ttl).icmpv4_echo_request(id, seq);
    assert!(mk().size(n) == 28 + n);
    let mut w = Cap::<32>::new();
    let r = mk().write(&mut w, p);
    witness!(n == MAX && r.is_ok(), "ok_at_the_maximum");
    witness!(n == MAX + 1 && r.is_err(), "err_one_above");
    match r {
        Ok(()) => {
            assert!(n <= MAX, "accepted although the IPv4 total length cannot hold it");
            assert!(w.n == 28 + n);
            assert!(usize::from(be16(&w.b, 2)) == 28 + n, "IPv4 total length exact");
        }
        Err(e) => {
            assert!(n > MAX, "rejected although it fits");
            assert!(too_big(&e, 8 + n, 65_535 - 20, ValueType::Ipv4PayloadLength));
        }
    }
}

crate::harnesses! {
    #[kani::stub(etherparse::Ipv6RawExtHeader::to_bytes, crate::c10::m_raw_ext_to_bytes)]
    #[kani::stub(etherparse::IpAuthHeader::to_bytes, crate::c10::m_auth_to_bytes)]
    #[kani::stub(etherparse::checksum::u64_16bit_word::add_8bytes, crate::c10::m_add8)]
    #[kani::stub(etherparse::checksum::u64_16bit_word::add_4bytes, crate::c10::m_add4)]
    #[kani::stub(etherparse::checksum::u64_16bit_word::add_2bytes, crate::c10::m_add2)]
    #[kani::stub(etherparse::checksum::u64_16bit_word::add_slice, crate::c10::m_add_slice)]
    c10_eth_ipv6_udp_io = eth_ipv6_udp::<{ IO }>; unwind 4,
    #[kani::stub(etherparse::Ipv6RawExtHeader::to_bytes, crate::c10::m_raw_ext_to_bytes)]
    #[kani::stub(etherparse::IpAuthHeader::to_bytes, crate::c10::m_auth_to_bytes)]
    #[kani::stub(etherparse::checksum::u64_16bit_word::add_8bytes, crate::c10::m_add8)]
    #[kani::stub(etherparse::checksum::u64_16bit_word::add_4bytes, crate::c10::m_add4)]
    #[kani::stub(etherparse::checksum::u64_16bit_word::add_2bytes, crate::c10::m_add2)]
    #[kani::stub(etherparse::checksum::u64_16bit_word::add_slice, crate::c10::m_add_slice)]
    c10_eth_ipv6_udp_slice = eth_ipv6_udp::<{ SLICE }>; unwind 4,
    #[kani::stub(etherparse::Ipv6RawExtHeader::to_bytes, crate::c10::m_raw_ext_to_bytes)]
    #[kani::stub(etherparse::IpAuthHeader::to_bytes, crate::c10::m_auth_to_bytes)]
    #[kani::stub(etherparse::checksum::u64_16bit_word::add_8bytes, crate::c10::m_add8)]
    #[kani::stub(etherparse::checksum::u64_16bit_word::add_4bytes, crate::c10::m_add4)]
    #[kani::stub(etherparse::checksum::u64_16bit_word::add_2bytes, crate::c10::m_add2)]
    #[kani::stub(etherparse::checksum::u64_16bit_word::add_slice, crate::c10::m_add_slice)]
    c10_eth_ipv6_udp_vec = eth_ipv6_udp::<{ VEC }>; unwind 4,
    #[kani::stub(etherparse::Ipv6RawExtHeader::to_bytes, crate::c10::m_raw_ext_to_bytes)]
    #[kani::stub(etherparse::IpAuthHeader::to_bytes, crate::c10::m_auth_to_bytes)]
    #[kani::stub(etherparse::checksum::u64_16bit_word::add_8bytes, crate::c10::m_add8)]
    #[kani::stub(etherparse::checksum::u64_16bit_word::add_4bytes, crate::c10::m_add4)]
    #[kani::stub(etherparse::checksum::u64_16bit_word::add_2bytes, crate::c10::m_add2)]
    #[kani::stub(etherparse::checksum::u64_16bit_word::add_slice, crate::c10::m_add_slice)]
    c10_ipv4_udp_io = ipv4_udp::<{ IO }>; unwind 6,
    #[kani::stub(etherparse::Ipv6RawExtHeader::to_bytes, crate::c10::m_raw_ext_to_bytes)]
    #[kani::stub(etherparse::IpAuthHeader::to_bytes, crate::c10::m_auth_to_bytes)]
    #[kani::stub(etherparse::checksum::u64_16bit_word::add_8bytes, crate::c10::m_add8)]
    #[kani::stub(etherparse::checksum::u64_16bit_word::add_4bytes, crate::c10::m_add4)]
    #[kani::stub(etherparse::checksum::u64_16bit_word::add_2bytes, crate::c10::m_add2)]
    #[kani::stub(etherparse::checksum::u64_16bit_word::add_slice, crate::c10::m_add_slice)]
    c10_ipv4_udp_slice = ipv4_udp::<{ SLICE }>; unwind 6,
    #[kani::stub(etherparse::Ipv6RawExtHeader::to_bytes, crate::c10::m_raw_ext_to_bytes)]
    #[kani::stub(etherparse::IpAuthHeader::to_bytes, crate::c10::m_auth_to_bytes)]
    #[kani::stub(etherparse::checksum::u64_16bit_word::add_8bytes, crate::c10::m_add8)]
    #[kani::stub(etherparse::checksum::u64_16bit_word::add_4bytes, crate::c10::m_add4)]
    #[kani::stub(etherparse::checksum::u64_16bit_word::add_2bytes, crate::c10::m_add2)]
    #[kani::stub(etherparse::checksum::u64_16bit_word::add_slice, crate::c10::m_add_slice)]
    c10_ipv4_udp_vec = ipv4_udp::<{ VEC }>; unwind 6,
    #[kani::stub(etherparse::Ipv6RawExtHeader::to_bytes, crate::c10::m_raw_ext_to_bytes)]
    #[kani::stub(etherparse::IpAuthHeader::to_bytes, crate::c10::m_auth_to_bytes)]
    #[kani::stub(etherparse::checksum::u64_16bit_word::add_8bytes, crate::c10::m_add8)]
    #[kani::stub(etherparse::checksum::u64_16bit_word::add_4bytes, crate::c10::m_add4)]
    #[kani::stub(etherparse::checksum::u64_16bit_word::add_2bytes, crate::c10::m_add2)]
    #[kani::stub(etherparse::checksum::u64_16bit_word::add_slice, crate::c10::m_add_slice)]
    c10_vlan_ipv4_tcp_io = vlan_ipv4_tcp::<{ IO }>; unwind 42,
    #[kani::stub(etherparse::Ipv6RawExtHeader::to_bytes, crate::c10::m_raw_ext_to_bytes)]
    #[kani::stub(etherparse::IpAuthHeader::to_bytes, crate::c10::m_auth_to_bytes)]
    #[kani::stub(etherparse::checksum::u64_16bit_word::add_8bytes, crate::c10::m_add8)]
    #[kani::stub(etherparse::checksum::u64_16bit_word::add_4bytes, crate::c10::m_add4)]
    #[kani::stub(etherparse::checksum::u64_16bit_word::add_2bytes, crate::c10::m_add2)]
    #[kani::stub(etherparse::checksum::u64_16bit_word::add_slice, crate::c10::m_add_slice)]
    c10_vlan_ipv4_tcp_slice = vlan_ipv4_tcp::<{ SLICE }>; unwind 42,
    #[kani::stub(etherparse::Ipv6RawExtHeader::to_bytes, crate::c10::m_raw_ext_to_bytes)]
    #[kani::stub(etherparse::IpAuthHeader::to_bytes, crate::c10::m_auth_to_bytes)]
    #[kani::stub(etherparse::checksum::u64_16bit_word::add_8bytes, crate::c10::m_add8)]
    #[kani::stub(etherparse::checksum::u64_16bit_word::add_4bytes, crate::c10::m_add4)]
    #[kani::stub(etherparse::checksum::u64_16bit_word::add_2bytes, crate::c10::m_add2)]
    #[kani::stub(etherparse::checksum::u64_16bit_word::add_slice, crate::c10::m_add_slice)]
    c10_vlan_ipv4_tcp_vec = vlan_ipv4_tcp::<{ VEC }>; unwind 42,
    #[kani::stub(etherparse::Ipv6RawExtHeader::to_bytes, crate::c10::m_raw_ext_to_bytes)]
    #[kani::stub(etherparse::IpAuthHeader::to_bytes, crate::c10::m_auth_to_bytes)]
    #[kani::stub(etherparse::checksum::u64_16bit_word::add_8bytes, crate::c10::m_add8)]
    #[kani::stub(etherparse::checksum::u64_16bit_word::add_4bytes, crate::c10::m_add4)]
    #[kani::stub(etherparse::checksum::u64_16bit_word::add_2bytes, crate::c10::m_add2)]
    #[kani::stub(etherparse::checksum::u64_16bit_word::add_slice, crate::c10::m_add_slice)]
    c10_ipv4_tcp_b_io = ipv4_tcp_b::<{ IO }>; unwind 42,
    #[kani::stub(etherparse::Ipv6RawExtHeader::to_bytes, crate::c10::m_raw_ext_to_bytes)]
    #[kani::stub(etherparse::IpAuthHeader::to_bytes, crate::c10::m_auth_to_bytes)]
    #[kani::stub(etherparse::checksum::u64_16bit_word::add_8bytes, crate::c10::m_add8)]
    #[kani::stub(etherparse::checksum::u64_16bit_word::add_4bytes, crate::c10::m_add4)]
    #[kani::stub(etherparse::checksum::u64_16bit_word::add_2bytes, crate::c10::m_add2)]
    #[kani::stub(etherparse::checksum::u64_16bit_word::add_slice, crate::c10::m_add_slice)]
    c10_ipv4_tcp_b_slice = ipv4_tcp_b::<{ SLICE }>; unwind 42,
    #[kani::stub(etherparse::Ipv6RawExtHeader::to_bytes, crate::c10::m_raw_ext_to_bytes)]
    #[kani::stub(etherparse::IpAuthHeader::to_bytes, crate::c10::m_auth_to_bytes)]
    #[kani::stub(etherparse::checksum::u64_16bit_word::add_8bytes, crate::c10::m_add8)]
    #[kani::stub(etherparse::checksum::u64_16bit_word::add_4bytes, crate::c10::m_add4)]
    #[kani::stub(etherparse::checksum::u64_16bit_word::add_2bytes, crate::c10::m_add2)]
    #[kani::stub(etherparse::checksum::u64_16bit_word::add_slice, crate::c10::m_add_slice)]
    c10_ipv4_tcp_b_vec = ipv4_tcp_b::<{ VEC }>; unwind 42,
    #[kani::stub(etherparse::Ipv6RawExtHeader::to_bytes, crate::c10::m_raw_ext_to_bytes)]
    #[kani::stub(etherparse::IpAuthHeader::to_bytes, crate::c10::m_auth_to_bytes)]
    #[kani::stub(etherparse::checksum::u64_16bit_word::add_8bytes, crate::c10::m_add8)]
    #[kani::stub(etherparse::checksum::u64_16bit_word::add_4bytes, crate::c10::m_add4)]
    #[kani::stub(etherparse::checksum::u64_16bit_word::add_2bytes, crate::c10::m_add2)]
    #[kani::stub(etherparse::checksum::u64_16bit_word::add_slice, crate::c10::m_add_slice)]
    c10_ipv6_tcp_header_io = ipv6_tcp_header::<{ IO }>; unwind 42,
    #[kani::stub(etherparse::Ipv6RawExtHeader::to_bytes, crate::c10::m_raw_ext_to_bytes)]
    #[kani::stub(etherparse::IpAuthHeader::to_bytes, crate::c10::m_auth_to_bytes)]
    #[kani::stub(etherparse::checksum::u64_16bit_word::add_8bytes, crate::c10::m_add8)]
    #[kani::stub(etherparse::checksum::u64_16bit_word::add_4bytes, crate::c10::m_add4)]
    #[kani::stub(etherparse::checksum::u64_16bit_word::add_2bytes, crate::c10::m_add2)]
    #[kani::stub(etherparse::checksum::u64_16bit_word::add_slice, crate::c10::m_add_slice)]
    c10_ipv6_tcp_header_slice = ipv6_tcp_header::<{ SLICE }>; unwind 42,
    #[kani::stub(etherparse::Ipv6RawExtHeader::to_bytes, crate::c10::m_raw_ext_to_bytes)]
    #[kani::stub(etherparse::IpAuthHeader::to_bytes, crate::c10::m_auth_to_bytes)]
    #[kani::stub(etherparse::checksum::u64_16bit_word::add_8bytes, crate::c10::m_add8)]
    #[kani::stub(etherparse::checksum::u64_16bit_word::add_4bytes, crate::c10::m_add4)]
    #[kani::stub(etherparse::checksum::u64_16bit_word::add_2bytes, crate::c10::m_add2)]
    #[kani::stub(etherparse::checksum::u64_16bit_word::add_slice, crate::c10::m_add_slice)]
    c10_ipv6_tcp_header_vec = ipv6_tcp_header::<{ VEC }>; unwind 42,
    #[kani::stub(etherparse::Ipv6RawExtHeader::to_bytes, crate::c10::m_raw_ext_to_bytes)]
    #[kani::stub(etherparse::IpAuthHeader::to_bytes, crate::c10::m_auth_to_bytes)]
    #[kani::stub(etherparse::checksum::u64_16bit_word::add_8bytes, crate::c10::m_add8)]
    #[kani::stub(etherparse::checksum::u64_16bit_word::add_4bytes, crate::c10::m_add4)]
    #[kani::stub(etherparse::checksum::u64_16bit_word::add_2bytes, crate::c10::m_add2)]
    #[kani::stub(etherparse::checksum::u64_16bit_word::add_slice, crate::c10::m_add_slice)]
    c10_qinq_ipv4_icmpv4_io = qinq_ipv4_icmpv4::<{ IO }>; unwind 6,
    #[kani::stub(etherparse::Ipv6RawExtHeader::to_bytes, crate::c10::m_raw_ext_to_bytes)]
    #[kani::stub(etherparse::IpAuthHeader::to_bytes, crate::c10::m_auth_to_bytes)]
    #[kani::stub(etherparse::checksum::u64_16bit_word::add_8bytes, crate::c10::m_add8)]
    #[kani::stub(etherparse::checksum::u64_16bit_word::add_4bytes, crate::c10::m_add4)]
    #[kani::stub(etherparse::checksum::u64_16bit_word::add_2bytes, crate::c10::m_add2)]
    #[kani::stub(etherparse::checksum::u64_16bit_word::add_slice, crate::c10::m_add_slice)]
    c10_qinq_ipv4_icmpv4_slice = qinq_ipv4_icmpv4::<{ SLICE }>; unwind 6,
    #[kani::stub(etherparse::Ipv6RawExtHeader::to_bytes, crate::c10::m_raw_ext_to_bytes)]
    #[kani::stub(etherparse::IpAuthHeader::to_bytes, crate::c10::m_auth_to_bytes)]
    #[kani::stub(etherparse::checksum::u64_16bit_word::add_8bytes, crate::c10::m_add8)]
    #[kani::stub(etherparse::checksum::u64_16bit_word::add_4bytes, crate::c10::m_add4)]
    #[kani::stub(etherparse::checksum::u64_16bit_word::add_2bytes, crate::c10::m_add2)]
    #[kani::stub(etherparse::checksum::u64_16bit_word::add_slice, crate::c10::m_add_slice)]
    c10_qinq_ipv4_icmpv4_vec = qinq_ipv4_icmpv4::<{ VEC }>; unwind 6,
    #[kani::stub(etherparse::Ipv6RawExtHeader::to_bytes, crate::c10::m_raw_ext_to_bytes)]
    #[kani::stub(etherparse::IpAuthHeader::to_bytes, crate::c10::m_auth_to_bytes)]
    #[kani::stub(etherparse::checksum::u64_16bit_word::add_8bytes, crate::c10::m_add8)]
    #[kani::stub(etherparse::checksum::u64_16bit_word::add_4bytes, crate::c10::m_add4)]
    #[kani::stub(etherparse::checksum::u64_16bit_word::add_2bytes, crate::c10::m_add2)]
    #[kani::stub(etherparse::checksum::u64_16bit_word::add_slice, crate::c10::m_add_slice)]
    c10_sll_ipv6_icmpv6_io = sll_ipv6_icmpv6::<{ IO }>; unwind 4,
    #[kani::stub(etherparse::Ipv6RawExtHeader::to_bytes, crate::c10::m_raw_ext_to_bytes)]
    #[kani::stub(etherparse::IpAuthHeader::to_bytes, crate::c10::m_auth_to_bytes)]
    #[kani::stub(etherparse::checksum::u64_16bit_word::add_8bytes, crate::c10::m_add8)]
    #[kani::stub(etherparse::checksum::u64_16bit_word::add_4bytes, crate::c10::m_add4)]
    #[kani::stub(etherparse::checksum::u64_16bit_word::add_2bytes, crate::c10::m_add2)]
    #[kani::stub(etherparse::checksum::u64_16bit_word::add_slice, crate::c10::m_add_slice)]
    c10_sll_ipv6_icmpv6_slice = sll_ipv6_icmpv6::<{ SLICE }>; unwind 4,
    #[kani::stub(etherparse::Ipv6RawExtHeader::to_bytes, crate::c10::m_raw_ext_to_bytes)]
    #[kani::stub(etherparse::IpAuthHeader::to_bytes, crate::c10::m_auth_to_bytes)]
    #[kani::stub(etherparse::checksum::u64_16bit_word::add_8bytes, crate::c10::m_add8)]
    #[kani::stub(etherparse::checksum::u64_16bit_word::add_4bytes, crate::c10::m_add4)]
    #[kani::stub(etherparse::checksum::u64_16bit_word::add_2bytes, crate::c10::m_add2)]
    #[kani::stub(etherparse::checksum::u64_16bit_word::add_slice, crate::c10::m_add_slice)]
    c10_sll_ipv6_icmpv6_vec = sll_ipv6_icmpv6::<{ VEC }>; unwind 4,
    #[kani::stub(etherparse::Ipv6RawExtHeader::to_bytes, crate::c10::m_raw_ext_to_bytes)]
    #[kani::stub(etherparse::IpAuthHeader::to_bytes, crate::c10::m_auth_to_bytes)]
    #[kani::stub(etherparse::checksum::u64_16bit_word::add_8bytes, crate::c10::m_add8)]
    #[kani::stub(etherparse::checksum::u64_16bit_word::add_4bytes, crate::c10::m_add4)]
    #[kani::stub(etherparse::checksum::u64_16bit_word::add_2bytes, crate::c10::m_add2)]
    #[kani::stub(etherparse::checksum::u64_16bit_word::add_slice, crate::c10::m_add_slice)]
    c10_ipv6_icmpv4_raw_io = ipv6_icmpv4_raw::<{ IO }>; unwind 4,
    #[kani::stub(etherparse::Ipv6RawExtHeader::to_bytes, crate::c10::m_raw_ext_to_bytes)]
    #[kani::stub(etherparse::IpAuthHeader::to_bytes, crate::c10::m_auth_to_bytes)]
    #[kani::stub(etherparse::checksum::u64_16bit_word::add_8bytes, crate::c10::m_add8)]
    #[kani::stub(etherparse::checksum::u64_16bit_word::add_4bytes, crate::c10::m_add4)]
    #[kani::stub(etherparse::checksum::u64_16bit_word::add_2bytes, crate::c10::m_add2)]
    #[kani::stub(etherparse::checksum::u64_16bit_word::add_slice, crate::c10::m_add_slice)]
    c10_ipv6_icmpv4_raw_slice = ipv6_icmpv4_raw::<{ SLICE }>; unwind 4,
    #[kani::stub(etherparse::Ipv6RawExtHeader::to_bytes, crate::c10::m_raw_ext_to_bytes)]
    #[kani::stub(etherparse::IpAuthHeader::to_bytes, crate::c10::m_auth_to_bytes)]
    #[kani::stub(etherparse::checksum::u64_16bit_word::add_8bytes, crate::c10::m_add8)]
    #[kani::stub(etherparse::checksum::u64_16bit_word::add_4bytes, crate::c10::m_add4)]
    #[kani::stub(etherparse::checksum::u64_16bit_word::add_2bytes, crate::c10::m_add2)]
    #[kani::stub(etherparse::checksum::u64_16bit_word::add_slice, crate::c10::m_add_slice)]
    c10_ipv6_icmpv4_raw_vec = ipv6_icmpv4_raw::<{ VEC }>; unwind 4,
    #[kani::stub(etherparse::Ipv6RawExtHeader::to_bytes, crate::c10::m_raw_ext_to_bytes)]
    #[kani::stub(etherparse::IpAuthHeader::to_bytes, crate::c10::m_auth_to_bytes)]
    #[kani::stub(etherparse::checksum::u64_16bit_word::add_8bytes, crate::c10::m_add8)]
    #[kani::stub(etherparse::checksum::u64_16bit_word::add_4bytes, crate::c10::m_add4)]
    #[kani::stub(etherparse::checksum::u64_16bit_word::add_2bytes, crate::c10::m_add2)]
    #[kani::stub(etherparse::checksum::u64_16bit_word::add_slice, crate::c10::m_add_slice)]
    c10_ipv6_icmpv6_raw_io = ipv6_icmpv6_raw::<{ IO }>; unwind 4,
    #[kani::stub(etherparse::Ipv6RawExtHeader::to_bytes, crate::c10::m_raw_ext_to_bytes)]
    #[kani::stub(etherparse::IpAuthHeader::to_bytes, crate::c10::m_auth_to_bytes)]
    #[kani::stub(etherparse::checksum::u64_16bit_word::add_8bytes, crate::c10::m_add8)]
    #[kani::stub(etherparse::checksum::u64_16bit_word::add_4bytes, crate::c10::m_add4)]
    #[kani::stub(etherparse::checksum::u64_16bit_word::add_2bytes, crate::c10::m_add2)]
    #[kani::stub(etherparse::checksum::u64_16bit_word::add_slice, crate::c10::m_add_slice)]
    c10_ipv6_icmpv6_raw_slice = ipv6_icmpv6_raw::<{ SLICE }>; unwind 4,
    #[kani::stub(etherparse::Ipv6RawExtHeader::to_bytes, crate::c10::m_raw_ext_to_bytes)]
    #[kani::stub(etherparse::IpAuthHeader::to_bytes, crate::c10::m_auth_to_bytes)]
    #[kani::stub(etherparse::checksum::u64_16bit_word::add_8bytes, crate::c10::m_add8)]
    #[kani::stub(etherparse::checksum::u64_16bit_word::add_4bytes, crate::c10::m_add4)]
    #[kani::stub(etherparse::checksum::u64_16bit_word::add_2bytes, crate::c10::m_add2)]
    #[kani::stub(etherparse::checksum::u64_16bit_word::add_slice, crate::c10::m_add_slice)]
    c10_ipv6_icmpv6_raw_vec = ipv6_icmpv6_raw::<{ VEC }>; unwind 4,
    #[kani::stub(etherparse::Ipv6RawExtHeader::to_bytes, crate::c10::m_raw_ext_to_bytes)]
    #[kani::stub(etherparse::IpAuthHeader::to_bytes, crate::c10::m_auth_to_bytes)]
    #[kani::stub(etherparse::checksum::u64_16bit_word::add_8bytes, crate::c10::m_add8)]
    #[kani::stub(etherparse::checksum::u64_16bit_word::add_4bytes, crate::c10::m_add4)]
    #[kani::stub(etherparse::checksum::u64_16bit_word::add_2bytes, crate::c10::m_add2)]
    #[kani::stub(etherparse::checksum::u64_16bit_word::add_slice, crate::c10::m_add_slice)]
    c10_ip_v4_raw_io = ip_v4_raw::<{ IO }>; unwind 6,
    #[kani::stub(etherparse::Ipv6RawExtHeader::to_bytes, crate::c10::m_raw_ext_to_bytes)]
    #[kani::stub(etherparse::IpAuthHeader::to_bytes, crate::c10::m_auth_to_bytes)]
    #[kani::stub(etherparse::checksum::u64_16bit_word::add_8bytes, crate::c10::m_add8)]
    #[kani::stub(etherparse::checksum::u64_16bit_word::add_4bytes, crate::c10::m_add4)]
    #[kani::stub(etherparse::checksum::u64_16bit_word::add_2bytes, crate::c10::m_add2)]
    #[kani::stub(etherparse::checksum::u64_16bit_word::add_slice, crate::c10::m_add_slice)]
    c10_ip_v4_raw_slice = ip_v4_raw::<{ SLICE }>; unwind 6,
    #[kani::stub(etherparse::Ipv6RawExtHeader::to_bytes, crate::c10::m_raw_ext_to_bytes)]
    #[kani::stub(etherparse::IpAuthHeader::to_bytes, crate::c10::m_auth_to_bytes)]
    #[kani::stub(etherparse::checksum::u64_16bit_word::add_8bytes, crate::c10::m_add8)]
    #[kani::stub(etherparse::checksum::u64_16bit_word::add_4bytes, crate::c10::m_add4)]
    #[kani::stub(etherparse::checksum::u64_16bit_word::add_2bytes, crate::c10::m_add2)]
    #[kani::stub(etherparse::checksum::u64_16bit_word::add_slice, crate::c10::m_add_slice)]
    c10_ip_v4_raw_vec = ip_v4_raw::<{ VEC }>; unwind 6,
    #[kani::stub(etherparse::Ipv6RawExtHeader::to_bytes, crate::c10::m_raw_ext_to_bytes)]
    #[kani::stub(etherparse::IpAuthHeader::to_bytes, crate::c10::m_auth_to_bytes)]
    #[kani::stub(etherparse::checksum::u64_16bit_word::add_8bytes, crate::c10::m_add8)]
    #[kani::stub(etherparse::checksum::u64_16bit_word::add_4bytes, crate::c10::m_add4)]
    #[kani::stub(etherparse::checksum::u64_16bit_word::add_2bytes, crate::c10::m_add2)]
    #[kani::stub(etherparse::checksum::u64_16bit_word::add_slice, crate::c10::m_add_slice)]
    c10_ip_v6_frag_udp_io = ip_v6_frag_udp::<{ IO }>; unwind 4,
    #[kani::stub(etherparse::Ipv6RawExtHeader::to_bytes, crate::c10::m_raw_ext_to_bytes)]
    #[kani::stub(etherparse::IpAuthHeader::to_bytes, crate::c10::m_auth_to_bytes)]
    #[kani::stub(etherparse::checksum::u64_16bit_word::add_8bytes, crate::c10::m_add8)]
    #[kani::stub(etherparse::checksum::u64_16bit_word::add_4bytes, crate::c10::m_add4)]
    #[kani::stub(etherparse::checksum::u64_16bit_word::add_2bytes, crate::c10::m_add2)]
    #[kani::stub(etherparse::checksum::u64_16bit_word::add_slice, crate::c10::m_add_slice)]
    c10_ip_v6_frag_udp_slice = ip_v6_frag_udp::<{ SLICE }>; unwind 4,
    #[kani::stub(etherparse::Ipv6RawExtHeader::to_bytes, crate::c10::m_raw_ext_to_bytes)]
    #[kani::stub(etherparse::IpAuthHeader::to_bytes, crate::c10::m_auth_to_bytes)]
    #[kani::stub(etherparse::checksum::u64_16bit_word::add_8bytes, crate::c10::m_add8)]
    #[kani::stub(etherparse::checksum::u64_16bit_word::add_4bytes, crate::c10::m_add4)]
    #[kani::stub(etherparse::checksum::u64_16bit_word::add_2bytes, crate::c10::m_add2)]
    #[kani::stub(etherparse::checksum::u64_16bit_word::add_slice, crate::c10::m_add_slice)]
    c10_ip_v6_frag_udp_vec = ip_v6_frag_udp::<{ VEC }>; unwind 4,
    #[kani::stub(etherparse::Ipv6RawExtHeader::to_bytes, crate::c10::m_raw_ext_to_bytes)]
    #[kani::stub(etherparse::IpAuthHeader::to_bytes, crate::c10::m_auth_to_bytes)]
    #[kani::stub(etherparse::checksum::u64_16bit_word::add_8bytes, crate::c10::m_add8)]
    #[kani::stub(etherparse::checksum::u64_16bit_word::add_4bytes, crate::c10::m_add4)]
    #[kani::stub(etherparse::checksum::u64_16bit_word::add_2bytes, crate::c10::m_add2)]
    #[kani::stub(etherparse::checksum::u64_16bit_word::add_slice, crate::c10::m_add_slice)]
    c10_err_icmpv6_in_ipv4_io = err_icmpv6_in_ipv4::<{ IO }>; unwind 6,
    #[kani::stub(etherparse::Ipv6RawExtHeader::to_bytes, crate::c10::m_raw_ext_to_bytes)]
    #[kani::stub(etherparse::IpAuthHeader::to_bytes, crate::c10::m_auth_to_bytes)]
    #[kani::stub(etherparse::checksum::u64_16bit_word::add_8bytes, crate::c10::m_add8)]
    #[kani::stub(etherparse::checksum::u64_16bit_word::add_4bytes, crate::c10::m_add4)]
    #[kani::stub(etherparse::checksum::u64_16bit_word::add_2bytes, crate::c10::m_add2)]
    #[kani::stub(etherparse::checksum::u64_16bit_word::add_slice, crate::c10::m_add_slice)]
    c10_err_icmpv6_in_ipv4_slice = err_icmpv6_in_ipv4::<{ SLICE }>; unwind 6,
    #[kani::stub(etherparse::Ipv6RawExtHeader::to_bytes, crate::c10::m_raw_ext_to_bytes)]
    #[kani::stub(etherparse::IpAuthHeader::to_bytes, crate::c10::m_auth_to_bytes)]
    #[kani::stub(etherparse::checksum::u64_16bit_word::add_8bytes, crate::c10::m_add8)]
    #[kani::stub(etherparse::checksum::u64_16bit_word::add_4bytes, crate::c10::m_add4)]
    #[kani::stub(etherparse::checksum::u64_16bit_word::add_2bytes, crate::c10::m_add2)]
    #[kani::stub(etherparse::checksum::u64_16bit_word::add_slice, crate::c10::m_add_slice)]
    c10_err_icmpv6_in_ipv4_vec = err_icmpv6_in_ipv4::<{ VEC }>; unwind 6,
    #[kani::stub(etherparse::Ipv6RawExtHeader::to_bytes, crate::c10::m_raw_ext_to_bytes)]
    #[kani::stub(etherparse::IpAuthHeader::to_bytes, crate::c10::m_auth_to_bytes)]
    #[kani::stub(etherparse::checksum::u64_16bit_word::add_8bytes, crate::c10::m_add8)]
    #[kani::stub(etherparse::checksum::u64_16bit_word::add_4bytes, crate::c10::m_add4)]
    #[kani::stub(etherparse::checksum::u64_16bit_word::add_2bytes, crate::c10::m_add2)]
    #[kani::stub(etherparse::checksum::u64_16bit_word::add_slice, crate::c10::m_add_slice)]
    c10_arp_eth_io = arp::<{ IO }, 0>; unwind 10,
    #[kani::stub(etherparse::Ipv6RawExtHeader::to_bytes, crate::c10::m_raw_ext_to_bytes)]
    #[kani::stub(etherparse::IpAuthHeader::to_bytes, crate::c10::m_auth_to_bytes)]
    #[kani::stub(etherparse::checksum::u64_16bit_word::add_8bytes, crate::c10::m_add8)]
    #[kani::stub(etherparse::checksum::u64_16bit_word::add_4bytes, crate::c10::m_add4)]
    #[kani::stub(etherparse::checksum::u64_16bit_word::add_2bytes, crate::c10::m_add2)]
    #[kani::stub(etherparse::checksum::u64_16bit_word::add_slice, crate::c10::m_add_slice)]
    c10_arp_eth_slice = arp::<{ SLICE }, 0>; unwind 10,
    #[kani::stub(etherparse::Ipv6RawExtHeader::to_bytes, crate::c10::m_raw_ext_to_bytes)]
    #[kani::stub(etherparse::IpAuthHeader::to_bytes, crate::c10::m_auth_to_bytes)]
    #[kani::stub(etherparse::checksum::u64_16bit_word::add_8bytes, crate::c10::m_add8)]
    #[kani::stub(etherparse::checksum::u64_16bit_word::add_4bytes, crate::c10::m_add4)]
    #[kani::stub(etherparse::checksum::u64_16bit_word::add_2bytes, crate::c10::m_add2)]
    #[kani::stub(etherparse::checksum::u64_16bit_word::add_slice, crate::c10::m_add_slice)]
    c10_arp_eth_vec = arp::<{ VEC }, 0>; unwind 10,
    #[kani::stub(etherparse::Ipv6RawExtHeader::to_bytes, crate::c10::m_raw_ext_to_bytes)]
    #[kani::stub(etherparse::IpAuthHeader::to_bytes, crate::c10::m_auth_to_bytes)]
    #[kani::stub(etherparse::checksum::u64_16bit_word::add_8bytes, crate::c10::m_add8)]
    #[kani::stub(etherparse::checksum::u64_16bit_word::add_4bytes, crate::c10::m_add4)]
    #[kani::stub(etherparse::checksum::u64_16bit_word::add_2bytes, crate::c10::m_add2)]
    #[kani::stub(etherparse::checksum::u64_16bit_word::add_slice, crate::c10::m_add_slice)]
    c10_arp_vlan_io = arp::<{ IO }, 1>; unwind 10,
    #[kani::stub(etherparse::Ipv6RawExtHeader::to_bytes, crate::c10::m_raw_ext_to_bytes)]
    #[kani::stub(etherparse::IpAuthHeader::to_bytes, crate::c10::m_auth_to_bytes)]
    #[kani::stub(etherparse::checksum::u64_16bit_word::add_8bytes, crate::c10::m_add8)]
    #[kani::stub(etherparse::checksum::u64_16bit_word::add_4bytes, crate::c10::m_add4)]
    #[kani::stub(etherparse::checksum::u64_16bit_word::add_2bytes, crate::c10::m_add2)]
    #[kani::stub(etherparse::checksum::u64_16bit_word::add_slice, crate::c10::m_add_slice)]
    c10_arp_vlan_slice = arp::<{ SLICE }, 1>; unwind 10,
    #[kani::stub(etherparse::Ipv6RawExtHeader::to_bytes, crate::c10::m_raw_ext_to_bytes)]
    #[kani::stub(etherparse::IpAuthHeader::to_bytes, crate::c10::m_auth_to_bytes)]
    #[kani::stub(etherparse::checksum::u64_16bit_word::add_8bytes, crate::c10::m_add8)]
    #[kani::stub(etherparse::checksum::u64_16bit_word::add_4bytes, crate::c10::m_add4)]
    #[kani::stub(etherparse::checksum::u64_16bit_word::add_2bytes, crate::c10::m_add2)]
    #[kani::stub(etherparse::checksum::u64_16bit_word::add_slice, crate::c10::m_add_slice)]
    c10_arp_vlan_vec = arp::<{ VEC }, 1>; unwind 10,
    #[kani::stub(etherparse::Ipv6RawExtHeader::to_bytes, crate::c10::m_raw_ext_to_bytes)]
    #[kani::stub(etherparse::IpAuthHeader::to_bytes, crate::c10::m_auth_to_bytes)]
    #[kani::stub(etherparse::checksum::u64_16bit_word::add_8bytes, crate::c10::m_add8)]
    #[kani::stub(etherparse::checksum::u64_16bit_word::add_4bytes, crate::c10::m_add4)]
    #[kani::stub(etherparse::checksum::u64_16bit_word::add_2bytes, crate::c10::m_add2)]
    #[kani::stub(etherparse::checksum::u64_16bit_word::add_slice, crate::c10::m_add_slice)]
    c10_arp_sll_io = arp::<{ IO }, 2>; unwind 10,
    #[kani::stub(etherparse::Ipv6RawExtHeader::to_bytes, crate::c10::m_raw_ext_to_bytes)]
    #[kani::stub(etherparse::IpAuthHeader::to_bytes, crate::c10::m_auth_to_bytes)]
    #[kani::stub(etherparse::checksum::u64_16bit_word::add_8bytes, crate::c10::m_add8)]
    #[kani::stub(etherparse::checksum::u64_16bit_word::add_4bytes, crate::c10::m_add4)]
    #[kani::stub(etherparse::checksum::u64_16bit_word::add_2bytes, crate::c10::m_add2)]
    #[kani::stub(etherparse::checksum::u64_16bit_word::add_slice, crate::c10::m_add_slice)]
    c10_arp_sll_slice = arp::<{ SLICE }, 2>; unwind 10,
    #[kani::stub(etherparse::Ipv6RawExtHeader::to_bytes, crate::c10::m_raw_ext_to_bytes)]
    #[kani::stub(etherparse::IpAuthHeader::to_bytes, crate::c10::m_auth_to_bytes)]
    #[kani::stub(etherparse::checksum::u64_16bit_word::add_8bytes, crate::c10::m_add8)]
    #[kani::stub(etherparse::checksum::u64_16bit_word::add_4bytes, crate::c10::m_add4)]
    #[kani::stub(etherparse::checksum::u64_16bit_word::add_2bytes, crate::c10::m_add2)]
    #[kani::stub(etherparse::checksum::u64_16bit_word::add_slice, crate::c10::m_add_slice)]
    c10_arp_sll_vec = arp::<{ VEC }, 2>; unwind 10,
    #[kani::stub(etherparse::Ipv6RawExtHeader::to_bytes, crate::c10::m_raw_ext_to_bytes)]
    #[kani::stub(etherparse::IpAuthHeader::to_bytes, crate::c10::m_auth_to_bytes)]
    #[kani::stub(etherparse::checksum::u64_16bit_word::add_8bytes, crate::c10::m_add8)]
    #[kani::stub(etherparse::checksum::u64_16bit_word::add_4bytes, crate::c10::m_add4)]
    #[kani::stub(etherparse::checksum::u64_16bit_word::add_2bytes, crate::c10::m_add2)]
    #[kani::stub(etherparse::checksum::u64_16bit_word::add_slice, crate::c10::m_add_slice)]
    c10_ip_v6_raw_io = ip_v6_raw::<{ IO }>; unwind 4,
    #[kani::stub(etherparse::Ipv6RawExtHeader::to_bytes, crate::c10::m_raw_ext_to_bytes)]
    #[kani::stub(etherparse::IpAuthHeader::to_bytes, crate::c10::m_auth_to_bytes)]
    #[kani::stub(etherparse::checksum::u64_16bit_word::add_8bytes, crate::c10::m_add8)]
    #[kani::stub(etherparse::checksum::u64_16bit_word::add_4bytes, crate::c10::m_add4)]
    #[kani::stub(etherparse::checksum::u64_16bit_word::add_2bytes, crate::c10::m_add2)]
    #[kani::stub(etherparse::checksum::u64_16bit_word::add_slice, crate::c10::m_add_slice)]
    c10_ip_v6_raw_slice = ip_v6_raw::<{ SLICE }>; unwind 4,
    #[kani::stub(etherparse::Ipv6RawExtHeader::to_bytes, crate::c10::m_raw_ext_to_bytes)]
    #[kani::stub(etherparse::IpAuthHeader::to_bytes, crate::c10::m_auth_to_bytes)]
    #[kani::stub(etherparse::checksum::u64_16bit_word::add_8bytes, crate::c10::m_add8)]
    #[kani::stub(etherparse::checksum::u64_16bit_word::add_4bytes, crate::c10::m_add4)]
    #[kani::stub(etherparse::checksum::u64_16bit_word::add_2bytes, crate::c10::m_add2)]
    #[kani::stub(etherparse::checksum::u64_16bit_word::add_slice, crate::c10::m_add_slice)]
    c10_ip_v6_raw_vec = ip_v6_raw::<{ VEC }>; unwind 4,
    #[kani::stub(etherparse::Ipv6RawExtHeader::to_bytes, crate::c10::m_raw_ext_to_bytes)]
    #[kani::stub(etherparse::IpAuthHeader::to_bytes, crate::c10::m_auth_to_bytes)]
    #[kani::stub(etherparse::checksum::u64_16bit_word::add_8bytes, crate::c10::m_add8)]
    #[kani::stub(etherparse::checksum::u64_16bit_word::add_4bytes, crate::c10::m_add4)]
    #[kani::stub(etherparse::checksum::u64_16bit_word::add_2bytes, crate::c10::m_add2)]
    #[kani::stub(etherparse::checksum::u64_16bit_word::add_slice, crate::c10::m_add_slice)]
    c10_err_slice_space = err_slice_space; unwind 6,
    #[kani::stub(etherparse::Ipv6RawExtHeader::to_bytes, crate::c10::m_raw_ext_to_bytes)]
    #[kani::stub(etherparse::IpAuthHeader::to_bytes, crate::c10::m_auth_to_bytes)]
    #[kani::stub(etherparse::checksum::u64_16bit_word::add_8bytes, crate::c10::m_add8)]
    #[kani::stub(etherparse::checksum::u64_16bit_word::add_4bytes, crate::c10::m_add4)]
    #[kani::stub(etherparse::checksum::u64_16bit_word::add_2bytes, crate::c10::m_add2)]
    #[kani::stub(etherparse::checksum::u64_16bit_word::add_slice, crate::c10::havoc_add_slice)]
    c10_limit_ipv4_udp = limit_ipv4_udp; unwind 6,
    #[kani::stub(etherparse::Ipv6RawExtHeader::to_bytes, crate::c10::m_raw_ext_to_bytes)]
    #[kani::stub(etherparse::IpAuthHeader::to_bytes, crate::c10::m_auth_to_bytes)]
    #[kani::stub(etherparse::checksum::u64_16bit_word::add_8bytes, crate::c10::m_add8)]
    #[kani::stub(etherparse::checksum::u64_16bit_word::add_4bytes, crate::c10::m_add4)]
    #[kani::stub(etherparse::checksum::u64_16bit_word::add_2bytes, crate::c10::m_add2)]
    #[kani::stub(etherparse::checksum::u64_16bit_word::add_slice, crate::c10::havoc_add_slice)]
    c10_limit_ipv6_udp = limit_ipv6_udp; unwind 4,
    #[kani::stub(etherparse::Ipv6RawExtHeader::to_bytes, crate::c10::m_raw_ext_to_bytes)]
    #[kani::stub(etherparse::IpAuthHeader::to_bytes, crate::c10::m_auth_to_bytes)]
    #[kani::stub(etherparse::checksum::u64_16bit_word::add_8bytes, crate::c10::m_add8)]
    #[kani::stub(etherparse::checksum::u64_16bit_word::add_4bytes, crate::c10::m_add4)]
    #[kani::stub(etherparse::checksum::u64_16bit_word::add_2bytes, crate::c10::m_add2)]
    #[kani::stub(etherparse::checksum::u64_16bit_word::add_slice, crate::c10::havoc_add_slice)]
    c10_limit_ipv6_tcp = limit_ipv6_tcp; unwind 42,
    #[kani::stub(etherparse::Ipv6RawExtHeader::to_bytes, crate::c10::m_raw_ext_to_bytes)]
    #[kani::stub(etherparse::IpAuthHeader::to_bytes, crate::c10::m_auth_to_bytes)]
    #[kani::stub(etherparse::checksum::u64_16bit_word::add_8bytes, crate::c10::m_add8)]
    #[kani::stub(etherparse::checksum::u64_16bit_word::add_4bytes, crate::c10::m_add4)]
    #[kani::stub(etherparse::checksum::u64_16bit_word::add_2bytes, crate::c10::m_add2)]
    #[kani::stub(etherparse::checksum::u64_16bit_word::add_slice, crate::c10::havoc_add_slice)]
    c10_limit_ipv4_icmpv4 = limit_ipv4_icmpv4; unwind 6,
}
