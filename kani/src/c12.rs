//! C12 - extension header chain bookkeeping is self consistent (DESIGN.md section 5).
//!
//! Subject: the five walkers over the six optional IPv6 extension headers
//! (`Ipv6Extensions::{set_next_headers, next_header, write, header_len, from_slice}`), their IPv4
//! counterparts (`Ipv4Extensions`, one optional authentication header) and the `IpHeaders` /
//! `NetHeaders` wrappers.
//!
//! Oracle: a chain is plain data (`Spec`: presence, link byte, a content tag per header). The
//! reference walk `ref_walk` follows the `next_header` links as a linked list, written from
//! RFC 8200 4 / 4.1 and the documented conventions of the struct (each header at most once,
//! hop-by-hop only directly behind the IPv6 header, destination options in front of the routing
//! header -> `destination_options`, behind it -> `final_destination_options`, a number that
//! names no remaining header ends the walk). The reference serialisation is written from the
//! wire formats (RFC 8200 4.3-4.6, RFC 4302 2). No constant of etherparse is used.
//!
//! Sizes: raw headers carry 6 payload bytes (8 byte header, first payload byte symbolic), the
//! authentication header a 4 byte ICV (16 bytes, first ICV byte symbolic) - contents do not
//! take part in the link bookkeeping, the symbolic tags only make the headers distinguishable.
//!
//! Stubs (DESIGN 2.5): in the harnesses that run `write` with *symbolic links* the serialisers
//! `Ipv6RawExtHeader::to_bytes` and `IpAuthHeader::to_bytes` are replaced by models that return
//! the wire image for exactly the sizes used here (other sizes fail an assertion in the model).
//! `IpAuthHeader::to_bytes` has a fixed 1016 trip loop, i.e. needs unwind >= 1017, which is
//! incompatible with the walker loop whose exit is symbolic. `c12_stub_raw_to_bytes` and
//! `c12_stub_auth_to_bytes` decide model == real function on that value set; the harnesses with
//! real serialisers run in `c12_v6_write_verdict_noauth_real` (no authentication header) and `c12_v4_chain`.

use crate::sym::{any, assume};
use crate::witness;
use arrayvec::ArrayVec;
use etherparse::err::ipv4_exts::ExtsWalkError as Walk4Err;
use etherparse::err::ipv6_exts::ExtsWalkError as Walk6Err;
use etherparse::*;
use std::io;

// ------------------------------------------------------------------------------------------
// switches for confirmed defects of etherparse (HARNESS_GUIDE rule 7)
// ------------------------------------------------------------------------------------------

/// Found by these harnesses, repaired in /repo by 522105f: `Ipv6Extensions::write(_, first = 0)`
/// without a hop-by-hop header panicked (`self.hop_by_hop_options.as_ref().unwrap()` in
/// `write_internal`, e.g. `Ipv6Extensions::default().write(&mut w, IpNumber(0))`) while
/// `next_header(0)` walked the same input without panicking.
/// `false` (now): the case `first == 0 && hop_by_hop_options.is_none()` is asserted like every
/// other one (write Ok <=> next_header Ok, no panic).
/// `true` (only for a tree without the repair; a panic cannot be observed without failing, so the
/// predicate is on the input): exactly that case goes to the `KF:` witness and `write` is not called.
const KF_WRITE_FIRST_HBH_ABSENT: bool = false;

// ------------------------------------------------------------------------------------------
// protocol numbers (IANA "Assigned Internet Protocol Numbers"), ether types (IEEE 802)
// ------------------------------------------------------------------------------------------

const N_HBH: u8 = 0;
const N_ROUTE: u8 = 43;
const N_FRAG: u8 = 44;
const N_AUTH: u8 = 51;
const N_DEST: u8 = 60;
const ET_IPV4: u16 = 0x0800;
const ET_IPV6: u16 = 0x86dd;

/// IANA registry "IPv6 Extension Header Types": a final protocol number is none of these
fn is_ext_number(n: u8) -> bool {
    matches!(n, 0 | 43 | 44 | 50 | 51 | 60 | 135 | 139 | 140 | 253 | 254)
}

/// the numbers `Ipv6Extensions` can hold (the decoder continues behind these)
fn is_chain_number(n: u8) -> bool {
    matches!(n, 0 | 43 | 44 | 51 | 60)
}

/// `for $k in 0..6 { body }`, unrolled by hand: the harness side must not add loops, the unwind
/// bound of each harness is the one of the walker under test (HARNESS_GUIDE rule 2)
macro_rules! each6 {
    ($k:ident => $body:block) => {{
        { let $k: usize = 0; $body }
        { let $k: usize = 1; $body }
        { let $k: usize = 2; $body }
        { let $k: usize = 3; $body }
        { let $k: usize = 4; $body }
        { let $k: usize = 5; $body }
    }};
}

// ------------------------------------------------------------------------------------------
// test doubles
// ------------------------------------------------------------------------------------------

/// capturing writer: appends everything into a fixed array (copy_from_slice only), never fails
pub struct Cap<const N: usize> {
    pub buf: [u8; N],
    pub len: usize,
    pub overflow: bool,
}

impl<const N: usize> Cap<N> {
    pub fn new() -> Self {
        Cap { buf: [0u8; N], len: 0, overflow: false }
    }
    #[inline]
    fn put(&mut self, data: &[u8]) {
        let n = data.len();
        if n > N - self.len {
            self.overflow = true;
            return;
        }
        self.buf[self.len..self.len + n].copy_from_slice(data);
        self.len += n;
    }
}

impl<const N: usize> io::Write for Cap<N> {
    #[inline]
    fn write(&mut self, data: &[u8]) -> io::Result<usize> {
        self.put(data);
        Ok(data.len())
    }
    #[inline]
    fn write_all(&mut self, data: &[u8]) -> io::Result<()> {
        self.put(data);
        Ok(())
    }
    #[inline]
    fn flush(&mut self) -> io::Result<()> {
        Ok(())
    }
}

/// counting writer: only the number of bytes, never fails
pub struct Count {
    pub len: usize,
}

impl io::Write for Count {
    #[inline]
    fn write(&mut self, data: &[u8]) -> io::Result<usize> {
        self.len += data.len();
        Ok(data.len())
    }
    #[inline]
    fn write_all(&mut self, data: &[u8]) -> io::Result<()> {
        self.len += data.len();
        Ok(())
    }
    #[inline]
    fn flush(&mut self) -> io::Result<()> {
        Ok(())
    }
}

/// capturing writer in 8 byte words (the walkers emit one header per call, every header is a
/// multiple of 8 bytes): no copy of symbolic length to a symbolic offset, which CBMC cannot
/// afford here. Chunks of 0 / 8 / 16 / 40 bytes are recorded, anything else sets `bad` (a limit of
/// this test double, asserted not to happen), never fails.
pub struct WordCap<const W: usize> {
    pub words: [u64; W],
    pub n: usize,
    pub bad: bool,
}

impl<const W: usize> WordCap<W> {
    pub fn new() -> Self {
        WordCap { words: [0u64; W], n: 0, bad: false }
    }
    #[inline]
    fn put(&mut self, data: &[u8]) {
        let k = match data.len() {
            0 => 0,
            8 => 1,
            16 => 2,
            40 => 5,
            _ => {
                self.bad = true;
                return;
            }
        };
        if k > W - self.n {
            self.bad = true;
            return;
        }
        if k >= 1 {
            self.words[self.n] = w64(data, 0);
        }
        if k >= 2 {
            self.words[self.n + 1] = w64(data, 8);
        }
        if k >= 5 {
            self.words[self.n + 2] = w64(data, 16);
            self.words[self.n + 3] = w64(data, 24);
            self.words[self.n + 4] = w64(data, 32);
        }
        self.n += k;
    }
}

impl<const W: usize> io::Write for WordCap<W> {
    #[inline]
    fn write(&mut self, data: &[u8]) -> io::Result<usize> {
        self.put(data);
        Ok(data.len())
    }
    #[inline]
    fn write_all(&mut self, data: &[u8]) -> io::Result<()> {
        self.put(data);
        Ok(())
    }
    #[inline]
    fn flush(&mut self) -> io::Result<()> {
        Ok(())
    }
}

/// counting writer that also keeps the size and the first 8 bytes of the first chunk
pub struct HeadCount {
    pub len: usize,
    pub calls: usize,
    pub first_len: usize,
    pub first_word: u64,
}

impl HeadCount {
    #[inline]
    fn put(&mut self, data: &[u8]) {
        if self.calls == 0 {
            self.first_len = data.len();
            if data.len() >= 8 {
                self.first_word = w64(data, 0);
            }
        }
        self.calls += 1;
        self.len += data.len();
    }
}

impl io::Write for HeadCount {
    #[inline]
    fn write(&mut self, data: &[u8]) -> io::Result<usize> {
        self.put(data);
        Ok(data.len())
    }
    #[inline]
    fn write_all(&mut self, data: &[u8]) -> io::Result<()> {
        self.put(data);
        Ok(())
    }
    #[inline]
    fn flush(&mut self) -> io::Result<()> {
        Ok(())
    }
}

/// big endian word at offset i
fn w64(a: &[u8], i: usize) -> u64 {
    u64::from_be_bytes([a[i], a[i + 1], a[i + 2], a[i + 3], a[i + 4], a[i + 5], a[i + 6], a[i + 7]])
}

// ------------------------------------------------------------------------------------------
// chain description (plain data) and the value built from it
// ------------------------------------------------------------------------------------------

/// slots in the order recommended by RFC 8200 4.1: hop-by-hop, destination options, routing,
/// fragment, authentication, (ESP: not representable), destination options (final)
const S_HBH: usize = 0;
const S_DEST: usize = 1;
const S_ROUTE: usize = 2;
const S_FRAG: usize = 3;
const S_AUTH: usize = 4;
const S_FDEST: usize = 5;
/// protocol number that announces the header of a slot
const SLOT_NUM: [u8; 6] = [N_HBH, N_DEST, N_ROUTE, N_FRAG, N_AUTH, N_DEST];
/// wire size of the header of a slot at the sizes used here
const SLOT_LEN: [usize; 6] = [8, 8, 8, 8, 16, 8];
/// all headers present: 5 * 8 + 16
const MAX_BYTES: usize = 56;

#[derive(Clone, Copy)]
pub struct Spec {
    present: [bool; 6],
    /// the `next_header` field of each header
    link: [u8; 6],
    /// raw headers: first payload byte, authentication header: first ICV byte
    tag: [u8; 6],
    frag_off: u16,
    frag_mf: bool,
    frag_id: u32,
    spi: u32,
    seq: u32,
}

/// every structurally possible presence pattern (final destination options live inside the
/// routing member, so they need a routing header): 48 of the 64 patterns
fn presence_any() -> u8 {
    let p: u8 = any();
    assume(p < 64);
    assume(p & (1 << S_FDEST) == 0 || p & (1 << S_ROUTE) != 0);
    p
}

/// chain with the given presence pattern, everything else symbolic
fn spec(p: u8) -> Spec {
    let off: u16 = any();
    assume(off < (1 << 13));
    Spec {
        present: [p & 1 != 0, p & 2 != 0, p & 4 != 0, p & 8 != 0, p & 16 != 0, p & 32 != 0],
        link: any(),
        tag: any(),
        frag_off: off,
        frag_mf: any(),
        frag_id: any(),
        spi: any(),
        seq: any(),
    }
}

fn raw(nh: u8, tag: u8) -> Ipv6RawExtHeader {
    match Ipv6RawExtHeader::new_raw(IpNumber(nh), &[tag, 0, 0, 0, 0, 0]) {
        Ok(h) => h,
        Err(_) => panic!("6 byte payload is documented as valid"),
    }
}

fn frag_header(s: &Spec) -> Ipv6FragmentHeader {
    let off = match IpFragOffset::try_new(s.frag_off) {
        Ok(o) => o,
        Err(_) => panic!("13 bit offset is documented as valid"),
    };
    Ipv6FragmentHeader::new(IpNumber(s.link[S_FRAG]), off, s.frag_mf, s.frag_id)
}

fn auth_header(nh: u8, spi: u32, seq: u32, tag: u8) -> IpAuthHeader {
    match IpAuthHeader::new(IpNumber(nh), spi, seq, &[tag, 0, 0, 0]) {
        Ok(h) => h,
        Err(_) => panic!("4 byte ICV is documented as valid"),
    }
}

fn build(s: &Spec) -> Ipv6Extensions {
    Ipv6Extensions {
        hop_by_hop_options: if s.present[S_HBH] { Some(raw(s.link[S_HBH], s.tag[S_HBH])) } else { None },
        destination_options: if s.present[S_DEST] { Some(raw(s.link[S_DEST], s.tag[S_DEST])) } else { None },
        routing: if s.present[S_ROUTE] {
            Some(Ipv6RoutingExtensions {
                routing: raw(s.link[S_ROUTE], s.tag[S_ROUTE]),
                final_destination_options: if s.present[S_FDEST] {
                    Some(raw(s.link[S_FDEST], s.tag[S_FDEST]))
                } else {
                    None
                },
            })
        } else {
            None
        },
        fragment: if s.present[S_FRAG] { Some(frag_header(s)) } else { None },
        auth: if s.present[S_AUTH] {
            Some(auth_header(s.link[S_AUTH], s.spi, s.seq, s.tag[S_AUTH]))
        } else {
            None
        },
    }
}

/// presence and link of every slot as the value holds them
fn links_of(v: &Ipv6Extensions) -> [Option<u8>; 6] {
    [
        v.hop_by_hop_options.as_ref().map(|h| h.next_header.0),
        v.destination_options.as_ref().map(|h| h.next_header.0),
        v.routing.as_ref().map(|r| r.routing.next_header.0),
        v.fragment.as_ref().map(|h| h.next_header.0),
        v.auth.as_ref().map(|h| h.next_header.0),
        match v.routing.as_ref() {
            Some(r) => r.final_destination_options.as_ref().map(|h| h.next_header.0),
            None => None,
        },
    ]
}

/// raw member == the one described by slot k of `s` (field by field, no slice comparison loop)
fn raw_is(h: Option<&Ipv6RawExtHeader>, s: &Spec, k: usize) -> bool {
    match h {
        None => !s.present[k],
        Some(h) => {
            let p = h.payload();
            s.present[k]
                && h.next_header.0 == s.link[k]
                && h.header_len() == 8
                && p.len() == 6
                && p[0] == s.tag[k]
                && p[1] == 0
                && p[2] == 0
                && p[3] == 0
                && p[4] == 0
                && p[5] == 0
        }
    }
}

/// the value holds exactly the members described by `s` (presence, links, contents): nothing
/// added, nothing dropped, nothing swapped
fn same_set(v: &Ipv6Extensions, s: &Spec) -> bool {
    let frag = match v.fragment.as_ref() {
        None => !s.present[S_FRAG],
        Some(f) => {
            s.present[S_FRAG]
                && f.next_header.0 == s.link[S_FRAG]
                && f.fragment_offset.value() == s.frag_off
                && f.more_fragments == s.frag_mf
                && f.identification == s.frag_id
        }
    };
    let auth = match v.auth.as_ref() {
        None => !s.present[S_AUTH],
        Some(a) => {
            let i = a.raw_icv();
            s.present[S_AUTH]
                && a.next_header.0 == s.link[S_AUTH]
                && a.spi == s.spi
                && a.sequence_number == s.seq
                && a.header_len() == 16
                && i.len() == 4
                && i[0] == s.tag[S_AUTH]
                && i[1] == 0
                && i[2] == 0
                && i[3] == 0
        }
    };
    let fdest = match v.routing.as_ref() {
        None => !s.present[S_FDEST],
        Some(r) => raw_is(r.final_destination_options.as_ref(), s, S_FDEST),
    };
    raw_is(v.hop_by_hop_options.as_ref(), s, S_HBH)
        && raw_is(v.destination_options.as_ref(), s, S_DEST)
        && raw_is(v.routing.as_ref().map(|r| &r.routing), s, S_ROUTE)
        && frag
        && auth
        && fdest
}

fn total_len(s: &Spec) -> usize {
    let mut n = 0;
    each6!(k => {
        if s.present[k] {
            n += SLOT_LEN[k];
        }
    });
    n
}

// ------------------------------------------------------------------------------------------
// reference walk: the chain as a linked list
// ------------------------------------------------------------------------------------------

pub struct Walk {
    /// slots in the order they are reached
    order: [usize; 6],
    n: usize,
    /// number at which the walk stops (names no remaining header)
    end: u8,
    /// the link 0 was met behind the first position while a hop-by-hop header is still waiting
    misplaced_hbh: bool,
    used: [bool; 6],
}

fn ref_walk(s: &Spec, first: u8) -> Walk {
    let mut w = Walk { order: [6; 6], n: 0, end: first, misplaced_hbh: false, used: [false; 6] };
    let mut next = first;
    // RFC 8200 4.3: the hop-by-hop header directly follows the IPv6 header (and only there)
    if next == N_HBH && s.present[S_HBH] {
        w.order[0] = S_HBH;
        w.n = 1;
        w.used[S_HBH] = true;
        next = s.link[S_HBH];
    }
    // at most 5 further headers, then the stop
    let mut done = false;
    each6!(_step => {
        if !done {
            let slot = match next {
                N_HBH => {
                    if s.present[S_HBH] && !w.used[S_HBH] {
                        w.misplaced_hbh = true;
                    }
                    None
                }
                N_DEST => Some(if w.used[S_ROUTE] { S_FDEST } else { S_DEST }),
                N_ROUTE => Some(S_ROUTE),
                N_FRAG => Some(S_FRAG),
                N_AUTH => Some(S_AUTH),
                _ => None,
            };
            match slot {
                Some(k) if s.present[k] && !w.used[k] => {
                    w.order[w.n] = k;
                    w.n += 1;
                    w.used[k] = true;
                    next = s.link[k];
                }
                _ => done = true,
            }
        }
    });
    assert!(done, "six steps always reach the stop: 5 headers can follow, the 6th step stops");
    w.end = next;
    w
}

fn unreferenced(s: &Spec, w: &Walk, k: usize) -> bool {
    s.present[k] && !w.used[k]
}

fn any_unreferenced(s: &Spec, w: &Walk) -> bool {
    let mut r = false;
    each6!(k => {
        r |= unreferenced(s, w, k);
    });
    r
}

/// every header reached exactly once, hop-by-hop (if any) first
fn consistent(s: &Spec, w: &Walk) -> bool {
    !w.misplaced_hbh && !any_unreferenced(s, w)
}

/// The verdict of a walker is truthful: Ok(final number) exactly for consistent chains, an
/// error names a fault the chain really has (where several headers are unreferenced the
/// documentation does not rank them: any of them is accepted).
fn judge(r: &Result<u8, Walk6Err>, s: &Spec, w: &Walk) {
    match r {
        Ok(x) => {
            assert!(consistent(s, w));
            assert!(*x == w.end);
        }
        Err(Walk6Err::HopByHopNotAtStart) => assert!(w.misplaced_hbh),
        Err(Walk6Err::ExtNotReferenced { missing_ext }) => {
            let mut named = false;
            each6!(k => {
                named |= unreferenced(s, w, k) && SLOT_NUM[k] == missing_ext.0;
            });
            assert!(named);
        }
    }
}

// ------------------------------------------------------------------------------------------
// reference serialisation (in 8 byte words: every extension header is a multiple of 8 bytes,
// RFC 8200 4)
// ------------------------------------------------------------------------------------------

/// all headers present: 5 * 1 + 2 words
const MAX_WORDS: usize = 7;

/// wire image of the header in slot k: first 8 bytes, and bytes 8..16 of the authentication header
fn ref_words(s: &Spec, k: usize) -> (u64, u64) {
    let nh = s.link[k];
    if k == S_FRAG {
        // RFC 8200 4.5: next header, reserved, offset (13 bit) res (2 bit) M, identification
        let id = s.frag_id.to_be_bytes();
        let b2 = (s.frag_off >> 5) as u8;
        let b3 = (((s.frag_off & 0x1f) as u8) << 3) | (s.frag_mf as u8);
        (u64::from_be_bytes([nh, 0, b2, b3, id[0], id[1], id[2], id[3]]), 0)
    } else if k == S_AUTH {
        // RFC 4302 2: next header, payload len = 32 bit words - 2 (16 bytes -> 2), reserved, SPI, sequence, ICV
        let p = s.spi.to_be_bytes();
        let q = s.seq.to_be_bytes();
        (
            u64::from_be_bytes([nh, 2, 0, 0, p[0], p[1], p[2], p[3]]),
            u64::from_be_bytes([q[0], q[1], q[2], q[3], s.tag[k], 0, 0, 0]),
        )
    } else {
        // RFC 8200 4.3 / 4.4 / 4.6: next header, hdr ext len = 8 byte units - 1, data
        (u64::from_be_bytes([nh, 0, s.tag[k], 0, 0, 0, 0, 0]), 0)
    }
}

/// the chain in walk order, as words and their number
fn ref_image(s: &Spec, w: &Walk) -> ([u64; MAX_WORDS], usize) {
    let mut b = [0u64; MAX_WORDS];
    let mut pos = 0;
    each6!(i => {
        if i < w.n {
            let k = w.order[i];
            let (a, c) = ref_words(s, k);
            b[pos] = a;
            pos += 1;
            if k == S_AUTH {
                b[pos] = c;
                pos += 1;
            }
        }
    });
    (b, pos)
}

/// the chain in walk order as bytes
fn ref_bytes(s: &Spec, w: &Walk) -> ([u8; MAX_BYTES], usize) {
    let (img, n) = ref_image(s, w);
    let mut b = [0u8; MAX_BYTES];
    b[0..8].copy_from_slice(&img[0].to_be_bytes());
    b[8..16].copy_from_slice(&img[1].to_be_bytes());
    b[16..24].copy_from_slice(&img[2].to_be_bytes());
    b[24..32].copy_from_slice(&img[3].to_be_bytes());
    b[32..40].copy_from_slice(&img[4].to_be_bytes());
    b[40..48].copy_from_slice(&img[5].to_be_bytes());
    b[48..56].copy_from_slice(&img[6].to_be_bytes());
    (b, n * 8)
}

/// `got[..n]` is the chain in walk order
fn words_match(got: &[u64], n: usize, s: &Spec, w: &Walk) -> bool {
    let (img, m) = ref_image(s, w);
    let mut ok = n == m;
    let mut i = 0;
    // MAX_WORDS = 7 comparisons, unrolled
    each6!(_k => {
        ok &= i >= m || got[i] == img[i];
        i += 1;
    });
    ok &= i >= m || got[i] == img[i];
    ok
}

// ------------------------------------------------------------------------------------------
// models of the two big serialisers (DESIGN 2.5) and their justification
// ------------------------------------------------------------------------------------------

fn raw_to_bytes_model(h: &Ipv6RawExtHeader) -> ArrayVec<u8, { Ipv6RawExtHeader::MAX_LEN }> {
    let p = h.payload();
    assert!(p.len() == 6, "model of Ipv6RawExtHeader::to_bytes is exact for 6 byte payloads only");
    let mut r = ArrayVec::new();
    let ok = r.try_extend_from_slice(&[h.next_header.0, 0, p[0], p[1], p[2], p[3], p[4], p[5]]);
    assert!(ok.is_ok());
    r
}

// (`to_bytes` lives in `impl<'a> IpAuthHeader`: Kani wants the same number of generic parameters)
fn auth_to_bytes_model<'a>(h: &IpAuthHeader) -> ArrayVec<u8, { IpAuthHeader::MAX_LEN }>
where
    'a: 'a, // makes the parameter early bound, i.e. counted
{
    let i = h.raw_icv();
    assert!(i.len() == 4, "model of IpAuthHeader::to_bytes is exact for 4 byte ICVs only");
    let p = h.spi.to_be_bytes();
    let q = h.sequence_number.to_be_bytes();
    let mut r = ArrayVec::new();
    let ok = r.try_extend_from_slice(&[
        h.next_header.0, 2, 0, 0, p[0], p[1], p[2], p[3], q[0], q[1], q[2], q[3], i[0], i[1], i[2], i[3],
    ]);
    assert!(ok.is_ok());
    r
}

/// model == real `Ipv6RawExtHeader::to_bytes` on the value set used in this module
pub fn stub_raw_to_bytes() {
    let h = raw(any(), any());
    let real = h.to_bytes();
    let model = raw_to_bytes_model(&h);
    assert!(real.len() == 8 && model.len() == 8);
    assert!(w64(&real, 0) == w64(&model, 0));
    assert!(h.header_len() == 8);
}

/// model == real `IpAuthHeader::to_bytes` on the value set used in this module
pub fn stub_auth_to_bytes() {
    let h = auth_header(any(), any(), any(), any());
    let real = h.to_bytes();
    let model = auth_to_bytes_model(&h);
    assert!(real.len() == 16 && model.len() == 16);
    assert!(w64(&real, 0) == w64(&model, 0));
    assert!(w64(&real, 8) == w64(&model, 8));
    assert!(h.header_len() == 16);
}

// ------------------------------------------------------------------------------------------
// IPv6: set_next_headers links in RFC 8200 order and the chain walks to n
// ------------------------------------------------------------------------------------------

/// all 48 presence patterns, arbitrary stale links, every final number that is no extension header
pub fn v6_link_order() {
    let s = spec(presence_any());
    let n: u8 = any();
    assume(!is_ext_number(n));
    let w = check_link_order(&s, n);
    witness!(w.n == 6, "all_six_present");
    witness!(w.n == 0, "empty_set_returns_n");
    witness!(s.present[S_DEST] && !s.present[S_ROUTE], "dest_without_routing");
    witness!(s.present[S_FDEST] && !s.present[S_DEST], "final_dest_only");
}

fn check_link_order(s: &Spec, n: u8) -> Walk {
    let s = *s;
    let mut v = build(&s);
    let first = v.set_next_headers(IpNumber(n));

    // reference: every present header links to the next present one in RFC 8200 4.1 order,
    // the last one to n; the returned number announces the first present header
    let mut expect = n;
    let mut linked = s;
    each6!(i => {
        let k = 5 - i;
        if s.present[k] {
            linked.link[k] = expect;
            expect = SLOT_NUM[k];
        }
    });
    assert!(first.0 == expect);
    // exactly the expected links, nothing else changed, nothing added or dropped
    assert!(same_set(&v, &linked));

    // the reference walk over these links visits the headers in slot (= RFC) order and ends at n
    let w = ref_walk(&linked, first.0);
    assert!(consistent(&linked, &w));
    assert!(w.end == n);
    let mut prev = 0;
    each6!(i => {
        if i < w.n {
            assert!(i == 0 || w.order[i] > prev);
            prev = w.order[i];
        }
    });
    // ... and so does the crate's walker
    assert!(v.next_header(first) == Ok(IpNumber(n)));
    assert!(v.header_len() == total_len(&s));
    assert!(v.is_empty() == (w.n == 0));
    assert!(w.n != 0 || first.0 == n);
    w
}

// ------------------------------------------------------------------------------------------
// IPv6: next_header / header_len / is_fragmenting_payload on arbitrary chains
// ------------------------------------------------------------------------------------------

/// all presence patterns x arbitrary links x every first number: the verdict of `next_header`
/// is the one of the reference walk
fn check_walk(s: &Spec, first: u8) -> Result<u8, Walk6Err> {
    let v = build(s);
    let w = ref_walk(s, first);
    let r = v.next_header(IpNumber(first)).map(|x| x.0);
    judge(&r, s, &w);
    assert!(v.header_len() == total_len(s));
    // RFC 8200 4.5: offset 0 and M = 0 is an unfragmented ("atomic") packet
    assert!(v.is_fragmenting_payload() == (s.present[S_FRAG] && (s.frag_off != 0 || s.frag_mf)));
    r
}

pub fn v6_walk_any() {
    let s = spec(presence_any());
    let first: u8 = any();
    let r = check_walk(&s, first);
    let w = ref_walk(&s, first);

    witness!(r.is_ok() && w.n == 6, "ok_all_six");
    witness!(r.is_ok() && w.n >= 3 && w.order[0] == S_AUTH, "ok_non_rfc_order");
    witness!(r.is_ok() && is_chain_number(w.end) && w.n > 0, "ok_ends_on_consumed_number");
    witness!(r == Ok(0) && first == 0 && !s.present[S_HBH], "ok_first_0_without_hbh");
    witness!(matches!(r, Err(Walk6Err::HopByHopNotAtStart)), "err_hbh_not_at_start");
    witness!(matches!(r, Err(Walk6Err::ExtNotReferenced { missing_ext }) if missing_ext.0 == N_HBH), "err_unref_hbh");
    witness!(
        matches!(r, Err(Walk6Err::ExtNotReferenced { missing_ext }) if missing_ext.0 == N_DEST) && w.used[S_DEST],
        "err_unref_final_dest"
    );
    witness!(matches!(r, Err(Walk6Err::ExtNotReferenced { missing_ext }) if missing_ext.0 == N_AUTH), "err_unref_auth");
    witness!(s.present[S_FRAG] && s.frag_off == 0 && !s.frag_mf, "atomic_fragment");
}

// ------------------------------------------------------------------------------------------
// IPv6: write
// ------------------------------------------------------------------------------------------

/// `write` on the chain `s` started at `first`: succeeds exactly when the reference walk is
/// consistent, errors are truthful, on success exactly `header_len()` bytes = every present
/// header once, in walk order
fn run_write<W: io::Write>(v: &Ipv6Extensions, out: &mut W, first: u8, w: &Walk) -> Result<u8, Walk6Err> {
    match v.write(out, IpNumber(first)) {
        Ok(()) => Ok(w.end),
        Err(err::ipv6_exts::HeaderWriteError::Content(e)) => Err(e),
        Err(e) => {
            core::mem::forget(e);
            panic!("the writer never fails")
        }
    }
}

/// see KF_WRITE_FIRST_HBH_ABSENT (off since /repo 522105f). Returns true if the case was routed to the witness.
fn kf_write_first_hbh_absent(s: &Spec, first: u8) -> bool {
    if KF_WRITE_FIRST_HBH_ABSENT && first == N_HBH && !s.present[S_HBH] {
        witness!(true, "KF:c12-ipv6-exts-write-first-hbh-absent");
        return true;
    }
    false
}

/// VERDICT and LENGTH of `write` (counting writer): same verdict as the reference walk and as
/// `next_header`, errors truthful, on success exactly the bytes of all present headers
fn check_write_verdict(s: &Spec, first: u8) {
    let v = build(s);
    let w = ref_walk(s, first);
    if kf_write_first_hbh_absent(s, first) {
        return;
    }
    let mut out = Count { len: 0 };
    let r = run_write(&v, &mut out, first, &w);
    judge(&r, s, &w);
    assert!(r.is_ok() == v.next_header(IpNumber(first)).is_ok());
    if r.is_ok() {
        // nothing dropped, nothing twice
        assert!(out.len == total_len(s));
        assert!(out.len == v.header_len());
    } else {
        assert!(out.len < total_len(s));
    }
    witness!(r.is_ok() && w.n > 0, "write_ok");
    witness!(r.is_err(), "write_err");
}

/// CONTENT of `write` (capturing writer): on success every present header once, in walk order
fn check_write_bytes(s: &Spec, first: u8) {
    let v = build(s);
    let w = ref_walk(s, first);
    if kf_write_first_hbh_absent(s, first) {
        return;
    }
    let mut cap = WordCap::<MAX_WORDS>::new();
    let r = run_write(&v, &mut cap, first, &w);
    judge(&r, s, &w);
    assert!(!cap.bad);
    if r.is_ok() {
        assert!(cap.n * 8 == total_len(s));
        assert!(cap.n * 8 == v.header_len());
        assert!(words_match(&cap.words, cap.n, s, &w));
    }
    witness!(r.is_ok() && w.n > 0, "write_ok");
    witness!(r.is_err(), "write_err");
}

/// all 48 presence patterns, arbitrary links and first number, serialisers replaced by their models
pub fn v6_write_verdict() {
    let s = spec(presence_any());
    let first: u8 = any();
    check_write_verdict(&s, first);
    let w = ref_walk(&s, first);
    witness!(w.n == 6 && consistent(&s, &w), "ok_all_six");
    witness!(w.misplaced_hbh, "err_hbh_not_at_start");
    witness!(w.n == 5 && !w.misplaced_hbh && !consistent(&s, &w), "err_one_unreferenced");
}

/// 24 presence patterns without the authentication header, arbitrary links and first number,
/// REAL serialisers
pub fn v6_write_verdict_noauth_real() {
    let p = presence_any();
    assume(p & (1 << S_AUTH) == 0);
    let s = spec(p);
    let first: u8 = any();
    check_write_verdict(&s, first);
    let w = ref_walk(&s, first);
    witness!(w.n == 5 && consistent(&s, &w), "ok_five");
}

/// all 48 presence patterns, arbitrary links and first number, serialisers replaced by their models
pub fn v6_write_bytes() {
    let s = spec(presence_any());
    let first: u8 = any();
    check_write_bytes(&s, first);
    let w = ref_walk(&s, first);
    witness!(w.n == 6 && consistent(&s, &w), "ok_all_six");
    witness!(w.n >= 3 && w.order[0] == S_AUTH && consistent(&s, &w), "ok_non_rfc_order");
    witness!(w.n == 2 && w.order[0] == S_ROUTE && w.order[1] == S_FDEST && consistent(&s, &w), "ok_route_final_dest");
}

// NOT decided: all six headers, links made by `set_next_headers(n)`, REAL serialisers incl.
// `IpAuthHeader::to_bytes` (unwind 1018): passed 15 GB after 10 minutes and was dropped. The real
// serialisers run in v6_write_verdict_noauth_real, v4_chain and the c12_stub_* equalities.

// ------------------------------------------------------------------------------------------
// IPv6: decoding the serialisation gives the set and the final number back
// ------------------------------------------------------------------------------------------

/// consistent chain `s` of at most MAXN headers that ends on a number the decoder does not
/// continue behind: decoding its reference serialisation (= what `write` emits, see
/// check_write_bytes) yields the same set, the final number and no rest.
/// The decoder walk is the expensive kernel (every arm of every unrolled step builds a 2 KB
/// header), so the chain length is bounded per harness: unwind = MAXN + 2.
fn check_decode<const MAXN: usize>(s: &Spec, first: u8) {
    let w = ref_walk(s, first);
    assume(consistent(s, &w));
    assume(!is_chain_number(w.end));
    assume(w.n <= MAXN);
    let (b, len) = ref_bytes(s, &w);
    assert!(len == total_len(s));
    match Ipv6Extensions::from_slice(IpNumber(first), &b[..len]) {
        Ok((d, next, rest)) => {
            assert!(next.0 == w.end);
            assert!(rest.is_empty());
            assert!(same_set(&d, s));
            assert!(d.header_len() == len);
        }
        Err(_) => panic!("serialised chain must decode"),
    }
    witness!(w.n == MAXN, "max_len_chain");
}

// The decoder harnesses fix the SHAPE of the chain (which header) and leave the contents and the
// final number symbolic. `Ipv6Extensions::from_slice` is the expensive kernel: every arm of every
// unrolled step builds 2 KB headers with a copy of symbolic length. Measured: empty chain 100 s,
// one header 260-300 s; symbolic presence / order with at most two headers, and the fixed shapes
// routing -> destination options and hop-by-hop -> fragment, exceeded 20 GB. Longer chains are
// therefore outside the decided part of the decode clause (see reg/c12.py "outside").

/// chain with exactly the header `a -> n`
fn shape1(a: usize) -> (Spec, u8) {
    let mut s = spec(1 << a);
    let n: u8 = any();
    s.link[a] = n;
    (s, SLOT_NUM[a])
}

/// hop-by-hop alone
pub fn v6_decode_hbh() {
    let (s, first) = shape1(S_HBH);
    check_decode::<1>(&s, first);
}

/// destination options alone: must come back as (first) destination options
pub fn v6_decode_dest() {
    let (s, first) = shape1(S_DEST);
    check_decode::<1>(&s, first);
}

/// authentication header alone
pub fn v6_decode_auth() {
    let (s, first) = shape1(S_AUTH);
    check_decode::<1>(&s, first);
}

/// empty set: every first number outside 0/43/44/51/60 comes back unchanged
pub fn v6_decode_empty() {
    let s = spec(0);
    let first: u8 = any();
    check_decode::<0>(&s, first);
}

// ------------------------------------------------------------------------------------------
// IPv4 (one optional authentication header)
// ------------------------------------------------------------------------------------------

fn v4_exts(has: bool, link: u8, spi: u32, seq: u32, tag: u8) -> Ipv4Extensions {
    Ipv4Extensions { auth: if has { Some(auth_header(link, spi, seq, tag)) } else { None } }
}

/// reference: with an authentication header the chain is consistent iff the first number is 51
fn v4_ref(has: bool, link: u8, first: u8) -> Result<u8, u8> {
    if !has {
        Ok(first)
    } else if first == N_AUTH {
        Ok(link)
    } else {
        Err(N_AUTH)
    }
}

fn v4_judge(r: &Result<u8, Walk4Err>, expect: &Result<u8, u8>) {
    match (r, expect) {
        (Ok(a), Ok(b)) => assert!(a == b),
        (Err(Walk4Err::ExtNotReferenced { missing_ext }), Err(m)) => assert!(missing_ext.0 == *m),
        _ => panic!("walker verdict differs from the reference"),
    }
}

/// set_next_headers / next_header / header_len / write (REAL serialiser), presence, stale
/// link, first number, final number all symbolic
pub fn v4_chain() {
    let has: bool = any();
    let link: u8 = any();
    let first: u8 = any();
    let (spi, seq, tag): (u32, u32, u8) = (any(), any(), any());
    let v = v4_exts(has, link, spi, seq, tag);
    let expect = v4_ref(has, link, first);

    // arbitrary (unlinked) chain
    let r = v.next_header(IpNumber(first)).map(|x| x.0);
    v4_judge(&r, &expect);
    assert!(v.header_len() == if has { 16 } else { 0 });
    assert!(v.is_empty() == !has);
    let mut cap = Cap::<16>::new();
    let wr = match v.write(&mut cap, IpNumber(first)) {
        Ok(()) => Ok(*expect.as_ref().unwrap_or(&0)),
        Err(err::ipv4_exts::HeaderWriteError::Content(e)) => Err(e),
        Err(e) => {
            core::mem::forget(e);
            panic!("the writer never fails")
        }
    };
    v4_judge(&wr, &expect);
    assert!(wr.is_ok() == r.is_ok());
    assert!(!cap.overflow);
    if wr.is_ok() {
        assert!(cap.len == v.header_len());
        if has {
            let p = spi.to_be_bytes();
            let q = seq.to_be_bytes();
            assert!(w64(&cap.buf, 0) == u64::from_be_bytes([link, 2, 0, 0, p[0], p[1], p[2], p[3]]));
            assert!(w64(&cap.buf, 8) == u64::from_be_bytes([q[0], q[1], q[2], q[3], tag, 0, 0, 0]));
        }
    } else {
        assert!(cap.len == 0);
    }

    // linking: every final number that is not the IPv4 extension header
    let n: u8 = any();
    assume(n != N_AUTH);
    let mut l = v.clone();
    let f = l.set_next_headers(IpNumber(n));
    assert!(f.0 == if has { N_AUTH } else { n });
    assert!(l == v4_exts(has, n, spi, seq, tag));
    assert!(l.next_header(f) == Ok(IpNumber(n)));

    witness!(has && wr.is_ok(), "auth_written");
    witness!(has && wr.is_err(), "auth_unreferenced");
    witness!(!has && first == N_AUTH, "no_auth_first_51");
}

/// decoding the serialisation of a consistent IPv4 chain gives the set and the final number back
pub fn v4_decode() {
    let has: bool = any();
    let link: u8 = any();
    let (spi, seq, tag): (u32, u32, u8) = (any(), any(), any());
    let v = v4_exts(has, link, spi, seq, tag);
    // consistent chains: first number 51 iff the header is there
    let first: u8 = any();
    assume((first == N_AUTH) == has);
    let p = spi.to_be_bytes();
    let q = seq.to_be_bytes();
    let b = [link, 2, 0, 0, p[0], p[1], p[2], p[3], q[0], q[1], q[2], q[3], tag, 0, 0, 0];
    let len = if has { 16 } else { 0 };
    match Ipv4Extensions::from_slice(IpNumber(first), &b[..len]) {
        Ok((d, next, rest)) => {
            assert!(d == v);
            assert!(next.0 == if has { link } else { first });
            assert!(rest.is_empty());
        }
        Err(_) => panic!("serialised chain must decode"),
    }
    witness!(has && link == N_AUTH, "auth_behind_auth_is_final");
    witness!(!has, "empty");
}

// ------------------------------------------------------------------------------------------
// IpHeaders / NetHeaders
// ------------------------------------------------------------------------------------------

fn ipv4_base(protocol: u8) -> Ipv4Header {
    Ipv4Header {
        total_len: any(),
        identification: any(),
        time_to_live: any(),
        protocol: IpNumber(protocol),
        source: any(),
        destination: any(),
        ..Default::default()
    }
}

fn ipv6_base(next_header: u8) -> Ipv6Header {
    Ipv6Header {
        payload_length: any(),
        next_header: IpNumber(next_header),
        hop_limit: any(),
        ..Default::default()
    }
}

/// `IpHeaders::Ipv4`: next_header / header_len / write on arbitrary protocol + link, then
/// set_next_headers: ether type, links, walk
pub fn ip_headers_v4() {
    let has: bool = any();
    let link: u8 = any();
    let first: u8 = any();
    let (spi, seq, tag): (u32, u32, u8) = (any(), any(), any());
    let mut h = IpHeaders::Ipv4(ipv4_base(first), v4_exts(has, link, spi, seq, tag));
    let expect = v4_ref(has, link, first);
    let ext_len = if has { 16 } else { 0 };

    let r = match h.next_header() {
        Ok(x) => Ok(x.0),
        Err(err::ip_exts::ExtsWalkError::Ipv4Exts(e)) => Err(e),
        Err(_) => panic!("IPv6 error for an IPv4 header"),
    };
    v4_judge(&r, &expect);
    assert!(h.header_len() == 20 + ext_len);

    let mut cap = Cap::<36>::new();
    let wr = match h.write(&mut cap) {
        Ok(()) => Ok(*expect.as_ref().unwrap_or(&0)),
        Err(err::ip::HeadersWriteError::Ipv4Exts(e)) => Err(e),
        Err(e) => {
            core::mem::forget(e);
            panic!("neither an I/O nor an IPv6 error is possible")
        }
    };
    v4_judge(&wr, &expect);
    assert!(!cap.overflow);
    if wr.is_ok() {
        assert!(cap.len == h.header_len());
        // RFC 791 3.1: version/IHL, protocol at offset 9; the extension header follows the base header
        assert!(cap.buf[0] == 0x45 && cap.buf[9] == first);
        if has {
            let p = spi.to_be_bytes();
            assert!(w64(&cap.buf, 20) == u64::from_be_bytes([link, 2, 0, 0, p[0], p[1], p[2], p[3]]));
        }
    }

    let n: u8 = any();
    assume(n != N_AUTH);
    let et = h.set_next_headers(IpNumber(n));
    assert!(et.0 == ET_IPV4);
    match &h {
        IpHeaders::Ipv4(b, e) => {
            assert!(b.protocol.0 == if has { N_AUTH } else { n });
            assert!(*e == v4_exts(has, n, spi, seq, tag));
        }
        _ => panic!("IP version changed"),
    }
    assert!(h.next_header() == Ok(IpNumber(n)));
    assert!(h.header_len() == 20 + ext_len);

    witness!(has && wr.is_ok(), "auth_written");
    witness!(has && wr.is_err(), "auth_unreferenced");
}

/// `IpHeaders::Ipv6` without serialisation: next_header / header_len on arbitrary chains, then
/// set_next_headers: ether type, first number in the base header, walk to n
pub fn ip_headers_v6() {
    let s = spec(presence_any());
    let first: u8 = any();
    let mut h = IpHeaders::Ipv6(ipv6_base(first), build(&s));
    let w = ref_walk(&s, first);
    let r = match h.next_header() {
        Ok(x) => Ok(x.0),
        Err(err::ip_exts::ExtsWalkError::Ipv6Exts(e)) => Err(e),
        Err(_) => panic!("IPv4 error for an IPv6 header"),
    };
    judge(&r, &s, &w);
    assert!(h.header_len() == 40 + total_len(&s));
    assert!(h.is_fragmenting_payload() == (s.present[S_FRAG] && (s.frag_off != 0 || s.frag_mf)));

    let n: u8 = any();
    assume(!is_ext_number(n));
    let et = h.set_next_headers(IpNumber(n));
    if et.0 != ET_IPV6 {
        // known finding: the IPv6 arm returns the IPv4 ether type; anything else is still a violation
        assert!(et.0 == ET_IPV4);
        witness!(true, "KF:c12-ipheaders-set-next-headers-ipv6-ether-type");
    }
    match &h {
        IpHeaders::Ipv6(b, e) => {
            // first present header in RFC 8200 order, or n
            let mut expect_first = n;
            let mut linked = s;
            each6!(i => {
                if s.present[5 - i] {
                    linked.link[5 - i] = expect_first;
                    expect_first = SLOT_NUM[5 - i];
                }
            });
            assert!(b.next_header.0 == expect_first);
            assert!(same_set(e, &linked));
        }
        _ => panic!("IP version changed"),
    }
    assert!(h.next_header() == Ok(IpNumber(n)));
    assert!(h.header_len() == 40 + total_len(&s));

    witness!(r.is_err(), "unlinked_err");
    witness!(w.n == 6 && r.is_ok(), "six_ok");
}

/// `IpHeaders::Ipv6::write`: base header (40 bytes, next header at offset 6) followed by the chain
fn check_ip_headers_v6_write(p: u8) {
    let s = spec(p);
    let first: u8 = any();
    let h = IpHeaders::Ipv6(ipv6_base(first), build(&s));
    let w = ref_walk(&s, first);
    if kf_write_first_hbh_absent(&s, first) {
        return;
    }
    let mut out = HeadCount { len: 0, calls: 0, first_len: 0, first_word: 0 };
    let r = match h.write(&mut out) {
        Ok(()) => Ok(w.end),
        Err(err::ip::HeadersWriteError::Ipv6Exts(e)) => Err(e),
        Err(e) => {
            core::mem::forget(e);
            panic!("neither an I/O nor an IPv4 error is possible")
        }
    };
    judge(&r, &s, &w);
    // the base header comes first: 40 bytes, RFC 8200 3: version nibble, next header at offset 6
    let w0 = out.first_word.to_be_bytes();
    assert!(out.first_len >= 8 && w0[0] >> 4 == 6 && w0[6] == first);
    if r.is_ok() {
        // ... followed by the bytes of every present header (their content and order: c12_v6_write_bytes)
        assert!(out.len == h.header_len());
        assert!(out.len == 40 + total_len(&s));
    }
    witness!(r.is_ok(), "ok");
    witness!(r.is_err() || p == 0, "err");
}

// `IpHeaders::write` with symbolic presence exceeds 20 GB (measured, also without capturing);
// the glue (base header first, then the chain started at the base header's next header) does not
// depend on the presence pattern, which is therefore concrete per harness; links and first number
// stay symbolic.

/// all six extension headers
pub fn ip_headers_v6_write_full() {
    check_ip_headers_v6_write(0b111111)
}

/// destination options, routing, final destination options, fragment (no hop-by-hop, no authentication header)
pub fn ip_headers_v6_write_mid() {
    check_ip_headers_v6_write(0b101110)
}

/// no extension header
pub fn ip_headers_v6_write_none() {
    check_ip_headers_v6_write(0)
}

/// `NetHeaders::try_set_next_headers`: ether type of the IP version, first number in the base
/// header, chain walks to n; ARP is refused
pub fn net_headers() {
    let n: u8 = any();
    let which: u8 = any();
    assume(which < 3);
    if which == 0 {
        assume(n != N_AUTH);
        let has: bool = any();
        let (spi, seq, tag): (u32, u32, u8) = (any(), any(), any());
        let mut h = NetHeaders::Ipv4(ipv4_base(any()), v4_exts(has, any(), spi, seq, tag));
        let r = h.try_set_next_headers(IpNumber(n));
        assert!(r == Ok(EtherType(ET_IPV4)));
        match &h {
            NetHeaders::Ipv4(b, e) => {
                assert!(b.protocol.0 == if has { N_AUTH } else { n });
                assert!(*e == v4_exts(has, n, spi, seq, tag));
                assert!(e.next_header(b.protocol) == Ok(IpNumber(n)));
            }
            _ => panic!("variant changed"),
        }
        assert!(h.header_len() == if has { 36 } else { 20 });
        witness!(has, "v4_auth");
    } else if which == 1 {
        assume(!is_ext_number(n));
        let s = spec(presence_any());
        let mut h = NetHeaders::Ipv6(ipv6_base(any()), build(&s));
        let r = h.try_set_next_headers(IpNumber(n));
        assert!(r == Ok(EtherType(ET_IPV6)));
        match &h {
            NetHeaders::Ipv6(b, e) => {
                let mut expect_first = n;
                let mut linked = s;
                each6!(i => {
                    if s.present[5 - i] {
                        linked.link[5 - i] = expect_first;
                        expect_first = SLOT_NUM[5 - i];
                    }
                });
                assert!(b.next_header.0 == expect_first);
                assert!(same_set(e, &linked));
                assert!(e.next_header(b.next_header) == Ok(IpNumber(n)));
            }
            _ => panic!("variant changed"),
        }
        assert!(h.header_len() == 40 + total_len(&s));
        witness!(s.present[S_FDEST] && s.present[S_HBH], "v6_chain");
    } else {
        let arp = match ArpPacket::new(
            ArpHardwareId(any()),
            EtherType(any()),
            ArpOperation(any()),
            &[1, 2],
            &[3],
            &[4, 5],
            &[6],
        ) {
            Ok(a) => a,
            Err(_) => panic!("matching address sizes are valid"),
        };
        let mut h = NetHeaders::Arp(arp.clone());
        let r = h.try_set_next_headers(IpNumber(n));
        assert!(r == Err(err::net::NetSetNextHeaderError::ArpHeader));
        assert!(h == NetHeaders::Arp(arp));
        witness!(true, "arp_refused");
    }
}

crate::harnesses! {
    c12_stub_raw_to_bytes = stub_raw_to_bytes; unwind 4,
    c12_stub_auth_to_bytes = stub_auth_to_bytes; unwind 1018,
    c12_v6_link_order = v6_link_order; unwind 7,
    c12_v6_walk_any = v6_walk_any; unwind 7,
    #[kani::stub(etherparse::Ipv6RawExtHeader::to_bytes, crate::c12::raw_to_bytes_model)]
    #[kani::stub(etherparse::IpAuthHeader::to_bytes, crate::c12::auth_to_bytes_model)]
    c12_v6_write_verdict = v6_write_verdict; unwind 7,
    c12_v6_write_verdict_noauth_real = v6_write_verdict_noauth_real; unwind 7,
    #[kani::stub(etherparse::Ipv6RawExtHeader::to_bytes, crate::c12::raw_to_bytes_model)]
    #[kani::stub(etherparse::IpAuthHeader::to_bytes, crate::c12::auth_to_bytes_model)]
    c12_v6_write_bytes = v6_write_bytes; unwind 7,
    c12_v6_decode_empty = v6_decode_empty; unwind 2,
    c12_v6_decode_hbh = v6_decode_hbh; unwind 2,
    c12_v6_decode_dest = v6_decode_dest; unwind 3,
    c12_v6_decode_auth = v6_decode_auth; unwind 3,
    c12_v4_chain = v4_chain; unwind 1018,
    c12_v4_decode = v4_decode; unwind 8,
    #[kani::stub(etherparse::IpAuthHeader::to_bytes, crate::c12::auth_to_bytes_model)]
    c12_ip_headers_v4 = ip_headers_v4; unwind 7,
    c12_ip_headers_v6 = ip_headers_v6; unwind 7,
    #[kani::stub(etherparse::Ipv6RawExtHeader::to_bytes, crate::c12::raw_to_bytes_model)]
    #[kani::stub(etherparse::IpAuthHeader::to_bytes, crate::c12::auth_to_bytes_model)]
    c12_ip_headers_v6_write_full = ip_headers_v6_write_full; unwind 7,
    #[kani::stub(etherparse::Ipv6RawExtHeader::to_bytes, crate::c12::raw_to_bytes_model)]
    #[kani::stub(etherparse::IpAuthHeader::to_bytes, crate::c12::auth_to_bytes_model)]
    c12_ip_headers_v6_write_mid = ip_headers_v6_write_mid; unwind 7,
    #[kani::stub(etherparse::Ipv6RawExtHeader::to_bytes, crate::c12::raw_to_bytes_model)]
    #[kani::stub(etherparse::IpAuthHeader::to_bytes, crate::c12::auth_to_bytes_model)]
    c12_ip_headers_v6_write_none = ip_headers_v6_write_none; unwind 7,
    c12_net_headers = net_headers; unwind 7,
}

// ------------------------------------------------------------------------------------------
// oracle self-validation (native `cargo test`; NOT a deciding technique, nothing depends on it)
// ------------------------------------------------------------------------------------------

#[cfg(all(test, not(kani)))]
mod selfcheck {
    use super::*;

    const ALPHABET: [u8; 6] = [0, 43, 44, 51, 60, 17];

    /// every presence pattern x every link / first number from a small alphabet
    #[test]
    fn exhaustive_small_alphabet() {
        crate::sym::load_fuzz(1);
        let mut decoded = 0u64;
        let mut total = 0u64;
        for p in 0u8..64 {
            if p & 32 != 0 && p & 4 == 0 {
                continue;
            }
            for code in 0..6usize.pow(7) {
                let mut c = code;
                let mut link = [0u8; 6];
                for k in 0..6 {
                    link[k] = ALPHABET[c % 6];
                    c /= 6;
                }
                let first = ALPHABET[c % 6];
                let s = Spec {
                    present: [p & 1 != 0, p & 2 != 0, p & 4 != 0, p & 8 != 0, p & 16 != 0, p & 32 != 0],
                    link,
                    tag: [1, 2, 3, 4, 5, 6],
                    frag_off: (code % 3) as u16 * 77,
                    frag_mf: code % 2 == 1,
                    frag_id: 0x01020304,
                    spi: 0x11121314,
                    seq: 0x21222324,
                };
                total += 1;
                let _ = check_walk(&s, first);
                check_write_verdict(&s, first);
                check_write_bytes(&s, first);
                let w = ref_walk(&s, first);
                if consistent(&s, &w) && !is_chain_number(w.end) {
                    check_decode::<6>(&s, first);
                    decoded += 1;
                }
                if first == 17 {
                    let _ = check_link_order(&s, 17);
                }
            }
        }
        assert!(decoded > 1000);
        println!("{} chains, {} consistent ones decoded", total, decoded);
    }
}
