//! C11 - IP defragmentation for every delivery history (see /verif/DESIGN.md section 5).
//!
//! Layers, every one running the real etherparse code:
//!  1. `IpFragRange::merge` is complete (all pairs of well formed ranges);
//!  2. `IpDefragBuf::add` as an inductive step from an ARBITRARY state satisfying the invariant `I`
//!     (below), `IpDefragBuf::new` as the induction base -> delivery histories of any length;
//!  3. bounded delivery histories on the real constructor (all cuttings of a <= 32 byte datagram,
//!     permutations, duplicates, recycled dirty buffers, rejected fragments in between);
//!  4. `IpDefragPool::process_sliced_packet`: the first packet of a stream on a pool with a
//!     recycled buffer (IPv4, IPv6, no IP layer).
//!     NOT reached at pool level: two or more deliveries into one pool. One call of
//!     `process_sliced_packet` costs CBMC 1.2-2 million SAT variables (the discriminants of
//!     `NetSlice` / the map's `Entry` are niche-encoded and not constant for the symbolic
//!     execution, so the IPv4, IPv6 and no-IP arms and the occupied/vacant arms are all followed and
//!     merged), the second call into the same pool exceeds 16 GB. Stream separation inside the pool
//!     therefore rests on layer 2/3 (each stream has its own `IpDefragBuf`) plus reading the ~50
//!     lines of dispatch; `check_key` below decides the stream key for all packets once the pool
//!     exposes its packet -> (key, offset, MF, payload) step (hook proposal in the C11 report).
//!
//! The oracles are ghost computations on interval sets / bit masks written from RFC 791 (3.2
//! "Fragmentation and Reassembly") and RFC 8200 (4.5); they share no code with etherparse.
//!
//! Invariant `I` of an `IpDefragBuf` (data, sections, end):
//!   (a) every section has start <= end <= data.len()
//!   (b) sections are pairwise disconnected (neither overlapping nor touching)
//!   (c) end = Some(e)  =>  data.len() == e  and some section ends at e
//!       (with (a): no section reaches beyond the end)
//! The content clause ("bytes under the sections are the bytes that were delivered") is checked
//! as a frame condition: `add` writes exactly the fragment bytes and changes nothing else.
//!
//! CBMC specifics that shaped the harnesses (measured, see the comments at the places):
//!  * pushing to / reserving in a `Vec` of symbolic length makes the symbolic execution follow the
//!    infeasible growth path into a reallocation of symbolic size; such objects must not pile up
//!    (`reseat`, constant-length construction + `truncate`);
//!  * a `copy_from_slice` into a packet array loses the constant header bytes (`put!`).

use crate::sym::{any, any_le, assume};
use crate::witness;
use etherparse::defrag::*;
use etherparse::*;

// ------------------------------------------------------------------------------------------
// 1. IpFragRange::merge
// ------------------------------------------------------------------------------------------

/// `merge` returns `Some` exactly for ranges that overlap or touch, and then their hull.
pub fn merge_complete() {
    let a = IpFragRange { start: any(), end: any() };
    let b = IpFragRange { start: any(), end: any() };
    // a range is "offset .. offset + length" (doc of the fields): start <= end
    assume(a.start <= a.end);
    assume(b.start <= b.end);
    // reference: two closed integer intervals are connected iff neither lies strictly behind the other
    let connected = !(a.end < b.start || b.end < a.start);
    let lo = if a.start < b.start { a.start } else { b.start };
    let hi = if a.end > b.end { a.end } else { b.end };
    let m = a.merge(b);
    let m2 = b.merge(a);
    witness!(m.is_some() && a.end == b.start, "touching");
    witness!(m.is_some() && a.start < b.start && b.end < a.end, "nested");
    witness!(m.is_none(), "disconnected");
    assert!(m.is_some() == connected);
    assert!(m2.is_some() == connected);
    if let Some(r) = m {
        assert!(r.start == lo);
        assert!(r.end == hi);
    }
    if let Some(r) = m2 {
        assert!(r.start == lo);
        assert!(r.end == hi);
    }
}

// ------------------------------------------------------------------------------------------
// 2. induction base: IpDefragBuf::new
// ------------------------------------------------------------------------------------------

/// `new` on recycled (dirty) vectors yields the empty state, which satisfies `I`.
pub fn buf_new() {
    let old: [u8; 8] = any();
    let n = any_le(8);
    let mut data = Vec::with_capacity(8);
    data.extend_from_slice(&old[..n]);
    let mut sections = Vec::with_capacity(4);
    let ns = any_le(2);
    if ns > 0 {
        sections.push(IpFragRange { start: any(), end: any() });
    }
    if ns > 1 {
        sections.push(IpFragRange { start: any(), end: any() });
    }
    let ipn: u8 = any();
    witness!(n == 8 && ns == 2, "dirty_buffers");
    let buf = IpDefragBuf::new(IpNumber(ipn), data, sections);
    assert!(buf.ip_number() == IpNumber(ipn));
    assert!(buf.data().len() == 0);
    assert!(buf.sections().len() == 0);
    assert!(buf.end().is_none());
    assert!(!buf.is_complete());
    // the recycled allocations are kept (that is the point of the pool)
    assert!(buf.data().capacity() >= 8);
    let (d, s) = buf.take_bufs();
    assert!(d.len() == 0 && s.len() == 0);
    core::mem::forget(d);
    core::mem::forget(s);
}

// ------------------------------------------------------------------------------------------
// 3. bounded histories on the real constructor
// ------------------------------------------------------------------------------------------

/// size of the datagram payload of the history harnesses
const HP: usize = 32;
/// 8 byte blocks in HP
const HB: usize = HP / 8;

/// ghost state of a history
struct Hist {
    p: [u8; HP],
    len: usize,
    nb: usize,
    cuts: u8,
    ipn: u8,
    /// blocks delivered so far
    cover: u8,
    /// the last fragment (MF = 0) was delivered
    end_known: bool,
    completions: u8,
}

impl Hist {
    /// a fragment boundary at byte 8*j (the end of the datagram counts as one)
    fn is_cut(&self, j: usize) -> bool {
        j >= self.nb || (j >= 1 && (self.cuts >> (j - 1)) & 1 == 1)
    }
    fn full(&self) -> u8 {
        ((1u16 << self.nb) - 1) as u8
    }

    /// one delivery (loop free on the harness side)
    fn deliver<M: Mode>(&mut self, buf: &mut IpDefragBuf, is_last_delivery: bool, is_first_delivery: bool) {
        if !M::reject(self, buf) {
            self.deliver_fragment(buf, is_last_delivery, is_first_delivery);
        }
        self.observe(buf);
    }

    /// a fragment of the cutting: starts at a boundary, runs to the next one
    fn deliver_fragment(&mut self, buf: &mut IpDefragBuf, is_last_delivery: bool, is_first_delivery: bool) {
        let len = self.len;
        let nb = self.nb;
        let full = self.full();
        let sb = any_le(HB - 1);
        assume(sb < nb && (sb == 0 || self.is_cut(sb)));
        let eb = if self.is_cut(sb + 1) {
            sb + 1
        } else if self.is_cut(sb + 2) {
            sb + 2
        } else if self.is_cut(sb + 3) {
            sb + 3
        } else {
            HB
        };
        // eb <= nb because is_cut(nb) holds by definition
        let last = eb >= nb;
        let fstart = sb * 8;
        let fend = if last { len } else { eb * 8 };
        let was_complete = self.cover == full;
        self.cover |= (((1u16 << eb) - 1) & !((1u16 << sb) - 1)) as u8 & full;
        self.end_known = self.end_known || last;
        let r = buf.add(IpFragOffset::try_new(sb as u16).unwrap(), !last, &self.p[fstart..fend]);
        assert!(r.is_ok(), "a fragment of the datagram is accepted");
        let complete = self.cover == full;
        if complete && !was_complete {
            self.completions += 1;
            witness!(is_last_delivery, "completes_on_last_delivery");
            witness!(is_first_delivery, "single_fragment_datagram");
            witness!(sb == 0 && nb >= 3 && self.cuts & 3 == 3, "first_fragment_arrives_last_of_3");
        }
        assert!(buf.is_complete() == complete, "complete exactly when every block arrived");
    }

    /// a fragment that must be rejected (symbolic kind); false: none delivered
    fn deliver_reject(&mut self, buf: &mut IpDefragBuf) -> bool {
        let len = self.len;
        let bad: u8 = any();
        if bad == 0 {
            return false;
        }
        let off: u16 = any();
        assume(off < 0x2000);
        let more: bool = any();
        let junk: [u8; 16] = any();
        let jl = any_le(16);
        let fend = off as usize * 8 + jl;
        let e = buf.add(IpFragOffset::try_new(off).unwrap(), more, &junk[..jl]);
        if bad == 1 {
            // RFC 791: every fragment but the last carries a multiple of 8 bytes
            assume(more && jl % 8 != 0 && fend <= 0xffff);
            witness!(true, "reject_unaligned");
            assert!(
                e == Err(IpDefragError::UnalignedFragmentPayloadLen {
                    offset: IpFragOffset::try_new(off).unwrap(),
                    payload_len: jl
                })
            );
        } else if bad == 2 {
            // a datagram is at most 65535 bytes long
            assume(fend > 0xffff && !(more && jl % 8 != 0));
            witness!(true, "reject_oversized");
            assert!(
                e == Err(IpDefragError::SegmentTooBig {
                    offset: IpFragOffset::try_new(off).unwrap(),
                    payload_len: jl,
                    max: 0xffff
                })
            );
        } else {
            // the end of the datagram is known: nothing may lie behind it, no other end
            assume(bad == 3 && self.end_known && fend <= 0xffff && !(more && jl % 8 != 0));
            assume(fend > len || (!more && fend != len));
            witness!(more, "reject_beyond_end");
            witness!(!more && fend < len, "reject_second_end");
            assert!(
                e == Err(IpDefragError::ConflictingEnd {
                    previous_end: len as u16,
                    conflicting_end: fend as u16
                })
            );
        }
        // the rejected fragment leaves no trace (`observe` sees the same state as before)
        assert!(buf.is_complete() == (self.cover == self.full()));
        true
    }

    /// observable state after a delivery
    fn observe(&self, buf: &IpDefragBuf) {
        let len = self.len;
        if self.end_known {
            assert!(buf.end() == Some(len as u16));
            assert!(buf.data().len() == len);
        } else {
            assert!(buf.end().is_none());
        }
        let i = any_le(HP - 1);
        assume(i < len);
        if self.cover == self.full() {
            // the result: independent of the old bytes and of everything that was rejected
            assert!(buf.data()[i] == self.p[i], "reassembled bytes equal the datagram");
            assert!(buf.ip_number() == IpNumber(self.ipn));
            assert!(buf.sections().len() == 1);
        } else if (self.cover >> (i / 8)) & 1 == 1 {
            // every block that arrived is in place already (no later delivery has to repair it)
            assert!(buf.data()[i] == self.p[i]);
        }
    }
}

/// whether a history may contain fragments that have to be rejected
trait Mode {
    fn reject(h: &mut Hist, buf: &mut IpDefragBuf) -> bool;
}
struct Clean;
impl Mode for Clean {
    fn reject(_: &mut Hist, _: &mut IpDefragBuf) -> bool {
        false
    }
}
struct WithRejects;
impl Mode for WithRejects {
    fn reject(h: &mut Hist, buf: &mut IpDefragBuf) -> bool {
        h.deliver_reject(buf)
    }
}

/// Moves the state of a buffer into fresh allocations of constant capacity: same data bytes
/// (including the stale bytes behind `len`, which is what a later `set_len` would expose), same
/// length, same sections in the same order, same `end`, same ip number - the identity on
/// everything `IpDefragBuf` consists of. Purpose: every `add` makes the symbolic execution
/// follow two infeasible growth paths (`try_reserve`, `push`) into reallocations of symbolic
/// size; without re-seating those objects pile up in the points-to sets and CBMC runs out of
/// memory at the fourth delivery (measured: > 25 GB).
#[cfg(feature = "hooks")]
fn reseat(buf: IpDefragBuf) -> IpDefragBuf {
    let ipn = buf.ip_number();
    let end = buf.end();
    let (d, s) = buf.take_bufs();
    // the histories never need more than the recycled capacity
    assert!(d.len() <= HP && d.capacity() >= HP);
    assert!(s.len() <= 3 && s.capacity() >= 4);
    let mut nd: Vec<u8> = Vec::with_capacity(HP);
    let mut ns: Vec<IpFragRange> = Vec::with_capacity(4);
    unsafe {
        core::ptr::copy_nonoverlapping(d.as_ptr(), nd.as_mut_ptr(), HP);
        nd.set_len(d.len());
        core::ptr::copy_nonoverlapping(s.as_ptr(), ns.as_mut_ptr(), 4);
        ns.set_len(s.len());
    }
    core::mem::forget(d);
    core::mem::forget(s);
    IpDefragBuf::verif_from_parts(ipn, nd, ns, end)
}
#[cfg(not(feature = "hooks"))]
fn reseat(buf: IpDefragBuf) -> IpDefragBuf {
    buf
}

/// One datagram, one cutting, a symbolic sequence of `NDELIV` deliveries.
///
/// * payload `p[..len]`, 1 <= len <= 32, arbitrary bytes
/// * cutting: a symbolic subset of the 8-aligned boundaries inside the payload (all 2^3 subsets,
///   i.e. every way of cutting a <= 32 byte datagram: 1 to 4 fragments)
/// * every delivery picks an arbitrary fragment of the cutting (so all permutations and all
///   duplications of length `NDELIV` are covered), or - if `REJECTS` - a fragment that has to be
///   rejected (unaligned, oversized, or conflicting with the already announced end)
/// * the data buffer is recycled: capacity 32 and pre-filled with independent symbolic bytes, the
///   section buffer is recycled with stale entries
///
/// Checked after every delivery: accepted fragments return `Ok`, the buffer reports completion
/// exactly from the delivery on that supplies the last missing block, at that point (and ever
/// after) `data` equals the payload - for every value of the old bytes - and `end` its length;
/// rejected fragments return the documented error value and change nothing.
fn history<const NDELIV: usize, M: Mode>() {
    let p: [u8; HP] = any();
    let len = any_le(HP);
    assume(len >= 1);
    let cuts: u8 = any();
    assume(cuts < 8);
    // recycled buffers
    let old: [u8; HP] = any();
    let mut data = Vec::with_capacity(HP);
    data.extend_from_slice(&old);
    let mut sections = Vec::with_capacity(4);
    sections.push(IpFragRange { start: any(), end: any() });
    sections.push(IpFragRange { start: any(), end: any() });
    let ipn: u8 = any();
    let mut buf = IpDefragBuf::new(IpNumber(ipn), data, sections);
    let mut h = Hist { p, len, nb: (len + 7) / 8, cuts, ipn, cover: 0, end_known: false, completions: 0 };

    // NDELIV deliveries, unrolled by hand (keeps the unwind bound at the size of the section list)
    h.deliver::<M>(&mut buf, NDELIV == 1, true);
    if NDELIV >= 2 {
        buf = reseat(buf);
        h.deliver::<M>(&mut buf, NDELIV == 2, false);
    }
    if NDELIV >= 3 {
        buf = reseat(buf);
        h.deliver::<M>(&mut buf, NDELIV == 3, false);
    }
    if NDELIV >= 4 {
        buf = reseat(buf);
        h.deliver::<M>(&mut buf, NDELIV == 4, false);
    }
    if NDELIV >= 5 {
        buf = reseat(buf);
        h.deliver::<M>(&mut buf, NDELIV == 5, false);
    }
    if NDELIV >= 6 {
        buf = reseat(buf);
        h.deliver::<M>(&mut buf, NDELIV == 6, false);
    }
    assert!(NDELIV <= 6);

    assert!(h.completions <= 1);
    witness!(h.completions == 1 && old[0] != p[0], "completed_over_different_old_bytes");
    witness!(h.completions == 0 && h.cover != 0, "incomplete_history");
    let (dv, sv) = buf.take_bufs();
    if h.cover == h.full() {
        assert!(dv.len() == len);
    }
    core::mem::forget(dv);
    core::mem::forget(sv);
}

pub fn hist_3() {
    history::<3, Clean>()
}
pub fn hist_4() {
    history::<4, Clean>()
}
pub fn hist_6() {
    history::<6, Clean>()
}
pub fn hist_rej_4() {
    history::<4, WithRejects>()
}

// ------------------------------------------------------------------------------------------
// 2. inductive step: IpDefragBuf::add from an arbitrary state satisfying I
// ------------------------------------------------------------------------------------------

#[cfg(feature = "hooks")]
mod hooked {
    use super::*;

    /// bound on `data.len()` of the pre-state
    const SD: usize = 48;
    /// bound on the number of sections of the pre-state
    const SS: usize = 3;
    /// bound on the fragment length
    const SF: usize = 16;

    /// bits s..e of a 128 bit mask (e <= 127)
    fn mask(s: usize, e: usize) -> u128 {
        ((1u128 << e) - 1) & !((1u128 << s) - 1)
    }

    /// x lies in the closed interval of one of the first n sections
    fn in_closed(sec: &[IpFragRange], n: usize, x: u16) -> bool {
        (n > 0 && sec[0].start <= x && x <= sec[0].end)
            || (n > 1 && sec[1].start <= x && x <= sec[1].end)
            || (n > 2 && sec[2].start <= x && x <= sec[2].end)
            || (n > 3 && sec[3].start <= x && x <= sec[3].end)
    }

    fn disconnected(a: IpFragRange, b: IpFragRange) -> bool {
        a.end < b.start || b.end < a.start
    }

    /// An arbitrary buffer state satisfying `I` (<= 3 sections, <= 48 data bytes, any content) and
    /// the outcome of ONE `add` with an arbitrary fragment (any offset, either MF value, <= 16
    /// arbitrary bytes). The `add_step_*` harnesses below each check one group of post-conditions;
    /// together with `buf_new` they are an induction over delivery histories of any length.
    struct Step {
        g: [u8; SD],
        dlen: usize,
        nsec: usize,
        pre: [IpFragRange; SS],
        pre_end: Option<u16>,
        ipn: u8,
        off: u16,
        more: bool,
        f: [u8; SF],
        flen: usize,
        fstart: usize,
        fend: usize,
        buf: IpDefragBuf,
        r: Result<(), IpDefragError>,
        // ---- oracle: what is wrong with the fragment (RFC 791 / documented errors)
        /// offset*8 + len > 65535
        too_big: bool,
        /// MF set and length not a multiple of 8
        unaligned: bool,
        /// the end is already announced and the fragment reaches behind it or announces another end
        conflict: bool,
        /// the fragment announces an end (MF = 0) in front of bytes that were already received.
        /// (etherparse up to commit ce961c9 accepted such a fragment when it arrived AFTER the data
        /// behind it and rejected the data when it arrived after the end - conflict detection
        /// depended on the arrival order; fixed in 8266f77, asserted strictly here.)
        late_end: bool,
    }

    fn step() -> Step {
        // ---------------- arbitrary pre-state
        let g: [u8; SD] = any();
        let dlen = any_le(SD);
        let nsec = any_le(SS);
        let st: [u16; SS] = [any(), any(), any()];
        let en: [u16; SS] = [any(), any(), any()];
        let pre = [
            IpFragRange { start: st[0], end: en[0] },
            IpFragRange { start: st[1], end: en[1] },
            IpFragRange { start: st[2], end: en[2] },
        ];
        // I (a)
        assume(nsec < 1 || (st[0] <= en[0] && en[0] as usize <= dlen));
        assume(nsec < 2 || (st[1] <= en[1] && en[1] as usize <= dlen));
        assume(nsec < 3 || (st[2] <= en[2] && en[2] as usize <= dlen));
        // I (b)
        assume(nsec < 2 || disconnected(pre[0], pre[1]));
        assume(nsec < 3 || (disconnected(pre[0], pre[2]) && disconnected(pre[1], pre[2])));
        // I (c)
        let end_set: bool = any();
        if end_set {
            assume(
                (nsec > 0 && en[0] as usize == dlen)
                    || (nsec > 1 && en[1] as usize == dlen)
                    || (nsec > 2 && en[2] as usize == dlen),
            );
        }
        let pre_end = if end_set { Some(dlen as u16) } else { None };

        // Both vectors are filled to a constant length and then cut to the symbolic one: pushing to
        // a vector of symbolic length makes the symbolic execution follow the (infeasible) growth
        // path into a reallocation of symbolic size, which CBMC cannot digest.
        let mut data = Vec::with_capacity(SD);
        data.extend_from_slice(&g);
        data.truncate(dlen);
        let mut sections = Vec::with_capacity(SS + 1);
        sections.push(pre[0]);
        sections.push(pre[1]);
        sections.push(pre[2]);
        sections.truncate(nsec);
        let ipn: u8 = any();
        let mut buf = IpDefragBuf::verif_from_parts(IpNumber(ipn), data, sections, pre_end);

        // ---------------- arbitrary fragment
        let off: u16 = any();
        assume(off < 0x2000);
        let more: bool = any();
        let f: [u8; SF] = any();
        let flen = any_le(SF);
        let fstart = off as usize * 8;
        let fend = fstart + flen;

        let r = buf.add(IpFragOffset::try_new(off).unwrap(), more, &f[..flen]);

        let too_big = fend > 0xffff;
        let unaligned = more && flen % 8 != 0;
        let conflict = !too_big && end_set && (fend > dlen || (!more && fend != dlen));
        let late_end = !too_big
            && !more
            && !end_set
            && ((nsec > 0 && en[0] as usize > fend) || (nsec > 1 && en[1] as usize > fend) || (nsec > 2 && en[2] as usize > fend));
        Step { g, dlen, nsec, pre, pre_end, ipn, off, more, f, flen, fstart, fend, buf, r, too_big, unaligned, conflict, late_end }
    }

    impl Step {
        fn must_fail(&self) -> bool {
            self.too_big || self.unaligned || self.conflict || self.late_end
        }
        /// restricts to accepted consistent fragments and returns (post end, post data length)
        fn accepted(&self) -> (Option<u16>, usize) {
            assume(!self.must_fail() && self.r.is_ok());
            let post_end = if self.more { self.pre_end } else { Some(self.fend as u16) };
            // data: cut at the end if known, else long enough for everything seen so far
            let post_len = match post_end {
                Some(e) => e as usize,
                None => {
                    if self.dlen > self.fend {
                        self.dlen
                    } else {
                        self.fend
                    }
                }
            };
            (post_end, post_len)
        }
    }

    /// The call fails iff the fragment is unaligned, oversized, conflicts with the announced end, or
    /// announces an end in front of bytes that were already received; the error value names a fault
    /// that is present, with the right numbers; a rejected fragment leaves sections, end, data
    /// length and data bytes untouched.
    pub fn add_step_result() {
        let s = step();
        let sec = s.buf.sections();
        witness!(s.r.is_ok() && s.nsec == 3, "ok_3_sections");
        witness!(s.r.is_ok() && s.fend > SD + 64, "ok_far_out");
        witness!(s.r.is_ok() && s.flen == 0, "ok_empty_fragment");
        if !s.must_fail() {
            assert!(s.r.is_ok(), "consistent fragment must be accepted");
            core::mem::forget(s);
            return;
        }
        witness!(s.too_big, "err_too_big");
        witness!(s.unaligned, "err_unaligned");
        witness!(s.conflict && s.more, "err_beyond_end");
        witness!(s.conflict && !s.more && s.fend < s.dlen, "err_second_end");
        witness!(s.late_end && !s.unaligned, "err_end_in_front_of_received_data");
        assert!(s.r.is_err(), "inconsistent fragment must be rejected");
        match s.r {
            Err(IpDefragError::SegmentTooBig { offset, payload_len, max }) => {
                assert!(s.too_big);
                assert!(offset.value() == s.off && payload_len == s.flen && max == 0xffff);
            }
            Err(IpDefragError::UnalignedFragmentPayloadLen { offset, payload_len }) => {
                assert!(s.unaligned);
                assert!(offset.value() == s.off && payload_len == s.flen);
            }
            Err(IpDefragError::ConflictingEnd { previous_end, conflicting_end }) => {
                assert!(s.conflict || s.late_end);
                assert!(conflicting_end as usize == s.fend);
                if s.conflict {
                    // the announced end
                    assert!(previous_end as usize == s.dlen);
                } else {
                    // how far the received data reaches (the largest section end)
                    let m0 = if s.nsec > 0 { s.pre[0].end } else { 0 };
                    let m1 = if s.nsec > 1 && s.pre[1].end > m0 { s.pre[1].end } else { m0 };
                    let m2 = if s.nsec > 2 && s.pre[2].end > m1 { s.pre[2].end } else { m1 };
                    assert!(previous_end == m2);
                }
            }
            Err(IpDefragError::AllocationFailure { .. }) => {
                assert!(false, "allocation never fails here");
            }
            Ok(()) => {}
        }
        // a rejected fragment leaves no trace
        assert!(s.buf.end() == s.pre_end);
        assert!(s.buf.data().len() == s.dlen);
        assert!(sec.len() == s.nsec);
        let k = any_le(SS - 1);
        if k < s.nsec {
            assert!(sec[k] == s.pre[k]);
        }
        let i = any_le(SD - 1);
        if i < s.dlen {
            assert!(s.buf.data()[i] == s.g[i]);
        }
        core::mem::forget(s);
    }

    /// Accepted fragment: `end` is updated iff MF = 0, the data length follows, and the data bytes
    /// are the fragment bytes inside the fragment and the old bytes everywhere else (frame
    /// condition - hence bytes under sections always are delivered bytes).
    pub fn add_step_bytes() {
        let s = step();
        let (post_end, post_len) = s.accepted();
        assert!(s.buf.end() == post_end);
        assert!(s.buf.data().len() == post_len);
        assert!(s.buf.ip_number() == IpNumber(s.ipn));
        // i ranges over all positions
        let i: usize = any();
        assume(i < post_len);
        witness!(s.fstart <= i && i < s.fend && i < s.dlen, "overwrites_old_byte");
        witness!(s.fstart <= i && i < s.fend && i >= SD, "writes_into_grown_buffer");
        witness!(i < s.dlen && i >= s.fend, "keeps_byte_behind_fragment");
        if s.fstart <= i && i < s.fend {
            assert!(s.buf.data()[i] == s.f[i - s.fstart], "fragment bytes are stored at offset*8");
        } else if i < s.dlen {
            assert!(s.buf.data()[i] == s.g[i], "bytes outside the fragment are untouched");
        }
        core::mem::forget(s);
    }

    /// Accepted fragment: `I` holds again and the closed coverage of the sections is exactly the
    /// old coverage plus the fragment (with pairwise disconnected sections this fixes the section
    /// list up to order: the connected components of everything delivered).
    pub fn add_step_sections() {
        let s = step();
        let (post_end, post_len) = s.accepted();
        let sec = s.buf.sections();
        let n = sec.len();
        witness!(n == 1 && s.nsec == 3, "merges_all");
        witness!(n == 4, "4_sections_after");
        witness!(n == 2 && s.nsec == 3, "merges_two_of_three");
        assert!(n >= 1 && n <= s.nsec + 1);
        // a, b range over all index pairs
        let a = any_le(SS);
        let b = any_le(SS);
        if a < n {
            assert!(sec[a].start <= sec[a].end && sec[a].end as usize <= post_len);
            if b < n && a != b {
                assert!(disconnected(sec[a], sec[b]), "sections stay pairwise disconnected");
            }
        }
        if let Some(e) = post_end {
            assert!(
                (n > 0 && sec[0].end == e) || (n > 1 && sec[1].end == e) || (n > 2 && sec[2].end == e) || (n > 3 && sec[3].end == e)
            );
        }
        // x ranges over all positions
        let x: u16 = any();
        let in_frag = s.fstart <= x as usize && x as usize <= s.fend;
        assert!(in_closed(sec, n, x) == (in_closed(&s.pre, s.nsec, x) || in_frag));
        core::mem::forget(s);
    }

    /// Accepted fragment: `is_complete()` iff the end is known and no byte in front of it is
    /// missing (ghost coverage as a bit mask over byte positions, independent of the section list).
    pub fn add_step_complete() {
        let s = step();
        let (post_end, _) = s.accepted();
        let complete = s.buf.is_complete();
        witness!(complete && s.nsec == 2 && s.pre_end.is_none(), "completes_by_last_fragment");
        witness!(complete && s.nsec == 2 && s.pre_end.is_some() && s.more, "completes_by_hole_fill");
        witness!(!complete && post_end.is_some() && s.buf.sections().len() == 1, "one_section_but_head_missing");
        witness!(!complete && post_end.is_none() && s.buf.sections().len() == 1 && s.buf.sections()[0].start == 0, "all_there_but_end_unknown");
        if s.fend <= 127 {
            let mut cover: u128 = mask(s.fstart, s.fend);
            if s.nsec > 0 {
                cover |= mask(s.pre[0].start as usize, s.pre[0].end as usize);
            }
            if s.nsec > 1 {
                cover |= mask(s.pre[1].start as usize, s.pre[1].end as usize);
            }
            if s.nsec > 2 {
                cover |= mask(s.pre[2].start as usize, s.pre[2].end as usize);
            }
            let expect = match post_end {
                Some(e) => cover & mask(0, e as usize) == mask(0, e as usize),
                None => false,
            };
            assert!(complete == expect, "complete iff end known and every byte before it delivered");
        } else {
            // the fragment starts behind everything in the pre-state (>= 111 > 48): byte 48.. is missing
            assert!(!complete);
        }
        core::mem::forget(s);
    }
}
// ------------------------------------------------------------------------------------------
// 4. IpDefragPool::process_sliced_packet, first packet of a stream
// ------------------------------------------------------------------------------------------

#[cfg(feature = "hooks")]
mod pool {
    use super::*;

    /// payload bytes carried by a packet of the pool harnesses (symbolic length 0..=FL)
    const FL: usize = 8;

    /// identity of a datagram ("stream") and the bytes of one fragment
    #[derive(Clone, Copy)]
    struct Stream {
        /// number of 802.1Q tags (0..=2) and their VLAN ids (12 bit)
        ntags: u8,
        vid: [u16; 2],
        /// IPv4: first 4 bytes are used
        src: [u8; 16],
        dst: [u8; 16],
        /// IPv4: low 16 bit are used
        ident: u32,
        proto: u8,
        chan: u8,
        p: [u8; FL],
    }

    fn stream<const V6: bool>() -> Stream {
        let s = Stream {
            ntags: any(),
            vid: [any(), any()],
            src: any(),
            dst: any(),
            ident: any(),
            proto: any(),
            chan: any(),
            p: any(),
        };
        assume(s.ntags <= 2 && s.vid[0] < 0x1000 && s.vid[1] < 0x1000);
        // Payload protocol: anything that etherparse does not slice as an IP extension header.
        // (For those it goes on parsing *inside the fragment data*, also in non-first fragments -
        // a convention of the slicing layer, out of scope here.)
        if V6 {
            assume(s.proto != 0 && s.proto != 43 && s.proto != 44 && s.proto != 51 && s.proto != 60);
        } else {
            assume(s.proto != 51);
            assume(s.ident <= 0xffff);
        }
        s
    }

    /// `$b[$at + i] = $src[i]` for the listed constant i (no memcpy: keeps the constant header
    /// bytes - version, IHL, next header - constant for CBMC's symbolic execution)
    macro_rules! put {
        ($b:ident, $at:expr, $src:expr, $($i:literal)*) => { $( $b[$at + $i] = $src[$i]; )* };
    }

    const V4_LEN: usize = 20 + FL;
    const V6_LEN: usize = 40 + 8 + FL;

    /// 802.1Q tag: TCI (PCP, DEI, 12 bit VLAN id) + ether type of what follows
    fn vlan_tag(vid: u16, pcp_dei: u8, next: u16) -> [u8; 4] {
        [(pcp_dei & 0xf0) | (vid >> 8) as u8, vid as u8, (next >> 8) as u8, next as u8]
    }

    /// IPv4 header (RFC 791, no options) + `plen` <= 8 payload bytes (total length says so).
    /// `noise`: values of the fields that must not matter (TOS, DF, TTL, checksum).
    fn packet_v4(s: &Stream, off_units: u16, more: bool, plen: usize, noise: &[u8; 8]) -> [u8; V4_LEN] {
        let mut b = [0u8; V4_LEN];
        let total = (20 + plen) as u16;
        b[0] = 0x45;
        b[1] = noise[0];
        b[2] = (total >> 8) as u8;
        b[3] = total as u8;
        b[4] = (s.ident >> 8) as u8;
        b[5] = s.ident as u8;
        // flags: reserved 0, DF, MF; 13 bit offset in units of 8 bytes
        b[6] = (noise[1] & 0x40) | ((more as u8) << 5) | (off_units >> 8) as u8;
        b[7] = off_units as u8;
        b[8] = noise[2];
        b[9] = s.proto;
        b[10] = noise[3];
        b[11] = noise[4];
        put!(b, 12, s.src, 0 1 2 3);
        put!(b, 16, s.dst, 0 1 2 3);
        put!(b, 20, s.p, 0 1 2 3 4 5 6 7);
        b
    }

    /// IPv6 header + fragment header (RFC 8200 4.5) + `plen` <= 8 payload bytes.
    /// `noise`: traffic class, flow label, hop limit, reserved bits of the fragment header.
    fn packet_v6(s: &Stream, off_units: u16, more: bool, plen: usize, with_frag_header: bool, noise: &[u8; 8]) -> [u8; V6_LEN] {
        let mut b = [0u8; V6_LEN];
        let pl = (8 + plen) as u16;
        b[0] = 0x60 | (noise[0] >> 4);
        b[1] = noise[1];
        b[2] = noise[2];
        b[3] = noise[3];
        b[4] = (pl >> 8) as u8;
        b[5] = pl as u8;
        // next header: fragment header, or directly the payload (then the 8 bytes at 40 are payload)
        b[6] = if with_frag_header { 44 } else { s.proto };
        b[7] = noise[4];
        put!(b, 8, s.src, 0 1 2 3 4 5 6 7 8 9 10 11 12 13 14 15);
        put!(b, 24, s.dst, 0 1 2 3 4 5 6 7 8 9 10 11 12 13 14 15);
        b[40] = s.proto;
        b[41] = noise[5]; // reserved
        // 13 bit offset, 2 reserved bits, M flag
        b[42] = (off_units >> 5) as u8;
        b[43] = ((off_units << 3) as u8) | (noise[6] & 0x06) | more as u8;
        b[44] = (s.ident >> 24) as u8;
        b[45] = (s.ident >> 16) as u8;
        b[46] = (s.ident >> 8) as u8;
        b[47] = s.ident as u8;
        put!(b, 48, s.p, 0 1 2 3 4 5 6 7);
        b
    }

    /// Puts a data buffer of capacity 16 with arbitrary old content into the free list of the pool
    /// (public API: `return_buf`). A pool that has to allocate computes the capacity from the
    /// payload length of the packet, which CBMC sees merged over the IPv4 / IPv6 / no-IP arms of
    /// `process_sliced_packet` - an allocation of symbolic size. With a recycled buffer the
    /// interesting case (stale bytes in the buffer) is the one explored.
    fn seed(pool: &mut IpDefragPool<(), u8>) {
        let old: [u8; 16] = any();
        let mut v = Vec::with_capacity(16);
        v.extend_from_slice(&old);
        pool.return_buf(IpDefragPayloadVec { ip_number: IpNumber(0), len_source: LenSource::Slice, payload: v });
    }

    /// The first packet of a stream on a pool with one recycled buffer, through the real
    /// `process_sliced_packet`: arbitrary VLAN tags / addresses / identification / protocol /
    /// channel / ignored header fields, arbitrary fragment offset and MF flag, 0..=8 payload bytes.
    ///
    ///  * not fragmented (offset 0, MF 0; IPv6 also: no fragment header) -> `Ok(None)`, the pool is
    ///    untouched (no entry, buffer still in the free list);
    ///  * inconsistent fragment (MF with a length that is no multiple of 8, or reaching beyond 65535)
    ///    -> the documented error, no entry, both buffers back in the free lists;
    ///  * any other fragment -> `Ok(None)` (never a result on the first packet), exactly one entry,
    ///    buffer taken from the free list.
    ///
    /// The `SlicedPacket` is put together from the results of the per-layer slicers
    /// (`SingleVlanSlice::from_slice`, `Ipv4Slice::from_slice` / `Ipv6Slice::from_slice`): the pool
    /// reads `link_exts` (VLAN ids) and `net` only.
    fn pool_first<const V6: bool>() {
        with_first_packet::<V6, _>(check_first::<V6>);
    }

    /// symbolic parameters of the packet handed to the pool
    struct Pkt {
        s: Stream,
        off: u16,
        more: bool,
        plen: usize,
        with_frag_header: bool,
    }

    /// builds the symbolic packet and hands it to `f`
    fn with_first_packet<const V6: bool, F: FnOnce(&Pkt, &SlicedPacket)>(f: F) {
        let s = stream::<V6>();
        let noise: [u8; 8] = any();
        let off: u16 = any();
        assume(off < 0x2000);
        let more: bool = any();
        let plen = any_le(FL);
        // IPv6 only: a packet without fragment header (then offset / MF do not exist)
        let with_frag_header: bool = if V6 { any() } else { true };
        let ip_type: u16 = if V6 { 0x86dd } else { 0x0800 };
        let tag0 = vlan_tag(s.vid[0], noise[7], if s.ntags > 1 { 0x8100 } else { ip_type });
        let tag1 = vlan_tag(s.vid[1], noise[7] << 4, ip_type);
        let v4 = if V6 { [0u8; V4_LEN] } else { packet_v4(&s, off, more, plen, &noise) };
        let v6 = if V6 { packet_v6(&s, off, more, plen, with_frag_header, &noise) } else { [0u8; V6_LEN] };
        let mut sliced = SlicedPacket { link: None, link_exts: Default::default(), net: None, transport: None };
        if s.ntags > 0 {
            sliced.link_exts.push(LinkExtSlice::Vlan(SingleVlanSlice::from_slice(&tag0).unwrap()));
        }
        if s.ntags > 1 {
            sliced.link_exts.push(LinkExtSlice::Vlan(SingleVlanSlice::from_slice(&tag1).unwrap()));
        }
        sliced.net = Some(if V6 {
            NetSlice::Ipv6(Ipv6Slice::from_slice(&v6).unwrap())
        } else {
            NetSlice::Ipv4(Ipv4Slice::from_slice(&v4).unwrap())
        });
        f(&Pkt { s, off, more, plen, with_frag_header }, &sliced);
    }

    fn check_first<const V6: bool>(k: &Pkt, sliced: &SlicedPacket) {
        let (s, off, more, plen, with_frag_header) = (k.s, k.off, k.more, k.plen, k.with_frag_header);
        let mut pool = IpDefragPool::<(), u8>::new();
        seed(&mut pool);
        let r = pool.process_sliced_packet(sliced, (), s.chan);
        let c = pool.verif_counts();

        let fragmented = with_frag_header && (more || off != 0);
        let unaligned = more && plen % 8 != 0;
        let too_big = off as usize * 8 + plen > 0xffff;
        if !fragmented {
            witness!(true, "not_fragmented");
            witness!(!V6 || with_frag_header, "unfragmented_with_all_headers_present");
            assert!(matches!(r, Ok(None)), "unfragmented packets pass through");
            assert!(c.0 == 0 && c.1 == 1 && c.2 == 0, "... and leave the pool untouched");
        } else if unaligned || too_big {
            witness!(unaligned && !too_big, "unaligned_first_packet");
            witness!(too_big && !unaligned, "oversized_first_packet");
            match r {
                Err(IpDefragError::UnalignedFragmentPayloadLen { offset, payload_len }) => {
                    assert!(unaligned && offset.value() == off && payload_len == plen);
                }
                Err(IpDefragError::SegmentTooBig { offset, payload_len, max }) => {
                    assert!(too_big && offset.value() == off && payload_len == plen && max == 0xffff);
                }
                _ => assert!(false, "inconsistent fragment must be rejected with the documented error"),
            }
            assert!(c.0 == 0 && c.1 == 1 && c.2 == 1, "no entry, buffers back in the free lists");
        } else {
            witness!(off == 0, "first_fragment");
            witness!(off > 0 && !more, "last_fragment_first");
            witness!(s.ntags == 2, "double_tagged");
            assert!(matches!(r, Ok(None)), "nothing before the last missing byte");
            assert!(c.0 == 1 && c.1 == 0 && c.2 == 0, "one entry, recycled buffer in use");
        }
        core::mem::forget(r);
        core::mem::forget(pool);
    }

    /// The stream key and the fragment description the pool derives from a packet
    /// (needs the hook `IpDefragPool::verif_fragment_of`).
    #[cfg(feature = "hooks_extract")]
    fn check_key<const V6: bool>(k: &Pkt, sliced: &SlicedPacket) {
        let s = &k.s;
        let r = IpDefragPool::<(), u8>::verif_fragment_of(sliced, s.chan);
        let fragmented = k.with_frag_header && (k.more || k.off != 0);
        witness!(r.is_none(), "not_fragmented");
        witness!(r.is_some() && s.ntags == 2, "double_tagged_fragment");
        let Some((id, offset, more, payload, is_ipv4)) = r else {
            assert!(!fragmented);
            return;
        };
        assert!(fragmented);
        assert!(is_ipv4 == !V6);
        assert!(offset.value() == k.off && more == k.more);
        // every component of the key
        assert!(id.vlan_ids.len() == s.ntags as usize);
        assert!(s.ntags < 1 || id.vlan_ids[0].value() == s.vid[0]);
        assert!(s.ntags < 2 || id.vlan_ids[1].value() == s.vid[1]);
        assert!(id.payload_ip_number == IpNumber(s.proto));
        assert!(id.channel_id == s.chan);
        let i = any_le(15);
        match id.ip {
            IpFragVersionSpecId::Ipv4 { source, destination, identification } => {
                assert!(!V6);
                assume(i < 4);
                assert!(source[i] == s.src[i] && destination[i] == s.dst[i]);
                assert!(identification as u32 == s.ident);
            }
            IpFragVersionSpecId::Ipv6 { source, destination, identification } => {
                assert!(V6);
                assert!(source[i] == s.src[i] && destination[i] == s.dst[i]);
                assert!(identification == s.ident);
            }
        }
        // the fragment bytes and their protocol
        assert!(payload.ip_number == IpNumber(s.proto));
        assert!(payload.payload.len() == k.plen);
        let j = any_le(FL - 1);
        assume(j < k.plen);
        assert!(payload.payload[j] == s.p[j]);
    }
    #[cfg(feature = "hooks_extract")]
    pub fn pool_key_v4() {
        with_first_packet::<false, _>(check_key::<false>);
    }
    #[cfg(feature = "hooks_extract")]
    pub fn pool_key_v6() {
        with_first_packet::<true, _>(check_key::<true>);
    }

    /// The stream key the pool stores for the first fragment of a datagram (hook `verif_first_active_id`): every
    /// component - VLAN ids, source, destination, identification, payload protocol, channel - comes from the
    /// right header field. Two datagrams are the same stream iff these components are equal, so this decides
    /// "streams never mix" at the key level for every packet.
    fn check_stored_key<const V6: bool>(k: &Pkt, sliced: &SlicedPacket) {
        let s = &k.s;
        let fragmented = k.with_frag_header && (k.more || k.off != 0);
        let unaligned = k.more && k.plen % 8 != 0;
        let too_big = k.off as usize * 8 + k.plen > 0xffff;
        assume(fragmented && !unaligned && !too_big);
        let mut pool = IpDefragPool::<(), u8>::new();
        seed(&mut pool);
        let r = pool.process_sliced_packet(sliced, (), s.chan);
        assert!(matches!(r, Ok(None)));
        assert!(pool.verif_counts().0 == 1, "exactly one stream is being reconstructed");
        let id = pool.verif_first_active_id().expect("one active stream");
        witness!(s.ntags == 2, "double_tagged_fragment");
        assert!(id.vlan_ids.len() == s.ntags as usize, "key: number of VLAN ids");
        assert!(s.ntags < 1 || id.vlan_ids[0].value() == s.vid[0], "key: outer VLAN id");
        assert!(s.ntags < 2 || id.vlan_ids[1].value() == s.vid[1], "key: inner VLAN id");
        assert!(id.payload_ip_number == IpNumber(s.proto), "key: payload protocol");
        assert!(id.channel_id == s.chan, "key: channel");
        let i = any_le(15);
        match &id.ip {
            IpFragVersionSpecId::Ipv4 { source, destination, identification } => {
                assert!(!V6);
                assume(i < 4);
                assert!(source[i] == s.src[i], "key: IPv4 source");
                assert!(destination[i] == s.dst[i], "key: IPv4 destination");
                assert!(*identification as u32 == s.ident, "key: IPv4 identification");
            }
            IpFragVersionSpecId::Ipv6 { source, destination, identification } => {
                assert!(V6);
                assert!(source[i] == s.src[i], "key: IPv6 source");
                assert!(destination[i] == s.dst[i], "key: IPv6 destination");
                assert!(*identification == s.ident, "key: IPv6 identification");
            }
        }
        core::mem::forget(r);
        core::mem::forget(pool);
    }
    pub fn pool_stored_key_v4() {
        with_first_packet::<false, _>(check_stored_key::<false>);
    }
    pub fn pool_stored_key_v6() {
        with_first_packet::<true, _>(check_stored_key::<true>);
    }

    pub fn pool_first_v4() {
        pool_first::<false>()
    }
    pub fn pool_first_v6() {
        pool_first::<true>()
    }

    /// packets without an IP layer (ARP, unknown ether type, ...) pass through untouched
    pub fn pool_non_ip() {
        let arp: [u8; 28] = any();
        let is_arp: bool = any();
        let mut sliced = SlicedPacket { link: None, link_exts: Default::default(), net: None, transport: None };
        if is_arp {
            let a = ArpPacketSlice::from_slice(&arp);
            assume(a.is_ok());
            sliced.net = Some(NetSlice::Arp(a.unwrap()));
        }
        witness!(is_arp, "arp");
        witness!(!is_arp, "no_net_layer");
        let mut pool = IpDefragPool::<(), u8>::new();
        seed(&mut pool);
        let r = pool.process_sliced_packet(&sliced, (), any());
        let c = pool.verif_counts();
        assert!(matches!(r, Ok(None)));
        assert!(c.0 == 0 && c.1 == 1 && c.2 == 0);
        core::mem::forget(r);
        core::mem::forget(pool);
    }
}
#[cfg(feature = "hooks")]
pub use pool::*;

#[cfg(feature = "hooks")]
pub use hooked::*;

#[cfg(feature = "hooks")]
crate::harnesses! {
    c11_merge_complete = merge_complete; unwind 2,
    c11_buf_new = buf_new; unwind 4,
    c11_add_step_result = add_step_result; unwind 5,
    c11_add_step_bytes = add_step_bytes; unwind 5,
    c11_add_step_sections = add_step_sections; unwind 5,
    c11_add_step_complete = add_step_complete; unwind 5,
    c11_hist_3 = hist_3; unwind 4,
    c11_hist_4 = hist_4; unwind 4,
    c11_hist_6 = hist_6; unwind 4,
    c11_hist_rej_4 = hist_rej_4; unwind 4,
    c11_pool_first_v4 = pool_first_v4; unwind 5,
    c11_pool_first_v6 = pool_first_v6; unwind 5,
    c11_pool_non_ip = pool_non_ip; unwind 5,
    c11_pool_stored_key_v4 = pool_stored_key_v4; unwind 5,
    c11_pool_stored_key_v6 = pool_stored_key_v6; unwind 5,
}
// without the hooks (native replay binary): the harnesses that need no hook; the history harnesses
// then run without re-seating (natively that makes no difference)
#[cfg(not(feature = "hooks"))]
crate::harnesses! {
    c11_merge_complete = merge_complete; unwind 2,
    c11_buf_new = buf_new; unwind 4,
    c11_hist_3 = hist_3; unwind 4,
    c11_hist_4 = hist_4; unwind 4,
    c11_hist_6 = hist_6; unwind 4,
    c11_hist_rej_4 = hist_rej_4; unwind 4,
}
