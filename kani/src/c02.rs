//! C02-only harnesses (the decoder bodies are shared with C01, see reg/c02.py):
//! formatters of errors / results into a no-op sink, and one-step progress of the iterators.

use crate::sym::{any, any_le, assume};
use crate::tight::Tight;
use crate::witness;
use core::fmt::Write;
use etherparse::err::{self, Layer, LenError, ValueTooBigError, ValueType};
use etherparse::*;

/// formatting target that stores nothing (the subject is the crate's `fmt` code, not an allocator)
pub struct Sink(pub usize);
impl Write for Sink {
    fn write_str(&mut self, s: &str) -> core::fmt::Result {
        self.0 = self.0.wrapping_add(s.len());
        Ok(())
    }
}

macro_rules! show {
    ($v:expr) => {{
        let mut s = Sink(0);
        assert!(write!(s, "{}", $v).is_ok(), "C02: Display returned an error");
        assert!(write!(s, "{:?}", $v).is_ok(), "C02: Debug returned an error");
        assert!(s.0 > 0);
    }};
}
macro_rules! show_dbg {
    ($v:expr) => {{
        let mut s = Sink(0);
        assert!(write!(s, "{:?}", $v).is_ok(), "C02: Debug returned an error");
        assert!(s.0 > 0);
    }};
}

pub fn any_layer() -> Layer {
    use Layer::*;
    const ALL: [Layer; 26] = [
        LinuxSllHeader, Ethernet2Header, EtherPayload, VlanHeader, MacsecHeader, MacsecPacket, IpHeader, Ipv4Header,
        Ipv4Packet, IpAuthHeader, Ipv6Header, Ipv6Packet, Ipv6ExtHeader, Ipv6HopByHopHeader, Ipv6DestOptionsHeader,
        Ipv6RouteHeader, Ipv6FragHeader, UdpHeader, UdpPayload, TcpHeader, Icmpv4, Icmpv4Timestamp, Icmpv4TimestampReply,
        Icmpv6, Igmp, Arp,
    ];
    ALL[any_le(25)]
}

pub fn any_len_source() -> LenSource {
    use LenSource::*;
    const ALL: [LenSource; 7] =
        [Slice, MacsecShortLength, Ipv4HeaderTotalLen, Ipv6HeaderPayloadLen, UdpHeaderLen, TcpHeaderLen, ArpAddrLengths];
    ALL[any_le(6)]
}

pub fn any_len_error() -> LenError {
    LenError {
        required_len: any(),
        len: any(),
        len_source: any_len_source(),
        layer: any_layer(),
        layer_start_offset: any(),
    }
}

/// every field value of a length error renders (both message forms, with and without offset);
/// `SMALL`: numbers below 1000 (three digit loops), otherwise the complete usize range
pub fn fmt_len_error<const SMALL: bool>() {
    let e = any_len_error();
    if SMALL {
        assume(e.required_len < 1000 && e.len < 1000 && e.layer_start_offset < 1000);
    }
    witness!(e.required_len > e.len && e.layer_start_offset > 0, "missing_with_offset");
    witness!(e.required_len <= e.len && e.layer_start_offset == 0, "too_big_no_offset");
    show!(e);
}

/// content errors of every layer with arbitrary carried values
pub fn fmt_content_errors<const K: u8>() {
    let k: u8 = K;
    match k {
        0 => show!(err::ip::HeaderError::UnsupportedIpVersion { version_number: any() }),
        1 => show!(err::ip::HeaderError::Ipv4HeaderLengthSmallerThanHeader { ihl: any() }),
        2 => show!(err::ipv4::HeaderError::UnexpectedVersion { version_number: any() }),
        3 => show!(err::ipv4::HeaderError::HeaderLengthSmallerThanHeader { ihl: any() }),
        4 => show!(err::ipv6::HeaderError::UnexpectedVersion { version_number: any() }),
        5 => show!(err::ipv6_exts::HeaderError::HopByHopNotAtStart),
        6 => show!(err::ipv6_exts::HeaderError::IpAuth(err::ip_auth::HeaderError::ZeroPayloadLen)),
        7 => show!(err::tcp::HeaderError::DataOffsetTooSmall { data_offset: any() }),
        8 => show!(err::macsec::HeaderError::UnexpectedVersion),
        9 => show!(err::macsec::HeaderError::InvalidUnmodifiedShortLen),
        10 => show!(err::linux_sll::HeaderError::UnsupportedPacketTypeField { packet_type: any() }),
        _ => show!(err::linux_sll::HeaderError::UnsupportedArpHardwareId { arp_hardware_type: ArpHardwareId(any()) }),
    }
}

/// the whole-packet error wrapper in each variant
pub fn fmt_packet_slice_error<const K: u8>() {
    use err::packet::SliceError as E;
    let k: u8 = K;
    let e = match k {
        0 => E::Len(any_len_error()),
        1 => E::LinuxSll(err::linux_sll::HeaderError::UnsupportedPacketTypeField { packet_type: any() }),
        2 => E::Macsec(err::macsec::HeaderError::UnexpectedVersion),
        3 => E::Ip(err::ip::HeaderError::UnsupportedIpVersion { version_number: any() }),
        4 => E::Ipv4(err::ipv4::HeaderError::HeaderLengthSmallerThanHeader { ihl: any() }),
        5 => E::Ipv6(err::ipv6::HeaderError::UnexpectedVersion { version_number: any() }),
        6 => E::Ipv4Exts(err::ip_auth::HeaderError::ZeroPayloadLen),
        7 => E::Ipv6Exts(err::ipv6_exts::HeaderError::HopByHopNotAtStart),
        _ => E::Tcp(err::tcp::HeaderError::DataOffsetTooSmall { data_offset: any() }),
    };
    show!(e);
}

pub fn fmt_value_too_big<const K: u8>() {
    use ValueType::*;
    const ALL: [ValueType; 17] = [
        VlanId, VlanPcp, MacsecAn, MacsecShortLen, IpFragmentOffset, IpDscp, IpEcn, Ipv6FlowLabel, Ipv4PayloadLength,
        Ipv6PayloadLength, UdpPayloadLengthIpv4, UdpPayloadLengthIpv6, TcpPayloadLengthIpv4, TcpPayloadLengthIpv6,
        Icmpv6PayloadLength, LinuxSllType, IgmpQrv,
    ];
    let vt = ALL[any_le(16)];
    let k: u8 = K;
    match k {
        0 => show!(ValueTooBigError::<u8> { actual: any(), max_allowed: any(), value_type: vt }),
        1 => show!(ValueTooBigError::<u16> { actual: any(), max_allowed: any(), value_type: vt }),
        _ => show!(ValueTooBigError::<usize> { actual: any(), max_allowed: any(), value_type: vt }),
    }
}

/// number newtypes with hand written Debug (name tables over the complete value range)
pub fn fmt_numbers<const K: u8>() {
    let k: u8 = K;
    match k {
        0 => show_dbg!(EtherType(any())),
        1 => {
            let n = IpNumber(any());
            show_dbg!(n);
            core::mem::forget(n.keyword_str());
            core::mem::forget(n.protocol_str());
            core::mem::forget(n.is_ipv6_ext_header_value());
        }
        2 => show_dbg!(ArpHardwareId(any())),
        3 => {
            if let Ok(t) = LinuxSllPacketType::try_from(any::<u16>()) {
                show_dbg!(t);
            }
        }
        _ => {
            if let Ok(t) = LinuxNonstandardEtherType::try_from(any::<u16>()) {
                show_dbg!(t);
            }
        }
    }
}

/// Debug of the link layer slices (custom impls that re-decode header and payload)
pub fn fmt_link_slices<const K: u8>() {
    let k: u8 = K;
    match k {
        0 => {
            let d: [u8; 15] = any();
            show_dbg!(Ethernet2Slice::from_slice_without_fcs(&d).unwrap());
        }
        1 => {
            let d: [u8; 5] = any();
            show_dbg!(SingleVlanSlice::from_slice(&d).unwrap());
        }
        _ => {
            let d: [u8; 17] = any();
            if let Ok(s) = LinuxSllSlice::from_slice(&d) {
                show_dbg!(s);
            }
        }
    }
}

/// Debug of UDP / ICMP results and headers decoded from symbolic bytes
pub fn fmt_transport_small<const K: u8>() {
    let d: [u8; 9] = any();
    let k: u8 = K;
    match k {
        0 => {
            if let Ok(u) = UdpSlice::from_slice_lax(&d) {
                show_dbg!(u);
                show_dbg!(u.to_header());
            }
        }
        1 => {
            if let Ok(i) = Icmpv4Slice::from_slice(&d) {
                show_dbg!(i.header());
            }
        }
        _ => {
            if let Ok(i) = Icmpv6Slice::from_slice(&d) {
                show_dbg!(i.header());
            }
        }
    }
}

// ------------------------------------------------------------------ iterator progress (inductive steps)

/// One `next()` of the extension iterator from an ARBITRARY state over an arbitrary validated chain suffix:
/// it returns `None`, or hands out a header and leaves a strictly shorter remainder. Together with
/// "a yielded header has at least 8 bytes" this bounds the number of items by len/8 for chains of any length.
pub fn ext_iter_step() {
    let data: [u8; 24] = any();
    let s = &data[..any_le(24)];
    let first: u8 = any();
    // states reachable from the public API: a slice produced by the decoders (strict or lax)
    let lax: bool = any();
    let x = if lax {
        Ipv6ExtensionsSlice::from_slice_lax(IpNumber(first), s).0
    } else {
        match Ipv6ExtensionsSlice::from_slice(IpNumber(first), s) {
            Ok(v) => v.0,
            Err(_) => return,
        }
    };
    let mut it = x.clone().into_iter();
    let before = x.slice().len();
    match it.next() {
        Some(h) => {
            witness!(true, "yields");
            let l = match h {
                Ipv6ExtensionSlice::HopByHop(r) | Ipv6ExtensionSlice::Routing(r) | Ipv6ExtensionSlice::DestinationOptions(r) => r.slice().len(),
                Ipv6ExtensionSlice::Fragment(f) => f.slice().len(),
                Ipv6ExtensionSlice::Authentication(a) => a.slice().len(),
            };
            assert!(l >= 8 && l <= before, "C02: a yielded extension header must consume at least 8 bytes of the chain");
        }
        None => {
            witness!(true, "ends");
        }
    }
}

/// `skip_all_header_extensions_in_slice` terminates and consumes the chain (bounded run, unwinding-checked)
pub fn skip_all_exts() {
    let t = Tight::<24>::new(any_le(24));
    let s = t.slice();
    let first: u8 = any();
    match Ipv6Header::skip_all_header_extensions_in_slice(s, IpNumber(first)) {
        Ok((next, rest)) => {
            witness!(rest.len() + 16 <= s.len(), "skipped_two");
            assert!(crate::tight::inside(s, rest), "C01: returned sub-slice lies outside the input slice");
            assert!(!Ipv6Header::is_skippable_header_extension(next) || rest.len() == s.len() || true);
        }
        Err(e) => {
            witness!(e.layer_start_offset > 0, "err_behind_a_header");
            assert!(e.layer_start_offset <= s.len());
        }
    }
    match Ipv6Header::skip_header_extension_in_slice(s, IpNumber(first)) {
        Ok((_n, rest)) => assert!(crate::tight::inside(s, rest), "C01: returned sub-slice lies outside the input slice"),
        Err(_) => {}
    }
}

crate::harnesses! {
    c02_fmt_len_error_small = fmt_len_error::<true>; unwind 20,
    c02_fmt_len_error = fmt_len_error::<false>; unwind 24,
    c02_fmt_content_ip_version = fmt_content_errors::<0>; unwind 8,
    c02_fmt_content_ip_ihl = fmt_content_errors::<1>; unwind 8,
    c02_fmt_content_ipv4_version = fmt_content_errors::<2>; unwind 8,
    c02_fmt_content_ipv4_ihl = fmt_content_errors::<3>; unwind 8,
    c02_fmt_content_ipv6_version = fmt_content_errors::<4>; unwind 8,
    c02_fmt_content_hbh = fmt_content_errors::<5>; unwind 8,
    c02_fmt_content_auth = fmt_content_errors::<6>; unwind 8,
    c02_fmt_content_tcp = fmt_content_errors::<7>; unwind 8,
    c02_fmt_content_macsec_version = fmt_content_errors::<8>; unwind 8,
    c02_fmt_content_macsec_sl = fmt_content_errors::<9>; unwind 8,
    c02_fmt_content_sll_packet_type = fmt_content_errors::<10>; unwind 8,
    c02_fmt_content_sll_hw = fmt_content_errors::<11>; unwind 8,
    c02_fmt_packet_err_sll = fmt_packet_slice_error::<1>; unwind 8,
    c02_fmt_packet_err_ip = fmt_packet_slice_error::<3>; unwind 8,
    c02_fmt_packet_err_tcp = fmt_packet_slice_error::<8>; unwind 8,
    c02_fmt_value_too_big_u8 = fmt_value_too_big::<0>; unwind 8,
    c02_fmt_value_too_big_u16 = fmt_value_too_big::<1>; unwind 8,
    c02_fmt_value_too_big_usize = fmt_value_too_big::<2>; unwind 24,
    c02_fmt_ether_type = fmt_numbers::<0>; unwind 8,
    c02_fmt_ip_number = fmt_numbers::<1>; unwind 8,
    c02_fmt_arp_hw_id = fmt_numbers::<2>; unwind 8,
    c02_fmt_sll_packet_type = fmt_numbers::<3>; unwind 8,
    c02_fmt_linux_nonstandard = fmt_numbers::<4>; unwind 8,
    c02_fmt_eth2_slice = fmt_link_slices::<0>; unwind 8,
    c02_fmt_vlan_slice = fmt_link_slices::<1>; unwind 8,
    c02_fmt_sll_slice = fmt_link_slices::<2>; unwind 20,
    c02_fmt_udp = fmt_transport_small::<0>; unwind 12,
    c02_fmt_icmpv4 = fmt_transport_small::<1>; unwind 8,
    c02_fmt_icmpv6 = fmt_transport_small::<2>; unwind 8,
    c02_ext_iter_step = ext_iter_step; unwind 5,
    c02_skip_all_exts = skip_all_exts; unwind 5,
}
