//! C05 - lax parsing extends strict parsing and flags truncation honestly.
//!
//! Per lax entry point, on the same symbolic bytes: the lax result against the reference decoder run
//! in lax mode (prefix, payload range, `incomplete`, length source, where it stopped) and against the
//! strict sibling (strict Ok => identical result, no stop error, nothing incomplete).

use crate::c03::{check_len_error, layer_admissible, len_source_of};
use crate::refm::{self, Lim, RFault, RNet, RWalk, Start, Want, RL};
use crate::sym::{any, any_le, assume};
use crate::tight::off;
use crate::witness;
use etherparse::err::{self, Layer};
use etherparse::*;

fn same(a: &[u8], b: &[u8]) -> bool {
    a.as_ptr() == b.as_ptr() && a.len() == b.len()
}

// ------------------------------------------------------------------ MACsec

pub fn lax_macsec() {
    let data: [u8; 28] = any();
    let s = &data[..any_le(28)];
    let r = refm::macsec(s, Lim::Slice, true);
    let strict = MacsecSlice::from_slice(s);
    match LaxMacsecSlice::from_slice(s) {
        Ok(m) => {
            assert!(r.is_ok(), "C05: lax accepts although the header is undecodable");
            let r = r.unwrap();
            assert!(off(s, m.header.slice()) == 0 && m.header.slice().len() == r.hlen);
            let (inc, payload, src) = match &m.payload {
                LaxMacsecPayloadSlice::Unmodified(e) => {
                    assert!(Some(e.ether_type.0) == r.ether_type);
                    (e.incomplete, e.payload, e.len_source)
                }
                LaxMacsecPayloadSlice::Modified { incomplete, payload } => {
                    assert!(r.ether_type.is_none());
                    (*incomplete, *payload, if r.lim == Lim::MacsecSl { LenSource::MacsecShortLength } else { LenSource::Slice })
                }
            };
            witness!(inc, "incomplete");
            witness!(!inc && src == LenSource::MacsecShortLength, "cut_by_short_len");
            assert!(inc == r.incomplete, "C05: incomplete flag does not say whether the short length over-claims");
            assert!(off(s, payload) == r.hlen && payload.len() == r.payload_len, "C05: wrong payload range");
            assert!(src == len_source_of(r.lim), "C05: wrong length source");
            if inc {
                assert!(payload.len() == s.len() - r.hlen && src == LenSource::Slice);
            }
            // strict sibling
            match &strict {
                Ok(st) => {
                    assert!(!inc, "C05: strict accepts but lax marks the payload incomplete");
                    assert!(same(st.header.slice(), m.header.slice()));
                    match (&st.payload, &m.payload) {
                        (MacsecPayloadSlice::Unmodified(a), LaxMacsecPayloadSlice::Unmodified(b)) => {
                            assert!(same(a.payload, b.payload) && a.ether_type == b.ether_type && a.len_source == b.len_source);
                        }
                        (MacsecPayloadSlice::Modified(a), LaxMacsecPayloadSlice::Modified { payload, .. }) => {
                            assert!(same(a, payload));
                        }
                        _ => assert!(false, "C05: strict and lax disagree on the payload kind"),
                    }
                }
                Err(_) => {
                    // strict fails behind the header: exactly the over-claiming short length
                    assert!(inc, "C05: strict rejects, lax reports nothing");
                }
            }
        }
        Err(_) => {
            assert!(r.is_err(), "C05: lax rejects although the header is decodable");
            assert!(strict.is_err());
        }
    }
}

// ------------------------------------------------------------------ UDP

pub fn lax_udp() {
    let data: [u8; 16] = any();
    let s = &data[..any_le(16)];
    let r = refm::udp(s, Lim::Slice, true);
    let strict = UdpSlice::from_slice(s);
    match UdpSlice::from_slice_lax(s) {
        Ok(u) => {
            assert!(r.is_ok());
            let r = r.unwrap();
            witness!(r.len < s.len(), "cut_by_length");
            witness!(strict.is_err(), "strict_rejects");
            assert!(off(s, u.slice()) == 0 && u.slice().len() == r.len, "C05: wrong UDP range");
            assert!(off(s, u.payload()) == 8 && u.payload().len() == r.len - 8);
            if let Ok(st) = &strict {
                assert!(same(st.slice(), u.slice()), "C05: lax differs from an accepted strict result");
            } else {
                // over- or under-claiming length field: everything up to the slice end is handed out
                assert!(u.slice().len() == s.len());
                assert!(u.payload_len_source() == LenSource::Slice || usize::from(u.length()) == s.len());
            }
        }
        Err(_) => {
            assert!(r.is_err() && strict.is_err());
            assert!(s.len() < 8);
        }
    }
}

// ------------------------------------------------------------------ IPv4

fn stop_matches_ext_fault(l: &err::LenError, f: &RFault) {
    check_len_error(l, f, 0);
}

pub fn lax_ipv4() {
    let data: [u8; 44] = any();
    let s = &data[..any_le(44)];
    let r = refm::ipv4(s, Lim::Slice, true);
    let strict = Ipv4Slice::from_slice(s);
    match LaxIpv4Slice::from_slice(s) {
        Ok((ip, stop)) => {
            assert!(r.is_ok(), "C05: lax accepts although the IPv4 header is undecodable");
            let r = r.unwrap();
            witness!(r.incomplete, "incomplete");
            witness!(stop.is_some(), "stop_in_auth");
            witness!(r.lim == Lim::Slice && !r.incomplete, "total_len_under_claims");
            assert!(off(s, ip.header().slice()) == 0 && ip.header().slice().len() == r.hlen);
            let p = ip.payload();
            assert!(off(s, p.payload) == r.payload_off && p.payload.len() == r.payload_len, "C05: wrong payload range");
            assert!(p.ip_number.0 == r.proto && p.fragmented == r.fragmented);
            assert!(p.incomplete == r.incomplete, "C05: incomplete flag is not 'total length promised more than the slice holds'");
            assert!(p.len_source == len_source_of(r.lim), "C05: wrong length source");
            if p.incomplete {
                assert!(p.len_source == LenSource::Slice && r.payload_off + p.payload.len() == s.len());
            }
            assert!(ip.extensions().auth.is_some() == (r.n_exts == 1));
            assert!(stop.is_some() == r.ext_fault.is_some(), "C05: stop error does not match the reference fault");
            if let (Some(e), Some(f)) = (&stop, &r.ext_fault) {
                match e {
                    err::ip_auth::HeaderSliceError::Len(l) => stop_matches_ext_fault(l, f),
                    err::ip_auth::HeaderSliceError::Content(err::ip_auth::HeaderError::ZeroPayloadLen) => {
                        assert!(f.want == Want::AuthZeroLen);
                    }
                }
            }
            match &strict {
                Ok(st) => {
                    assert!(stop.is_none() && !p.incomplete, "C05: strict accepts but lax flags a problem");
                    assert!(same(st.payload().payload, p.payload) && st.payload().ip_number == p.ip_number);
                    assert!(st.payload().len_source == p.len_source && st.payload().fragmented == p.fragmented);
                    assert!(same(st.header().slice(), ip.header().slice()));
                    assert!(st.extensions().auth.map(|a| a.slice().len()) == ip.extensions().auth.map(|a| a.slice().len()));
                }
                Err(_) => {
                    // strict fails behind the base header: the lax result must say why it is not clean
                    assert!(stop.is_some() || p.incomplete || r.lim == Lim::Slice);
                }
            }
            core::mem::forget(stop);
        }
        Err(_) => {
            assert!(r.is_err(), "C05: lax rejects although the first header is decodable");
            assert!(r.unwrap_err().layer == RL::V4 && strict.is_err());
        }
    }
}

// ------------------------------------------------------------------ IPv6

fn check_ext_stop(stop: &Option<(err::ipv6_exts::HeaderSliceError, Layer)>, fault: &Option<RFault>) {
    assert!(stop.is_some() == fault.is_some(), "C05: stop error does not match the reference fault");
    if let (Some((e, layer)), Some(f)) = (stop, fault) {
        assert!(layer_admissible(f.layer, *layer), "C05: stop error is recorded on the wrong layer");
        match e {
            err::ipv6_exts::HeaderSliceError::Len(l) => check_len_error(l, f, 0),
            err::ipv6_exts::HeaderSliceError::Content(err::ipv6_exts::HeaderError::HopByHopNotAtStart) => {
                assert!(f.want == Want::HopByHopNotFirst);
            }
            err::ipv6_exts::HeaderSliceError::Content(err::ipv6_exts::HeaderError::IpAuth(_)) => {
                assert!(f.want == Want::AuthZeroLen);
            }
        }
    }
}

pub fn lax_ipv6<const N: usize>() {
    let data: [u8; N] = any();
    let s = &data[..any_le(N)];
    let r = refm::ipv6(s, Lim::Slice, true);
    let strict = Ipv6Slice::from_slice(s);
    match LaxIpv6Slice::from_slice(s) {
        Ok((ip, stop)) => {
            assert!(r.is_ok(), "C05: lax accepts although the IPv6 header is undecodable");
            let r = r.unwrap();
            witness!(r.incomplete, "incomplete");
            witness!(stop.is_some() && r.n_exts >= 1, "stop_behind_an_extension");
            let p = ip.payload();
            assert!(ip.extensions().slice().len() == r.exts_len);
            assert!(off(s, p.payload) == r.payload_off && p.payload.len() == r.payload_len, "C05: wrong payload range");
            assert!(p.ip_number.0 == r.proto && p.fragmented == r.fragmented);
            assert!(p.incomplete == r.incomplete, "C05: incomplete flag is not 'payload length promised more than the slice holds'");
            assert!(p.len_source == len_source_of(r.lim), "C05: wrong length source");
            if p.incomplete {
                assert!(p.len_source == LenSource::Slice && r.payload_off + p.payload.len() == s.len());
            }
            check_ext_stop(&stop, &r.ext_fault);
            match &strict {
                Ok(st) => {
                    assert!(stop.is_none() && !p.incomplete, "C05: strict accepts but lax flags a problem");
                    assert!(same(st.payload().payload, p.payload) && st.payload().ip_number == p.ip_number);
                    assert!(st.payload().len_source == p.len_source && st.payload().fragmented == p.fragmented);
                    assert!(same(st.extensions().slice(), ip.extensions().slice()));
                }
                Err(_) => {
                    assert!(stop.is_some() || p.incomplete);
                }
            }
            core::mem::forget(stop);
        }
        Err(_) => {
            assert!(r.is_err(), "C05: lax rejects although the first header is decodable");
            assert!(r.unwrap_err().layer == RL::V6 && strict.is_err());
        }
    }
}

/// the lax constructor of `Ipv6Slice` itself (keeps the strict return type)
pub fn ipv6_slice_lax<const N: usize>() {
    let data: [u8; N] = any();
    let s = &data[..any_le(N)];
    let strict = Ipv6Slice::from_slice(s);
    let lax = Ipv6Slice::from_slice_lax(s);
    if let Ok(st) = &strict {
        let l = lax.as_ref().ok().expect("C05: strict accepts, lax rejects");
        assert!(same(st.payload().payload, l.payload().payload) && st.payload().len_source == l.payload().len_source);
        assert!(same(st.extensions().slice(), l.extensions().slice()));
    }
    if let Ok(l) = &lax {
        // payload length over-claims: data up to the slice end, slice as length source
        let plen = u16::from_be_bytes([s[4], s[5]]) as usize;
        if 40 + plen > s.len() {
            witness!(true, "over_claim_falls_back_to_slice");
            assert!(l.payload().len_source == LenSource::Slice);
            let p = l.payload().payload;
            assert!(off(s, p) + p.len() == s.len());
        }
    }
}

// ------------------------------------------------------------------ extension chains

pub fn lax_ipv6_exts<const N: usize>() {
    let data: [u8; N] = any();
    let s = &data[..any_le(N)];
    let first: u8 = any();
    let (len, n, proto, fragmented, fault) = refm::ipv6_exts(s, first, Lim::Slice);
    let (x, next, rest, stop) = Ipv6ExtensionsSlice::from_slice_lax(IpNumber(first), s);
    witness!(stop.is_some() && n >= 1, "stop_behind_a_header");
    assert!(x.slice().len() == len && off(s, rest) == len && rest.len() == s.len() - len, "C05: wrong prefix");
    assert!(next.0 == proto && x.is_fragmenting_payload() == fragmented);
    check_ext_stop(&stop, &fault);
    // strict sibling
    match Ipv6ExtensionsSlice::from_slice(IpNumber(first), s) {
        Ok((sx, sn, srest)) => {
            assert!(stop.is_none(), "C05: strict accepts but lax reports a stop error");
            assert!(same(sx.slice(), x.slice()) && sn == next && same(srest, rest));
        }
        Err(_) => assert!(stop.is_some(), "C05: strict rejects, lax reports nothing"),
    }
    core::mem::forget(stop);
}

pub fn lax_ipv4_exts() {
    let data: [u8; 28] = any();
    let s = &data[..any_le(28)];
    let first: u8 = any();
    let (x, next, rest, stop) = Ipv4ExtensionsSlice::from_slice_lax(IpNumber(first), s);
    if first == refm::P_AUTH {
        match refm::auth(s, Lim::Slice) {
            Ok((nx, len)) => {
                witness!(true, "auth_ok");
                assert!(stop.is_none() && x.auth.is_some() && next.0 == nx && off(s, rest) == len);
            }
            Err(f) => {
                witness!(true, "auth_fault");
                assert!(x.auth.is_none() && next.0 == refm::P_AUTH && same(rest, s));
                match stop.as_ref().expect("C05: fault not recorded") {
                    err::ip_auth::HeaderSliceError::Len(l) => check_len_error(l, &f, 0),
                    err::ip_auth::HeaderSliceError::Content(_) => assert!(f.want == Want::AuthZeroLen),
                }
            }
        }
    } else {
        assert!(stop.is_none() && x.auth.is_none() && next.0 == first && same(rest, s));
    }
    match Ipv4ExtensionsSlice::from_slice(IpNumber(first), s) {
        Ok((sx, sn, srest)) => {
            assert!(stop.is_none() && sn == next && same(srest, rest) && sx.auth.is_some() == x.auth.is_some());
        }
        Err(_) => assert!(stop.is_some()),
    }
    core::mem::forget(stop);
}

// ------------------------------------------------------------------ version dispatch

pub fn lax_ip_dispatch() {
    let data: [u8; 44] = any();
    let s = &data[..any_le(44)];
    if s.len() > 6 && s[0] >> 4 == 6 {
        assume(!matches!(s[6], refm::P_HOPOPT | refm::P_ROUTE | refm::P_FRAG | refm::P_AUTH | refm::P_DSTOPT));
    }
    let r = refm::ip(s, Lim::Slice, true);
    match LaxIpSlice::from_slice(s) {
        Ok((ip, stop)) => {
            assert!(r.is_ok(), "C05: lax accepts although the IP header is undecodable");
            let r = r.unwrap();
            witness!(r.v6 && r.incomplete, "v6_incomplete");
            witness!(!r.v6 && r.incomplete, "v4_incomplete");
            assert!(ip.ipv6().is_some() == r.v6);
            let p = ip.payload();
            assert!(off(s, p.payload) == r.payload_off && p.payload.len() == r.payload_len, "C05: wrong payload range");
            assert!(p.ip_number.0 == r.proto && p.fragmented == r.fragmented && p.incomplete == r.incomplete);
            assert!(p.len_source == len_source_of(r.lim));
            assert!(stop.is_some() == r.ext_fault.is_some());
            core::mem::forget(stop);
        }
        Err(_) => {
            assert!(r.is_err(), "C05: lax rejects although the first header is decodable");
        }
    }
}

// ------------------------------------------------------------------ the reference itself: lax extends strict

/// A property of the reference decoder alone (cheap: no etherparse code): wherever the strict walk
/// succeeds the lax walk is identical, and wherever it fails the lax walk keeps every layer in front
/// of the fault. Together with "strict == walk(strict)" (C03) and "lax == walk(lax)" (c05_glue_*) this
/// carries the strict/lax relation to whole packets.
pub fn ref_lax_extends_strict<const N: usize, const START: u8>() {
    let data: [u8; N] = any();
    let s = &data[..any_le(N)];
    let start = match START {
        0 => Start::Ethernet,
        1 => Start::Sll,
        2 => Start::EtherType(any()),
        _ => Start::Ip,
    };
    let a = refm::walk(start, s, false);
    let b = refm::walk(start, s, true);
    // same link / link extension prefix in every case
    assert!(a.link == b.link);
    assert!(b.n_exts >= a.n_exts);
    if a.n_exts >= 1 {
        assert!(a.exts[0] == b.exts[0]);
    }
    if a.n_exts >= 2 {
        assert!(a.exts[1] == b.exts[1]);
    }
    if a.n_exts == 3 {
        assert!(a.exts[2] == b.exts[2]);
    }
    match a.fault {
        None => {
            witness!(a.tr.is_some(), "strict_ok_with_transport");
            assert!(b.fault.is_none() && !b.ip_version_mismatch, "reference: lax reports a fault where strict succeeds");
            assert!(a.n_exts == b.n_exts && a.net == b.net && a.tr == b.tr, "reference: lax differs from a successful strict walk");
            if let Some(RNet::Ip { ip, .. }) = b.net {
                assert!(!ip.incomplete);
            }
        }
        Some(fa) => {
            if let Some(fb) = b.fault {
                // lax stops at the same fault or at a later one (after a length over-claim it carries on)
                assert!(fb.off >= fa.off);
            }
        }
    }
}

// ------------------------------------------------------------------ whole packet (lax cursor)

pub mod glue {
    use super::*;

    fn check_stop(stop: &Option<(err::packet::SliceError, Layer)>, w: &RWalk) {
        assert!(stop.is_some() == w.fault.is_some(), "C05: stop error does not match the reference fault");
        if let (Some((e, layer)), Some(f)) = (stop, &w.fault) {
            witness!(true, "stopped");
            assert!(layer_admissible(f.layer, *layer), "C05: stop error is recorded on the wrong layer");
            let e2 = match e {
                // known C07 findings (length source naming) are not the subject here
                err::packet::SliceError::Len(l) if l.len_source == LenSource::ArpAddrLengths => {
                    let mut l2 = l.clone();
                    l2.len_source = LenSource::Slice;
                    err::packet::SliceError::Len(l2)
                }
                other => other.clone(),
            };
            crate::c03::glue::check_packet_error(&e2, f);
        }
    }

    pub fn run<const N: usize>(start: Start, shape: fn(&mut [u8; N])) {
        let mut data: [u8; N] = any();
        shape(&mut data);
        let s = &data[..any_le(N)];
        let w = refm::walk(start, s, true);
        let r = match start {
            Start::Ethernet => LaxSlicedPacket::from_ethernet(s).ok(),
            Start::EtherType(et) => Some(LaxSlicedPacket::from_ether_type(EtherType(et), s)),
            Start::Ip => LaxSlicedPacket::from_ip(s).ok(),
            Start::Sll => unreachable!(),
        };
        // lax parsing only fails when the very first header is undecodable
        match (start, r.is_some()) {
            (Start::Ethernet, ok) => assert!(ok == w.link.is_some(), "C05: Err <=> the Ethernet header is cut"),
            (Start::Ip, ok) => assert!(ok == w.net.is_some(), "C05: Err <=> the IP header is undecodable"),
            _ => {}
        }
        match r {
            None => {
                assert!(w.fault.is_some());
            }
            Some(p) => {
                if w.ip_version_mismatch {
                    // KNOWN FINDING (pinned by the repository's tests, see known_findings.json): the lax
                    // decoders choose the IP version from the version nibble, so an IPv6 header behind ether
                    // type 0x0800 (or IPv4 behind 0x86dd) is decoded without a stop error although strict
                    // parsing rejects it. The result is still compared with the nibble-dispatched reference.
                    witness!(true, "KF:c05-lax-ip-version-from-nibble");
                }
                assert!(p.link_exts.len() == w.n_exts, "C05: wrong number of link extensions");
                ext(s, &p, &w, 0);
                ext(s, &p, &w, 1);
                ext(s, &p, &w, 2);
                match (&p.net, &w.net) {
                    (None, None) => {}
                    (Some(LaxNetSlice::Arp(a)), Some(RNet::Arp { off: o, len })) => {
                        assert!(off(s, a.slice()) == *o && a.slice().len() == *len);
                    }
                    (Some(LaxNetSlice::Ipv4(v4)), Some(RNet::Ip { off: o, ip })) => {
                        assert!(!ip.v6 && off(s, v4.header().slice()) == *o);
                        payload(s, v4.payload(), *o, ip);
                    }
                    (Some(LaxNetSlice::Ipv6(v6)), Some(RNet::Ip { off: o, ip })) => {
                        assert!(ip.v6 && off(s, v6.header().slice()) == *o);
                        assert!(v6.extensions().slice().len() == ip.exts_len);
                        payload(s, v6.payload(), *o, ip);
                    }
                    _ => assert!(false, "C05: wrong network layer"),
                }
                match (&p.transport, &w.tr) {
                    (None, None) => {}
                    (Some(TransportSlice::Udp(u)), Some((o, t))) => {
                        assert!(t.layer == RL::Udp && off(s, u.slice()) == *o && u.slice().len() == t.len, "C05: UDP range");
                    }
                    (Some(TransportSlice::Tcp(x)), Some((o, t))) => {
                        assert!(t.layer == RL::Tcp && off(s, x.slice()) == *o && x.slice().len() == t.len && x.header_len() == t.hlen);
                    }
                    (Some(TransportSlice::Icmpv4(x)), Some((o, t))) => {
                        assert!(t.layer == RL::Icmp4 && off(s, x.slice()) == *o && x.slice().len() == t.len);
                    }
                    (Some(TransportSlice::Icmpv6(x)), Some((o, t))) => {
                        assert!(t.layer == RL::Icmp6 && off(s, x.slice()) == *o && x.slice().len() == t.len);
                    }
                    _ => assert!(false, "C05: wrong transport layer"),
                }
                check_stop(&p.stop_err, &w);
                core::mem::forget(p);
            }
        }
    }

    fn ext(s: &[u8], p: &LaxSlicedPacket, w: &RWalk, i: usize) {
        if i < w.n_exts {
            let x = &w.exts[i];
            match &p.link_exts[i] {
                LaxLinkExtSlice::Vlan(v) => assert!(x.kind == RL::Vlan && off(s, v.header_slice()) == x.off),
                LaxLinkExtSlice::Macsec(m) => {
                    assert!(x.kind == RL::Macsec && off(s, m.header.slice()) == x.off && m.header.slice().len() == x.hlen);
                }
            }
        }
    }

    fn payload(s: &[u8], p: &LaxIpPayloadSlice, o: usize, ip: &refm::RIp) {
        assert!(off(s, p.payload) == o + ip.payload_off && p.payload.len() == ip.payload_len, "C05: wrong IP payload range");
        assert!(p.ip_number.0 == ip.proto && p.fragmented == ip.fragmented);
        assert!(p.incomplete == ip.incomplete, "C05: incomplete flag");
        if p.incomplete {
            assert!(p.len_source == LenSource::Slice);
        }
    }

    /// MACsec(unmodified, no SCI, symbolic short length) -> VLAN -> IPv4(no options) -> UDP
    pub fn shape_macsec_vlan_ipv4_udp() {
        run::<42>(Start::EtherType(refm::ET_MACSEC), |d| {
            d[0] = 0x01;
            d[6] = 0x81;
            d[7] = 0x00;
            d[10] = 0x08;
            d[11] = 0x00;
            d[12] = 0x45;
            d[12 + 9] = 17;
        });
    }
    /// IPv6 -> routing header (symbolic length) -> UDP
    pub fn shape_ipv6_route_udp() {
        run::<60>(Start::Ip, |d| {
            d[0] = 0x60 | (d[0] & 0xf);
            d[6] = 43;
            d[40] = 17;
        });
    }
    /// Ethernet -> IPv4 (symbolic IHL) -> TCP
    pub fn shape_eth_ipv4_tcp() {
        run::<62>(Start::Ethernet, |d| {
            d[12] = 0x08;
            d[13] = 0x00;
            d[14] = 0x40 | (d[14] & 0xf);
            d[14 + 9] = 6;
        });
    }
    /// IPv4 (no options) -> ICMPv4
    pub fn shape_ipv4_icmp() {
        run::<44>(Start::Ip, |d| {
            d[0] = 0x45;
            d[9] = 1;
        });
    }
    /// Ethernet -> ARP
    pub fn shape_eth_arp() {
        run::<46>(Start::Ethernet, |d| {
            d[12] = 0x08;
            d[13] = 0x06;
        });
    }
    pub fn any_ether_type<const N: usize>() {
        let et: u16 = any();
        run::<N>(Start::EtherType(et), |_| {});
    }
    pub fn any_ip<const N: usize>() {
        run::<N>(Start::Ip, |_| {});
    }
    pub fn any_ethernet<const N: usize>() {
        run::<N>(Start::Ethernet, |_| {});
    }

    crate::harnesses! {
        c05_glue_macsec_vlan_ipv4_udp = shape_macsec_vlan_ipv4_udp; unwind 4,
        c05_glue_ipv6_route_udp = shape_ipv6_route_udp; unwind 3,
        c05_glue_eth_ipv4_tcp = shape_eth_ipv4_tcp; unwind 2,
        c05_glue_ipv4_icmp = shape_ipv4_icmp; unwind 2,
        c05_glue_eth_arp = shape_eth_arp; unwind 2,
        c05_glue_any_ether_type_44 = any_ether_type::<44>; unwind 5,
        c05_glue_any_ip_48 = any_ip::<48>; unwind 5,
        c05_glue_any_ethernet_48 = any_ethernet::<48>; unwind 5,
    }
}

crate::harnesses! {
    c05_lax_macsec = lax_macsec; unwind 4,
    c05_lax_udp = lax_udp; unwind 4,
    c05_lax_ipv4 = lax_ipv4; unwind 4,
    c05_lax_ipv6_56 = lax_ipv6::<56>; unwind 4,
    c05_lax_ipv6_64 = lax_ipv6::<64>; unwind 5,
    c05_ipv6_slice_lax_56 = ipv6_slice_lax::<56>; unwind 4,
    c05_lax_ipv6_exts_16 = lax_ipv6_exts::<16>; unwind 4,
    c05_lax_ipv6_exts_24 = lax_ipv6_exts::<24>; unwind 5,
    c05_lax_ipv4_exts = lax_ipv4_exts; unwind 4,
    c05_lax_ip_dispatch = lax_ip_dispatch; unwind 4,
    c05_ref_lax_extends_strict_eth = ref_lax_extends_strict::<44, 0>; unwind 6,
    c05_ref_lax_extends_strict_sll = ref_lax_extends_strict::<44, 1>; unwind 6,
    c05_ref_lax_extends_strict_ether_type = ref_lax_extends_strict::<40, 2>; unwind 6,
    c05_ref_lax_extends_strict_ip = ref_lax_extends_strict::<48, 3>; unwind 6,
}
