//! C06 - equivalent entry points give equivalent answers.
//!
//! Pure differential checks: the same symbolic bytes are handed to two (or three) doors of the
//! real crate and the answers are compared. No reference model. Three families:
//!
//! (a) the 12 IP boundary implementations (`ip4_*` / `ip6_*` harnesses),
//! (b) whole-packet doors: `from_ethernet` vs `from_ether_type` (+14 on error offsets) and
//!     `from_ether_type(IPV4|IPV6)` vs `from_ip` for the slice based families SlicedPacket and
//!     LaxSlicedPacket (`pk_*` harnesses; the struct based families did not fit, see there),
//! (c) `T::read(io::Read)` (and `read_limited`) vs `T::from_slice` for 15 of the 17 header types
//!     that have a reader (`rd_*` harnesses; not built: Ipv6Extensions, IpHeaders - two ~9 KB
//!     struct doors in one formula exceed the memory cap).
//!
//! Conventions used throughout
//! * inputs are `&data[..len]` of a symbolic `[u8; N]` with symbolic `len <= N` (memory safety is
//!   C01's subject, not this one's);
//! * slices returned by two doors over the same buffer are compared by pointer + length
//!   (`same_range`), decoded values field by field; variable-length byte fields are compared
//!   loop-free through one symbolic index (`same_bytes`, "for one arbitrary i" = "for all i"),
//!   because `==` on slices/arrays is a `memcmp` loop that would force a large unwind value onto
//!   the decoder loops;
//! * errors of the different doors have different Rust types; they are mapped onto one canonical
//!   reason `F` and compared there. Where two faults coexist and the doors legitimately test them
//!   in a different order only the verdict is required to agree: these tolerances are the
//!   enumerated `TOL-n` blocks below, nothing else is tolerated;
//! * `io::Error` values are forgotten (drop glue of `io::Error` is expensive under CBMC).

use crate::sym::{any, any_le, assume};
use crate::witness;
use etherparse::err::{Layer, LenError};
use etherparse::*;

// ------------------------------------------------------------------------------------------
// small helpers
// ------------------------------------------------------------------------------------------

#[inline(never)]
fn forget<T>(v: T) {
    core::mem::forget(v);
}

/// both slices are the same sub-range of the same buffer
fn same_range(a: &[u8], b: &[u8]) -> bool {
    a.as_ptr() == b.as_ptr() && a.len() == b.len()
}

/// loop-free content equality: equal length and equal byte at one arbitrary (symbolic) index
fn same_bytes(a: &[u8], b: &[u8]) {
    assert!(a.len() == b.len(), "C06: variable-length field has different lengths");
    let i: usize = any();
    if i < a.len() {
        assert!(a[i] == b[i], "C06: variable-length field differs in one byte");
    }
}

/// loop-free equality of fixed arrays (`==` on `[u8; K]` is a memcmp loop)
fn same_arr<const K: usize>(a: &[u8; K], b: &[u8; K]) {
    let i: usize = any();
    if i < K {
        assert!(a[i] == b[i], "C06: address/array field differs");
    }
}

fn is_ipv6_ext(n: IpNumber) -> bool {
    // the extension headers the crate walks (RFC 8200 4.1): hop-by-hop 0, routing 43,
    // fragment 44, authentication 51, destination options 60
    n.0 == 0 || n.0 == 43 || n.0 == 44 || n.0 == 51 || n.0 == 60
}

// ------------------------------------------------------------------------------------------
// canonical rejection reason
// ------------------------------------------------------------------------------------------

/// One reason type for the errors of all doors.
#[derive(Clone, PartialEq, Eq)]
pub enum F {
    Len(LenError),
    /// ip::UnsupportedIpVersion / ipv4::UnexpectedVersion / ipv6::UnexpectedVersion
    Version(u8),
    /// IHL < 5
    Ihl(u8),
    /// authentication header with payload length 0 (as IPv4 or as IPv6 extension)
    AuthZeroPayloadLen,
    HopByHopNotAtStart,
    Tcp(err::tcp::HeaderError),
    Macsec(err::macsec::HeaderError),
    LinuxSll(err::linux_sll::HeaderError),
}

impl F {
    fn shifted(self, by: usize) -> F {
        match self {
            F::Len(mut l) => {
                l.layer_start_offset += by;
                F::Len(l)
            }
            o => o,
        }
    }
    fn is_len(&self) -> bool {
        matches!(self, F::Len(_))
    }
}

fn f_ip_hdr(e: err::ip::HeaderError) -> F {
    use err::ip::HeaderError::*;
    match e {
        UnsupportedIpVersion { version_number } => F::Version(version_number),
        Ipv4HeaderLengthSmallerThanHeader { ihl } => F::Ihl(ihl),
    }
}
fn f_ipv4_hdr(e: err::ipv4::HeaderError) -> F {
    use err::ipv4::HeaderError::*;
    match e {
        UnexpectedVersion { version_number } => F::Version(version_number),
        HeaderLengthSmallerThanHeader { ihl } => F::Ihl(ihl),
    }
}
fn f_ipv6_hdr(e: err::ipv6::HeaderError) -> F {
    use err::ipv6::HeaderError::*;
    match e {
        UnexpectedVersion { version_number } => F::Version(version_number),
    }
}
fn f_auth(e: err::ip_auth::HeaderError) -> F {
    match e {
        err::ip_auth::HeaderError::ZeroPayloadLen => F::AuthZeroPayloadLen,
    }
}
fn f_ipv6_ext(e: err::ipv6_exts::HeaderError) -> F {
    use err::ipv6_exts::HeaderError::*;
    match e {
        HopByHopNotAtStart => F::HopByHopNotAtStart,
        IpAuth(a) => f_auth(a),
    }
}
fn f_ip_headers(e: err::ip::HeadersError) -> F {
    use err::ip::HeadersError::*;
    match e {
        Ip(e) => f_ip_hdr(e),
        Ipv4Ext(e) => f_auth(e),
        Ipv6Ext(e) => f_ipv6_ext(e),
    }
}
fn f_ip_slice(e: err::ip::SliceError) -> F {
    match e {
        err::ip::SliceError::Len(l) => F::Len(l),
        err::ip::SliceError::IpHeaders(e) => f_ip_headers(e),
    }
}
fn f_ip_headers_slice(e: err::ip::HeadersSliceError) -> F {
    match e {
        err::ip::HeadersSliceError::Len(l) => F::Len(l),
        err::ip::HeadersSliceError::Content(e) => f_ip_headers(e),
    }
}
fn f_ip_lax(e: err::ip::LaxHeaderSliceError) -> F {
    match e {
        err::ip::LaxHeaderSliceError::Len(l) => F::Len(l),
        err::ip::LaxHeaderSliceError::Content(e) => f_ip_hdr(e),
    }
}
fn f_ipv4_slice(e: err::ipv4::SliceError) -> F {
    match e {
        err::ipv4::SliceError::Len(l) => F::Len(l),
        err::ipv4::SliceError::Header(e) => f_ipv4_hdr(e),
        err::ipv4::SliceError::Exts(e) => f_auth(e),
    }
}
fn f_ipv4_hslice(e: err::ipv4::HeaderSliceError) -> F {
    match e {
        err::ipv4::HeaderSliceError::Len(l) => F::Len(l),
        err::ipv4::HeaderSliceError::Content(e) => f_ipv4_hdr(e),
    }
}
fn f_ipv6_slice(e: err::ipv6::SliceError) -> F {
    match e {
        err::ipv6::SliceError::Len(l) => F::Len(l),
        err::ipv6::SliceError::Header(e) => f_ipv6_hdr(e),
        err::ipv6::SliceError::Exts(e) => f_ipv6_ext(e),
    }
}
fn f_ipv6_hslice(e: err::ipv6::HeaderSliceError) -> F {
    match e {
        err::ipv6::HeaderSliceError::Len(l) => F::Len(l),
        err::ipv6::HeaderSliceError::Content(e) => f_ipv6_hdr(e),
    }
}
fn f_auth_slice(e: err::ip_auth::HeaderSliceError) -> F {
    match e {
        err::ip_auth::HeaderSliceError::Len(l) => F::Len(l),
        err::ip_auth::HeaderSliceError::Content(e) => f_auth(e),
    }
}
fn f_ipv6_ext_slice(e: err::ipv6_exts::HeaderSliceError) -> F {
    match e {
        err::ipv6_exts::HeaderSliceError::Len(l) => F::Len(l),
        err::ipv6_exts::HeaderSliceError::Content(e) => f_ipv6_ext(e),
    }
}
fn f_ip_exts_slice(e: err::ip_exts::HeadersSliceError) -> F {
    use err::ip_exts::HeaderError::*;
    match e {
        err::ip_exts::HeadersSliceError::Len(l) => F::Len(l),
        err::ip_exts::HeadersSliceError::Content(Ipv4Ext(e)) => f_auth(e),
        err::ip_exts::HeadersSliceError::Content(Ipv6Ext(e)) => f_ipv6_ext(e),
    }
}
fn f_packet(e: err::packet::SliceError) -> F {
    use err::packet::SliceError::*;
    match e {
        Len(l) => F::Len(l),
        LinuxSll(e) => F::LinuxSll(e),
        Macsec(e) => F::Macsec(e),
        Ip(e) => f_ip_hdr(e),
        Ipv4(e) => f_ipv4_hdr(e),
        Ipv6(e) => f_ipv6_hdr(e),
        Ipv4Exts(e) => f_auth(e),
        Ipv6Exts(e) => f_ipv6_ext(e),
        Tcp(e) => F::Tcp(e),
    }
}

/// stop error of a lax door: canonical reason + layer
type Stop = Option<(F, Layer)>;

fn same_stop(a: &Stop, b: &Stop) {
    match (a, b) {
        (None, None) => {}
        (Some((fa, la)), Some((fb, lb))) => {
            assert!(fa == fb, "C06: lax doors stop for different reasons");
            assert!(la == lb, "C06: lax doors name different stop layers");
        }
        _ => assert!(false, "C06: one lax door reports a stop error, the other does not"),
    }
}

// ------------------------------------------------------------------------------------------
// value comparators (field by field, loop free)
// ------------------------------------------------------------------------------------------

fn same_ipv4_header(a: &Ipv4Header, b: &Ipv4Header) {
    assert!(a.dscp == b.dscp);
    assert!(a.ecn == b.ecn);
    assert!(a.total_len == b.total_len);
    assert!(a.identification == b.identification);
    assert!(a.dont_fragment == b.dont_fragment);
    assert!(a.more_fragments == b.more_fragments);
    assert!(a.fragment_offset == b.fragment_offset);
    assert!(a.time_to_live == b.time_to_live);
    assert!(a.protocol == b.protocol);
    assert!(a.header_checksum == b.header_checksum);
    same_arr(&a.source, &b.source);
    same_arr(&a.destination, &b.destination);
    same_bytes(a.options.as_slice(), b.options.as_slice());
}

fn same_ipv6_header(a: &Ipv6Header, b: &Ipv6Header) {
    assert!(a.traffic_class == b.traffic_class);
    assert!(a.flow_label == b.flow_label);
    assert!(a.payload_length == b.payload_length);
    assert!(a.next_header == b.next_header);
    assert!(a.hop_limit == b.hop_limit);
    same_arr(&a.source, &b.source);
    same_arr(&a.destination, &b.destination);
}

fn same_auth(a: &IpAuthHeader, b: &IpAuthHeader) {
    assert!(a.next_header == b.next_header);
    assert!(a.spi == b.spi);
    assert!(a.sequence_number == b.sequence_number);
    same_bytes(a.raw_icv(), b.raw_icv());
}

fn same_raw_ext(a: &Ipv6RawExtHeader, b: &Ipv6RawExtHeader) {
    assert!(a.next_header == b.next_header);
    same_bytes(a.payload(), b.payload());
}

fn same_frag(a: &Ipv6FragmentHeader, b: &Ipv6FragmentHeader) {
    assert!(a.next_header == b.next_header);
    assert!(a.fragment_offset == b.fragment_offset);
    assert!(a.more_fragments == b.more_fragments);
    assert!(a.identification == b.identification);
}

fn same_opt<T>(a: &Option<T>, b: &Option<T>, f: fn(&T, &T)) {
    match (a, b) {
        (None, None) => {}
        (Some(x), Some(y)) => f(x, y),
        _ => assert!(false, "C06: optional header present behind one door only"),
    }
}

fn same_ipv4_exts(a: &Ipv4Extensions, b: &Ipv4Extensions) {
    same_opt(&a.auth, &b.auth, same_auth);
}




fn same_ip_payload(a: &IpPayloadSlice, b: &IpPayloadSlice) {
    assert!(a.ip_number == b.ip_number, "C06: payload ip_number differs");
    assert!(a.fragmented == b.fragmented, "C06: fragmented flag differs");
    assert!(a.len_source == b.len_source, "C06: payload len_source differs");
    assert!(same_range(a.payload, b.payload), "C06: payload range differs");
}

fn same_lax_ip_payload(a: &LaxIpPayloadSlice, b: &LaxIpPayloadSlice) {
    assert!(a.incomplete == b.incomplete, "C06: incomplete flag differs");
    assert!(a.ip_number == b.ip_number, "C06: payload ip_number differs");
    assert!(a.fragmented == b.fragmented, "C06: fragmented flag differs");
    assert!(a.len_source == b.len_source, "C06: payload len_source differs");
    assert!(same_range(a.payload, b.payload), "C06: payload range differs");
}

fn same_auth_slice_opt(a: Option<IpAuthHeaderSlice>, b: Option<IpAuthHeaderSlice>) {
    match (a, b) {
        (None, None) => {}
        (Some(x), Some(y)) => assert!(same_range(x.slice(), y.slice()), "C06: auth header range differs"),
        _ => assert!(false, "C06: auth header present behind one door only"),
    }
}

fn same_ipv4_slice(a: &Ipv4Slice, b: &Ipv4Slice) {
    assert!(same_range(a.header().slice(), b.header().slice()), "C06: IPv4 header range differs");
    same_auth_slice_opt(a.extensions().auth, b.extensions().auth);
    same_ip_payload(a.payload(), b.payload());
    assert!(a.payload_ip_number() == b.payload_ip_number());
    assert!(a.is_payload_fragmented() == b.is_payload_fragmented());
}

fn same_lax_ipv4_slice(a: &LaxIpv4Slice, b: &LaxIpv4Slice) {
    assert!(same_range(a.header().slice(), b.header().slice()), "C06: IPv4 header range differs");
    same_auth_slice_opt(a.extensions().auth, b.extensions().auth);
    same_lax_ip_payload(a.payload(), b.payload());
    assert!(a.payload_ip_number() == b.payload_ip_number());
    assert!(a.is_payload_fragmented() == b.is_payload_fragmented());
}

fn same_ipv6_exts_slice(a: &Ipv6ExtensionsSlice, b: &Ipv6ExtensionsSlice) {
    assert!(same_range(a.slice(), b.slice()), "C06: IPv6 extension range differs");
    assert!(a.first_header() == b.first_header(), "C06: first extension header differs");
    assert!(a.is_fragmenting_payload() == b.is_fragmenting_payload());
}

fn same_ipv6_slice(a: &Ipv6Slice, b: &Ipv6Slice) {
    assert!(same_range(a.header().slice(), b.header().slice()), "C06: IPv6 header range differs");
    same_ipv6_exts_slice(a.extensions(), b.extensions());
    same_ip_payload(a.payload(), b.payload());
    assert!(a.is_payload_fragmented() == b.is_payload_fragmented());
}

fn same_lax_ipv6_slice(a: &LaxIpv6Slice, b: &LaxIpv6Slice) {
    assert!(same_range(a.header().slice(), b.header().slice()), "C06: IPv6 header range differs");
    same_ipv6_exts_slice(a.extensions(), b.extensions());
    same_lax_ip_payload(a.payload(), b.payload());
    assert!(a.is_payload_fragmented() == b.is_payload_fragmented());
}

// ------------------------------------------------------------------------------------------
// (a) IP boundary implementations, IPv4 side (+ empty slice and unsupported versions)
// ------------------------------------------------------------------------------------------
//
// TOL-1 (all IPv4 pairs): slice shorter than 20 bytes. The version-specific doors
//   (`Ipv4Slice`, `LaxIpv4Slice`, `from_ipv4_slice*`) and `IpHeaders::from_slice*` demand the
//   minimum header (20 bytes, layer Ipv4Header) before looking at any content; `IpSlice` /
//   `LaxIpSlice` have already read byte 0 for the dispatch and report what that byte says
//   (unsupported version, IHL < 5, or a length error demanding IHL*4 bytes; for the empty slice a
//   1-byte demand on layer IpHeader). Both faults are real, only the order differs: verdict must
//   agree, and if both are length errors they must agree on (len, len_source, offset).
//   The version-dispatching struct door versus the version-specific one on a slice whose nibble is
//   neither 4 nor 6 falls under the same rule (Version(v) versus "need 20 bytes").

/// `a`: door that dispatched on byte 0, `b`: door that demands 20 bytes first
fn cmp_faults_v4(len: usize, fa: &F, fb: &F) {
    if len < 20 {
        // TOL-1
        if let (F::Len(x), F::Len(y)) = (fa, fb) {
            assert!(x.len == y.len && x.len_source == y.len_source && x.layer_start_offset == y.layer_start_offset,
                "C06: coexisting length faults disagree on the measured length");
        }
    } else {
        assert!(fa == fb, "C06: IPv4 doors reject for different reasons");
    }
}

fn not_v6(s: &[u8]) {
    // the IPv6 side (extension chains, the expensive kernel) has its own harnesses
    assume(s.is_empty() || s[0] >> 4 != 6);
}

/// IpSlice::from_slice vs Ipv4Slice::from_slice
pub fn ip4_strict_slices<const N: usize>() {
    let data: [u8; N] = any();
    let len = any_le(N);
    let s = &data[..len];
    not_v6(s);
    let a = IpSlice::from_slice(s);
    let b = Ipv4Slice::from_slice(s);
    match (a, b) {
        (Ok(a), Ok(b)) => {
            witness!(b.extensions().auth.is_some() && b.payload().payload.len() > 0, "ok_auth_payload");
            witness!(b.payload().payload.len() + b.header().slice().len() < len, "ok_trailing_bytes");
            match &a {
                IpSlice::Ipv4(a4) => same_ipv4_slice(a4, &b),
                IpSlice::Ipv6(_) => assert!(false, "C06: IpSlice dispatched an IPv4 packet to IPv6"),
            }
            same_ip_payload(a.payload(), b.payload());
            assert!(a.payload_ip_number() == b.payload_ip_number());
            assert!(a.is_fragmenting_payload() == b.is_payload_fragmented());
        }
        (Err(ea), Err(eb)) => {
            let (fa, fb) = (f_ip_slice(ea), f_ipv4_slice(eb));
            witness!(len >= 20 && fa.is_len(), "err_len_shared");
            witness!(len >= 20 && fa == F::AuthZeroPayloadLen, "err_auth_content");
            witness!(len >= 20 && matches!(fa, F::Version(_)), "err_version");
            witness!(len < 20 && fa != fb, "tol1_order_of_checks");
            cmp_faults_v4(len, &fa, &fb);
        }
        _ => assert!(false, "C06: IpSlice and Ipv4Slice disagree on accept/reject"),
    }
}

fn lax_stop_from_auth(e: Option<err::ip_auth::HeaderSliceError>) -> Stop {
    // the IPv4-specific lax doors return the bare authentication header error; the layer is implied
    e.map(|e| (f_auth_slice(e), Layer::IpAuthHeader))
}
fn lax_stop_from_ipv6_ext(e: Option<(err::ipv6_exts::HeaderSliceError, Layer)>) -> Stop {
    e.map(|(e, l)| (f_ipv6_ext_slice(e), l))
}
fn lax_stop_from_ip_exts(e: Option<(err::ip_exts::HeadersSliceError, Layer)>) -> Stop {
    e.map(|(e, l)| (f_ip_exts_slice(e), l))
}

/// LaxIpSlice::from_slice vs LaxIpv4Slice::from_slice
pub fn ip4_lax_slices<const N: usize>() {
    let data: [u8; N] = any();
    let len = any_le(N);
    let s = &data[..len];
    not_v6(s);
    let a = LaxIpSlice::from_slice(s);
    let b = LaxIpv4Slice::from_slice(s);
    match (a, b) {
        (Ok((a, sa)), Ok((b, sb))) => {
            witness!(b.payload().incomplete, "ok_incomplete");
            witness!(sb.is_some() && b.payload().len_source == LenSource::Slice, "ok_stop_slice_limited");
            witness!(b.extensions().auth.is_some(), "ok_auth");
            match &a {
                LaxIpSlice::Ipv4(a4) => same_lax_ipv4_slice(a4, &b),
                LaxIpSlice::Ipv6(_) => assert!(false, "C06: LaxIpSlice dispatched an IPv4 packet to IPv6"),
            }
            same_lax_ip_payload(a.payload(), b.payload());
            assert!(a.payload_ip_number() == b.payload_ip_number());
            assert!(a.is_fragmenting_payload() == b.is_payload_fragmented());
            same_stop(&lax_stop_from_ipv6_ext(sa), &lax_stop_from_auth(sb));
        }
        (Err(ea), Err(eb)) => {
            let (fa, fb) = (f_ip_lax(ea), f_ipv4_hslice(eb));
            witness!(len >= 20 && fa.is_len(), "err_len_shared");
            witness!(len < 20 && fa != fb, "tol1_order_of_checks");
            cmp_faults_v4(len, &fa, &fb);
        }
        _ => assert!(false, "C06: LaxIpSlice and LaxIpv4Slice disagree on accept/reject"),
    }
}

// ---- struct doors -------------------------------------------------------------------------
//
// Cost note (measured): every door that returns `IpHeaders` drags a ~9 KB enum (2 KB buffers of
// the raw extension headers, 1 KB ICV buffer) through CBMC; one such door costs 3-8 GB, two in one
// harness exceed the 20 GB cap. The struct doors are therefore compared pairwise against the slice
// door of the same kind (values behind the struct against the accessors of the slice), and the
// chain  from_slice == IpSlice == Ipv4Slice/Ipv6Slice == from_ipv4_slice/from_ipv6_slice  closes
// by transitivity of equality (every link compares the same observables).

/// values of the struct door == accessors of the slice door (IPv4).
/// `deep`: also the bytes of the variable-length fields, otherwise only their lengths.
fn v4_struct_vs_slice(h: &Ipv4Header, e: &Ipv4Extensions, hs: &Ipv4HeaderSlice, es: &Ipv4ExtensionsSlice, deep: bool) {
    assert!(h.dscp == hs.dcp());
    assert!(h.ecn == hs.ecn());
    assert!(h.total_len == hs.total_len());
    assert!(h.identification == hs.identification());
    assert!(h.dont_fragment == hs.dont_fragment());
    assert!(h.more_fragments == hs.more_fragments());
    assert!(h.fragment_offset == hs.fragments_offset());
    assert!(h.time_to_live == hs.ttl());
    assert!(h.protocol == hs.protocol());
    assert!(h.header_checksum == hs.header_checksum());
    if deep {
        same_arr(&h.source, &hs.source());
        same_arr(&h.destination, &hs.destination());
    } else {
        // same equality without a symbolic index into the ~9 KB IpHeaders value (memory)
        assert!(u32::from_be_bytes(h.source) == u32::from_be_bytes(hs.source()));
        assert!(u32::from_be_bytes(h.destination) == u32::from_be_bytes(hs.destination()));
    }
    assert!(h.header_len() == hs.slice().len());
    if deep {
        same_bytes(h.options.as_slice(), hs.options());
    } else {
        assert!(h.options.len() == hs.options().len());
    }
    match (&e.auth, &es.auth) {
        (None, None) => {}
        (Some(a), Some(b)) => {
            assert!(a.next_header == b.next_header());
            assert!(a.spi == b.spi());
            assert!(a.sequence_number == b.sequence_number());
            assert!(a.header_len() == b.slice().len());
            if deep {
                same_bytes(a.raw_icv(), b.raw_icv());
            } else {
                assert!(a.raw_icv().len() == b.raw_icv().len());
            }
        }
        _ => assert!(false, "C06: auth header present behind one door only"),
    }
}

/// values of the struct door == accessors of the slice door (IPv6 base header; extension area by
/// total length, presence and fragmentation flag)
fn v6_struct_vs_slice(h: &Ipv6Header, e: &Ipv6Extensions, hs: &Ipv6HeaderSlice, es: &Ipv6ExtensionsSlice) {
    v6_struct_vs_slice_opt(h, e, hs, es, true)
}

/// `indexed`: compare the addresses through a symbolic index (as everywhere else) or, for the
/// memory-bound dispatch harnesses, as two 128-bit integers (the same equality)
fn v6_struct_vs_slice_opt(h: &Ipv6Header, e: &Ipv6Extensions, hs: &Ipv6HeaderSlice, es: &Ipv6ExtensionsSlice, indexed: bool) {
    assert!(h.traffic_class == hs.traffic_class());
    assert!(h.flow_label == hs.flow_label());
    assert!(h.payload_length == hs.payload_length());
    assert!(h.next_header == hs.next_header());
    assert!(h.hop_limit == hs.hop_limit());
    if indexed {
        same_arr(&h.source, &hs.source());
        same_arr(&h.destination, &hs.destination());
    } else {
        assert!(u128::from_be_bytes(h.source) == u128::from_be_bytes(hs.source()));
        assert!(u128::from_be_bytes(h.destination) == u128::from_be_bytes(hs.destination()));
    }
    assert!(e.header_len() == es.slice().len(), "C06: struct and slice door consumed different extension bytes");
    assert!(e.is_empty() == es.is_empty());
    assert!(e.is_fragmenting_payload() == es.is_fragmenting_payload());
}

/// IpHeaders::from_ipv4_slice vs Ipv4Slice::from_slice
pub fn ip4_hdr_strict<const N: usize>() {
    let data: [u8; N] = any();
    let len = any_le(N);
    let s = &data[..len];
    let a = IpHeaders::from_ipv4_slice(s);
    let b = Ipv4Slice::from_slice(s);
    match (a, b) {
        (Ok((ha, pa)), Ok(b)) => {
            witness!(b.extensions().auth.is_some() && pa.payload.len() > 0, "ok_auth_payload");
            witness!(b.header().options().len() > 0, "ok_options");
            match &ha {
                IpHeaders::Ipv4(h, e) => v4_struct_vs_slice(h, e, &b.header(), &b.extensions(), true),
                _ => assert!(false, "C06: from_ipv4_slice returned IPv6 headers"),
            }
            same_ip_payload(&pa, b.payload());
        }
        (Err(ea), Err(eb)) => {
            let (fa, fb) = (f_ipv4_slice(ea), f_ipv4_slice(eb));
            witness!(fa.is_len() && len >= 20, "err_len_behind_header");
            witness!(fa == F::AuthZeroPayloadLen, "err_auth_content");
            // same order of checks in both doors: no tolerance
            assert!(fa == fb, "C06: from_ipv4_slice and Ipv4Slice reject for different reasons");
        }
        _ => assert!(false, "C06: from_ipv4_slice and Ipv4Slice disagree on accept/reject"),
    }
}

/// IpHeaders::from_ipv4_slice_lax vs LaxIpv4Slice::from_slice
pub fn ip4_hdr_lax<const N: usize>() {
    let data: [u8; N] = any();
    let len = any_le(N);
    let s = &data[..len];
    let a = IpHeaders::from_ipv4_slice_lax(s);
    let b = LaxIpv4Slice::from_slice(s);
    match (a, b) {
        (Ok((ha, pa, sa)), Ok((b, sb))) => {
            witness!(pa.incomplete, "ok_incomplete");
            witness!(sa.is_some() && pa.len_source == LenSource::Slice, "ok_stop_slice_limited");
            witness!(b.extensions().auth.is_some(), "ok_auth");
            match &ha {
                IpHeaders::Ipv4(h, e) => v4_struct_vs_slice(h, e, &b.header(), &b.extensions(), true),
                _ => assert!(false, "C06: from_ipv4_slice_lax returned IPv6 headers"),
            }
            same_lax_ip_payload(&pa, b.payload());
            same_stop(&lax_stop_from_auth(sa), &lax_stop_from_auth(sb));
        }
        (Err(ea), Err(eb)) => {
            let (fa, fb) = (f_ip_lax(ea), f_ipv4_hslice(eb));
            witness!(matches!(fa, F::Ihl(_)), "err_ihl");
            assert!(fa == fb, "C06: from_ipv4_slice_lax and LaxIpv4Slice reject for different reasons");
        }
        _ => assert!(false, "C06: from_ipv4_slice_lax and LaxIpv4Slice disagree on accept/reject"),
    }
}

// ------------------------------------------------------------------------------------------
// (a) IP boundary implementations, IPv6 side
// ------------------------------------------------------------------------------------------
//
// TOL-2 (IPv6, version-specific door versus dispatching door on a slice whose nibble is neither 4
//   nor 6, shorter than 40 bytes): the IPv6-specific door demands 40 bytes before it looks at the
//   version, the dispatching door has read the nibble. Same rule as TOL-1.
// TOL-3 (IPv6, struct doors versus slice doors): `Ipv6Extensions` can hold each extension header
//   once (destination options twice); the struct doors stop - documented in
//   `Ipv6Extensions::from_slice` - in front of the first header that no longer fits and hand it
//   back as payload (ip_number is then an extension header number), the slice doors walk on.
//   When the struct door stopped for that reason only the base header and the verdict "the bytes up
//   to the stop were accepted" are compared. (Not reachable inside the bound of the struct
//   harnesses below - no complete extension header fits - kept so that a larger bound does not
//   turn the documented difference into an alarm.)

fn not_v4(s: &[u8]) {
    // the IPv4 side is decided by the ip4_* harnesses
    assume(s.is_empty() || s[0] >> 4 != 4);
}

/// `a`: door that dispatched on byte 0, `b`: IPv6-specific door that demands 40 bytes first
fn cmp_faults_v6(len: usize, v6: bool, fa: &F, fb: &F) {
    if !v6 && len < 40 {
        // TOL-2
        if let (F::Len(x), F::Len(y)) = (fa, fb) {
            assert!(x.len == y.len && x.len_source == y.len_source && x.layer_start_offset == y.layer_start_offset,
                "C06: coexisting length faults disagree on the measured length");
        }
    } else {
        assert!(fa == fb, "C06: IPv6 doors reject for different reasons");
    }
}

/// IpSlice::from_slice vs Ipv6Slice::from_slice
pub fn ip6_strict_slices<const N: usize>() {
    let data: [u8; N] = any();
    let len = any_le(N);
    let s = &data[..len];
    not_v4(s);
    let v6 = len > 0 && s[0] >> 4 == 6;
    let a = IpSlice::from_slice(s);
    let b = Ipv6Slice::from_slice(s);
    match (a, b) {
        (Ok(a), Ok(b)) => {
            witness!(!b.extensions().is_empty(), "ok_ext");
            witness!(b.payload().len_source == LenSource::Slice && b.payload().payload.len() > 0, "ok_payload_len_zero");
            witness!(b.payload().len_source == LenSource::Ipv6HeaderPayloadLen && 40 + b.header().payload_length() as usize + 1 <= len, "ok_trailing_bytes");
            match &a {
                IpSlice::Ipv6(a6) => same_ipv6_slice(a6, &b),
                IpSlice::Ipv4(_) => assert!(false, "C06: IpSlice dispatched an IPv6 packet to IPv4"),
            }
            same_ip_payload(a.payload(), b.payload());
            assert!(a.payload_ip_number() == b.payload().ip_number);
            assert!(a.is_fragmenting_payload() == b.is_payload_fragmented());
        }
        (Err(ea), Err(eb)) => {
            let (fa, fb) = (f_ip_slice(ea), f_ipv6_slice(eb));
            witness!(v6 && len >= 40 && fa.is_len() && matches!(&fa, F::Len(l) if l.layer_start_offset == 40), "err_len_in_ext");
            witness!(v6 && len >= 40 && matches!(&fa, F::Len(l) if l.layer == Layer::Ipv6Packet), "err_len_payload");
            witness!(!v6 && len < 40 && fa != fb, "tol2_order_of_checks");
            cmp_faults_v6(len, v6, &fa, &fb);
        }
        _ => assert!(false, "C06: IpSlice and Ipv6Slice disagree on accept/reject"),
    }
}

/// LaxIpSlice::from_slice vs LaxIpv6Slice::from_slice
pub fn ip6_lax_slices<const N: usize>() {
    let data: [u8; N] = any();
    let len = any_le(N);
    let s = &data[..len];
    not_v4(s);
    let v6 = len > 0 && s[0] >> 4 == 6;
    let a = LaxIpSlice::from_slice(s);
    let b = LaxIpv6Slice::from_slice(s);
    match (a, b) {
        (Ok((a, sa)), Ok((b, sb))) => {
            witness!(b.payload().incomplete, "ok_incomplete");
            witness!(sb.is_some() && b.payload().len_source == LenSource::Slice, "ok_stop_slice_limited");
            witness!(sb.is_some() && b.payload().len_source == LenSource::Ipv6HeaderPayloadLen, "ok_stop_header_limited");
            match &a {
                LaxIpSlice::Ipv6(a6) => same_lax_ipv6_slice(a6, &b),
                LaxIpSlice::Ipv4(_) => assert!(false, "C06: LaxIpSlice dispatched an IPv6 packet to IPv4"),
            }
            same_lax_ip_payload(a.payload(), b.payload());
            assert!(a.payload_ip_number() == b.payload().ip_number);
            assert!(a.is_fragmenting_payload() == b.is_payload_fragmented());
            same_stop(&lax_stop_from_ipv6_ext(sa), &lax_stop_from_ipv6_ext(sb));
        }
        (Err(ea), Err(eb)) => {
            let (fa, fb) = (f_ip_lax(ea), f_ipv6_hslice(eb));
            witness!(v6 && fa.is_len(), "err_len_shared");
            witness!(!v6 && len < 40 && fa != fb, "tol2_order_of_checks");
            cmp_faults_v6(len, v6, &fa, &fb);
        }
        _ => assert!(false, "C06: LaxIpSlice and LaxIpv6Slice disagree on accept/reject"),
    }
}

/// IpHeaders::from_ipv6_slice vs Ipv6Slice::from_slice
pub fn ip6_hdr_strict<const N: usize>() {
    let data: [u8; N] = any();
    let len = any_le(N);
    let s = &data[..len];
    let a = IpHeaders::from_ipv6_slice(s);
    let b = Ipv6Slice::from_slice(s);
    match (a, b) {
        (Ok((ha, pa)), Ok(b)) => {
            witness!(pa.len_source == LenSource::Slice && pa.payload.len() > 0, "ok_payload_len_zero");
            witness!(pa.len_source == LenSource::Ipv6HeaderPayloadLen && pa.payload.len() > 0, "ok_payload");
            match &ha {
                IpHeaders::Ipv6(h, e) => {
                    if is_ipv6_ext(pa.ip_number) {
                        // TOL-3: struct door stopped in front of a header it cannot store
                        same_ipv6_header(h, &b.header().to_header());
                    } else {
                        v6_struct_vs_slice(h, e, &b.header(), b.extensions());
                        same_ip_payload(&pa, b.payload());
                    }
                }
                _ => assert!(false, "C06: from_ipv6_slice returned IPv4 headers"),
            }
        }
        (Err(ea), Err(eb)) => {
            let (fa, fb) = (f_ipv6_slice(ea), f_ipv6_slice(eb));
            witness!(matches!(&fa, F::Len(l) if l.layer == Layer::Ipv6Packet), "err_len_payload");
            witness!(matches!(&fa, F::Len(l) if l.layer_start_offset == 40 && l.len_source == LenSource::Ipv6HeaderPayloadLen), "err_len_in_ext_header_limited");
            witness!(matches!(&fa, F::Len(l) if l.layer_start_offset == 40 && l.len_source == LenSource::Slice), "err_len_in_ext_slice_limited");
            // (the pinned tree once reported len_source Ipv6HeaderPayloadLen from Ipv6Slice/IpSlice for
            // a truncated extension header when payload_length was 0 and the slice was the limit,
            // while the struct doors said Slice - fixed in /repo 73a3d85; this equality is what
            // keeps it fixed)
            assert!(fa == fb, "C06: from_ipv6_slice and Ipv6Slice reject for different reasons");
        }
        (Ok((_, pa)), Err(eb)) => {
            // TOL-3 again: the slice door walked into a header the struct door handed back as payload
            forget(eb);
            assert!(is_ipv6_ext(pa.ip_number), "C06: from_ipv6_slice accepts what Ipv6Slice rejects");
        }
        _ => assert!(false, "C06: from_ipv6_slice rejects what Ipv6Slice accepts"),
    }
}

/// IpHeaders::from_ipv6_slice_lax vs LaxIpv6Slice::from_slice
pub fn ip6_hdr_lax<const N: usize>() {
    let data: [u8; N] = any();
    let len = any_le(N);
    let s = &data[..len];
    let a = IpHeaders::from_ipv6_slice_lax(s);
    let b = LaxIpv6Slice::from_slice(s);
    match (a, b) {
        (Ok((ha, pa, sa)), Ok((b, sb))) => {
            witness!(pa.incomplete, "ok_incomplete");
            witness!(sa.is_some() && pa.len_source == LenSource::Slice, "ok_stop_slice_limited");
            witness!(sa.is_some() && pa.len_source == LenSource::Ipv6HeaderPayloadLen, "ok_stop_header_limited");
            match &ha {
                IpHeaders::Ipv6(h, e) => {
                    if sa.is_none() && is_ipv6_ext(pa.ip_number) {
                        // TOL-3
                        same_ipv6_header(h, &b.header().to_header());
                    } else {
                        v6_struct_vs_slice(h, e, &b.header(), b.extensions());
                        same_lax_ip_payload(&pa, b.payload());
                        same_stop(&lax_stop_from_ipv6_ext(sa), &lax_stop_from_ipv6_ext(sb));
                    }
                }
                _ => assert!(false, "C06: from_ipv6_slice_lax returned IPv4 headers"),
            }
        }
        (Err(ea), Err(eb)) => {
            let (fa, fb) = (f_ipv6_hslice(ea), f_ipv6_hslice(eb));
            witness!(matches!(fa, F::Version(_)), "err_version");
            assert!(fa == fb, "C06: from_ipv6_slice_lax and LaxIpv6Slice reject for different reasons");
        }
        _ => assert!(false, "C06: from_ipv6_slice_lax and LaxIpv6Slice disagree on accept/reject"),
    }
}

// ---- dispatching struct doors (both versions in one harness: both code paths are part of the
//      formula anyway, an assumption on the nibble does not make it smaller)

/// IpHeaders::from_slice vs IpSlice::from_slice
pub fn ip_hdr_strict_dispatch<const N: usize>() {
    let data: [u8; N] = any();
    let len = any_le(N);
    let s = &data[..len];
    let a = IpHeaders::from_slice(s);
    let b = IpSlice::from_slice(s);
    let v4 = len > 0 && s[0] >> 4 == 4;
    match (a, b) {
        (Ok((ha, pa)), Ok(b)) => {
            witness!(v4 && pa.payload.len() > 0, "ok_v4_payload");
            witness!(!v4 && pa.payload.len() > 0, "ok_v6_payload");
            match (&ha, &b) {
                (IpHeaders::Ipv4(h, e), IpSlice::Ipv4(b4)) => {
                    v4_struct_vs_slice(h, e, &b4.header(), &b4.extensions(), false);
                    same_ip_payload(&pa, b.payload());
                }
                (IpHeaders::Ipv6(h, e), IpSlice::Ipv6(b6)) => {
                    if is_ipv6_ext(pa.ip_number) {
                        // TOL-3
                        same_ipv6_header(h, &b6.header().to_header());
                    } else {
                        v6_struct_vs_slice_opt(h, e, &b6.header(), b6.extensions(), false);
                        same_ip_payload(&pa, b.payload());
                    }
                }
                _ => assert!(false, "C06: from_slice and IpSlice disagree on the IP version"),
            }
        }
        (Err(ea), Err(eb)) => {
            let (fa, fb) = (f_ip_headers_slice(ea), f_ip_slice(eb));
            witness!(matches!(fa, F::Version(_)), "err_version");
            witness!(v4 && len < 20 && fa != fb, "tol1_order_of_checks");
            if v4 {
                // TOL-1: IpSlice looks at the IHL before it demands 20 bytes
                cmp_faults_v4(len, &fb, &fa);
            } else {
                assert!(fa == fb, "C06: from_slice and IpSlice reject for different reasons");
            }
        }
        (Ok((_, pa)), Err(eb)) => {
            forget(eb);
            // TOL-3
            assert!(!v4 && is_ipv6_ext(pa.ip_number), "C06: from_slice accepts what IpSlice rejects");
        }
        _ => assert!(false, "C06: from_slice rejects what IpSlice accepts"),
    }
}

/// IpHeaders::from_slice_lax vs LaxIpSlice::from_slice
pub fn ip_hdr_lax_dispatch<const N: usize>() {
    let data: [u8; N] = any();
    let len = any_le(N);
    let s = &data[..len];
    let a = IpHeaders::from_slice_lax(s);
    let b = LaxIpSlice::from_slice(s);
    let v4 = len > 0 && s[0] >> 4 == 4;
    match (a, b) {
        (Ok((ha, pa, sa)), Ok((b, sb))) => {
            witness!(v4 && pa.incomplete, "ok_v4_incomplete");
            witness!(!v4 && pa.incomplete, "ok_v6_incomplete");
            witness!(v4 && sa.is_some(), "ok_v4_stop");
            witness!(!v4 && sa.is_some(), "ok_v6_stop");
            let tol3 = !v4 && sa.is_none() && is_ipv6_ext(pa.ip_number);
            match (&ha, &b) {
                (IpHeaders::Ipv4(h, e), LaxIpSlice::Ipv4(b4)) => {
                    v4_struct_vs_slice(h, e, &b4.header(), &b4.extensions(), false);
                }
                (IpHeaders::Ipv6(h, e), LaxIpSlice::Ipv6(b6)) => {
                    if tol3 {
                        same_ipv6_header(h, &b6.header().to_header());
                    } else {
                        v6_struct_vs_slice_opt(h, e, &b6.header(), b6.extensions(), false);
                    }
                }
                _ => assert!(false, "C06: from_slice_lax and LaxIpSlice disagree on the IP version"),
            }
            if !tol3 {
                same_lax_ip_payload(&pa, b.payload());
                same_stop(&lax_stop_from_ip_exts(sa), &lax_stop_from_ipv6_ext(sb));
            }
        }
        (Err(ea), Err(eb)) => {
            let (fa, fb) = (f_ip_lax(ea), f_ip_lax(eb));
            witness!(matches!(fa, F::Version(_)), "err_version");
            witness!(v4 && len < 20 && fa != fb, "tol1_order_of_checks");
            if v4 {
                cmp_faults_v4(len, &fb, &fa);
            } else {
                assert!(fa == fb, "C06: from_slice_lax and LaxIpSlice reject for different reasons");
            }
        }
        _ => assert!(false, "C06: from_slice_lax and LaxIpSlice disagree on accept/reject"),
    }
}

// ------------------------------------------------------------------------------------------
// (c) T::read(io::Read) vs T::from_slice
// ------------------------------------------------------------------------------------------
//
// The reader is `std::io::Cursor<&[u8]>` over the very slice the slice door gets, so "the slice
// holds the announced packet" is automatic for the plain headers. Required:
//   * both accept -> equal header, cursor position == header length (== bytes the slice door cut),
//   * both reject -> same content reason, or  Len (slice door)  <->  io error of kind UnexpectedEof,
//   * never accept/reject split.
// TOL-5 (Ipv6RawExtHeader::read_limited): see `rd_limited_raw`.
// TOL-4 (Ipv4Header, Ipv6Header): a stream reader sees byte 0 before it can know that the input is
//   too short; on 1..=19 (IPv4) / 1..=39 (IPv6) bytes with a wrong version nibble `read` reports
//   the version, `from_slice` the length. Both faults are present; verdicts agree.

fn eof(e: std::io::Error) {
    assert!(e.kind() == std::io::ErrorKind::UnexpectedEof, "C06: reader failed with something else than UnexpectedEof");
    forget(e);
}

fn same_eth2(a: &Ethernet2Header, b: &Ethernet2Header) {
    same_arr(&a.source, &b.source);
    same_arr(&a.destination, &b.destination);
    assert!(a.ether_type == b.ether_type);
}

fn same_sll(a: &LinuxSllHeader, b: &LinuxSllHeader) {
    assert!(a.packet_type == b.packet_type);
    assert!(a.arp_hrd_type == b.arp_hrd_type);
    assert!(a.sender_address_valid_length == b.sender_address_valid_length);
    same_arr(&a.sender_address, &b.sender_address);
    assert!(a.protocol_type == b.protocol_type);
}

fn same_arp(a: &ArpPacket, b: &ArpPacket) {
    assert!(a.hw_addr_type == b.hw_addr_type);
    assert!(a.proto_addr_type == b.proto_addr_type);
    assert!(a.hw_addr_size() == b.hw_addr_size());
    assert!(a.protocol_addr_size() == b.protocol_addr_size());
    assert!(a.operation == b.operation);
    same_bytes(a.sender_hw_addr(), b.sender_hw_addr());
    same_bytes(a.sender_protocol_addr(), b.sender_protocol_addr());
    same_bytes(a.target_hw_addr(), b.target_hw_addr());
    same_bytes(a.target_protocol_addr(), b.target_protocol_addr());
}

fn same_tcp(a: &TcpHeader, b: &TcpHeader) {
    assert!(a.source_port == b.source_port);
    assert!(a.destination_port == b.destination_port);
    assert!(a.sequence_number == b.sequence_number);
    assert!(a.acknowledgment_number == b.acknowledgment_number);
    assert!(a.ns == b.ns && a.fin == b.fin && a.syn == b.syn && a.rst == b.rst && a.psh == b.psh);
    assert!(a.ack == b.ack && a.urg == b.urg && a.ece == b.ece && a.cwr == b.cwr);
    assert!(a.window_size == b.window_size);
    assert!(a.checksum == b.checksum);
    assert!(a.urgent_pointer == b.urgent_pointer);
    same_bytes(a.options.as_slice(), b.options.as_slice());
}

/// Ethernet2Header / SingleVlanHeader / UdpHeader / Ipv6FragmentHeader: fixed size, no content rule
pub fn rd_fixed() {
    use std::io::Cursor;
    let data: [u8; 16] = any();
    let len = any_le(16);
    let s = &data[..len];
    let which: u8 = any();
    assume(which < 4);
    let mut c = Cursor::new(s);
    match which {
        0 => match (Ethernet2Header::read(&mut c), Ethernet2Header::from_slice(s)) {
            (Ok(a), Ok((b, rest))) => {
                witness!(true, "eth_ok");
                same_eth2(&a, &b);
                assert!(c.position() == 14 && rest.len() + 14 == len);
            }
            (Err(e), Err(l)) => {
                witness!(true, "eth_err");
                eof(e);
                assert!(l.required_len == 14 && l.len == len);
            }
            _ => assert!(false, "C06: Ethernet2Header read/from_slice disagree"),
        },
        1 => match (SingleVlanHeader::read(&mut c), SingleVlanHeader::from_slice(s)) {
            (Ok(a), Ok((b, rest))) => {
                witness!(true, "vlan_ok");
                assert!(a == b);
                assert!(c.position() == 4 && rest.len() + 4 == len);
            }
            (Err(e), Err(l)) => {
                eof(e);
                assert!(l.required_len == 4 && l.len == len);
            }
            _ => assert!(false, "C06: SingleVlanHeader read/from_slice disagree"),
        },
        2 => match (UdpHeader::read(&mut c), UdpHeader::from_slice(s)) {
            (Ok(a), Ok((b, rest))) => {
                witness!(true, "udp_ok");
                assert!(a == b);
                assert!(c.position() == 8 && rest.len() + 8 == len);
            }
            (Err(e), Err(l)) => {
                eof(e);
                assert!(l.required_len == 8 && l.len == len);
            }
            _ => assert!(false, "C06: UdpHeader read/from_slice disagree"),
        },
        _ => match (Ipv6FragmentHeader::read(&mut c), Ipv6FragmentHeader::from_slice(s)) {
            (Ok(a), Ok((b, rest))) => {
                witness!(true, "frag_ok");
                same_frag(&a, &b);
                assert!(c.position() == 8 && rest.len() + 8 == len);
            }
            (Err(e), Err(l)) => {
                witness!(true, "frag_err");
                eof(e);
                assert!(l.required_len == 8 && l.len == len);
            }
            _ => assert!(false, "C06: Ipv6FragmentHeader read/from_slice disagree"),
        },
    }
}

/// LinuxSllHeader::read vs LinuxSllHeader::from_slice
pub fn rd_sll() {
    let data: [u8; 18] = any();
    let len = any_le(18);
    let s = &data[..len];
    let mut c = std::io::Cursor::new(s);
    match (LinuxSllHeader::read(&mut c), LinuxSllHeader::from_slice(s)) {
        (Ok(a), Ok((b, rest))) => {
            witness!(true, "ok");
            same_sll(&a, &b);
            assert!(c.position() == 16 && rest.len() + 16 == len);
        }
        (Err(ea), Err(eb)) => match (ea, eb) {
            (err::ReadError::Io(e), err::linux_sll::HeaderSliceError::Len(l)) => {
                witness!(true, "err_len");
                eof(e);
                assert!(l.required_len == 16 && l.len == len);
            }
            (err::ReadError::LinuxSll(x), err::linux_sll::HeaderSliceError::Content(y)) => {
                witness!(true, "err_content");
                assert!(x == y, "C06: LinuxSllHeader read/from_slice reject for different content reasons");
            }
            (ea, _) => {
                forget(ea);
                assert!(false, "C06: LinuxSllHeader read/from_slice reject for different reasons");
            }
        },
        (Ok(_), Err(_)) => assert!(false, "C06: LinuxSllHeader::read accepts what from_slice rejects"),
        (Err(e), Ok(_)) => {
            forget(e);
            assert!(false, "C06: LinuxSllHeader::read rejects what from_slice accepts");
        }
    }
}

/// MacsecHeader::read vs MacsecHeader::from_slice
pub fn rd_macsec() {
    let data: [u8; 18] = any();
    let len = any_le(18);
    let s = &data[..len];
    let mut c = std::io::Cursor::new(s);
    match (MacsecHeader::read(&mut c), MacsecHeader::from_slice(s)) {
        (Ok(a), Ok(b)) => {
            witness!(a.sci.is_some() && a.next_ether_type().is_some(), "ok_16");
            witness!(a.sci.is_none() && a.next_ether_type().is_none(), "ok_6");
            assert!(a == b, "C06: MacsecHeader read/from_slice decode different values");
            assert!(c.position() == a.header_len() as u64);
        }
        (Err(ea), Err(eb)) => match (ea, eb) {
            (err::macsec::HeaderReadError::Io(e), err::macsec::HeaderSliceError::Len(l)) => {
                witness!(l.required_len > 6, "err_len_rest");
                eof(e);
                assert!(l.len == len);
            }
            (err::macsec::HeaderReadError::Content(x), err::macsec::HeaderSliceError::Content(y)) => {
                witness!(true, "err_content");
                assert!(x == y, "C06: MacsecHeader read/from_slice reject for different content reasons");
            }
            (ea, _) => {
                forget(ea);
                assert!(false, "C06: MacsecHeader read/from_slice reject for different reasons");
            }
        },
        (Ok(_), Err(_)) => assert!(false, "C06: MacsecHeader::read accepts what from_slice rejects"),
        (Err(e), Ok(_)) => {
            forget(e);
            assert!(false, "C06: MacsecHeader::read rejects what from_slice accepts");
        }
    }
}

/// ArpPacket::read vs ArpPacket::from_slice
pub fn rd_arp<const N: usize>() {
    let data: [u8; N] = any();
    let len = any_le(N);
    let s = &data[..len];
    let mut c = std::io::Cursor::new(s);
    match (ArpPacket::read(&mut c), ArpPacket::from_slice(s)) {
        (Ok(a), Ok(b)) => {
            witness!(a.hw_addr_size() == 6 && a.protocol_addr_size() == 4, "ok_eth_ipv4");
            witness!(a.hw_addr_size() == 0 && a.protocol_addr_size() > 0, "ok_no_hw");
            same_arp(&a, &b);
            assert!(c.position() == a.packet_len() as u64);
        }
        (Err(e), Err(l)) => {
            witness!(l.required_len > 8, "err_len_addrs");
            eof(e);
            assert!(l.len == len);
        }
        (Ok(_), Err(_)) => assert!(false, "C06: ArpPacket::read accepts what from_slice rejects"),
        (Err(e), Ok(_)) => {
            forget(e);
            assert!(false, "C06: ArpPacket::read rejects what from_slice accepts");
        }
    }
}

/// Ipv4Header::read vs Ipv4Header::from_slice
pub fn rd_ipv4_header<const N: usize>() {
    let data: [u8; N] = any();
    let len = any_le(N);
    let s = &data[..len];
    let mut c = std::io::Cursor::new(s);
    match (Ipv4Header::read(&mut c), Ipv4Header::from_slice(s)) {
        (Ok(a), Ok((b, rest))) => {
            witness!(a.options.len() > 0, "ok_options");
            same_ipv4_header(&a, &b);
            assert!(c.position() == a.header_len() as u64 && rest.len() + a.header_len() == len);
        }
        (Err(ea), Err(eb)) => match (ea, eb) {
            (err::ipv4::HeaderReadError::Io(e), err::ipv4::HeaderSliceError::Len(l)) => {
                witness!(l.required_len > 20, "err_len_options");
                eof(e);
                assert!(l.len == len);
            }
            (err::ipv4::HeaderReadError::Content(x), err::ipv4::HeaderSliceError::Content(y)) => {
                witness!(true, "err_content");
                assert!(x == y, "C06: Ipv4Header read/from_slice reject for different content reasons");
            }
            (err::ipv4::HeaderReadError::Content(x), err::ipv4::HeaderSliceError::Len(l)) => {
                // TOL-4
                witness!(true, "tol4_version_seen_first");
                assert!(len >= 1 && len < 20 && l.required_len == 20
                    && x == err::ipv4::HeaderError::UnexpectedVersion { version_number: s[0] >> 4 },
                    "C06: Ipv4Header::read reports a content fault where from_slice reports a length fault (outside TOL-4)");
            }
            (ea, _) => {
                forget(ea);
                assert!(false, "C06: Ipv4Header::read reports Io where from_slice reports a content fault");
            }
        },
        (Ok(_), Err(_)) => assert!(false, "C06: Ipv4Header::read accepts what from_slice rejects"),
        (Err(e), Ok(_)) => {
            forget(e);
            assert!(false, "C06: Ipv4Header::read rejects what from_slice accepts");
        }
    }
}

/// Ipv6Header::read vs Ipv6Header::from_slice
pub fn rd_ipv6_header() {
    let data: [u8; 42] = any();
    let len = any_le(42);
    let s = &data[..len];
    let mut c = std::io::Cursor::new(s);
    match (Ipv6Header::read(&mut c), Ipv6Header::from_slice(s)) {
        (Ok(a), Ok((b, rest))) => {
            witness!(true, "ok");
            same_ipv6_header(&a, &b);
            assert!(c.position() == 40 && rest.len() + 40 == len);
        }
        (Err(ea), Err(eb)) => match (ea, eb) {
            (err::ipv6::HeaderReadError::Io(e), err::ipv6::HeaderSliceError::Len(l)) => {
                witness!(true, "err_len");
                eof(e);
                assert!(l.required_len == 40 && l.len == len);
            }
            (err::ipv6::HeaderReadError::Content(x), err::ipv6::HeaderSliceError::Content(y)) => {
                witness!(true, "err_content");
                assert!(x == y, "C06: Ipv6Header read/from_slice reject for different content reasons");
            }
            (err::ipv6::HeaderReadError::Content(x), err::ipv6::HeaderSliceError::Len(l)) => {
                // TOL-4
                witness!(true, "tol4_version_seen_first");
                assert!(len >= 1 && len < 40 && l.required_len == 40
                    && x == err::ipv6::HeaderError::UnexpectedVersion { version_number: s[0] >> 4 },
                    "C06: Ipv6Header::read reports a content fault where from_slice reports a length fault (outside TOL-4)");
            }
            (ea, _) => {
                forget(ea);
                assert!(false, "C06: Ipv6Header::read reports Io where from_slice reports a content fault");
            }
        },
        (Ok(_), Err(_)) => assert!(false, "C06: Ipv6Header::read accepts what from_slice rejects"),
        (Err(e), Ok(_)) => {
            forget(e);
            assert!(false, "C06: Ipv6Header::read rejects what from_slice accepts");
        }
    }
}

/// Ipv6RawExtHeader::read vs Ipv6RawExtHeader::from_slice
pub fn rd_raw_ext<const N: usize>() {
    let data: [u8; N] = any();
    let len = any_le(N);
    let s = &data[..len];
    let mut c = std::io::Cursor::new(s);
    match (Ipv6RawExtHeader::read(&mut c), Ipv6RawExtHeader::from_slice(s)) {
        (Ok(a), Ok((b, rest))) => {
            witness!(a.header_len() > 8, "ok_long");
            same_raw_ext(&a, &b);
            assert!(a.header_len() == b.header_len());
            assert!(c.position() == a.header_len() as u64 && rest.len() + a.header_len() == len);
        }
        (Err(e), Err(l)) => {
            witness!(l.required_len > 8, "err_len_rest");
            eof(e);
            assert!(l.len == len);
        }
        (Ok(_), Err(_)) => assert!(false, "C06: Ipv6RawExtHeader::read accepts what from_slice rejects"),
        (Err(e), Ok(_)) => {
            forget(e);
            assert!(false, "C06: Ipv6RawExtHeader::read rejects what from_slice accepts");
        }
    }
}

/// IpAuthHeader::read vs IpAuthHeader::from_slice
pub fn rd_auth<const N: usize>() {
    let data: [u8; N] = any();
    let len = any_le(N);
    let s = &data[..len];
    let mut c = std::io::Cursor::new(s);
    match (IpAuthHeader::read(&mut c), IpAuthHeader::from_slice(s)) {
        (Ok(a), Ok((b, rest))) => {
            witness!(a.raw_icv().len() > 0, "ok_icv");
            same_auth(&a, &b);
            assert!(a.header_len() == b.header_len());
            assert!(c.position() == a.header_len() as u64 && rest.len() + a.header_len() == len);
        }
        (Err(ea), Err(eb)) => match (ea, eb) {
            (err::ip_auth::HeaderReadError::Io(e), err::ip_auth::HeaderSliceError::Len(l)) => {
                witness!(l.required_len > 12, "err_len_icv");
                eof(e);
                assert!(l.len == len);
            }
            (err::ip_auth::HeaderReadError::Content(x), err::ip_auth::HeaderSliceError::Content(y)) => {
                witness!(true, "err_content");
                assert!(x == y);
            }
            (ea, _) => {
                forget(ea);
                assert!(false, "C06: IpAuthHeader read/from_slice reject for different reasons");
            }
        },
        (Ok(_), Err(_)) => assert!(false, "C06: IpAuthHeader::read accepts what from_slice rejects"),
        (Err(e), Ok(_)) => {
            forget(e);
            assert!(false, "C06: IpAuthHeader::read rejects what from_slice accepts");
        }
    }
}

/// Ipv4Extensions::read vs Ipv4Extensions::from_slice (every start ip number)
pub fn rd_ipv4_exts<const N: usize>() {
    let data: [u8; N] = any();
    let len = any_le(N);
    let s = &data[..len];
    let start = IpNumber(any());
    let mut c = std::io::Cursor::new(s);
    match (Ipv4Extensions::read(&mut c, start), Ipv4Extensions::from_slice(start, s)) {
        (Ok((a, na)), Ok((b, nb, rest))) => {
            witness!(a.auth.is_some(), "ok_auth");
            witness!(a.auth.is_none(), "ok_none");
            same_ipv4_exts(&a, &b);
            assert!(na == nb, "C06: Ipv4Extensions read/from_slice name different next headers");
            assert!(c.position() == a.header_len() as u64 && rest.len() + a.header_len() == len);
        }
        (Err(ea), Err(eb)) => match (ea, eb) {
            (err::ip_auth::HeaderReadError::Io(e), err::ip_auth::HeaderSliceError::Len(l)) => {
                witness!(true, "err_len");
                eof(e);
                assert!(l.len == len);
            }
            (err::ip_auth::HeaderReadError::Content(x), err::ip_auth::HeaderSliceError::Content(y)) => {
                witness!(true, "err_content");
                assert!(x == y);
            }
            (ea, _) => {
                forget(ea);
                assert!(false, "C06: Ipv4Extensions read/from_slice reject for different reasons");
            }
        },
        (Ok(_), Err(_)) => assert!(false, "C06: Ipv4Extensions::read accepts what from_slice rejects"),
        (Err(e), Ok(_)) => {
            forget(e);
            assert!(false, "C06: Ipv4Extensions::read rejects what from_slice accepts");
        }
    }
}

/// TcpHeader::read vs TcpHeader::from_slice
pub fn rd_tcp<const N: usize>() {
    let data: [u8; N] = any();
    let len = any_le(N);
    let s = &data[..len];
    let mut c = std::io::Cursor::new(s);
    match (TcpHeader::read(&mut c), TcpHeader::from_slice(s)) {
        (Ok(a), Ok((b, rest))) => {
            witness!(a.options.len() == 40, "ok_full_options");
            same_tcp(&a, &b);
            assert!(c.position() == a.header_len() as u64 && rest.len() + a.header_len() == len);
        }
        (Err(ea), Err(eb)) => match (ea, eb) {
            (err::tcp::HeaderReadError::Io(e), err::tcp::HeaderSliceError::Len(l)) => {
                witness!(l.required_len > 20, "err_len_options");
                eof(e);
                assert!(l.len == len);
            }
            (err::tcp::HeaderReadError::Content(x), err::tcp::HeaderSliceError::Content(y)) => {
                witness!(true, "err_content");
                assert!(x == y);
            }
            (ea, _) => {
                forget(ea);
                assert!(false, "C06: TcpHeader read/from_slice reject for different reasons");
            }
        },
        (Ok(_), Err(_)) => assert!(false, "C06: TcpHeader::read accepts what from_slice rejects"),
        (Err(e), Ok(_)) => {
            forget(e);
            assert!(false, "C06: TcpHeader::read rejects what from_slice accepts");
        }
    }
}

/// Icmpv4Header::read vs Icmpv4Header::from_slice. The timestamp rule of the slice door ("exactly
/// 20 bytes") depends on the total slice length, so - as the property says - the slice door gets
/// the slice that ends with the header when the reader's input is longer.
pub fn rd_icmpv4() {
    let data: [u8; 24] = any();
    let len = any_le(24);
    let s = &data[..len];
    let timestamp = len >= 2 && (s[0] == 13 || s[0] == 14) && s[1] == 0; // RFC 792 timestamp / reply
    let t = if timestamp && len > 20 { &s[..20] } else { s };
    let mut c = std::io::Cursor::new(s);
    match (Icmpv4Header::read(&mut c), Icmpv4Header::from_slice(t)) {
        (Ok(a), Ok((b, rest))) => {
            witness!(timestamp, "ok_timestamp");
            witness!(!timestamp && len > 8, "ok_other");
            assert!(a == b, "C06: Icmpv4Header read/from_slice decode different values");
            assert!(c.position() == a.header_len() as u64 && rest.len() + a.header_len() == t.len());
        }
        (Err(e), Err(l)) => {
            witness!(timestamp && len >= 8, "err_timestamp_short");
            eof(e);
            assert!(l.len == len);
        }
        (Ok(_), Err(_)) => assert!(false, "C06: Icmpv4Header::read accepts what from_slice rejects"),
        (Err(e), Ok(_)) => {
            forget(e);
            assert!(false, "C06: Icmpv4Header::read rejects what from_slice accepts");
        }
    }
}

/// Icmpv6Header::read vs Icmpv6Header::from_slice
pub fn rd_icmpv6() {
    let data: [u8; 12] = any();
    let len = any_le(12);
    let s = &data[..len];
    let mut c = std::io::Cursor::new(s);
    match (Icmpv6Header::read(&mut c), Icmpv6Header::from_slice(s)) {
        (Ok(a), Ok((b, rest))) => {
            witness!(len > 8, "ok");
            assert!(a == b, "C06: Icmpv6Header read/from_slice decode different values");
            assert!(c.position() == 8 && rest.len() + 8 == len);
        }
        (Err(e), Err(l)) => {
            witness!(true, "err");
            eof(e);
            assert!(l.required_len == 8 && l.len == len);
        }
        (Ok(_), Err(_)) => assert!(false, "C06: Icmpv6Header::read accepts what from_slice rejects"),
        (Err(e), Ok(_)) => {
            forget(e);
            assert!(false, "C06: Icmpv6Header::read rejects what from_slice accepts");
        }
    }
}

// ---- read_limited: the LimitedReader enforces an outer length; the slice door gets the slice cut
//      to that length ("the slice that holds the announced packet")

fn any_len_source() -> LenSource {
    let k: u8 = any();
    assume(k < 4);
    match k {
        0 => LenSource::Slice,
        1 => LenSource::Ipv4HeaderTotalLen,
        2 => LenSource::Ipv6HeaderPayloadLen,
        _ => LenSource::UdpHeaderLen,
    }
}

/// limit error of the reader == length error of the slice door on the cut slice, relabelled with
/// the reader's length source and start offset
fn same_limit(lim: &LenError, sl: &LenError, src: LenSource, off: usize, max_len: usize) {
    assert!(lim.required_len == sl.required_len, "C06: limited reader and slice door demand different lengths");
    assert!(lim.len == max_len && sl.len == max_len);
    assert!(lim.layer == sl.layer, "C06: limited reader and slice door name different layers");
    assert!(lim.len_source == src && sl.len_source == LenSource::Slice);
    assert!(lim.layer_start_offset == off && sl.layer_start_offset == 0);
}

/// Ipv6FragmentHeader::read_limited vs Ipv6FragmentHeader::from_slice
pub fn rd_limited_frag<const N: usize>() {
    use etherparse::io::LimitedReader;
    use std::io::Cursor;
    let data: [u8; N] = any();
    let len = any_le(N);
    let s = &data[..len];
    let max_len = any_le(N);
    assume(max_len <= len);
    let cut = &s[..max_len];
    let src = any_len_source();
    let off = any_le(1000);
    let mut r = LimitedReader::new(Cursor::new(s), max_len, src, off, Layer::Ipv6Header);
    match (Ipv6FragmentHeader::read_limited(&mut r), Ipv6FragmentHeader::from_slice(cut)) {
        (Ok(a), Ok((b, _))) => {
            witness!(true, "frag_ok");
            same_frag(&a, &b);
            assert!(r.take_reader().position() == 8);
        }
        (Err(err::io::LimitedReadError::Len(x)), Err(y)) => {
            witness!(true, "frag_limit");
            same_limit(&x, &y, src, off, max_len);
        }
        (Err(e), _) => {
            forget(e);
            assert!(false, "C06: Ipv6FragmentHeader::read_limited fails differently from from_slice");
        }
        _ => assert!(false, "C06: Ipv6FragmentHeader::read_limited accepts what from_slice rejects"),
    }
}

/// Ipv6RawExtHeader::read_limited vs Ipv6RawExtHeader::from_slice
pub fn rd_limited_raw<const N: usize>() {
    use etherparse::io::LimitedReader;
    use std::io::Cursor;
    let data: [u8; N] = any();
    let len = any_le(N);
    let s = &data[..len];
    let max_len = any_le(N);
    assume(max_len <= len);
    let cut = &s[..max_len];
    let src = any_len_source();
    let off = any_le(1000);
    let mut r = LimitedReader::new(Cursor::new(s), max_len, src, off, Layer::Ipv6Header);
    match (Ipv6RawExtHeader::read_limited(&mut r), Ipv6RawExtHeader::from_slice(cut)) {
        (Ok(a), Ok((b, _))) => {
            witness!(a.header_len() > 8, "raw_ok_long");
            same_raw_ext(&a, &b);
            assert!(r.take_reader().position() == a.header_len() as u64);
        }
        (Err(err::io::LimitedReadError::Len(x)), Err(y)) => {
            witness!(x.required_len > 8, "raw_limit_rest");
            if max_len < 8 {
                // TOL-5: the slice door demands the 8-byte minimum before it looks at the length
                // byte; the reader takes the 2 fixed bytes first and then demands the announced
                // rest, so below 8 available bytes it names 2 or (hdr_ext_len+1)*8 instead of 8.
                // Every one of these demands is unmet; the rest of the error must agree.
                witness!(x.required_len != y.required_len, "tol5_chunked_demand");
                assert!(y.required_len == 8);
                assert!(x.required_len == 2 || (max_len >= 2 && x.required_len == (usize::from(s[1]) + 1) * 8),
                    "C06: limited reader demands a length that is neither its 2-byte chunk nor the announced header length");
                let mut x2 = x.clone();
                x2.required_len = 8;
                same_limit(&x2, &y, src, off, max_len);
            } else {
                same_limit(&x, &y, src, off, max_len);
            }
        }
        (Err(e), _) => {
            forget(e);
            assert!(false, "C06: Ipv6RawExtHeader::read_limited fails differently from from_slice");
        }
        _ => assert!(false, "C06: Ipv6RawExtHeader::read_limited accepts what from_slice rejects"),
    }
}

/// IpAuthHeader::read_limited vs IpAuthHeader::from_slice
pub fn rd_limited_auth<const N: usize>() {
    use etherparse::io::LimitedReader;
    use std::io::Cursor;
    let data: [u8; N] = any();
    let len = any_le(N);
    let s = &data[..len];
    let max_len = any_le(N);
    assume(max_len <= len);
    let cut = &s[..max_len];
    let src = any_len_source();
    let off = any_le(1000);
    let mut r = LimitedReader::new(Cursor::new(s), max_len, src, off, Layer::Ipv6Header);
    match (IpAuthHeader::read_limited(&mut r), IpAuthHeader::from_slice(cut)) {
        (Ok(a), Ok((b, _))) => {
            witness!(a.raw_icv().len() > 0, "auth_ok_icv");
            same_auth(&a, &b);
            assert!(r.take_reader().position() == a.header_len() as u64);
        }
        (Err(ea), Err(eb)) => match (ea, eb) {
            (err::ip_auth::HeaderLimitedReadError::Len(x), err::ip_auth::HeaderSliceError::Len(y)) => {
                witness!(x.required_len > 12, "auth_limit_icv");
                same_limit(&x, &y, src, off, max_len);
            }
            (err::ip_auth::HeaderLimitedReadError::Content(x), err::ip_auth::HeaderSliceError::Content(y)) => {
                witness!(true, "auth_content");
                assert!(x == y);
            }
            (ea, _) => {
                forget(ea);
                assert!(false, "C06: IpAuthHeader::read_limited fails differently from from_slice");
            }
        },
        (Err(e), Ok(_)) => {
            forget(e);
            assert!(false, "C06: IpAuthHeader::read_limited rejects what from_slice accepts");
        }
        _ => assert!(false, "C06: IpAuthHeader::read_limited accepts what from_slice rejects"),
    }
}

// ------------------------------------------------------------------------------------------
// (b) whole-packet doors
// ------------------------------------------------------------------------------------------
//
// from_ethernet(s)  vs  from_ether_type(ether type of s, &s[14..]):  everything below the link
// layer must be the same ranges / values, the link entry is door specific (Ethernet2 slice or
// header versus the bare ether payload) but must describe the same payload, errors are equal
// after shifting `layer_start_offset` of the second door by 14.
// from_ether_type(IPV4|IPV6, s)  vs  from_ip(s):  same net / transport / payload; errors equal
// (TOL-1 / TOL-2 apply: the strict ether-type doors use the version-specific IP decoder, from_ip
// the dispatching one).
// Frames shorter than 14 bytes have no second door and are not compared.

fn same_ether_payload(a: &EtherPayloadSlice, b: &EtherPayloadSlice) {
    assert!(a.ether_type == b.ether_type);
    assert!(a.len_source == b.len_source);
    assert!(same_range(a.payload, b.payload), "C06: ether payload range differs");
}

fn same_lax_ether_payload(a: &LaxEtherPayloadSlice, b: &LaxEtherPayloadSlice) {
    assert!(a.incomplete == b.incomplete);
    assert!(a.ether_type == b.ether_type);
    assert!(a.len_source == b.len_source);
    assert!(same_range(a.payload, b.payload), "C06: ether payload range differs");
}

fn same_link_ext(a: Option<&LinkExtSlice>, b: Option<&LinkExtSlice>) {
    match (a, b) {
        (None, None) => {}
        (Some(LinkExtSlice::Vlan(x)), Some(LinkExtSlice::Vlan(y))) => {
            assert!(same_range(x.slice(), y.slice()), "C06: VLAN range differs");
        }
        (Some(LinkExtSlice::Macsec(x)), Some(LinkExtSlice::Macsec(y))) => {
            assert!(same_range(x.header.slice(), y.header.slice()), "C06: MACsec header range differs");
            match (&x.payload, &y.payload) {
                (MacsecPayloadSlice::Unmodified(p), MacsecPayloadSlice::Unmodified(q)) => same_ether_payload(p, q),
                (MacsecPayloadSlice::Modified(p), MacsecPayloadSlice::Modified(q)) => {
                    assert!(same_range(p, q), "C06: MACsec payload range differs")
                }
                _ => assert!(false, "C06: MACsec payload kind differs"),
            }
        }
        _ => assert!(false, "C06: link extensions differ"),
    }
}

fn same_lax_link_ext(a: Option<&LaxLinkExtSlice>, b: Option<&LaxLinkExtSlice>) {
    match (a, b) {
        (None, None) => {}
        (Some(LaxLinkExtSlice::Vlan(x)), Some(LaxLinkExtSlice::Vlan(y))) => {
            assert!(same_range(x.slice(), y.slice()), "C06: VLAN range differs");
        }
        (Some(LaxLinkExtSlice::Macsec(x)), Some(LaxLinkExtSlice::Macsec(y))) => {
            assert!(same_range(x.header.slice(), y.header.slice()), "C06: MACsec header range differs");
            match (&x.payload, &y.payload) {
                (LaxMacsecPayloadSlice::Unmodified(p), LaxMacsecPayloadSlice::Unmodified(q)) => same_lax_ether_payload(p, q),
                (
                    LaxMacsecPayloadSlice::Modified { incomplete: i1, payload: p },
                    LaxMacsecPayloadSlice::Modified { incomplete: i2, payload: q },
                ) => {
                    assert!(i1 == i2);
                    assert!(same_range(p, q), "C06: MACsec payload range differs")
                }
                _ => assert!(false, "C06: MACsec payload kind differs"),
            }
        }
        _ => assert!(false, "C06: link extensions differ"),
    }
}

fn same_net(a: &Option<NetSlice>, b: &Option<NetSlice>) {
    match (a, b) {
        (None, None) => {}
        (Some(NetSlice::Ipv4(x)), Some(NetSlice::Ipv4(y))) => same_ipv4_slice(x, y),
        (Some(NetSlice::Ipv6(x)), Some(NetSlice::Ipv6(y))) => same_ipv6_slice(x, y),
        (Some(NetSlice::Arp(x)), Some(NetSlice::Arp(y))) => {
            assert!(same_range(x.slice(), y.slice()), "C06: ARP range differs")
        }
        _ => assert!(false, "C06: net layer differs"),
    }
}

fn same_lax_net(a: &Option<LaxNetSlice>, b: &Option<LaxNetSlice>) {
    match (a, b) {
        (None, None) => {}
        (Some(LaxNetSlice::Ipv4(x)), Some(LaxNetSlice::Ipv4(y))) => same_lax_ipv4_slice(x, y),
        (Some(LaxNetSlice::Ipv6(x)), Some(LaxNetSlice::Ipv6(y))) => same_lax_ipv6_slice(x, y),
        (Some(LaxNetSlice::Arp(x)), Some(LaxNetSlice::Arp(y))) => {
            assert!(same_range(x.slice(), y.slice()), "C06: ARP range differs")
        }
        _ => assert!(false, "C06: net layer differs"),
    }
}

fn same_transport(a: &Option<TransportSlice>, b: &Option<TransportSlice>) {
    match (a, b) {
        (None, None) => {}
        (Some(TransportSlice::Udp(x)), Some(TransportSlice::Udp(y))) => {
            assert!(same_range(x.slice(), y.slice()), "C06: UDP range differs");
            assert!(same_range(x.payload(), y.payload()));
        }
        (Some(TransportSlice::Tcp(x)), Some(TransportSlice::Tcp(y))) => {
            assert!(same_range(x.slice(), y.slice()), "C06: TCP range differs");
            assert!(x.header_len() == y.header_len());
        }
        (Some(TransportSlice::Icmpv4(x)), Some(TransportSlice::Icmpv4(y))) => {
            assert!(same_range(x.slice(), y.slice()), "C06: ICMPv4 range differs");
        }
        (Some(TransportSlice::Icmpv6(x)), Some(TransportSlice::Icmpv6(y))) => {
            assert!(same_range(x.slice(), y.slice()), "C06: ICMPv6 range differs");
        }
        _ => assert!(false, "C06: transport layer differs"),
    }
}

fn set_ether_type<const N: usize>(data: &mut [u8; N], et: u16) {
    // shaped variant: a concrete ether type keeps the link-extension loop out of the formula
    if et != 0 {
        data[12] = (et >> 8) as u8;
        data[13] = et as u8;
    }
}

/// SlicedPacket::from_ethernet vs SlicedPacket::from_ether_type. `ET` = 0: any ether type.
pub fn pk_sliced_eth<const N: usize, const ET: u16>() {
    let mut data: [u8; N] = any();
    set_ether_type(&mut data, ET);
    let len = any_le(N);
    assume(len >= 14);
    let s = &data[..len];
    let et = EtherType(u16::from_be_bytes([s[12], s[13]]));
    let a = SlicedPacket::from_ethernet(s);
    let b = SlicedPacket::from_ether_type(et, &s[14..]);
    match (a, b) {
        (Ok(a), Ok(b)) => {
            witness!(a.net.is_some() || !a.link_exts.is_empty(), "ok_below_link");
            match (&a.link, &b.link) {
                (Some(LinkSlice::Ethernet2(e)), Some(LinkSlice::EtherPayload(p))) => {
                    assert!(same_range(e.slice(), s), "C06: Ethernet2 slice is not the input");
                    same_ether_payload(&e.payload(), p);
                }
                _ => assert!(false, "C06: link entries are not the ones the doors document"),
            }
            assert!(a.link_exts.len() == b.link_exts.len(), "C06: number of link extensions differs");
            same_link_ext(a.link_exts.get(0), b.link_exts.get(0));
            same_link_ext(a.link_exts.get(1), b.link_exts.get(1));
            same_link_ext(a.link_exts.get(2), b.link_exts.get(2));
            same_net(&a.net, &b.net);
            same_transport(&a.transport, &b.transport);
        }
        (Err(ea), Err(eb)) => {
            let (fa, fb) = (f_packet(ea), f_packet(eb).shifted(14));
            witness!(matches!(&fa, F::Len(l) if l.layer_start_offset > 14), "err_len_deep");
            witness!(!fa.is_len(), "err_content");
            assert!(fa == fb, "C06: from_ethernet and from_ether_type reject differently (after +14)");
        }
        _ => assert!(false, "C06: SlicedPacket::from_ethernet and from_ether_type disagree on accept/reject"),
    };
}

/// SlicedPacket::from_ether_type(IPV4 | IPV6, s) vs SlicedPacket::from_ip(s)
pub fn pk_sliced_ip<const N: usize, const ET: u16>() {
    let data: [u8; N] = any();
    let len = any_le(N);
    let s = &data[..len];
    let v4 = ET == 0x0800;
    if v4 {
        not_v6(s);
    } else {
        not_v4(s);
    }
    let right = len > 0 && s[0] >> 4 == (if v4 { 4 } else { 6 });
    let a = SlicedPacket::from_ether_type(EtherType(ET), s);
    let b = SlicedPacket::from_ip(s);
    match (a, b) {
        (Ok(a), Ok(b)) => {
            witness!(a.transport.is_some(), "ok_transport");
            witness!(a.net.is_some() && a.transport.is_none(), "ok_net_only");
            match (&a.link, &b.link) {
                (Some(LinkSlice::EtherPayload(p)), None) => {
                    assert!(p.ether_type == EtherType(ET) && p.len_source == LenSource::Slice && same_range(p.payload, s));
                }
                _ => assert!(false, "C06: link entries are not the ones the doors document"),
            }
            assert!(a.link_exts.is_empty() && b.link_exts.is_empty());
            same_net(&a.net, &b.net);
            same_transport(&a.transport, &b.transport);
        }
        (Err(ea), Err(eb)) => {
            let (fa, fb) = (f_packet(ea), f_packet(eb));
            witness!(matches!(&fa, F::Len(l) if l.layer_start_offset >= 20), "err_len_deep");
            witness!(fa != fb, "tol_order_of_checks");
            if v4 {
                cmp_faults_v4(len, &fb, &fa);
            } else {
                cmp_faults_v6(len, right, &fb, &fa);
            }
        }
        _ => assert!(false, "C06: SlicedPacket::from_ether_type and from_ip disagree on accept/reject"),
    };
}

fn stop_of(e: &Option<(err::packet::SliceError, Layer)>, shift: usize) -> Stop {
    e.clone().map(|(e, l)| (f_packet(e).shifted(shift), l))
}

/// LaxSlicedPacket::from_ethernet vs LaxSlicedPacket::from_ether_type
pub fn pk_lax_eth<const N: usize, const ET: u16>() {
    let mut data: [u8; N] = any();
    set_ether_type(&mut data, ET);
    let len = any_le(N);
    assume(len >= 14);
    let s = &data[..len];
    let et = EtherType(u16::from_be_bytes([s[12], s[13]]));
    let a = match LaxSlicedPacket::from_ethernet(s) {
        Ok(a) => a,
        Err(_) => {
            assert!(false, "C06: LaxSlicedPacket::from_ethernet rejects a frame with a complete Ethernet II header");
            return;
        }
    };
    let b = LaxSlicedPacket::from_ether_type(et, &s[14..]);
    witness!(a.net.is_some() || !a.link_exts.is_empty(), "below_link");
    witness!(matches!(&a.stop_err, Some((err::packet::SliceError::Len(l), _)) if l.layer_start_offset > 14), "stop_len_deep");
    match (&a.link, &b.link) {
        (Some(LinkSlice::Ethernet2(e)), Some(LinkSlice::EtherPayload(p))) => {
            assert!(same_range(e.slice(), s), "C06: Ethernet2 slice is not the input");
            same_ether_payload(&e.payload(), p);
        }
        _ => assert!(false, "C06: link entries are not the ones the doors document"),
    }
    assert!(a.link_exts.len() == b.link_exts.len(), "C06: number of link extensions differs");
    same_lax_link_ext(a.link_exts.get(0), b.link_exts.get(0));
    same_lax_link_ext(a.link_exts.get(1), b.link_exts.get(1));
    same_lax_link_ext(a.link_exts.get(2), b.link_exts.get(2));
    same_lax_net(&a.net, &b.net);
    same_transport(&a.transport, &b.transport);
    same_stop(&stop_of(&a.stop_err, 0), &stop_of(&b.stop_err, 14));
}

/// LaxSlicedPacket::from_ether_type(IPV4, s) vs from_ether_type(IPV6, s) vs from_ip(s)
/// (the lax ether-type door dispatches on the version nibble for both ether types)
pub fn pk_lax_ip<const N: usize>() {
    let data: [u8; N] = any();
    let len = any_le(N);
    let s = &data[..len];
    let a4 = LaxSlicedPacket::from_ether_type(EtherType(0x0800), s);
    let a6 = LaxSlicedPacket::from_ether_type(EtherType(0x86dd), s);
    let b = LaxSlicedPacket::from_ip(s);
    // the two ether types give the same answer
    assert!(a4.link_exts.is_empty() && a6.link_exts.is_empty());
    same_lax_net(&a4.net, &a6.net);
    same_transport(&a4.transport, &a6.transport);
    same_stop(&stop_of(&a4.stop_err, 0), &stop_of(&a6.stop_err, 0));
    match (&a4.link, &a6.link) {
        (Some(LinkSlice::EtherPayload(p)), Some(LinkSlice::EtherPayload(q))) => {
            assert!(p.ether_type == EtherType(0x0800) && q.ether_type == EtherType(0x86dd));
            assert!(same_range(p.payload, s) && same_range(q.payload, s));
        }
        _ => assert!(false, "C06: link entries are not the ones the doors document"),
    }
    match b {
        Ok(b) => {
            witness!(b.transport.is_some(), "ok_transport");
            witness!(b.stop_err.is_some(), "ok_stop");
            witness!(matches!(&b.net, Some(LaxNetSlice::Ipv6(_))), "ok_v6");
            assert!(b.link.is_none() && b.link_exts.is_empty());
            same_lax_net(&a4.net, &b.net);
            same_transport(&a4.transport, &b.transport);
            same_stop(&stop_of(&a4.stop_err, 0), &stop_of(&b.stop_err, 0));
        }
        Err(e) => {
            witness!(true, "err");
            // from_ip rejects where the ether-type door records the same fault as stop error
            assert!(a4.net.is_none() && a4.transport.is_none());
            let want: Stop = Some((f_ip_lax(e), Layer::IpHeader));
            same_stop(&stop_of(&a4.stop_err, 0), &want);
        }
    }
}

// ---- struct based packet doors (PacketHeaders, LaxPacketHeaders): NOT BUILT.
// Every door of these two families runs IpHeaders::from_ipv4_slice / from_ipv6_slice (or the
// dispatching from_slice*) on its IP arm; the `IpHeaders` / `NetHeaders` values are ~9 KB enums
// and one such door already costs 3-8 GB under CBMC. Two doors in one formula - which is what a
// differential check needs - were measured at > 18 GB (out of memory at the 20 GB cap) for
//   PacketHeaders::from_ethernet_slice vs from_ether_type      (ARP shaped, N = 44; link shaped, N = 24)
//   LaxPacketHeaders::from_ethernet    vs from_ether_type      (same shapes)
// even with a concrete ether type (CBMC does not prune the IP arms). The pairs are listed as
// outside the claim in reg/c06.py. What they call underneath is compared door by door in family
// (a): from_ipv4_slice / from_ipv6_slice / from_slice and their lax twins.

crate::harnesses! {
    c06_ip4_strict_slices = ip4_strict_slices::<44>; unwind 2,
    c06_ip4_lax_slices = ip4_lax_slices::<44>; unwind 2,
    c06_ip6_strict_slices_48 = ip6_strict_slices::<48>; unwind 2,
    c06_ip6_lax_slices_48 = ip6_lax_slices::<48>; unwind 2,
    c06_ip6_strict_slices_56 = ip6_strict_slices::<56>; unwind 3,
    c06_ip6_lax_slices_56 = ip6_lax_slices::<56>; unwind 3,
    c06_rd_fixed = rd_fixed; unwind 2,
    c06_rd_sll = rd_sll; unwind 2,
    c06_rd_macsec = rd_macsec; unwind 2,
    c06_rd_arp = rd_arp::<30>; unwind 2,
    c06_rd_ipv4_header = rd_ipv4_header::<64>; unwind 2,
    c06_rd_ipv6_header = rd_ipv6_header; unwind 2,
    c06_rd_raw_ext = rd_raw_ext::<26>; unwind 2,
    c06_rd_auth = rd_auth::<28>; unwind 2,
    c06_rd_ipv4_exts = rd_ipv4_exts::<28>; unwind 2,
    c06_rd_tcp = rd_tcp::<64>; unwind 2,
    // derived == on Icmpv4Type / Icmpv6Type compares [u8; 4] members through memcmp: 4 bytes + 1
    c06_rd_icmpv4 = rd_icmpv4; unwind 6,
    c06_rd_icmpv6 = rd_icmpv6; unwind 6,
    c06_rd_limited_frag = rd_limited_frag::<12>; unwind 2,
    c06_rd_limited_raw = rd_limited_raw::<26>; unwind 2,
    c06_rd_limited_auth = rd_limited_auth::<28>; unwind 2,
    // any ether type, at most one complete link extension (a second VLAN/MACsec header cannot be
    // complete in 7 bytes): loop body runs twice
    c06_pk_sliced_eth_21 = pk_sliced_eth::<21, 0>; unwind 2,
    c06_pk_lax_eth_21 = pk_lax_eth::<21, 0>; unwind 2,
    c06_pk_sliced_eth_ip4 = pk_sliced_eth::<58, 0x0800>; unwind 2,
    c06_pk_lax_eth_ip4 = pk_lax_eth::<58, 0x0800>; unwind 2,
    c06_pk_sliced_ip4 = pk_sliced_ip::<44, 0x0800>; unwind 2,
    c06_pk_sliced_ip6 = pk_sliced_ip::<56, 0x86dd>; unwind 3,
    c06_pk_lax_ip = pk_lax_ip::<56>; unwind 3,
    c06_pk_sliced_eth_ip6 = pk_sliced_eth::<62, 0x86dd>; unwind 2,
    c06_pk_lax_eth_ip6 = pk_lax_eth::<62, 0x86dd>; unwind 2,
    c06_ip4_hdr_strict = ip4_hdr_strict::<44>; unwind 1,
    c06_ip4_hdr_lax = ip4_hdr_lax::<44>; unwind 1,
    c06_ip6_hdr_strict = ip6_hdr_strict::<47>; unwind 1,
    c06_ip6_hdr_lax = ip6_hdr_lax::<47>; unwind 1,
    // ip_hdr_strict_dispatch::<47> (IpHeaders::from_slice vs IpSlice::from_slice) is NOT registered:
    // it went through once (481 s, 13.8 GB resident) and ran out of memory at the 20 GB cap in the
    // next two runs - a check that only sometimes fits is not a check. The body is kept for a
    // machine with more memory:  c06_ip_hdr_strict_dispatch = ip_hdr_strict_dispatch::<47>; unwind 1,
    c06_ip_hdr_lax_dispatch = ip_hdr_lax_dispatch::<47>; unwind 1,
}
