//! C08 - every header value survives encode -> decode unchanged.
//!
//! Two directions per serialisable type:
//!  (1) `*_value`: arbitrary well-formed value v -> all serialisers (`to_bytes`, `write` into a
//!      capturing writer, `write_to_slice` where the type has one) agree byte for byte, the length
//!      is `header_len()`, and every decoder (`from_slice`, `from_bytes`, `read`) gives back `v`
//!      with an empty remainder / a fully consumed reader.
//!  (2) `*_bytes`: arbitrary byte string b (len <= N) -> if the decoder accepts it,
//!      `encode(decode(b)) == b & mask` where `mask` clears exactly the bits that the format
//!      reserves or the type documents as not stored (every cleared bit is justified next to the
//!      mask), and `decode(encode(decode(b))) == decode(b)` with an empty remainder.
//!
//! Well-formedness predicates of direction (1) are written from the RFCs / IEEE layouts and the
//! documented constructors; no constant of etherparse is used for them.
//!
//! Test doubles never fail and never build an `io::Error` (a symbolic `io::Error` drop is very
//! expensive for CBMC): the writer records an `overflow` flag, the reader an `overrun` flag, and
//! both are asserted to be false.

use crate::sym::{any, any_le, assume};
use crate::witness;
use etherparse::*;
use std::io;

// ------------------------------------------------------------------------------------------
// test doubles
// ------------------------------------------------------------------------------------------

/// capturing writer: appends everything into a fixed array (copy_from_slice only)
pub struct Cap<const N: usize> {
    pub buf: [u8; N],
    pub len: usize,
    pub overflow: bool,
}

impl<const N: usize> Cap<N> {
    pub fn new() -> Self {
        Cap { buf: [0u8; N], len: 0, overflow: false }
    }
    #[inline]
    fn put(&mut self, data: &[u8]) {
        let n = data.len();
        if n > N - self.len {
            self.overflow = true;
            return;
        }
        self.buf[self.len..self.len + n].copy_from_slice(data);
        self.len += n;
    }
    pub fn bytes(&self) -> &[u8] {
        &self.buf[..self.len]
    }
}

impl<const N: usize> io::Write for Cap<N> {
    #[inline]
    fn write(&mut self, data: &[u8]) -> io::Result<usize> {
        self.put(data);
        Ok(data.len())
    }
    #[inline]
    fn write_all(&mut self, data: &[u8]) -> io::Result<()> {
        self.put(data);
        Ok(())
    }
    #[inline]
    fn flush(&mut self) -> io::Result<()> {
        Ok(())
    }
}

/// reader over a byte slice; a read past the end is recorded (and zero filled), never an error
pub struct Rd<'a> {
    data: &'a [u8],
    pub pos: usize,
    pub overrun: bool,
    pub seeked: bool,
}

impl<'a> Rd<'a> {
    pub fn new(data: &'a [u8]) -> Self {
        Rd { data, pos: 0, overrun: false, seeked: false }
    }
    #[inline]
    fn take(&mut self, buf: &mut [u8]) {
        let n = buf.len();
        if n > self.data.len() - self.pos {
            self.overrun = true;
            return;
        }
        buf.copy_from_slice(&self.data[self.pos..self.pos + n]);
        self.pos += n;
    }
    /// the decoder consumed exactly the whole input, never asked for more, never seeked
    pub fn exact(&self) -> bool {
        !self.overrun && !self.seeked && self.pos == self.data.len()
    }
}

impl<'a> io::Read for Rd<'a> {
    #[inline]
    fn read(&mut self, buf: &mut [u8]) -> io::Result<usize> {
        self.take(buf);
        Ok(buf.len())
    }
    #[inline]
    fn read_exact(&mut self, buf: &mut [u8]) -> io::Result<()> {
        self.take(buf);
        Ok(())
    }
}

impl<'a> io::Seek for Rd<'a> {
    fn seek(&mut self, _: io::SeekFrom) -> io::Result<u64> {
        self.seeked = true;
        Ok(self.pos as u64)
    }
}

/// unwrap without running the drop glue of the error type (io::Error inside)
macro_rules! must_ok {
    ($e:expr) => {
        match $e {
            Ok(v) => v,
            Err(e) => {
                core::mem::forget(e);
                panic!("C08: result must be Ok")
            }
        }
    };
}

fn any_bool() -> bool {
    any()
}

// ------------------------------------------------------------------------------------------
// Ethernet II
// ------------------------------------------------------------------------------------------

pub fn eth2_value() {
    let h = Ethernet2Header { source: any(), destination: any(), ether_type: EtherType(any()) };
    let b = h.to_bytes();
    assert!(h.header_len() == 14);
    assert!(b.len() == h.header_len());
    // write
    let mut w = Cap::<16>::new();
    must_ok!(h.write(&mut w));
    assert!(!w.overflow);
    assert!(w.bytes() == &b[..]);
    // write_to_slice: exactly the header bytes, rest returned and untouched
    let mut s: [u8; 17] = any();
    let orig = s;
    {
        let rest = must_ok!(h.write_to_slice(&mut s));
        assert!(rest.len() == 3);
    }
    assert!(s[..14] == b[..]);
    assert!(s[14..] == orig[14..]);
    // decoders
    let (d, rest) = must_ok!(Ethernet2Header::from_slice(&b));
    assert!(d == h);
    assert!(rest.is_empty());
    assert!(Ethernet2Header::from_bytes(b) == h);
    let mut r = Rd::new(&b);
    let d = must_ok!(Ethernet2Header::read(&mut r));
    assert!(d == h);
    assert!(r.exact());
}

pub fn eth2_bytes() {
    let buf: [u8; 18] = any();
    let len = any_le(18);
    let b = &buf[..len];
    match Ethernet2Header::from_slice(b) {
        Ok((h, rest)) => {
            witness!(true, "accepted");
            witness!(!rest.is_empty(), "accepted_with_rest");
            assert!(len >= 14 && rest.len() == len - 14);
            assert!(rest.as_ptr() == b[14..].as_ptr());
            // IEEE 802.3: destination, source, ether type - no reserved bit
            let e = h.to_bytes();
            assert!(e[..] == b[..14]);
            let (h2, rest2) = must_ok!(Ethernet2Header::from_slice(&e));
            assert!(h2 == h);
            assert!(rest2.is_empty());
        }
        Err(e) => {
            core::mem::forget(e);
            witness!(true, "rejected");
        }
    }
}


// ------------------------------------------------------------------------------------------
// small symbolic value builders (acceptance sets of the documented checked constructors)
// ------------------------------------------------------------------------------------------

fn vlan_pcp() -> VlanPcp {
    let v: u8 = any();
    assume(v < 8); // 3 bit
    must_ok!(VlanPcp::try_new(v))
}
fn vlan_id() -> VlanId {
    let v: u16 = any();
    assume(v < (1 << 12)); // 12 bit
    must_ok!(VlanId::try_new(v))
}
fn dscp() -> IpDscp {
    let v: u8 = any();
    assume(v < 64); // 6 bit
    must_ok!(IpDscp::try_new(v))
}
fn ecn() -> IpEcn {
    let v: u8 = any();
    assume(v < 4); // 2 bit
    must_ok!(IpEcn::try_new(v))
}
fn frag_offset() -> IpFragOffset {
    let v: u16 = any();
    assume(v < (1 << 13)); // 13 bit
    must_ok!(IpFragOffset::try_new(v))
}
fn flow_label() -> Ipv6FlowLabel {
    let v: u32 = any();
    assume(v < (1 << 20)); // 20 bit
    must_ok!(Ipv6FlowLabel::try_new(v))
}

// ------------------------------------------------------------------------------------------
// Linux cooked capture v1 (LINKTYPE_LINUX_SLL)
// ------------------------------------------------------------------------------------------

/// well formed: packet type 0..=7 (if_packet.h), ARPHRD one of the five the crate documents as
/// supported, protocol type variant = the one documented for that ARPHRD; for ARPHRD_ETHER the
/// typed `LinuxNonstandardEtherType` wherever the number has one.
fn sll_header() -> LinuxSllHeader {
    let pt: u16 = any();
    assume(pt <= 7);
    let packet_type = must_ok!(LinuxSllPacketType::try_from(pt));
    let k: u8 = any();
    assume(k < 5);
    let v: u16 = any();
    // linux/if_arp.h: ARPHRD_NETLINK 824, ARPHRD_IPGRE 778, ARPHRD_IEEE80211_RADIOTAP 803,
    // ARPHRD_FRAD 770, ARPHRD_ETHER 1
    let (arp, proto) = match k {
        0 => (ArpHardwareId(824), LinuxSllProtocolType::NetlinkProtocolType(v)),
        1 => (ArpHardwareId(778), LinuxSllProtocolType::GenericRoutingEncapsulationProtocolType(v)),
        2 => (ArpHardwareId(803), LinuxSllProtocolType::Ignored(v)),
        3 => (ArpHardwareId(770), LinuxSllProtocolType::Ignored(v)),
        _ => (
            ArpHardwareId(1),
            match LinuxNonstandardEtherType::try_from(v) {
                Ok(n) => LinuxSllProtocolType::LinuxNonstandardEtherType(n),
                Err(()) => LinuxSllProtocolType::EtherType(EtherType(v)),
            },
        ),
    };
    LinuxSllHeader {
        packet_type,
        arp_hrd_type: arp,
        sender_address_valid_length: any(),
        sender_address: any(),
        protocol_type: proto,
    }
}

pub fn sll_value() {
    let h = sll_header();
    witness!(matches!(h.protocol_type, LinuxSllProtocolType::LinuxNonstandardEtherType(_)), "nonstandard_ether_type");
    witness!(matches!(h.protocol_type, LinuxSllProtocolType::EtherType(_)), "ether_type");
    witness!(matches!(h.protocol_type, LinuxSllProtocolType::Ignored(_)), "ignored");
    let b = h.to_bytes();
    assert!(h.header_len() == 16);
    assert!(b.len() == h.header_len());
    let mut w = Cap::<20>::new();
    must_ok!(h.write(&mut w));
    assert!(!w.overflow);
    assert!(w.bytes() == &b[..]);
    let mut s: [u8; 19] = any();
    let orig = s;
    {
        let rest = must_ok!(h.write_to_slice(&mut s));
        assert!(rest.len() == 3);
    }
    assert!(s[..16] == b[..]);
    assert!(s[16..] == orig[16..]);
    let (d, rest) = must_ok!(LinuxSllHeader::from_slice(&b));
    assert!(d == h);
    assert!(rest.is_empty());
    let d = must_ok!(LinuxSllHeader::from_bytes(b));
    assert!(d == h);
    let mut r = Rd::new(&b);
    let d = must_ok!(LinuxSllHeader::read(&mut r));
    assert!(d == h);
    assert!(r.exact());
}

pub fn sll_bytes() {
    let buf: [u8; 20] = any();
    let len = any_le(20);
    let b = &buf[..len];
    match LinuxSllHeader::from_slice(b) {
        Ok((h, rest)) => {
            witness!(true, "accepted");
            witness!(!rest.is_empty(), "accepted_with_rest");
            assert!(len >= 16 && rest.len() == len - 16);
            assert!(rest.as_ptr() == b[16..].as_ptr());
            // LINKTYPE_LINUX_SLL: packet type, ARPHRD, address length, 8 address bytes, protocol:
            // no reserved bit, nothing normalised
            let e = h.to_bytes();
            assert!(e[..] == b[..16]);
            let (h2, rest2) = must_ok!(LinuxSllHeader::from_slice(&e));
            assert!(h2 == h);
            assert!(rest2.is_empty());
        }
        Err(e) => {
            core::mem::forget(e);
            witness!(true, "rejected");
        }
    }
}

// ------------------------------------------------------------------------------------------
// IEEE 802.1Q VLAN tag
// ------------------------------------------------------------------------------------------

fn vlan_header() -> SingleVlanHeader {
    SingleVlanHeader {
        pcp: vlan_pcp(),
        drop_eligible_indicator: any_bool(),
        vlan_id: vlan_id(),
        ether_type: EtherType(any()),
    }
}

pub fn vlan_value() {
    let h = vlan_header();
    let b = h.to_bytes();
    assert!(h.header_len() == 4);
    assert!(b.len() == h.header_len());
    let mut w = Cap::<8>::new();
    must_ok!(h.write(&mut w));
    assert!(!w.overflow);
    assert!(w.bytes() == &b[..]);
    let (d, rest) = must_ok!(SingleVlanHeader::from_slice(&b));
    assert!(d == h);
    assert!(rest.is_empty());
    assert!(SingleVlanHeader::from_bytes(b) == h);
    let mut r = Rd::new(&b);
    let d = must_ok!(SingleVlanHeader::read(&mut r));
    assert!(d == h);
    assert!(r.exact());
}

pub fn vlan_bytes() {
    let buf: [u8; 8] = any();
    let len = any_le(8);
    let b = &buf[..len];
    match SingleVlanHeader::from_slice(b) {
        Ok((h, rest)) => {
            witness!(true, "accepted");
            witness!(!rest.is_empty(), "accepted_with_rest");
            assert!(len >= 4 && rest.len() == len - 4);
            assert!(rest.as_ptr() == b[4..].as_ptr());
            // 802.1Q TCI = PCP(3) DEI(1) VID(12) + ether type: all 32 bits carry a field
            let e = h.to_bytes();
            assert!(e[..] == b[..4]);
            let (h2, rest2) = must_ok!(SingleVlanHeader::from_slice(&e));
            assert!(h2 == h);
            assert!(rest2.is_empty());
        }
        Err(e) => {
            core::mem::forget(e);
            witness!(true, "rejected");
        }
    }
}

// ------------------------------------------------------------------------------------------
// IEEE 802.1AE MACsec SecTAG
// ------------------------------------------------------------------------------------------

/// well formed: all four payload types, with/without SCI. The one inconsistent combination is
/// excluded: `Unmodified` (ether type follows, counted in the short length) with short length 1 -
/// a short length of 1 cannot even cover the 2 byte ether type; `expected_payload_len` documents
/// it as undeterminable and the decoder rejects it (`InvalidUnmodifiedShortLen`).
fn macsec_header() -> MacsecHeader {
    let k: u8 = any();
    assume(k < 4);
    let ptype = match k {
        0 => MacsecPType::Unmodified(EtherType(any())),
        1 => MacsecPType::Modified,
        2 => MacsecPType::Encrypted,
        _ => MacsecPType::EncryptedUnmodified,
    };
    let an: u8 = any();
    assume(an < 4); // 2 bit
    let sl: u8 = any();
    assume(sl < 64); // 6 bit
    assume(!(k == 0 && sl == 1));
    let has_sci = any_bool();
    let sci: u64 = any();
    MacsecHeader {
        ptype,
        endstation_id: any_bool(),
        scb: any_bool(),
        an: must_ok!(MacsecAn::try_new(an)),
        short_len: must_ok!(MacsecShortLen::try_from_u8(sl)),
        packet_nr: any(),
        sci: if has_sci { Some(sci) } else { None },
    }
}

pub fn macsec_value() {
    let h = macsec_header();
    let b = h.to_bytes();
    let hl = h.header_len();
    witness!(hl == 6, "layout_6");
    witness!(hl == 8, "layout_8");
    witness!(hl == 14, "layout_14");
    witness!(hl == 16, "layout_16");
    assert!(b.len() == hl);
    let mut w = Cap::<20>::new();
    must_ok!(h.write(&mut w));
    assert!(!w.overflow);
    assert!(w.bytes() == &b[..]);
    let d = must_ok!(MacsecHeader::from_slice(&b));
    assert!(d == h);
    // "empty remainder": the header slice covers every byte that was produced
    let s = must_ok!(MacsecHeaderSlice::from_slice(&b));
    assert!(s.slice().len() == b.len());
    assert!(s.header_len() == hl);
    let mut r = Rd::new(&b);
    let d = must_ok!(MacsecHeader::read(&mut r));
    assert!(d == h);
    assert!(r.exact());
}

pub fn macsec_bytes() {
    let buf: [u8; 18] = any();
    let len = any_le(18);
    let b = &buf[..len];
    match MacsecHeaderSlice::from_slice(b) {
        Ok(s) => {
            witness!(true, "accepted");
            let h = s.to_header();
            let hl = h.header_len();
            witness!(hl < len, "accepted_with_rest");
            witness!(b[1] & 0xc0 != 0, "reserved_sl_bits_set");
            assert!(hl <= len);
            assert!(s.slice().len() == hl);
            assert!(s.slice().as_ptr() == b.as_ptr());
            let e = h.to_bytes();
            assert!(e.len() == hl);
            let mut i = 0;
            while i < hl {
                // 802.1AE 9.7: the SL octet is 00 SL(6) - the two top bits are reserved and not
                // kept by MacsecShortLen. (The version bit of the TCI is zero in every accepted tag.)
                let m: u8 = if i == 1 { 0x3f } else { 0xff };
                assert!(e[i] == b[i] & m);
                i += 1;
            }
            let h2 = must_ok!(MacsecHeader::from_slice(&e));
            assert!(h2 == h);
            let s2 = must_ok!(MacsecHeaderSlice::from_slice(&e));
            assert!(s2.slice().len() == e.len());
        }
        Err(e) => {
            core::mem::forget(e);
            witness!(true, "rejected");
        }
    }
}

// ------------------------------------------------------------------------------------------
// link layer wrappers (dispatch only)
// ------------------------------------------------------------------------------------------

pub fn link_wrappers() {
    // LinkHeader
    let e = Ethernet2Header { source: any(), destination: any(), ether_type: EtherType(any()) };
    let l = LinkHeader::Ethernet2(e.clone());
    assert!(l.header_len() == e.header_len());
    let mut w = Cap::<20>::new();
    must_ok!(l.write(&mut w));
    assert!(!w.overflow);
    assert!(w.bytes() == &e.to_bytes()[..]);

    let s = sll_header();
    let l = LinkHeader::LinuxSll(s.clone());
    assert!(l.header_len() == s.header_len());
    let mut w = Cap::<20>::new();
    must_ok!(l.write(&mut w));
    assert!(!w.overflow);
    assert!(w.bytes() == &s.to_bytes()[..]);

    // LinkExtHeader (no serialiser of its own; announces the length of its member)
    let v = vlan_header();
    assert!(LinkExtHeader::Vlan(v.clone()).header_len() == v.to_bytes().len());
    let m = macsec_header();
    assert!(LinkExtHeader::Macsec(m.clone()).header_len() == m.to_bytes().len());
}

// ------------------------------------------------------------------------------------------
// ARP
// ------------------------------------------------------------------------------------------

/// `ArpPacket` keeps four 255 byte `MaybeUninit` buffers and serialises through an
/// `ArrayVec<u8, 1028>`; copies of *symbolic* length into those exhaust CBMC's memory even for
/// sizes <= 2 (measured), so the address sizes are concrete per harness (const generics) and
/// everything else - types, operation, all address bytes - is symbolic. The offsets of the four
/// address fields are affine in (hlen, plen); the pairs used are not collinear.
fn arp_fixed<const H: usize, const P: usize>() -> ArpPacket {
    let a: [u8; H] = any();
    let b: [u8; P] = any();
    let c: [u8; H] = any();
    let d: [u8; P] = any();
    must_ok!(ArpPacket::new(ArpHardwareId(any()), EtherType(any()), ArpOperation(any()), &a, &b, &c, &d))
}

/// value with sizes (H, P) that previously held (H0, P0) >= (H, P): the internal buffers keep
/// stale bytes behind the valid part
fn arp_shrunk<const H0: usize, const P0: usize, const H: usize, const P: usize>() -> ArpPacket {
    let mut v = arp_fixed::<H0, P0>();
    let a: [u8; H] = any();
    let b: [u8; P] = any();
    let c: [u8; H] = any();
    let d: [u8; P] = any();
    must_ok!(v.set_hw_addrs(&a, &c));
    must_ok!(v.set_protocol_addrs(&b, &d));
    v
}

/// to_bytes == write, length == packet_len, from_slice gives the value back (L = 8 + 2H + 2P)
fn arp_check_slice<const L: usize>(v: &ArpPacket) {
    let bv = v.to_bytes();
    assert!(bv.len() == v.packet_len());
    assert!(bv.len() == L);
    // plain array copy: reads from the 1028 byte ArrayVec are expensive for CBMC
    let mut b = [0u8; L];
    b.copy_from_slice(&bv);
    let mut w = Cap::<L>::new();
    must_ok!(v.write(&mut w));
    assert!(!w.overflow);
    assert!(w.len == L);
    assert!(w.buf == b);
    let d = must_ok!(ArpPacket::from_slice(&b));
    assert!(d == *v);
    let s = must_ok!(ArpPacketSlice::from_slice(&b));
    assert!(s.slice().len() == L); // empty remainder
    assert!(NetHeaders::Arp(d).header_len() == L);
}

/// write -> read gives the value back and consumes exactly the packet
fn arp_check_read<const L: usize>(v: &ArpPacket) {
    let mut w = Cap::<L>::new();
    must_ok!(v.write(&mut w));
    assert!(!w.overflow);
    assert!(w.len == L);
    let mut r = Rd::new(&w.buf);
    let d = must_ok!(ArpPacket::read(&mut r));
    assert!(d == *v);
    assert!(r.exact());
}

pub fn arp_value_6_4() {
    arp_check_slice::<28>(&arp_fixed::<6, 4>())
}
pub fn arp_read_6_4() {
    arp_check_read::<28>(&arp_fixed::<6, 4>())
}
pub fn arp_value_0_0() {
    arp_check_slice::<8>(&arp_fixed::<0, 0>())
}
pub fn arp_value_1_2() {
    arp_check_slice::<14>(&arp_fixed::<1, 2>())
}
pub fn arp_read_1_2() {
    arp_check_read::<14>(&arp_fixed::<1, 2>())
}
pub fn arp_value_8_8() {
    arp_check_slice::<40>(&arp_fixed::<8, 8>())
}
pub fn arp_read_8_8() {
    arp_check_read::<40>(&arp_fixed::<8, 8>())
}
pub fn arp_value_3_0() {
    arp_check_slice::<14>(&arp_fixed::<3, 0>())
}
pub fn arp_value_0_5() {
    arp_check_slice::<18>(&arp_fixed::<0, 5>())
}
pub fn arp_value_shrunk() {
    arp_check_slice::<28>(&arp_shrunk::<8, 8, 6, 4>())
}

/// direction 2 with the two size bytes fixed to (H, P) and a buffer of exactly L + 2 bytes (a
/// symbolic slice length would make the decoded sizes symbolic again after the Ok/Err merge):
/// every other byte is symbolic, two bytes follow the packet
fn arp_bytes_hp<const H: u8, const P: u8, const L: usize, const N: usize>() {
    let mut buf: [u8; N] = any();
    buf[4] = H;
    buf[5] = P;
    let s = must_ok!(ArpPacketSlice::from_slice(&buf));
    assert!(N == L + 2);
    assert!(s.slice().len() == L);
    assert!(s.slice().as_ptr() == buf.as_ptr());
    let v = s.to_packet();
    assert!(v.packet_len() == L);
    // RFC 826: htype, ptype, hlen, plen, oper, 4 addresses - no reserved bit
    let ev = v.to_bytes();
    assert!(ev.len() == L);
    let mut e = [0u8; L];
    e.copy_from_slice(&ev);
    assert!(e[..] == buf[..L]);
    let v2 = must_ok!(ArpPacket::from_slice(&e));
    assert!(v2 == v);
    let s2 = must_ok!(ArpPacketSlice::from_slice(&e));
    assert!(s2.slice().len() == L);
}

pub fn arp_bytes_6_4() {
    arp_bytes_hp::<6, 4, 28, 30>()
}
pub fn arp_bytes_1_2() {
    arp_bytes_hp::<1, 2, 14, 16>()
}
pub fn arp_bytes_8_8() {
    arp_bytes_hp::<8, 8, 40, 42>()
}

pub fn arp_eth_ipv4_value() {
    let v = ArpEthIpv4Packet {
        operation: ArpOperation(any()),
        sender_mac: any(),
        sender_ipv4: any(),
        target_mac: any(),
        target_ipv4: any(),
    };
    let b = v.to_bytes();
    assert!(b.len() == 28);
    // the generic packet made from it serialises to the same bytes (to_bytes and write)
    let g = v.to_arp_packet();
    assert!(g.packet_len() == 28);
    let gv = g.to_bytes();
    assert!(gv.len() == 28);
    let mut gb = [0u8; 28];
    gb.copy_from_slice(&gv);
    assert!(gb == b);
    let mut w = Cap::<28>::new();
    must_ok!(g.write(&mut w));
    assert!(!w.overflow);
    assert!(w.len == 28 && w.buf == b);
    // decode
    let d = must_ok!(ArpPacket::from_slice(&b));
    assert!(d == g);
    let s = must_ok!(ArpPacketSlice::from_slice(&b));
    assert!(s.slice().len() == 28);
    let t = must_ok!(d.try_eth_ipv4());
    assert!(t == v);
    let t = must_ok!(ArpEthIpv4Packet::try_from(d));
    assert!(t == v);
}

pub fn arp_eth_ipv4_bytes() {
    let buf: [u8; 30] = any();
    let len = any_le(30);
    let b = &buf[..len];
    if let Ok(p) = ArpPacket::from_slice(b) {
        match p.try_eth_ipv4() {
            Ok(v) => {
                witness!(true, "accepted");
                witness!(len > 28, "accepted_with_rest");
                let e = v.to_bytes();
                assert!(len >= 28);
                assert!(e[..] == b[..28]);
                let p2 = must_ok!(ArpPacket::from_slice(&e));
                let v2 = must_ok!(p2.try_eth_ipv4());
                assert!(v2 == v);
            }
            Err(e) => {
                core::mem::forget(e);
                witness!(true, "not_eth_ipv4");
            }
        }
    }
}


// ------------------------------------------------------------------------------------------
// IPv4 header (+ options)
// ------------------------------------------------------------------------------------------

/// all field values; options: all 11 lengths 0,4,..,40 with arbitrary content (exactly the
/// acceptance set of `Ipv4Options::try_from(&[u8])`)
fn ipv4_header_w(words: usize) -> Ipv4Header {
    let data: [u8; 40] = any();
    let options: Ipv4Options = must_ok!(Ipv4Options::try_from(&data[..words * 4]));
    Ipv4Header {
        dscp: dscp(),
        ecn: ecn(),
        total_len: any(),
        identification: any(),
        dont_fragment: any_bool(),
        more_fragments: any_bool(),
        fragment_offset: frag_offset(),
        time_to_live: any(),
        protocol: IpNumber(any()),
        header_checksum: any(),
        source: any(),
        destination: any(),
        options,
    }
}

fn ipv4_header() -> Ipv4Header {
    ipv4_header_w(any_le(10))
}

pub fn ipv4_value() {
    let h = ipv4_header();
    let hl = h.header_len();
    witness!(hl == 20, "no_options");
    witness!(hl == 60, "max_options");
    witness!(hl == 36, "some_options");
    let b = h.to_bytes();
    assert!(b.len() == hl);
    assert!(hl == 20 + h.options.len());
    // write_raw: the stored checksum, identical to to_bytes
    let mut w = Cap::<64>::new();
    must_ok!(h.write_raw(&mut w));
    assert!(!w.overflow);
    assert!(w.bytes() == &b[..]);
    // decode
    let (d, rest) = must_ok!(Ipv4Header::from_slice(&b));
    assert!(d == h);
    assert!(rest.is_empty());
}

pub fn ipv4_value_read() {
    let h = ipv4_header();
    let b = h.to_bytes();
    let mut r = Rd::new(&b);
    let d = must_ok!(Ipv4Header::read(&mut r));
    assert!(d == h);
    assert!(r.exact());
}

/// `write` puts the *computed* header checksum into bytes 10..12 (documented: "automatically
/// calculates the header length and checksum"), everything else equals `to_bytes`
fn ipv4_write_case(words: usize) {
    let h = ipv4_header_w(words);
    let hl = h.header_len();
    let b = h.to_bytes();
    let mut w = Cap::<64>::new();
    must_ok!(h.write(&mut w));
    assert!(!w.overflow);
    assert!(w.len == hl);
    assert!(hl == 20 + 4 * words);
    assert!(w.buf[..10] == b[..10]);
    assert!(w.buf[12..hl] == b[12..]);
}

pub fn ipv4_value_write() {
    // the option length is made concrete per case (cheaper for the checksum loop); all 11 cases
    let words = any_le(10);
    let mut k = 0;
    while k <= 10 {
        if words == k {
            witness!(k == 10, "max_options");
            witness!(k == 0, "no_options");
            ipv4_write_case(k);
        }
        k += 1;
    }
}

pub fn ipv4_bytes() {
    const N: usize = 64;
    let buf: [u8; N] = any();
    let len = any_le(N);
    let b = &buf[..len];
    match Ipv4Header::from_slice(b) {
        Ok((h, rest)) => {
            witness!(true, "accepted");
            witness!(!rest.is_empty(), "accepted_with_rest");
            witness!(b[6] & 0x80 != 0, "reserved_flag_set");
            let hl = h.header_len();
            witness!(hl == 60, "max_options");
            assert!(hl <= len && rest.len() == len - hl);
            assert!(rest.as_ptr() == b[hl..].as_ptr());
            let e = h.to_bytes();
            assert!(e.len() == hl);
            let mut i = 0;
            while i < hl {
                // RFC 791 3.1: flags bit 0 (top bit of byte 6) is "reserved, must be zero";
                // Ipv4Header has no field for it
                let m: u8 = if i == 6 { 0x7f } else { 0xff };
                assert!(e[i] == b[i] & m);
                i += 1;
            }
            let (h2, rest2) = must_ok!(Ipv4Header::from_slice(&e));
            assert!(h2 == h);
            assert!(rest2.is_empty());
        }
        Err(e) => {
            core::mem::forget(e);
            witness!(true, "rejected");
        }
    }
}

// ------------------------------------------------------------------------------------------
// IPv6 header
// ------------------------------------------------------------------------------------------

fn ipv6_header() -> Ipv6Header {
    Ipv6Header {
        traffic_class: any(),
        flow_label: flow_label(),
        payload_length: any(),
        next_header: IpNumber(any()),
        hop_limit: any(),
        source: any(),
        destination: any(),
    }
}

pub fn ipv6_value() {
    let h = ipv6_header();
    let b = h.to_bytes();
    assert!(h.header_len() == 40);
    assert!(b.len() == h.header_len());
    let mut w = Cap::<44>::new();
    must_ok!(h.write(&mut w));
    assert!(!w.overflow);
    assert!(w.bytes() == &b[..]);
    let (d, rest) = must_ok!(Ipv6Header::from_slice(&b));
    assert!(d == h);
    assert!(rest.is_empty());
    let mut r = Rd::new(&b);
    let d = must_ok!(Ipv6Header::read(&mut r));
    assert!(d == h);
    assert!(r.exact());
}

pub fn ipv6_bytes() {
    const N: usize = 44;
    let buf: [u8; N] = any();
    let len = any_le(N);
    let b = &buf[..len];
    match Ipv6Header::from_slice(b) {
        Ok((h, rest)) => {
            witness!(true, "accepted");
            witness!(!rest.is_empty(), "accepted_with_rest");
            assert!(len >= 40 && rest.len() == len - 40);
            assert!(rest.as_ptr() == b[40..].as_ptr());
            // RFC 8200 3: version(4) traffic class(8) flow label(20) ... : no reserved bit
            let e = h.to_bytes();
            assert!(e[..] == b[..40]);
            let (h2, rest2) = must_ok!(Ipv6Header::from_slice(&e));
            assert!(h2 == h);
            assert!(rest2.is_empty());
        }
        Err(e) => {
            core::mem::forget(e);
            witness!(true, "rejected");
        }
    }
}

// ------------------------------------------------------------------------------------------
// IPv6 fragment header
// ------------------------------------------------------------------------------------------

fn ipv6_frag_header() -> Ipv6FragmentHeader {
    Ipv6FragmentHeader::new(IpNumber(any()), frag_offset(), any_bool(), any())
}

pub fn ipv6_frag_value() {
    let h = ipv6_frag_header();
    let b = h.to_bytes();
    assert!(h.header_len() == 8);
    assert!(b.len() == h.header_len());
    let mut w = Cap::<12>::new();
    must_ok!(h.write(&mut w));
    assert!(!w.overflow);
    assert!(w.bytes() == &b[..]);
    let (d, rest) = must_ok!(Ipv6FragmentHeader::from_slice(&b));
    assert!(d == h);
    assert!(rest.is_empty());
    let mut r = Rd::new(&b);
    let d = must_ok!(Ipv6FragmentHeader::read(&mut r));
    assert!(d == h);
    assert!(r.exact());
}

pub fn ipv6_frag_bytes() {
    const N: usize = 12;
    let buf: [u8; N] = any();
    let len = any_le(N);
    let b = &buf[..len];
    match Ipv6FragmentHeader::from_slice(b) {
        Ok((h, rest)) => {
            witness!(true, "accepted");
            witness!(!rest.is_empty(), "accepted_with_rest");
            witness!(b[1] != 0 && b[3] & 6 != 0, "reserved_bits_set");
            assert!(len >= 8 && rest.len() == len - 8);
            assert!(rest.as_ptr() == b[8..].as_ptr());
            let e = h.to_bytes();
            let mut i = 0;
            while i < 8 {
                // RFC 8200 4.5: byte 1 "Reserved: 8-bit reserved field", bits 2..1 of byte 3
                // "Res: 2-bit reserved field" - both "initialized to zero for transmission"
                let m: u8 = match i {
                    1 => 0x00,
                    3 => 0xf9,
                    _ => 0xff,
                };
                assert!(e[i] == b[i] & m);
                i += 1;
            }
            let (h2, rest2) = must_ok!(Ipv6FragmentHeader::from_slice(&e));
            assert!(h2 == h);
            assert!(rest2.is_empty());
        }
        Err(e) => {
            core::mem::forget(e);
            witness!(true, "rejected");
        }
    }
}

// ------------------------------------------------------------------------------------------
// UDP
// ------------------------------------------------------------------------------------------

fn udp_header() -> UdpHeader {
    UdpHeader { source_port: any(), destination_port: any(), length: any(), checksum: any() }
}

pub fn udp_value() {
    let h = udp_header();
    let b = h.to_bytes();
    assert!(h.header_len() == 8);
    assert!(b.len() == h.header_len());
    let mut w = Cap::<12>::new();
    must_ok!(h.write(&mut w));
    assert!(!w.overflow);
    assert!(w.bytes() == &b[..]);
    let (d, rest) = must_ok!(UdpHeader::from_slice(&b));
    assert!(d == h);
    assert!(rest.is_empty());
    assert!(UdpHeader::from_bytes(b) == h);
    let mut r = Rd::new(&b);
    let d = must_ok!(UdpHeader::read(&mut r));
    assert!(d == h);
    assert!(r.exact());
    // TransportHeader wrapper: same bytes, same length
    let t = TransportHeader::Udp(h.clone());
    assert!(t.header_len() == 8);
    let mut w = Cap::<12>::new();
    must_ok!(t.write(&mut w));
    assert!(!w.overflow);
    assert!(w.bytes() == &b[..]);
}

pub fn udp_bytes() {
    const N: usize = 12;
    let buf: [u8; N] = any();
    let len = any_le(N);
    let b = &buf[..len];
    match UdpHeader::from_slice(b) {
        Ok((h, rest)) => {
            witness!(true, "accepted");
            witness!(!rest.is_empty(), "accepted_with_rest");
            assert!(len >= 8 && rest.len() == len - 8);
            assert!(rest.as_ptr() == b[8..].as_ptr());
            // RFC 768: four 16 bit fields, no reserved bit
            let e = h.to_bytes();
            assert!(e[..] == b[..8]);
            let (h2, rest2) = must_ok!(UdpHeader::from_slice(&e));
            assert!(h2 == h);
            assert!(rest2.is_empty());
        }
        Err(e) => {
            core::mem::forget(e);
            witness!(true, "rejected");
        }
    }
}

// ------------------------------------------------------------------------------------------
// TCP (+ options)
// ------------------------------------------------------------------------------------------

/// all field values; options: every slice length 0..=40 accepted by `TcpOptions::try_from_slice`
/// (lengths that are no multiple of 4 are zero padded by the constructor - documented)
fn tcp_header() -> TcpHeader {
    let ol = any_le(40);
    let data: [u8; 40] = any();
    let options = must_ok!(TcpOptions::try_from_slice(&data[..ol]));
    TcpHeader {
        source_port: any(),
        destination_port: any(),
        sequence_number: any(),
        acknowledgment_number: any(),
        ns: any_bool(),
        fin: any_bool(),
        syn: any_bool(),
        rst: any_bool(),
        psh: any_bool(),
        ack: any_bool(),
        urg: any_bool(),
        ece: any_bool(),
        cwr: any_bool(),
        window_size: any(),
        checksum: any(),
        urgent_pointer: any(),
        options,
    }
}

pub fn tcp_value() {
    let h = tcp_header();
    let hl = h.header_len();
    witness!(hl == 20, "no_options");
    witness!(hl == 60, "max_options");
    witness!(hl == 32, "some_options");
    let b = h.to_bytes();
    assert!(b.len() == hl);
    assert!(hl == 20 + h.options.len());
    assert!(hl == h.header_len_u16() as usize);
    let mut w = Cap::<64>::new();
    must_ok!(h.write(&mut w));
    assert!(!w.overflow);
    assert!(w.bytes() == &b[..]);
    let (d, rest) = must_ok!(TcpHeader::from_slice(&b));
    assert!(d == h);
    assert!(rest.is_empty());
}

pub fn tcp_value_read() {
    let h = tcp_header();
    let b = h.to_bytes();
    let mut r = Rd::new(&b);
    let d = must_ok!(TcpHeader::read(&mut r));
    assert!(d == h);
    assert!(r.exact());
    // TransportHeader wrapper: same bytes, same length
    let t = TransportHeader::Tcp(h.clone());
    assert!(t.header_len() == h.header_len());
    let mut w = Cap::<64>::new();
    must_ok!(t.write(&mut w));
    assert!(!w.overflow);
    assert!(w.bytes() == &b[..]);
}

pub fn tcp_bytes() {
    const N: usize = 64;
    let buf: [u8; N] = any();
    let len = any_le(N);
    let b = &buf[..len];
    match TcpHeader::from_slice(b) {
        Ok((h, rest)) => {
            witness!(true, "accepted");
            witness!(!rest.is_empty(), "accepted_with_rest");
            witness!(b[12] & 0x0e != 0, "reserved_bits_set");
            let hl = h.header_len();
            witness!(hl == 60, "max_options");
            assert!(hl <= len && rest.len() == len - hl);
            assert!(rest.as_ptr() == b[hl..].as_ptr());
            let e = h.to_bytes();
            assert!(e.len() == hl);
            let mut i = 0;
            while i < hl {
                // RFC 9293 3.1 / RFC 3540: byte 12 = data offset(4) reserved(3) NS(1); the three
                // reserved bits "must be zero in generated segments", TcpHeader has no field for them
                let m: u8 = if i == 12 { 0xf1 } else { 0xff };
                assert!(e[i] == b[i] & m);
                i += 1;
            }
            let (h2, rest2) = must_ok!(TcpHeader::from_slice(&e));
            assert!(h2 == h);
            assert!(rest2.is_empty());
        }
        Err(e) => {
            core::mem::forget(e);
            witness!(true, "rejected");
        }
    }
}


// ------------------------------------------------------------------------------------------
// ICMP echo header (shared by ICMPv4 / ICMPv6)
// ------------------------------------------------------------------------------------------

pub fn icmp_echo_rt() {
    let h = IcmpEchoHeader { id: any(), seq: any() };
    let b = h.to_bytes();
    assert!(b.len() == IcmpEchoHeader::LEN);
    assert!(IcmpEchoHeader::from_bytes(b) == h);
    // RFC 792: identifier(16) sequence number(16), no reserved bit
    let raw: [u8; 4] = any();
    assert!(IcmpEchoHeader::from_bytes(raw).to_bytes() == raw);
}

// ------------------------------------------------------------------------------------------
// ICMPv4
// ------------------------------------------------------------------------------------------

/// (type, code) pairs for which `Icmpv4Type` has a typed variant (RFC 792, RFC 1122/1812 codes of
/// type 3, RFC 1108 / RFC 1122 codes of type 12); everything else is `Unknown`
fn icmpv4_typed(t: u8, c: u8) -> bool {
    match t {
        0 | 8 | 13 | 14 => c == 0, // echo reply, echo, timestamp, timestamp reply
        3 => c <= 15,              // destination unreachable
        5 => c <= 3,               // redirect
        11 => c <= 1,              // time exceeded
        12 => c <= 2,              // parameter problem
        _ => false,
    }
}

fn icmpv4_timestamp() -> icmpv4::TimestampMessage {
    icmpv4::TimestampMessage {
        id: any(),
        seq: any(),
        originate_timestamp: any(),
        receive_timestamp: any(),
        transmit_timestamp: any(),
    }
}

/// every variant of `Icmpv4Type` (and of the nested enums); `Unknown` only where no typed variant exists
fn icmpv4_type() -> Icmpv4Type {
    use icmpv4::*;
    use Icmpv4Type::*;
    let k: u8 = any();
    assume(k < 9);
    match k {
        0 => {
            let t: u8 = any();
            let c: u8 = any();
            assume(!icmpv4_typed(t, c));
            Unknown { type_u8: t, code_u8: c, bytes5to8: any() }
        }
        1 => EchoReply(IcmpEchoHeader { id: any(), seq: any() }),
        2 => {
            use DestUnreachableHeader::*;
            let c: u8 = any();
            assume(c < 16);
            DestinationUnreachable(match c {
                0 => Network,
                1 => Host,
                2 => Protocol,
                3 => Port,
                4 => FragmentationNeeded { next_hop_mtu: any() },
                5 => SourceRouteFailed,
                6 => NetworkUnknown,
                7 => HostUnknown,
                8 => Isolated,
                9 => NetworkProhibited,
                10 => HostProhibited,
                11 => TosNetwork,
                12 => TosHost,
                13 => FilterProhibited,
                14 => HostPrecedenceViolation,
                _ => PrecedenceCutoff,
            })
        }
        3 => {
            use RedirectCode::*;
            let c: u8 = any();
            assume(c < 4);
            Redirect(RedirectHeader {
                code: match c {
                    0 => RedirectForNetwork,
                    1 => RedirectForHost,
                    2 => RedirectForTypeOfServiceAndNetwork,
                    _ => RedirectForTypeOfServiceAndHost,
                },
                gateway_internet_address: any(),
            })
        }
        4 => EchoRequest(IcmpEchoHeader { id: any(), seq: any() }),
        5 => TimeExceeded(if any_bool() {
            TimeExceededCode::TtlExceededInTransit
        } else {
            TimeExceededCode::FragmentReassemblyTimeExceeded
        }),
        6 => {
            use ParameterProblemHeader::*;
            let c: u8 = any();
            assume(c < 3);
            ParameterProblem(match c {
                0 => PointerIndicatesError(any()),
                1 => MissingRequiredOption,
                _ => BadLength,
            })
        }
        7 => TimestampRequest(icmpv4_timestamp()),
        _ => TimestampReply(icmpv4_timestamp()),
    }
}

fn icmpv4_header() -> Icmpv4Header {
    Icmpv4Header { icmp_type: icmpv4_type(), checksum: any() }
}

pub fn icmpv4_value() {
    let h = icmpv4_header();
    let hl = h.header_len();
    witness!(matches!(h.icmp_type, Icmpv4Type::Unknown { .. }), "unknown");
    witness!(matches!(h.icmp_type, Icmpv4Type::Unknown { type_u8: 3, .. }), "unknown_code_of_known_type");
    witness!(matches!(h.icmp_type, Icmpv4Type::TimestampReply(_)), "timestamp_reply");
    witness!(matches!(h.icmp_type, Icmpv4Type::ParameterProblem(_)), "parameter_problem");
    let b = h.to_bytes();
    assert!(b.len() == hl);
    assert!(hl == h.icmp_type.header_len());
    let (d, rest) = must_ok!(Icmpv4Header::from_slice(&b));
    assert!(d == h);
    assert!(rest.is_empty());
    let mut r = Rd::new(&b);
    let d = must_ok!(Icmpv4Header::read(&mut r));
    assert!(d == h);
    assert!(r.exact());
}

pub fn icmpv4_value_write() {
    let h = icmpv4_header();
    let hl = h.header_len();
    witness!(hl == 20, "timestamp");
    witness!(hl == 8, "short");
    let b = h.to_bytes();
    let mut w = Cap::<24>::new();
    must_ok!(h.write(&mut w));
    assert!(!w.overflow);
    assert!(w.bytes() == &b[..]);
    // TransportHeader wrapper: same bytes, same length
    let t = TransportHeader::Icmpv4(h.clone());
    assert!(t.header_len() == hl);
    let mut w = Cap::<24>::new();
    must_ok!(t.write(&mut w));
    assert!(!w.overflow);
    assert!(w.bytes() == &b[..]);
}

/// bits of byte `i` of an accepted ICMPv4 header that survive decode -> encode.
/// Cleared bits are the fields RFC 792 marks "unused" for the typed messages; `Icmpv4Type`
/// documents that "the `unused` part is not stored and dropped". Unknown (type, code) pairs,
/// echo, redirect and timestamp messages keep every bit.
fn icmpv4_mask(t: u8, c: u8, i: usize) -> u8 {
    if i < 4 || i >= 8 {
        return 0xff; // type, code, checksum; timestamps
    }
    match (t, c) {
        // RFC 1191 4: destination unreachable / fragmentation needed = unused(16) next-hop MTU(16)
        (3, 4) => {
            if i < 6 {
                0
            } else {
                0xff
            }
        }
        // RFC 792: destination unreachable (other codes): bytes 4..8 unused
        (3, 0..=15) => 0,
        // RFC 792: time exceeded: bytes 4..8 unused
        (11, 0..=1) => 0,
        // RFC 792: parameter problem code 0 = pointer(8) unused(24)
        (12, 0) => {
            if i == 4 {
                0xff
            } else {
                0
            }
        }
        // RFC 1108 / RFC 1122 codes 1, 2: no pointer, bytes 4..8 unused
        (12, 1..=2) => 0,
        _ => 0xff,
    }
}

pub fn icmpv4_bytes() {
    const N: usize = 24;
    let buf: [u8; N] = any();
    let len = any_le(N);
    let b = &buf[..len];
    match Icmpv4Header::from_slice(b) {
        Ok((h, rest)) => {
            witness!(true, "accepted");
            witness!(!rest.is_empty(), "accepted_with_rest");
            let hl = h.header_len();
            witness!(hl == 20, "timestamp");
            witness!(b[0] == 3 && b[1] == 4 && b[4] != 0, "unused_bits_set");
            witness!(matches!(h.icmp_type, Icmpv4Type::Unknown { .. }), "unknown");
            assert!(hl <= len && rest.len() == len - hl);
            assert!(rest.as_ptr() == b[hl..].as_ptr());
            let e = h.to_bytes();
            assert!(e.len() == hl);
            let mut i = 0;
            while i < hl {
                assert!(e[i] == b[i] & icmpv4_mask(b[0], b[1], i));
                i += 1;
            }
            let (h2, rest2) = must_ok!(Icmpv4Header::from_slice(&e));
            assert!(h2 == h);
            assert!(rest2.is_empty());
        }
        Err(e) => {
            core::mem::forget(e);
            witness!(true, "rejected");
        }
    }
}

// ------------------------------------------------------------------------------------------
// ICMPv6
// ------------------------------------------------------------------------------------------

/// (type, code) pairs with a typed `Icmpv6Type` variant: RFC 4443 (1: codes 0..=6 incl. RFC 4443
/// 3.1 codes 5, 6; 2; 3: codes 0, 1; 4: codes 0..=2, RFC 7112 code 3, RFC 8754 code 4, RFC 8883
/// codes 5..=10; 128; 129) and RFC 4861 (133..=137, "ICMP Code 0")
fn icmpv6_typed(t: u8, c: u8) -> bool {
    match t {
        1 => c <= 6,
        2 => c == 0,
        3 => c <= 1,
        4 => c <= 10,
        128 | 129 => c == 0,
        133..=137 => c == 0,
        _ => false,
    }
}

fn icmpv6_type() -> Icmpv6Type {
    use icmpv6::*;
    use Icmpv6Type::*;
    let k: u8 = any();
    assume(k < 12);
    match k {
        0 => {
            let t: u8 = any();
            let c: u8 = any();
            assume(!icmpv6_typed(t, c));
            Unknown { type_u8: t, code_u8: c, bytes5to8: any() }
        }
        1 => {
            use DestUnreachableCode::*;
            let c: u8 = any();
            assume(c < 7);
            DestinationUnreachable(match c {
                0 => NoRoute,
                1 => Prohibited,
                2 => BeyondScope,
                3 => Address,
                4 => Port,
                5 => SourceAddressFailedPolicy,
                _ => RejectRoute,
            })
        }
        2 => PacketTooBig { mtu: any() },
        3 => TimeExceeded(if any_bool() {
            TimeExceededCode::HopLimitExceeded
        } else {
            TimeExceededCode::FragmentReassemblyTimeExceeded
        }),
        4 => {
            use ParameterProblemCode::*;
            let c: u8 = any();
            assume(c < 11);
            ParameterProblem(ParameterProblemHeader {
                code: match c {
                    0 => ErroneousHeaderField,
                    1 => UnrecognizedNextHeader,
                    2 => UnrecognizedIpv6Option,
                    3 => Ipv6FirstFragmentIncompleteHeaderChain,
                    4 => SrUpperLayerHeaderError,
                    5 => UnrecognizedNextHeaderByIntermediateNode,
                    6 => ExtensionHeaderTooBig,
                    7 => ExtensionHeaderChainTooLong,
                    8 => TooManyExtensionHeaders,
                    9 => TooManyOptionsInExtensionHeader,
                    _ => OptionTooBig,
                },
                pointer: any(),
            })
        }
        5 => EchoRequest(IcmpEchoHeader { id: any(), seq: any() }),
        6 => EchoReply(IcmpEchoHeader { id: any(), seq: any() }),
        7 => RouterSolicitation,
        8 => RouterAdvertisement(RouterAdvertisementHeader {
            cur_hop_limit: any(),
            managed_address_config: any_bool(),
            other_config: any_bool(),
            router_lifetime: any(),
        }),
        9 => NeighborSolicitation,
        10 => NeighborAdvertisement(NeighborAdvertisementHeader {
            router: any_bool(),
            solicited: any_bool(),
            r#override: any_bool(),
        }),
        _ => Redirect,
    }
}

fn icmpv6_header() -> Icmpv6Header {
    Icmpv6Header { icmp_type: icmpv6_type(), checksum: any() }
}

pub fn icmpv6_value() {
    let h = icmpv6_header();
    let hl = h.header_len();
    witness!(matches!(h.icmp_type, Icmpv6Type::Unknown { .. }), "unknown");
    witness!(matches!(h.icmp_type, Icmpv6Type::Unknown { type_u8: 1, .. }), "unknown_code_of_known_type");
    witness!(matches!(h.icmp_type, Icmpv6Type::NeighborAdvertisement(_)), "neighbor_advertisement");
    witness!(matches!(h.icmp_type, Icmpv6Type::Redirect), "redirect");
    let b = h.to_bytes();
    assert!(b.len() == hl);
    assert!(hl == 8 && hl == h.icmp_type.header_len());
    // the type/code accessors announce what was serialised
    assert!(b[0] == h.icmp_type.type_u8() && b[1] == h.icmp_type.code_u8());
    let (d, rest) = must_ok!(Icmpv6Header::from_slice(&b));
    assert!(d == h);
    assert!(rest.is_empty());
    let mut r = Rd::new(&b);
    let d = must_ok!(Icmpv6Header::read(&mut r));
    assert!(d == h);
    assert!(r.exact());
}

pub fn icmpv6_value_write() {
    let h = icmpv6_header();
    let hl = h.header_len();
    witness!(matches!(h.icmp_type, Icmpv6Type::RouterAdvertisement(_)), "router_advertisement");
    let b = h.to_bytes();
    let mut w = Cap::<12>::new();
    must_ok!(h.write(&mut w));
    assert!(!w.overflow);
    assert!(w.bytes() == &b[..]);
    let t = TransportHeader::Icmpv6(h.clone());
    assert!(t.header_len() == hl);
    let mut w = Cap::<12>::new();
    must_ok!(t.write(&mut w));
    assert!(!w.overflow);
    assert!(w.bytes() == &b[..]);
}

/// bits of byte `i` (< 8) of an ICMPv6 header that survive decode -> encode
fn icmpv6_mask(t: u8, c: u8, i: usize) -> u8 {
    if i < 4 {
        return 0xff; // type, code, checksum
    }
    match (t, c) {
        // RFC 4443 3.1: destination unreachable: bytes 4..8 "Unused"
        (1, 0..=6) => 0,
        // RFC 4443 3.3: time exceeded: bytes 4..8 "Unused"
        (3, 0..=1) => 0,
        // RFC 4861 4.1 router solicitation, 4.3 neighbor solicitation, 4.5 redirect: "Reserved" word
        (133, 0) | (135, 0) | (137, 0) => 0,
        // RFC 4861 4.2 router advertisement: cur hop limit(8) M(1) O(1) Reserved(6) router lifetime(16);
        // RouterAdvertisementHeader stores M and O only
        (134, 0) => {
            if i == 5 {
                0xc0
            } else {
                0xff
            }
        }
        // RFC 4861 4.4 neighbor advertisement: R(1) S(1) O(1) Reserved(29)
        (136, 0) => {
            if i == 4 {
                0xe0
            } else {
                0
            }
        }
        // packet too big (MTU), parameter problem (pointer), echo (id, seq), unknown: all bits kept
        _ => 0xff,
    }
}

pub fn icmpv6_bytes() {
    const N: usize = 12;
    let buf: [u8; N] = any();
    let len = any_le(N);
    let b = &buf[..len];
    match Icmpv6Header::from_slice(b) {
        Ok((h, rest)) => {
            witness!(true, "accepted");
            witness!(!rest.is_empty(), "accepted_with_rest");
            witness!(b[0] == 136 && b[1] == 0 && b[5] != 0 && b[4] & 0x1f != 0, "reserved_bits_set");
            witness!(matches!(h.icmp_type, Icmpv6Type::Unknown { .. }), "unknown");
            let hl = h.header_len();
            assert!(hl == 8 && hl <= len && rest.len() == len - hl);
            assert!(rest.as_ptr() == b[hl..].as_ptr());
            let e = h.to_bytes();
            assert!(e.len() == hl);
            let mut i = 0;
            while i < 8 {
                assert!(e[i] == b[i] & icmpv6_mask(b[0], b[1], i));
                i += 1;
            }
            let (h2, rest2) = must_ok!(Icmpv6Header::from_slice(&e));
            assert!(h2 == h);
            assert!(rest2.is_empty());
        }
        Err(e) => {
            core::mem::forget(e);
            witness!(true, "rejected");
        }
    }
}

/// the 4 byte NDP sub headers carried in bytes 5..8 of the ICMPv6 header
pub fn icmpv6_ndp_headers_rt() {
    use icmpv6::*;
    let ra = RouterAdvertisementHeader {
        cur_hop_limit: any(),
        managed_address_config: any_bool(),
        other_config: any_bool(),
        router_lifetime: any(),
    };
    assert!(RouterAdvertisementHeader::from_bytes(ra.to_bytes()) == ra);
    let na = NeighborAdvertisementHeader { router: any_bool(), solicited: any_bool(), r#override: any_bool() };
    assert!(NeighborAdvertisementHeader::from_bytes(na.to_bytes()) == na);
    let raw: [u8; 4] = any();
    // RFC 4861 4.2: byte 1 = M O Reserved(6)
    let e = RouterAdvertisementHeader::from_bytes(raw).to_bytes();
    assert!(e == [raw[0], raw[1] & 0xc0, raw[2], raw[3]]);
    // RFC 4861 4.4: R S O Reserved(29)
    let e = NeighborAdvertisementHeader::from_bytes(raw).to_bytes();
    assert!(e == [raw[0] & 0xe0, 0, 0, 0]);
    // NDP option header: type(8) length(8)
    let oh = NdpOptionHeader { option_type: NdpOptionType(any()), length_units: any() };
    let ob = oh.to_bytes();
    assert!(ob.len() == NdpOptionHeader::LEN);
    assert!(NdpOptionHeader::from_bytes(ob) == oh);
    let (d, rest) = must_ok!(NdpOptionHeader::from_slice(&ob));
    assert!(d == oh && rest.is_empty());
    let raw2: [u8; 2] = any();
    assert!(NdpOptionHeader::from_bytes(raw2).to_bytes() == raw2);
}

/// fixed parts of the NDP messages that follow the ICMPv6 header (`Icmpv6Payload`)
pub fn icmpv6_payload_value() {
    use core::net::Ipv6Addr;
    use icmpv6::*;
    let k: u8 = any();
    assume(k < 5);
    let a: [u8; 16] = any();
    let c: [u8; 16] = any();
    let (ty, p) = match k {
        0 => (Icmpv6Type::RouterSolicitation, Icmpv6Payload::RouterSolicitation(RouterSolicitationPayload)),
        1 => (
            Icmpv6Type::RouterAdvertisement(RouterAdvertisementHeader {
                cur_hop_limit: 0,
                managed_address_config: false,
                other_config: false,
                router_lifetime: 0,
            }),
            Icmpv6Payload::RouterAdvertisement(RouterAdvertisementPayload { reachable_time: any(), retrans_timer: any() }),
        ),
        2 => (
            Icmpv6Type::NeighborSolicitation,
            Icmpv6Payload::NeighborSolicitation(NeighborSolicitationPayload { target_address: Ipv6Addr::from(a) }),
        ),
        3 => (
            Icmpv6Type::NeighborAdvertisement(NeighborAdvertisementHeader { router: false, solicited: false, r#override: false }),
            Icmpv6Payload::NeighborAdvertisement(NeighborAdvertisementPayload { target_address: Ipv6Addr::from(a) }),
        ),
        _ => (
            Icmpv6Type::Redirect,
            Icmpv6Payload::Redirect(RedirectPayload { target_address: Ipv6Addr::from(a), destination_address: Ipv6Addr::from(c) }),
        ),
    };
    witness!(k == 4, "redirect");
    witness!(k == 0, "router_solicitation");
    let mut w = Cap::<40>::new();
    must_ok!(p.write(&mut w));
    assert!(!w.overflow);
    assert!(w.len == p.len());
    assert!(p.is_empty() == (w.len == 0));
    // to_bytes of the member == write of the wrapper
    match &p {
        Icmpv6Payload::RouterSolicitation(v) => assert!(w.bytes() == &v.to_bytes()[..]),
        Icmpv6Payload::RouterAdvertisement(v) => assert!(w.bytes() == &v.to_bytes()[..]),
        Icmpv6Payload::NeighborSolicitation(v) => assert!(w.bytes() == &v.to_bytes()[..]),
        Icmpv6Payload::NeighborAdvertisement(v) => assert!(w.bytes() == &v.to_bytes()[..]),
        Icmpv6Payload::Redirect(v) => assert!(w.bytes() == &v.to_bytes()[..]),
        _ => {}
    }
    let r = must_ok!(ty.payload_from_slice(w.bytes()));
    match r {
        Some((d, rest)) => {
            assert!(d == p);
            assert!(rest.is_empty());
        }
        None => panic!("C08: NDP payload must decode"),
    }
}

pub fn icmpv6_payload_bytes() {
    use icmpv6::*;
    const N: usize = 36;
    let buf: [u8; N] = any();
    let len = any_le(N);
    let b = &buf[..len];
    let k: u8 = any();
    assume(k < 5);
    let ty = match k {
        0 => Icmpv6Type::RouterSolicitation,
        1 => Icmpv6Type::RouterAdvertisement(RouterAdvertisementHeader {
            cur_hop_limit: 0,
            managed_address_config: false,
            other_config: false,
            router_lifetime: 0,
        }),
        2 => Icmpv6Type::NeighborSolicitation,
        3 => Icmpv6Type::NeighborAdvertisement(NeighborAdvertisementHeader { router: false, solicited: false, r#override: false }),
        _ => Icmpv6Type::Redirect,
    };
    match ty.payload_from_slice(b) {
        Ok(Some((p, rest))) => {
            witness!(true, "accepted");
            witness!(!rest.is_empty(), "accepted_with_rest");
            witness!(k == 4, "redirect");
            let pl = p.len();
            assert!(pl <= len && rest.len() == len - pl);
            assert!(rest.as_ptr() == b[pl..].as_ptr());
            // RFC 4861 4.1-4.5: reachable time, retrans timer, target / destination address:
            // no reserved bit in the fixed parts after the ICMPv6 header
            let mut w = Cap::<40>::new();
            must_ok!(p.write(&mut w));
            assert!(!w.overflow);
            assert!(w.bytes() == &b[..pl]);
            match must_ok!(ty.payload_from_slice(w.bytes())) {
                Some((p2, rest2)) => {
                    assert!(p2 == p);
                    assert!(rest2.is_empty());
                }
                None => panic!("C08: NDP payload must decode"),
            }
        }
        Ok(None) => panic!("C08: NDP types have a typed payload"),
        Err(e) => {
            core::mem::forget(e);
            witness!(true, "rejected");
        }
    }
}

// ------------------------------------------------------------------------------------------
// NDP prefix information option
// ------------------------------------------------------------------------------------------

pub fn prefix_info_value() {
    use icmpv6::PrefixInformation;
    let v = PrefixInformation {
        prefix_length: any(),
        on_link: any_bool(),
        autonomous_address_configuration: any_bool(),
        valid_lifetime: any(),
        preferred_lifetime: any(),
        prefix: any(),
    };
    let b = v.to_bytes();
    assert!(b.len() == PrefixInformation::LEN && b.len() == 32);
    let d = must_ok!(PrefixInformation::from_bytes(b));
    assert!(d == v);
    // from_slice takes exactly the option: nothing can remain
    let d = must_ok!(PrefixInformation::from_slice(&b));
    assert!(d == v);
}

pub fn prefix_info_bytes() {
    use icmpv6::PrefixInformation;
    const N: usize = 34;
    let buf: [u8; N] = any();
    let len = any_le(N);
    let b = &buf[..len];
    match PrefixInformation::from_slice(b) {
        Ok(v) => {
            witness!(true, "accepted");
            witness!(b[3] & 0x3f != 0 && b[12] != 0 && b[15] != 0, "reserved_bits_set");
            assert!(len == 32);
            let e = v.to_bytes();
            let mut i = 0;
            while i < 32 {
                // RFC 4861 4.6.2: byte 3 = L(1) A(1) Reserved1(6); bytes 12..16 = Reserved2;
                // both "MUST be initialized to zero by the sender"
                let m: u8 = match i {
                    3 => 0xc0,
                    12..=15 => 0,
                    _ => 0xff,
                };
                assert!(e[i] == b[i] & m);
                i += 1;
            }
            let v2 = must_ok!(PrefixInformation::from_slice(&e));
            assert!(v2 == v);
        }
        Err(e) => {
            core::mem::forget(e);
            witness!(true, "rejected");
        }
    }
}

// ------------------------------------------------------------------------------------------
// IGMP
// ------------------------------------------------------------------------------------------

fn igmp_type() -> IgmpType {
    use igmp::*;
    let k: u8 = any();
    assume(k < 7);
    match k {
        0 => IgmpType::MembershipQuery(MembershipQueryType { max_response_time: any(), group_address: GroupAddress::new(any()) }),
        1 => IgmpType::MembershipQueryWithSources(MembershipQueryWithSourcesHeader {
            max_response_code: MaxResponseCode(any()),
            group_address: GroupAddress::new(any()),
            raw_byte_8: any(),
            qqic: any(),
            num_of_sources: any(),
        }),
        2 => IgmpType::MembershipReportV1(MembershipReportV1Type { group_address: GroupAddress::new(any()) }),
        3 => IgmpType::MembershipReportV2(MembershipReportV2Type { group_address: GroupAddress::new(any()) }),
        4 => IgmpType::MembershipReportV3(MembershipReportV3Header { flags: any(), num_of_records: any() }),
        5 => IgmpType::LeaveGroup(LeaveGroupType { group_address: GroupAddress::new(any()) }),
        _ => {
            // RFC 1112 / 2236 / 9776 type numbers with a typed variant: 0x11, 0x12, 0x16, 0x17, 0x22
            let t: u8 = any();
            assume(t != 0x11 && t != 0x12 && t != 0x16 && t != 0x17 && t != 0x22);
            IgmpType::Unknown(UnknownHeader { igmp_type: t, raw_byte_1: any(), raw_bytes_4_7: any() })
        }
    }
}

pub fn igmp_value() {
    let h = IgmpHeader { igmp_type: igmp_type(), checksum: any() };
    let hl = h.header_len();
    witness!(hl == 12, "query_with_sources");
    witness!(matches!(h.igmp_type, IgmpType::MembershipQuery(_)), "query");
    witness!(matches!(h.igmp_type, IgmpType::Unknown(_)), "unknown");
    witness!(matches!(h.igmp_type, IgmpType::MembershipReportV3(_)), "report_v3");
    let b = h.to_bytes();
    assert!(b.len() == hl);
    let (d, rest) = must_ok!(IgmpHeader::from_slice(&b));
    assert!(d == h);
    assert!(rest.is_empty());
}

/// surviving bits of byte `i` of an accepted IGMP header of type `t`
fn igmp_mask(t: u8, i: usize) -> u8 {
    if i != 1 {
        return 0xff;
    }
    match t {
        // RFC 1112 App. I (v1 report): byte 1 "Unused"; RFC 2236 2.2: Max Resp Time "is meaningful
        // only in Membership Query messages ... in all other messages it is set to zero by the
        // sender" (v2 report 0x16, leave 0x17); RFC 9776 4.2 (v3 report 0x22): byte 1 "Reserved"
        0x12 | 0x16 | 0x17 | 0x22 => 0,
        // queries (max resp time / code) and unknown types keep the byte
        _ => 0xff,
    }
}

pub fn igmp_bytes() {
    const N: usize = 16;
    let buf: [u8; N] = any();
    let len = any_le(N);
    let b = &buf[..len];
    match IgmpHeader::from_slice(b) {
        Ok((h, rest)) => {
            witness!(true, "accepted");
            witness!(!rest.is_empty(), "accepted_with_rest");
            witness!(b[0] == 0x22 && b[1] != 0, "reserved_byte_set");
            let hl = h.header_len();
            witness!(hl == 12, "query_with_sources");
            witness!(b[0] == 0x11 && hl == 8, "query_v2");
            assert!(hl <= len && rest.len() == len - hl);
            assert!(rest.as_ptr() == b[hl..].as_ptr());
            let e = h.to_bytes();
            assert!(e.len() == hl);
            let mut i = 0;
            while i < hl {
                assert!(e[i] == b[i] & igmp_mask(b[0], i));
                i += 1;
            }
            let (h2, rest2) = must_ok!(IgmpHeader::from_slice(&e));
            assert!(h2 == h);
            assert!(rest2.is_empty());
        }
        Err(e) => {
            core::mem::forget(e);
            witness!(true, "rejected");
        }
    }
}

pub fn igmp_record_value() {
    use igmp::*;
    let v = ReportGroupRecordV3Header {
        record_type: ReportGroupRecordType(any()),
        aux_data_len: any(),
        num_of_sources: any(),
        multicast_address: any(),
    };
    let b = v.to_bytes();
    assert!(b.len() == ReportGroupRecordV3Header::LEN && b.len() == 8);
    let (d, rest) = must_ok!(ReportGroupRecordV3Header::from_slice(&b));
    assert!(d == v);
    assert!(rest.is_empty());
}

pub fn igmp_record_bytes() {
    use igmp::*;
    const N: usize = 12;
    let buf: [u8; N] = any();
    let len = any_le(N);
    let b = &buf[..len];
    match ReportGroupRecordV3Header::from_slice(b) {
        Ok((v, rest)) => {
            witness!(true, "accepted");
            witness!(!rest.is_empty(), "accepted_with_rest");
            assert!(len >= 8 && rest.len() == len - 8);
            assert!(rest.as_ptr() == b[8..].as_ptr());
            // RFC 9776 4.2.x group record: type, aux data len, number of sources, multicast address
            let e = v.to_bytes();
            assert!(e[..] == b[..8]);
            let (v2, rest2) = must_ok!(ReportGroupRecordV3Header::from_slice(&e));
            assert!(v2 == v);
            assert!(rest2.is_empty());
        }
        Err(e) => {
            core::mem::forget(e);
            witness!(true, "rejected");
        }
    }
}


// ------------------------------------------------------------------------------------------
// IP authentication header (RFC 4302)
// ------------------------------------------------------------------------------------------
//
// `IpAuthHeader::to_bytes` always runs a fixed 1016 trip `extend` loop over the whole ICV buffer
// (needs unwind >= 1018) and costs minutes; `write` is cheap. Quick tier: write <-> from_slice /
// read with a symbolic ICV length; thorough tier: to_bytes against write, one harness per ICV
// length (concrete, so that no symbolic loop is unrolled 1018 times).

/// ICV of 0, 4 or 8 bytes (acceptance set of `IpAuthHeader::new` below the bound); optionally the
/// ICV is replaced afterwards (possibly by a shorter one: stale bytes stay in the buffer)
fn auth_header() -> IpAuthHeader {
    let k0 = any_le(2);
    let data: [u8; 8] = any();
    let mut h = must_ok!(IpAuthHeader::new(IpNumber(any()), any(), any(), &data[..4 * k0]));
    if any_bool() {
        let k1 = any_le(2);
        let data: [u8; 8] = any();
        must_ok!(h.set_raw_icv(&data[..4 * k1]));
        witness!(k1 < k0, "shrunk");
    }
    h
}

/// concrete ICV length of K words, after having held 8 bytes
fn auth_header_k<const K: usize>() -> IpAuthHeader {
    let data: [u8; 8] = any();
    let mut h = must_ok!(IpAuthHeader::new(IpNumber(any()), any(), any(), &data));
    let data: [u8; 8] = any();
    must_ok!(h.set_raw_icv(&data[..4 * K]));
    h
}

pub fn auth_value() {
    let h = auth_header();
    let hl = h.header_len();
    witness!(hl == 12, "icv_0");
    witness!(hl == 20, "icv_8");
    assert!(hl == 12 + h.raw_icv().len());
    let mut w = Cap::<24>::new();
    must_ok!(h.write(&mut w));
    assert!(!w.overflow);
    assert!(w.len == hl);
    let (d, rest) = must_ok!(IpAuthHeader::from_slice(w.bytes()));
    assert!(d == h);
    assert!(rest.is_empty());
    let mut r = Rd::new(w.bytes());
    let d = must_ok!(IpAuthHeader::read(&mut r));
    assert!(d == h);
    assert!(r.exact());
}

/// RFC 4302 2: next header, payload len, RESERVED(16) "MUST be set to zero by the sender", SPI,
/// sequence number, ICV. `IpAuthHeader` has no field for the reserved bytes 2 and 3.
fn auth_mask(i: usize) -> u8 {
    if i == 2 || i == 3 {
        0
    } else {
        0xff
    }
}

pub fn auth_bytes() {
    const N: usize = 24;
    let buf: [u8; N] = any();
    let len = any_le(N);
    let b = &buf[..len];
    match IpAuthHeader::from_slice(b) {
        Ok((h, rest)) => {
            witness!(true, "accepted");
            witness!(!rest.is_empty(), "accepted_with_rest");
            witness!(b[2] != 0 && b[3] != 0, "reserved_bits_set");
            let hl = h.header_len();
            witness!(hl == 24, "icv_12");
            witness!(hl == 12, "icv_0");
            assert!(hl <= len && rest.len() == len - hl);
            assert!(rest.as_ptr() == b[hl..].as_ptr());
            let mut w = Cap::<N>::new();
            must_ok!(h.write(&mut w));
            assert!(!w.overflow);
            assert!(w.len == hl);
            let mut i = 0;
            while i < hl {
                assert!(w.buf[i] == b[i] & auth_mask(i));
                i += 1;
            }
            let (h2, rest2) = must_ok!(IpAuthHeader::from_slice(w.bytes()));
            assert!(h2 == h);
            assert!(rest2.is_empty());
        }
        Err(e) => {
            core::mem::forget(e);
            witness!(true, "rejected");
        }
    }
}

/// thorough: to_bytes == write and length == header_len (decoding the bytes of `write` is decided
/// by auth_value, so from_slice(to_bytes(v)) == v follows)
fn auth_to_bytes_k<const K: usize, const L: usize>() {
    let h = auth_header_k::<K>();
    assert!(h.header_len() == L);
    let bv = h.to_bytes();
    assert!(bv.len() == L);
    let mut b = [0u8; L];
    b.copy_from_slice(&bv);
    let mut w = Cap::<L>::new();
    must_ok!(h.write(&mut w));
    assert!(!w.overflow);
    assert!(w.len == L);
    assert!(w.buf == b);
}
pub fn auth_to_bytes_0() {
    auth_to_bytes_k::<0, 12>()
}
pub fn auth_to_bytes_1() {
    auth_to_bytes_k::<1, 16>()
}
pub fn auth_to_bytes_2() {
    auth_to_bytes_k::<2, 20>()
}

// Direction 2 through `to_bytes` needs no harness of its own: a decoded header is built by
// `IpAuthHeader::new` (the value set of auth_to_bytes_*), for which to_bytes == write, and
// write(decode(b)) == b & mask is decided by auth_bytes.

// ------------------------------------------------------------------------------------------
// generic IPv6 extension header (hop-by-hop, destination options, routing, ...; RFC 8200 4)
// ------------------------------------------------------------------------------------------
//
// `Ipv6RawExtHeader::to_bytes` copies the payload into an `ArrayVec<u8, 2048>`; with a symbolic
// payload length CBMC runs out of memory (measured), with a concrete one it takes seconds. So:
// write <-> from_slice / read with symbolic length field 0..=2, to_bytes once per length.

/// payload of 6, 14 or 22 bytes (length field 0..=2), optionally replaced afterwards
fn raw_ext() -> Ipv6RawExtHeader {
    let k0 = any_le(2);
    let data: [u8; 22] = any();
    let mut h = must_ok!(Ipv6RawExtHeader::new_raw(IpNumber(any()), &data[..6 + 8 * k0]));
    if any_bool() {
        let k1 = any_le(2);
        let data: [u8; 22] = any();
        must_ok!(h.set_payload(&data[..6 + 8 * k1]));
        witness!(k1 < k0, "shrunk");
    }
    h
}

/// concrete length field K, after having held 22 bytes
fn raw_ext_k<const K: usize>() -> Ipv6RawExtHeader {
    let data: [u8; 22] = any();
    let mut h = must_ok!(Ipv6RawExtHeader::new_raw(IpNumber(any()), &data));
    let data: [u8; 22] = any();
    must_ok!(h.set_payload(&data[..6 + 8 * K]));
    h
}

pub fn raw_ext_value() {
    let h = raw_ext();
    let hl = h.header_len();
    witness!(hl == 8, "len_0");
    witness!(hl == 24, "len_2");
    assert!(hl == 2 + h.payload().len());
    let mut w = Cap::<24>::new();
    must_ok!(h.write(&mut w));
    assert!(!w.overflow);
    assert!(w.len == hl);
    let (d, rest) = must_ok!(Ipv6RawExtHeader::from_slice(w.bytes()));
    assert!(d == h);
    assert!(rest.is_empty());
}

pub fn raw_ext_value_read() {
    let h = raw_ext();
    let mut w = Cap::<24>::new();
    must_ok!(h.write(&mut w));
    assert!(!w.overflow);
    let mut r = Rd::new(w.bytes());
    let d = must_ok!(Ipv6RawExtHeader::read(&mut r));
    assert!(d == h);
    assert!(r.exact());
}

fn raw_ext_to_bytes_k<const K: usize, const L: usize>() {
    let h = raw_ext_k::<K>();
    assert!(h.header_len() == L);
    let bv = h.to_bytes();
    assert!(bv.len() == L);
    let mut b = [0u8; L];
    b.copy_from_slice(&bv);
    let mut w = Cap::<L>::new();
    must_ok!(h.write(&mut w));
    assert!(!w.overflow);
    assert!(w.len == L);
    assert!(w.buf == b);
    let (d, rest) = must_ok!(Ipv6RawExtHeader::from_slice(&b));
    assert!(d == h);
    assert!(rest.is_empty());
}
pub fn raw_ext_to_bytes_0() {
    raw_ext_to_bytes_k::<0, 8>()
}
pub fn raw_ext_to_bytes_1() {
    raw_ext_to_bytes_k::<1, 16>()
}
pub fn raw_ext_to_bytes_2() {
    raw_ext_to_bytes_k::<2, 24>()
}

pub fn raw_ext_bytes() {
    const N: usize = 26;
    let buf: [u8; N] = any();
    let len = any_le(N);
    let b = &buf[..len];
    match Ipv6RawExtHeader::from_slice(b) {
        Ok((h, rest)) => {
            witness!(true, "accepted");
            witness!(!rest.is_empty(), "accepted_with_rest");
            let hl = h.header_len();
            witness!(hl == 24, "len_2");
            assert!(hl <= len && rest.len() == len - hl);
            assert!(rest.as_ptr() == b[hl..].as_ptr());
            // RFC 8200 4.3 / 4.4 / 4.6: next header, hdr ext len, then type specific data kept raw
            let mut w = Cap::<N>::new();
            must_ok!(h.write(&mut w));
            assert!(!w.overflow);
            assert!(w.len == hl);
            assert!(w.bytes() == &b[..hl]);
            let (h2, rest2) = must_ok!(Ipv6RawExtHeader::from_slice(w.bytes()));
            assert!(h2 == h);
            assert!(rest2.is_empty());
        }
        Err(e) => {
            core::mem::forget(e);
            witness!(true, "rejected");
        }
    }
}

/// direction 2 through to_bytes: length byte concrete, buffer of exactly L + 2 bytes
fn raw_ext_bytes_to_bytes_k<const K: u8, const L: usize, const N: usize>() {
    let mut buf: [u8; N] = any();
    buf[1] = K;
    let (h, rest) = must_ok!(Ipv6RawExtHeader::from_slice(&buf));
    assert!(N == L + 2);
    assert!(rest.len() == 2);
    let ev = h.to_bytes();
    assert!(ev.len() == L);
    let mut e = [0u8; L];
    e.copy_from_slice(&ev);
    assert!(e[..] == buf[..L]);
    let (h2, rest2) = must_ok!(Ipv6RawExtHeader::from_slice(&e));
    assert!(h2 == h);
    assert!(rest2.is_empty());
}
pub fn raw_ext_bytes_to_bytes_0() {
    raw_ext_bytes_to_bytes_k::<0, 8, 10>()
}
pub fn raw_ext_bytes_to_bytes_2() {
    raw_ext_bytes_to_bytes_k::<2, 24, 26>()
}

// ------------------------------------------------------------------------------------------
// IPv4 extension headers (= optional authentication header)
// ------------------------------------------------------------------------------------------

/// IANA protocol numbers of the extension headers `Ipv6Extensions` decodes: 0 hop-by-hop,
/// 43 routing, 44 fragment, 51 authentication, 60 destination options
fn is_v6_ext(n: u8) -> bool {
    n == 0 || n == 43 || n == 44 || n == 51 || n == 60
}

pub fn ipv4_exts_none() {
    let v = Ipv4Extensions { auth: None };
    // consistent start number: without an authentication header the protocol is not 51
    let start: u8 = any();
    assume(start != 51);
    assert!(v.header_len() == 0);
    assert!(v.is_empty());
    let mut w = Cap::<4>::new();
    must_ok!(v.write(&mut w, IpNumber(start)));
    assert!(!w.overflow && w.len == 0);
    let trail: [u8; 3] = any();
    let (d, next, rest) = must_ok!(Ipv4Extensions::from_slice(IpNumber(start), &trail[..0]));
    assert!(d == v && next.0 == start && rest.is_empty());
    let mut r = Rd::new(&trail[..0]);
    let (d, next) = must_ok!(Ipv4Extensions::read(&mut r, IpNumber(start)));
    assert!(d == v && next.0 == start && r.exact());
}

/// thorough (`write` goes through `IpAuthHeader::to_bytes`, unwind 1018): `write` emits exactly the
/// member's own `write` output, header_len is the member's
pub fn ipv4_exts_auth_enc() {
    const L: usize = 16;
    let v = Ipv4Extensions { auth: Some(auth_header_k::<1>()) };
    assert!(v.header_len() == L);
    assert!(!v.is_empty());
    let mut w = Cap::<L>::new();
    must_ok!(v.write(&mut w, IpNumber(51)));
    assert!(!w.overflow);
    assert!(w.len == L);
    let mut wa = Cap::<L>::new();
    must_ok!(v.auth.as_ref().unwrap().write(&mut wa));
    assert!(wa.len == L && wa.buf == w.buf);
}

/// decoding the member's own bytes gives the value back (ICV 0/4/8 bytes, symbolic)
pub fn ipv4_exts_auth_dec() {
    let a = auth_header();
    let nh = a.next_header;
    let v = Ipv4Extensions { auth: Some(a) };
    let hl = v.header_len();
    let mut w = Cap::<24>::new();
    must_ok!(v.auth.as_ref().unwrap().write(&mut w));
    assert!(!w.overflow && w.len == hl);
    let (d, next, rest) = must_ok!(Ipv4Extensions::from_slice(IpNumber(51), w.bytes()));
    assert!(d == v);
    assert!(next == nh);
    assert!(rest.is_empty());
    let mut r = Rd::new(w.bytes());
    let (d, next) = must_ok!(Ipv4Extensions::read(&mut r, IpNumber(51)));
    assert!(d == v);
    assert!(next == nh);
    assert!(r.exact());
}

/// direction 2 glue: with start number 51 the extensions decoder accepts exactly what the
/// authentication header decoder accepts and returns that header, its next header and its rest
/// (re-encoding the header itself: auth_bytes)
pub fn ipv4_exts_bytes_auth() {
    const N: usize = 24;
    let buf: [u8; N] = any();
    let len = any_le(N);
    let b = &buf[..len];
    match (Ipv4Extensions::from_slice(IpNumber(51), b), IpAuthHeader::from_slice(b)) {
        (Ok((v, next, rest)), Ok((a, arest))) => {
            witness!(true, "accepted");
            witness!(!rest.is_empty(), "accepted_with_rest");
            assert!(next == a.next_header);
            assert!(rest.len() == arest.len() && rest.as_ptr() == arest.as_ptr());
            assert!(v.header_len() == a.header_len());
            assert!(v.auth == Some(a));
        }
        (Err(e1), Err(e2)) => {
            core::mem::forget(e1);
            core::mem::forget(e2);
            witness!(true, "rejected");
        }
        (r1, r2) => {
            core::mem::forget(r1);
            core::mem::forget(r2);
            panic!("C08: Ipv4Extensions and IpAuthHeader decoders disagree")
        }
    }
}

// ------------------------------------------------------------------------------------------
// IPv6 extension headers
// ------------------------------------------------------------------------------------------
//
// What CBMC can do here (all measured): `Ipv6Extensions` is a 9 KB value; the
// `loop { match next_header }` walks of `from_slice` / `read` are *not* resolved by constant
// propagation even for a concrete chain, i.e. they are unrolled to the unwind bound with every arm
// (each arm builds a 2 KB header): ~15 s per unit of unwind per decoder call. `write` resolves
// its walk for concrete links. `IpAuthHeader::to_bytes` inside `write` needs unwind >= 1018.
// Hence
//  * presence of each member and the links are concrete per harness (RFC 8200 4.1 order made by
//    `set_next_headers`, plus one different order set by hand), each member has its minimal size
//    (raw headers 8 bytes, authentication header 4 byte ICV), all contents are symbolic; the
//    protocol after the chain is UDP (17);
//  * encode and decode are decided in separate harnesses over the same value set:
//    `*_enc`: `write(v)` == the members' own `write` outputs in link order, length == header_len
//             (the members' serialisers are decided by the per-type harnesses above);
//    `*_slice` / `*_read`: decoding exactly those member-wise bytes gives back (v, 17, empty rest)
//             with unwind 9; byte comparisons are done on 8 byte words to stay below that bound.
//    Together: decode(write(v)) == v.

fn last_proto() -> IpNumber {
    IpNumber(17)
}

fn ipv6_exts_members(hbh: bool, dest: bool, route: bool, fdest: bool, frag: bool, auth: bool) -> Ipv6Extensions {
    Ipv6Extensions {
        hop_by_hop_options: if hbh { Some(raw_ext_k::<0>()) } else { None },
        destination_options: if dest { Some(raw_ext_k::<0>()) } else { None },
        routing: if route {
            Some(Ipv6RoutingExtensions {
                routing: raw_ext_k::<0>(),
                final_destination_options: if fdest { Some(raw_ext_k::<0>()) } else { None },
            })
        } else {
            None
        },
        fragment: if frag { Some(ipv6_frag_header()) } else { None },
        auth: if auth { Some(auth_header_k::<1>()) } else { None },
    }
}

/// the members' own serialisers, RFC 8200 4.1 order (= the order `set_next_headers` links)
fn ipv6_exts_write_members<const L: usize>(v: &Ipv6Extensions, w: &mut Cap<L>) {
    if let Some(h) = v.hop_by_hop_options.as_ref() {
        must_ok!(h.write(w));
    }
    if let Some(h) = v.destination_options.as_ref() {
        must_ok!(h.write(w));
    }
    if let Some(r) = v.routing.as_ref() {
        must_ok!(r.routing.write(w));
    }
    if let Some(h) = v.fragment.as_ref() {
        must_ok!(h.write(w));
    }
    if let Some(h) = v.auth.as_ref() {
        must_ok!(h.write(w));
    }
    if let Some(r) = v.routing.as_ref() {
        if let Some(h) = r.final_destination_options.as_ref() {
            must_ok!(h.write(w));
        }
    }
}

/// big endian word at offset i (comparison of 8 bytes without a loop)
fn w64(a: &[u8], i: usize) -> u64 {
    u64::from_be_bytes([a[i], a[i + 1], a[i + 2], a[i + 3], a[i + 4], a[i + 5], a[i + 6], a[i + 7]])
}

/// arrays of L = 8 * W bytes are equal (at most 13 words, i.e. loop bound 14 is never needed: unrolled by hand)
fn words_eq<const L: usize>(a: &[u8; L], b: &[u8; L]) -> bool {
    let mut ok = true;
    if L >= 8 {
        ok &= w64(a, 0) == w64(b, 0);
    }
    if L >= 16 {
        ok &= w64(a, 8) == w64(b, 8);
    }
    if L >= 24 {
        ok &= w64(a, 16) == w64(b, 16);
    }
    if L >= 32 {
        ok &= w64(a, 24) == w64(b, 24);
    }
    if L >= 40 {
        ok &= w64(a, 32) == w64(b, 32);
    }
    if L >= 48 {
        ok &= w64(a, 40) == w64(b, 40);
    }
    if L >= 56 {
        ok &= w64(a, 48) == w64(b, 48);
    }
    if L >= 64 {
        ok &= w64(a, 56) == w64(b, 56);
    }
    if L >= 72 {
        ok &= w64(a, 64) == w64(b, 64);
    }
    if L >= 80 {
        ok &= w64(a, 72) == w64(b, 72);
    }
    if L >= 88 {
        ok &= w64(a, 80) == w64(b, 80);
    }
    if L >= 96 {
        ok &= w64(a, 88) == w64(b, 88);
    }
    assert!(L % 8 == 0 && L <= 96);
    ok
}

fn ipv6_exts_enc<const L: usize>(hbh: bool, dest: bool, route: bool, fdest: bool, frag: bool, auth: bool) {
    let mut v = ipv6_exts_members(hbh, dest, route, fdest, frag, auth);
    let first = v.set_next_headers(last_proto());
    assert!(v.header_len() == L);
    let mut w = Cap::<L>::new();
    must_ok!(v.write(&mut w, first));
    assert!(!w.overflow);
    assert!(w.len == L);
    let mut m = Cap::<L>::new();
    ipv6_exts_write_members(&v, &mut m);
    assert!(!m.overflow);
    assert!(m.len == L);
    assert!(words_eq(&w.buf, &m.buf));
}

fn ipv6_exts_dec_slice<const L: usize>(hbh: bool, dest: bool, route: bool, fdest: bool, frag: bool, auth: bool) {
    let mut v = ipv6_exts_members(hbh, dest, route, fdest, frag, auth);
    let first = v.set_next_headers(last_proto());
    let mut m = Cap::<L>::new();
    ipv6_exts_write_members(&v, &mut m);
    assert!(!m.overflow && m.len == L);
    let (d, next, rest) = must_ok!(Ipv6Extensions::from_slice(first, &m.buf));
    assert!(d == v);
    assert!(next == last_proto());
    assert!(rest.is_empty());
}

fn ipv6_exts_dec_read<const L: usize>(hbh: bool, dest: bool, route: bool, fdest: bool, frag: bool, auth: bool) {
    let mut v = ipv6_exts_members(hbh, dest, route, fdest, frag, auth);
    let first = v.set_next_headers(last_proto());
    let mut m = Cap::<L>::new();
    ipv6_exts_write_members(&v, &mut m);
    assert!(!m.overflow && m.len == L);
    let mut r = Rd::new(&m.buf);
    let (d, next) = must_ok!(Ipv6Extensions::read(&mut r, first));
    assert!(d == v);
    assert!(next == last_proto());
    assert!(r.exact());
}

pub fn ipv6_exts_none() {
    let mut v = ipv6_exts_members(false, false, false, false, false, false);
    let first = v.set_next_headers(last_proto());
    assert!(first == last_proto());
    assert!(v.is_empty() && v.header_len() == 0);
    let mut w = Cap::<2>::new();
    must_ok!(v.write(&mut w, first));
    assert!(!w.overflow && w.len == 0);
    let (d, next, rest) = must_ok!(Ipv6Extensions::from_slice(first, &w.buf[..0]));
    assert!(d == v && next == first && rest.is_empty());
    let mut r = Rd::new(&w.buf[..0]);
    let (d, next) = must_ok!(Ipv6Extensions::read(&mut r, first));
    assert!(d == v && next == first && r.exact());
}

pub fn ipv6_exts_frag_enc() {
    ipv6_exts_enc::<8>(false, false, false, false, true, false)
}
pub fn ipv6_exts_frag_slice() {
    ipv6_exts_dec_slice::<8>(false, false, false, false, true, false)
}
pub fn ipv6_exts_frag_read() {
    ipv6_exts_dec_read::<8>(false, false, false, false, true, false)
}
pub fn ipv6_exts_hbh_frag_enc() {
    ipv6_exts_enc::<16>(true, false, false, false, true, false)
}
pub fn ipv6_exts_hbh_frag_slice() {
    ipv6_exts_dec_slice::<16>(true, false, false, false, true, false)
}
/// every member except the authentication header
pub fn ipv6_exts_all_raw_enc() {
    ipv6_exts_enc::<40>(true, true, true, true, true, false)
}
/// authentication header only
pub fn ipv6_exts_auth_enc() {
    ipv6_exts_enc::<16>(false, false, false, false, false, true)
}
pub fn ipv6_exts_auth_slice() {
    ipv6_exts_dec_slice::<16>(false, false, false, false, false, true)
}

/// a second order, links set by hand: routing -> fragment -> (final) destination options -> UDP
fn ipv6_exts_other() -> Ipv6Extensions {
    let mut v = ipv6_exts_members(false, false, true, true, true, false);
    if let Some(r) = v.routing.as_mut() {
        r.routing.next_header = IpNumber(44);
        if let Some(f) = r.final_destination_options.as_mut() {
            f.next_header = last_proto();
        }
    }
    if let Some(f) = v.fragment.as_mut() {
        f.next_header = IpNumber(60);
    }
    v
}
fn ipv6_exts_other_bytes(v: &Ipv6Extensions) -> Cap<24> {
    let mut m = Cap::<24>::new();
    let r = v.routing.as_ref().unwrap();
    must_ok!(r.routing.write(&mut m));
    must_ok!(v.fragment.as_ref().unwrap().write(&mut m));
    must_ok!(r.final_destination_options.as_ref().unwrap().write(&mut m));
    assert!(!m.overflow && m.len == 24);
    m
}
pub fn ipv6_exts_other_order_enc() {
    let v = ipv6_exts_other();
    assert!(v.header_len() == 24);
    let mut w = Cap::<24>::new();
    must_ok!(v.write(&mut w, IpNumber(43)));
    assert!(!w.overflow && w.len == 24);
    let m = ipv6_exts_other_bytes(&v);
    assert!(words_eq(&w.buf, &m.buf));
}
// Direction 2 (bytes -> value -> bytes) of `Ipv6Extensions` is not decided on its own: two decoder
// walks in one harness exceed 16 GB. It follows for the decided chains from the member harnesses
// (`*_bytes`) and the `*_enc` / `*_slice` pairs above.

// ------------------------------------------------------------------------------------------
// IpHeaders (IPv4 / IPv6 header + extensions)
// ------------------------------------------------------------------------------------------
//
// Same decomposition as for the extension headers: `*_enc` decides that `IpHeaders::write` emits
// the base header's own `write` output followed by the extensions' `write` output (and that
// header_len is the sum); `*_dec` decides that decoding those bytes gives the value back.
// `IpHeaders::write` uses `Ipv4Header::write`, i.e. the computed header checksum: a consistent
// IPv4 value carries `header_checksum == calc_header_checksum()`. The length fields must cover the
// headers (`from_slice` cuts the slice by them): total_len = headers + payload, payload_length =
// extensions + payload; the payload (0..=2 symbolic bytes) is appended to the bytes.
// Concrete per harness: the IPv4 option length and the upper layer protocol (UDP, 17).
// Only the IPv4 variant without extension header is decided: `IpHeaders` is a 9 KB enum (its IPv6
// variant embeds `Ipv6Extensions`) and CBMC needs > 20 GB for the IPv6 variant even without any
// extension header, and did not finish `IpHeaders::read` in 15 minutes (both measured).

const IPH_PAYLOAD: usize = 2;

fn ip_v4_headers(words: usize, auth: bool, pay: usize) -> IpHeaders {
    let mut h = ipv4_header_w(words);
    let mut e = Ipv4Extensions { auth: if auth { Some(auth_header_k::<1>()) } else { None } };
    h.protocol = e.set_next_headers(last_proto());
    h.total_len = (20 + 4 * words + if auth { 16 } else { 0 } + pay) as u16;
    h.header_checksum = h.calc_header_checksum();
    IpHeaders::Ipv4(h, e)
}

/// base header and extensions as they write themselves
fn ip_headers_write_members<const L: usize>(v: &IpHeaders, w: &mut Cap<L>) {
    match v {
        IpHeaders::Ipv4(h, e) => {
            must_ok!(h.write(w));
            if let Some(a) = e.auth.as_ref() {
                must_ok!(a.write(w));
            }
        }
        IpHeaders::Ipv6(h, e) => {
            must_ok!(h.write(w));
            ipv6_exts_write_members(e, w);
        }
    }
}

fn ip_headers_enc<const L: usize>(v: &IpHeaders) {
    assert!(v.header_len() == L);
    let mut w = Cap::<L>::new();
    must_ok!(v.write(&mut w));
    assert!(!w.overflow && w.len == L);
    let mut m = Cap::<L>::new();
    ip_headers_write_members(v, &mut m);
    assert!(!m.overflow && m.len == L);
    assert!(w.buf == m.buf);
    // NetHeaders wrapper announces the same length
    assert!(NetHeaders::from(v.clone()).header_len() == L);
}

/// `a == b` without the 16 iteration address comparisons of the derived `PartialEq` (the decode
/// harnesses keep the unwind bound at 9, see above): addresses are compared as 128 bit numbers
fn ip_headers_eq(a: &IpHeaders, b: &IpHeaders) -> bool {
    match (a, b) {
        (IpHeaders::Ipv4(ah, ae), IpHeaders::Ipv4(bh, be)) => ah == bh && ae == be,
        (IpHeaders::Ipv6(ah, ae), IpHeaders::Ipv6(bh, be)) => {
            ah.traffic_class == bh.traffic_class
                && ah.flow_label == bh.flow_label
                && ah.payload_length == bh.payload_length
                && ah.next_header == bh.next_header
                && ah.hop_limit == bh.hop_limit
                && u128::from_be_bytes(ah.source) == u128::from_be_bytes(bh.source)
                && u128::from_be_bytes(ah.destination) == u128::from_be_bytes(bh.destination)
                && ae == be
        }
        _ => false,
    }
}

/// L = header length + IPH_PAYLOAD
fn ip_headers_dec_slice<const L: usize>(v: &IpHeaders, pay: usize) {
    let mut m = Cap::<L>::new();
    ip_headers_write_members(v, &mut m);
    let hl = m.len;
    assert!(hl + IPH_PAYLOAD == L);
    let tail: [u8; IPH_PAYLOAD] = any();
    io::Write::write_all(&mut m, &tail[..pay]).unwrap();
    assert!(!m.overflow);
    let (d, p) = must_ok!(IpHeaders::from_slice(m.bytes()));
    assert!(ip_headers_eq(&d, v));
    assert!(p.ip_number == last_proto());
    assert!(p.payload.len() == pay); // nothing of the headers is left over
    assert!(p.payload.as_ptr() == m.buf[hl..].as_ptr());
    assert!(p.fragmented == v.is_fragmenting_payload());
}

pub fn ip_headers_v4_enc() {
    ip_headers_enc::<20>(&ip_v4_headers(0, false, any_le(IPH_PAYLOAD)));
    ip_headers_enc::<24>(&ip_v4_headers(1, false, any_le(IPH_PAYLOAD)));
}
pub fn ip_headers_v4_slice() {
    let pay = any_le(IPH_PAYLOAD);
    witness!(pay == 2, "payload");
    ip_headers_dec_slice::<26>(&ip_v4_headers(1, false, pay), pay);
}
pub fn ip_headers_v4_max_enc() {
    ip_headers_enc::<60>(&ip_v4_headers(10, false, any_le(IPH_PAYLOAD)));
}
crate::harnesses! {
    c08_eth2_value = eth2_value; unwind 20,
    c08_eth2_bytes = eth2_bytes; unwind 20,
    c08_sll_value = sll_value; unwind 20,
    c08_sll_bytes = sll_bytes; unwind 20,
    c08_vlan_value = vlan_value; unwind 10,
    c08_vlan_bytes = vlan_bytes; unwind 10,
    c08_macsec_value = macsec_value; unwind 20,
    c08_macsec_bytes = macsec_bytes; unwind 20,
    c08_link_wrappers = link_wrappers; unwind 20,
    c08_arp_value_6_4 = arp_value_6_4; unwind 30,
    c08_arp_read_6_4 = arp_read_6_4; unwind 30,
    c08_arp_value_0_0 = arp_value_0_0; unwind 12,
    c08_arp_value_1_2 = arp_value_1_2; unwind 16,
    c08_arp_read_1_2 = arp_read_1_2; unwind 16,
    c08_arp_value_8_8 = arp_value_8_8; unwind 42,
    c08_arp_read_8_8 = arp_read_8_8; unwind 42,
    c08_arp_value_3_0 = arp_value_3_0; unwind 16,
    c08_arp_value_0_5 = arp_value_0_5; unwind 20,
    c08_arp_value_shrunk = arp_value_shrunk; unwind 30,
    c08_arp_bytes_6_4 = arp_bytes_6_4; unwind 32,
    c08_arp_bytes_1_2 = arp_bytes_1_2; unwind 18,
    c08_arp_bytes_8_8 = arp_bytes_8_8; unwind 44,
    c08_arp_eth_ipv4_value = arp_eth_ipv4_value; unwind 30,
    c08_arp_eth_ipv4_bytes = arp_eth_ipv4_bytes; unwind 30,
    c08_ipv4_value = ipv4_value; unwind 62,
    c08_ipv4_value_read = ipv4_value_read; unwind 62,
    c08_ipv4_value_write = ipv4_value_write; unwind 62,
    c08_ipv4_bytes = ipv4_bytes; unwind 62,
    c08_ipv6_value = ipv6_value; unwind 42,
    c08_ipv6_bytes = ipv6_bytes; unwind 42,
    c08_ipv6_frag_value = ipv6_frag_value; unwind 10,
    c08_ipv6_frag_bytes = ipv6_frag_bytes; unwind 10,
    c08_udp_value = udp_value; unwind 10,
    c08_udp_bytes = udp_bytes; unwind 10,
    c08_tcp_value = tcp_value; unwind 62,
    c08_tcp_value_read = tcp_value_read; unwind 62,
    c08_tcp_bytes = tcp_bytes; unwind 62,
    c08_icmp_echo_rt = icmp_echo_rt; unwind 6,
    c08_icmpv4_value = icmpv4_value; unwind 22,
    c08_icmpv4_value_write = icmpv4_value_write; unwind 22,
    c08_icmpv4_bytes = icmpv4_bytes; unwind 22,
    c08_icmpv6_value = icmpv6_value; unwind 10,
    c08_icmpv6_value_write = icmpv6_value_write; unwind 10,
    c08_icmpv6_bytes = icmpv6_bytes; unwind 10,
    c08_icmpv6_ndp_headers_rt = icmpv6_ndp_headers_rt; unwind 6,
    c08_icmpv6_payload_value = icmpv6_payload_value; unwind 34,
    c08_icmpv6_payload_bytes = icmpv6_payload_bytes; unwind 34,
    c08_prefix_info_value = prefix_info_value; unwind 34,
    c08_prefix_info_bytes = prefix_info_bytes; unwind 34,
    c08_igmp_value = igmp_value; unwind 14,
    c08_igmp_bytes = igmp_bytes; unwind 14,
    c08_igmp_record_value = igmp_record_value; unwind 10,
    c08_igmp_record_bytes = igmp_record_bytes; unwind 10,
    c08_auth_value = auth_value; unwind 26,
    c08_auth_bytes = auth_bytes; unwind 26,
    c08_auth_to_bytes_0 = auth_to_bytes_0; unwind 1018,
    c08_auth_to_bytes_1 = auth_to_bytes_1; unwind 1018,
    c08_auth_to_bytes_2 = auth_to_bytes_2; unwind 1018,
    c08_raw_ext_value = raw_ext_value; unwind 26,
    c08_raw_ext_value_read = raw_ext_value_read; unwind 26,
    c08_raw_ext_to_bytes_0 = raw_ext_to_bytes_0; unwind 26,
    c08_raw_ext_to_bytes_1 = raw_ext_to_bytes_1; unwind 26,
    c08_raw_ext_to_bytes_2 = raw_ext_to_bytes_2; unwind 26,
    c08_raw_ext_bytes = raw_ext_bytes; unwind 28,
    c08_raw_ext_bytes_to_bytes_0 = raw_ext_bytes_to_bytes_0; unwind 28,
    c08_raw_ext_bytes_to_bytes_2 = raw_ext_bytes_to_bytes_2; unwind 28,
    c08_ipv4_exts_none = ipv4_exts_none; unwind 6,
    c08_ipv4_exts_auth_enc = ipv4_exts_auth_enc; unwind 1018,
    c08_ipv4_exts_auth_dec = ipv4_exts_auth_dec; unwind 26,
    c08_ipv4_exts_bytes_auth = ipv4_exts_bytes_auth; unwind 26,
    c08_ipv6_exts_none = ipv6_exts_none; unwind 9,
    c08_ipv6_exts_frag_enc = ipv6_exts_frag_enc; unwind 9,
    c08_ipv6_exts_frag_slice = ipv6_exts_frag_slice; unwind 3,
    c08_ipv6_exts_frag_read = ipv6_exts_frag_read; unwind 3,
    c08_ipv6_exts_hbh_frag_enc = ipv6_exts_hbh_frag_enc; unwind 9,
    c08_ipv6_exts_hbh_frag_slice = ipv6_exts_hbh_frag_slice; unwind 9,
    c08_ipv6_exts_all_raw_enc = ipv6_exts_all_raw_enc; unwind 9,
    c08_ipv6_exts_auth_enc = ipv6_exts_auth_enc; unwind 1018,
    c08_ipv6_exts_auth_slice = ipv6_exts_auth_slice; unwind 9,
    c08_ipv6_exts_other_order_enc = ipv6_exts_other_order_enc; unwind 9,
    c08_ip_headers_v4_enc = ip_headers_v4_enc; unwind 30,
    c08_ip_headers_v4_slice = ip_headers_v4_slice; unwind 30,
    c08_ip_headers_v4_max_enc = ip_headers_v4_max_enc; unwind 64,
}
