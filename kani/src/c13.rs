//! C13 - TCP options encode and decode faithfully; iteration is bounded.
//!
//! The oracle below is an independent, deliberately naive encoder / one-step decoder of the
//! TCP option formats, written from the RFCs and sharing no code and no constant with
//! etherparse:
//!
//! * RFC 9293 3.1: kind 0 End of Option List (1 byte), kind 1 No-Operation (1 byte),
//!   kind 2 Maximum Segment Size (length 4, 16 bit value); every other option is
//!   kind, length (counting kind and length byte), data; the option area is padded with
//!   zeros to a multiple of 32 bit; the data offset field limits the area to 40 bytes.
//! * RFC 7323: kind 3 Window Scale (length 3, shift count), kind 8 Timestamps (length 10,
//!   TSval, TSecr, both 32 bit big endian).
//! * RFC 2018: kind 4 SACK-Permitted (length 2), kind 5 SACK (length 8*n+2, n blocks of
//!   left edge / right edge, both 32 bit big endian; at most 4 blocks fit into 40 bytes).
//!   `TcpOptionElement::SelectiveAcknowledgement` always carries a first block, so n >= 1.
//!
//! Conventions of etherparse that the RFCs do not fix and that the oracle takes from the
//! documentation of the crate: the decoder cannot represent a gap in the optional SACK
//! blocks, so blocks are compared as the sequence of present blocks; an option kind other
//! than 0,1,2,3,4,5,8 is reported as `UnknownId(kind)`; iteration ends (returns `None`) at
//! an End of Option List byte without looking at the bytes behind it.
//!
//! Errors are checked for *truthfulness* (see `err_truthful`): every field must state the
//! real kind / length byte / remaining length. Where two faults are present at once (a
//! fixed size option whose length byte is wrong AND which does not fit into the remaining
//! bytes) the documentation of `TcpOptionReadError` allows either error, and so does the
//! oracle.

use crate::sym::{any, any_le, assume};
use crate::tight::{inside, off, Tight};
use crate::witness;
use etherparse::{
    TcpHeader, TcpHeaderSlice, TcpOptionElement, TcpOptionReadError, TcpOptionWriteError,
    TcpOptions, TcpOptionsIterator,
};

// ================================================================== reference model
//
// Style note: the reference is written without array indexing and without `+ - *` on
// symbolic values (named fields, `match`, destructuring, `wrapping_*`, checked `get`).
// Every checked operation would add a Kani reachability check whose trace the driver has
// to keep in memory; the reference has nothing to check anyway.

/// reference form of one option element (SACK gaps do not exist here: blocks b0..b{n-1})
#[derive(Clone, Copy)]
pub struct RElem {
    /// wire kind: 1, 2, 3, 4, 5 or 8
    kind: u8,
    /// MSS value (kind 2) or shift count (kind 3), otherwise 0
    val: u16,
    /// number of 8 byte blocks: SACK 1..=4, timestamps 1 (TSval, TSecr), otherwise 0
    n: u8,
    /// the blocks, unused ones are (0, 0)
    b0: (u32, u32),
    b1: (u32, u32),
    b2: (u32, u32),
    b3: (u32, u32),
}

const R_ZERO: RElem = RElem { kind: 0, val: 0, n: 0, b0: (0, 0), b1: (0, 0), b2: (0, 0), b3: (0, 0) };
const R_NOOP: RElem = RElem { kind: 1, val: 0, n: 0, b0: (0, 0), b1: (0, 0), b2: (0, 0), b3: (0, 0) };

/// field by field equality
fn same(a: &RElem, b: &RElem) -> bool {
    a.kind == b.kind
        && a.val == b.val
        && a.n == b.n
        && a.b0.0 == b.b0.0
        && a.b0.1 == b.b0.1
        && a.b1.0 == b.b1.0
        && a.b1.1 == b.b1.1
        && a.b2.0 == b.b2.0
        && a.b2.1 == b.b2.1
        && a.b3.0 == b.b3.0
        && a.b3.1 == b.b3.1
}

/// size of the option on the wire
fn ref_size(e: &RElem) -> usize {
    match e.kind {
        1 => 1,
        2 => 4,
        3 => 3,
        4 => 2,
        // RFC 2018: 8*n + 2
        5 => match e.n {
            1 => 10,
            2 => 18,
            3 => 26,
            _ => 34,
        },
        _ => 10,
    }
}

/// byte `i` (0 = most significant) of a 32 bit value in network byte order
fn be_byte(v: u32, i: usize) -> u8 {
    let [b0, b1, b2, b3] = v.to_be_bytes();
    match i {
        0 => b0,
        1 => b1,
        2 => b2,
        _ => b3,
    }
}

/// reference encoder: byte `t` of the wire image of one element (`t < ref_size(e)`)
fn ref_byte(e: &RElem, t: usize) -> u8 {
    if t == 0 {
        return e.kind;
    }
    if t == 1 {
        // length byte (kind 1 has none and is a single byte)
        return ref_size(e) as u8;
    }
    match e.kind {
        2 => {
            let [hi, lo] = e.val.to_be_bytes();
            if t == 2 {
                hi
            } else {
                lo
            }
        }
        3 => e.val as u8,
        _ => {
            // kinds 5 and 8: 8 byte blocks (left edge, right edge / TSval, TSecr) from byte 2 on
            let i = t.wrapping_sub(2);
            let blk = match i {
                0..=7 => e.b0,
                8..=15 => e.b1,
                16..=23 => e.b2,
                _ => e.b3,
            };
            // byte i of the block: bytes 0..3 first word, 4..7 second word
            let word = if i & 4 == 0 { blk.0 } else { blk.1 };
            be_byte(word, i & 3)
        }
    }
}

const EXHAUSTED: u8 = 0; // no byte left
const END: u8 = 1; // End of Option List
const ELEM: u8 = 2; // one well formed option
const BAD: u8 = 3; // malformed or unknown option
const BROKEN: u8 = 9; // reference decoder inconsistent with itself (never equal to anything)

/// result of the reference one-step decoder
#[derive(Clone, Copy)]
pub struct RDec {
    st: u8,
    /// the option (st == ELEM)
    elem: RElem,
    /// bytes occupied by it (st == ELEM)
    used: usize,
    /// first byte (st != EXHAUSTED)
    kind: u8,
    /// bytes that were left
    rem: usize,
    /// the length byte if there is one (kinds with a length byte only)
    lenb: Option<u8>,
}

fn get32(b: &[u8], at: usize) -> Option<u32> {
    Some(u32::from_be_bytes([
        *b.get(at)?,
        *b.get(at.wrapping_add(1))?,
        *b.get(at.wrapping_add(2))?,
        *b.get(at.wrapping_add(3))?,
    ]))
}

fn get_block(b: &[u8], at: usize) -> Option<(u32, u32)> {
    Some((get32(b, at)?, get32(b, at.wrapping_add(4))?))
}

fn is_known(kind: u8) -> bool {
    kind == 2 || kind == 3 || kind == 4 || kind == 5 || kind == 8
}

/// is `l` a length byte an option of this (known, length carrying) kind may have
fn legal_len(kind: u8, l: u8) -> bool {
    match kind {
        2 => l == 4,
        3 => l == 3,
        4 => l == 2,
        8 => l == 10,
        // RFC 2018: 8*n+2; 1 <= n (element type) and n <= 4 (40 byte area)
        _ => l == 10 || l == 18 || l == 26 || l == 34,
    }
}

/// reference decoder, one step, checked accesses only
fn ref_step(b: &[u8]) -> RDec {
    let mut d = RDec { st: EXHAUSTED, elem: R_ZERO, used: 0, kind: 0, rem: b.len(), lenb: None };
    let kind = match b.first() {
        None => return d,
        Some(k) => *k,
    };
    d.kind = kind;
    if kind == 0 {
        d.st = END;
        return d;
    }
    if kind == 1 {
        d.st = ELEM;
        d.elem.kind = 1;
        d.used = 1;
        return d;
    }
    d.st = BAD; // until the option turns out to be well formed
    if !is_known(kind) {
        return d;
    }
    d.lenb = b.get(1).copied();
    let l = match d.lenb {
        None => return d,
        Some(l) => l,
    };
    if !legal_len(kind, l) || b.len() < l as usize {
        return d;
    }
    // well formed: the option occupies b[..l]
    let mut e = R_ZERO;
    e.kind = kind;
    let ok = match kind {
        2 => match (b.get(2), b.get(3)) {
            (Some(h), Some(lo)) => {
                e.val = u16::from_be_bytes([*h, *lo]);
                true
            }
            _ => false,
        },
        3 => match b.get(2) {
            Some(v) => {
                e.val = *v as u16;
                true
            }
            None => false,
        },
        4 => true,
        8 => match get_block(b, 2) {
            Some(x) => {
                e.n = 1;
                e.b0 = x;
                true
            }
            None => false,
        },
        _ => {
            // number of blocks = (l - 2) / 8
            let n: u8 = match l {
                10 => 1,
                18 => 2,
                26 => 3,
                _ => 4,
            };
            e.n = n;
            let mut ok = true;
            match get_block(b, 2) {
                Some(x) => e.b0 = x,
                None => ok = false,
            }
            if n > 1 {
                match get_block(b, 10) {
                    Some(x) => e.b1 = x,
                    None => ok = false,
                }
            }
            if n > 2 {
                match get_block(b, 18) {
                    Some(x) => e.b2 = x,
                    None => ok = false,
                }
            }
            if n > 3 {
                match get_block(b, 26) {
                    Some(x) => e.b3 = x,
                    None => ok = false,
                }
            }
            ok
        }
    };
    // cannot fail: the length was compared with the remaining bytes above
    d.st = if ok { ELEM } else { BROKEN };
    d.elem = e;
    d.used = l as usize;
    d
}

/// Does the error state the real kind, length byte and remaining length of the malformed
/// option `d` (`d.st == BAD`)?
fn err_truthful(d: &RDec, e: &TcpOptionReadError) -> bool {
    let known = is_known(d.kind);
    match *e {
        // kinds 0 and 1 never reach this point (st is END / ELEM for them)
        TcpOptionReadError::UnknownId(id) => !known && id == d.kind,
        TcpOptionReadError::UnexpectedSize { option_id, size } => {
            known && option_id == d.kind && d.lenb == Some(size) && !legal_len(d.kind, size)
        }
        TcpOptionReadError::UnexpectedEndOfSlice { option_id, expected_len, actual_len } => {
            known
                && option_id == d.kind
                && actual_len == d.rem
                && (expected_len as usize) > d.rem
                && if d.kind == 5 {
                    match d.lenb {
                        // the length byte itself is missing: 2 bytes are needed to read it,
                        // 10 is the smallest SACK option
                        None => expected_len == 2 || expected_len == 10,
                        Some(l) => legal_len(5, l) && expected_len == l,
                    }
                } else {
                    // fixed size kinds: the one size the kind has
                    legal_len(d.kind, expected_len)
                }
        }
    }
}

/// the sequence of the present optional SACK blocks behind `first`
fn sack_ref(first: (u32, u32), rest: &[Option<(u32, u32)>; 3]) -> RElem {
    let mut r = R_ZERO;
    r.kind = 5;
    r.b0 = first;
    let [p0, p1, p2] = *rest;
    match (p0, p1, p2) {
        (None, None, None) => r.n = 1,
        (Some(a), None, None) | (None, Some(a), None) | (None, None, Some(a)) => {
            r.n = 2;
            r.b1 = a;
        }
        (Some(a), Some(b), None) | (Some(a), None, Some(b)) | (None, Some(a), Some(b)) => {
            r.n = 3;
            r.b1 = a;
            r.b2 = b;
        }
        (Some(a), Some(b), Some(c)) => {
            r.n = 4;
            r.b1 = a;
            r.b2 = b;
            r.b3 = c;
        }
    }
    r
}

/// etherparse element -> reference form (SACK: sequence of the present blocks)
fn norm(e: &TcpOptionElement) -> RElem {
    let mut r = R_ZERO;
    match e {
        TcpOptionElement::Noop => r.kind = 1,
        TcpOptionElement::MaximumSegmentSize(v) => {
            r.kind = 2;
            r.val = *v;
        }
        TcpOptionElement::WindowScale(v) => {
            r.kind = 3;
            r.val = *v as u16;
        }
        TcpOptionElement::SelectiveAcknowledgementPermitted => r.kind = 4,
        TcpOptionElement::SelectiveAcknowledgement(first, rest) => r = sack_ref(*first, rest),
        TcpOptionElement::Timestamp(a, b) => {
            r.kind = 8;
            r.n = 1;
            r.b0 = (*a, *b);
        }
    }
    r
}

/// arbitrary element (all six kinds, every presence pattern of the three optional SACK
/// blocks including gaps) together with its reference form, both built from the same
/// symbolic values
fn any_elem() -> (TcpOptionElement, RElem) {
    let k: u8 = any();
    assume(k < 6);
    let mut r = R_ZERO;
    let e = match k {
        0 => {
            r.kind = 1;
            TcpOptionElement::Noop
        }
        1 => {
            let v: u16 = any();
            r.kind = 2;
            r.val = v;
            TcpOptionElement::MaximumSegmentSize(v)
        }
        2 => {
            let v: u8 = any();
            r.kind = 3;
            r.val = v as u16;
            TcpOptionElement::WindowScale(v)
        }
        3 => {
            r.kind = 4;
            TcpOptionElement::SelectiveAcknowledgementPermitted
        }
        4 => {
            let first: (u32, u32) = (any(), any());
            // presence pattern of the optional blocks: bit i = block i present
            let p: u8 = any();
            assume(p < 8);
            let x: (u32, u32) = (any(), any());
            let y: (u32, u32) = (any(), any());
            let z: (u32, u32) = (any(), any());
            r.kind = 5;
            r.b0 = first;
            // written out per pattern: the reference holds the present blocks in order
            let rest = match p {
                0 => {
                    r.n = 1;
                    [None, None, None]
                }
                1 => {
                    r.n = 2;
                    r.b1 = x;
                    [Some(x), None, None]
                }
                2 => {
                    r.n = 2;
                    r.b1 = y;
                    [None, Some(y), None]
                }
                3 => {
                    r.n = 3;
                    r.b1 = x;
                    r.b2 = y;
                    [Some(x), Some(y), None]
                }
                4 => {
                    r.n = 2;
                    r.b1 = z;
                    [None, None, Some(z)]
                }
                5 => {
                    r.n = 3;
                    r.b1 = x;
                    r.b2 = z;
                    [Some(x), None, Some(z)]
                }
                6 => {
                    r.n = 3;
                    r.b1 = y;
                    r.b2 = z;
                    [None, Some(y), Some(z)]
                }
                _ => {
                    r.n = 4;
                    r.b1 = x;
                    r.b2 = y;
                    r.b3 = z;
                    [Some(x), Some(y), Some(z)]
                }
            };
            TcpOptionElement::SelectiveAcknowledgement(first, rest)
        }
        _ => {
            let a: u32 = any();
            let b: u32 = any();
            r.kind = 8;
            r.n = 1;
            r.b0 = (a, b);
            TcpOptionElement::Timestamp(a, b)
        }
    };
    (e, r)
}

// ================================================================== symbolic option areas

/// `len <= N` symbolic bytes twice: `data[..len]` on the stack (what the reference reads) and
/// a copy in a heap object of exactly `len` bytes (what etherparse reads; any access outside
/// the slice fails a CBMC pointer check). Same tape layout as `Tight::new`.
struct Area<const N: usize> {
    data: [u8; N],
    len: usize,
    tight: Tight<N>,
}

fn area<const N: usize>() -> Area<N> {
    let len = any_le(N);
    let data: [u8; N] = any();
    let tight = Tight::<N>::from_bytes(&data[..len]);
    Area { data, len, tight }
}

/// `sub` is exactly `outer[at..]` (same address, same length); pointer comparison only
fn is_suffix_at(outer: &[u8], at: usize, sub: &[u8]) -> bool {
    at <= outer.len() && sub.len() == outer.len() - at && core::ptr::eq(sub.as_ptr(), outer[at..].as_ptr())
}

// ================================================================== one decoder step

/// One `next()` of the real iterator against the reference decoder. `model` holds the same
/// bytes as `it.rest()` (the callers establish that by construction or by an assertion).
///
/// Checks: element / error / end exactly where the reference sees them; an element equals
/// the reference element, consumes exactly its wire size (rest() becomes the suffix behind
/// it) and its reference re-encoding equals the consumed bytes (tiling); an error is
/// truthful; after an error or END the iterator is empty.
fn check_step(it: &mut TcpOptionsIterator<'_>, model: &[u8]) -> RDec {
    let before = it.rest();
    assert!(before.len() == model.len());
    let d = ref_step(model);
    let got = it.next();
    let after = it.rest();
    match d.st {
        ELEM => {
            match got {
                Some(Ok(e)) => {
                    let r = norm(&e);
                    assert!(same(&r, &d.elem), "decoded element differs from the reference");
                    // re-encoding the element gives back exactly the consumed bytes
                    let t = any_le(33);
                    assert!(
                        ref_size(&r) == d.used && (t >= d.used || model.get(t) == Some(&ref_byte(&r, t))),
                        "element does not tile the consumed bytes"
                    );
                }
                _ => assert!(false, "well formed option must be yielded as an element"),
            }
            assert!(is_suffix_at(before, d.used, after), "rest() must be the suffix behind the option");
        }
        BAD => {
            match got {
                Some(Err(e)) => assert!(err_truthful(&d, &e), "error does not state the real kind/size/remaining length"),
                _ => assert!(false, "malformed or unknown option must be reported as an error"),
            }
            assert!(after.is_empty(), "iterator must be empty after an error");
        }
        _ => {
            // no byte left or End of Option List
            assert!(got.is_none() && after.is_empty(), "iteration must end (None, empty rest) at END / at the end of the bytes");
        }
    }
    d
}

/// (b) inductive step: an arbitrary iterator state is an arbitrary slice of at most 40
/// bytes (the iterator has no state besides `rest()`, asserted below), so one checked
/// step from every such state decides every step of every iteration.
pub fn iter_step() {
    // the whole state of the iterator is the slice returned by rest()
    assert!(core::mem::size_of::<TcpOptionsIterator<'static>>() == core::mem::size_of::<&[u8]>());
    let a = area::<40>();
    let mut it = TcpOptionsIterator::from_slice(a.tight.slice());
    assert!(is_suffix_at(a.tight.slice(), 0, it.rest()));
    let d = check_step(&mut it, &a.data[..a.len]);
    witness!(d.st == END && d.rem > 1, "step_end_with_bytes_behind");
    witness!(d.st == ELEM && d.used == 34 && d.rem == 34, "step_sack_fills_area_exactly");
    witness!(d.st == BAD && !is_known(d.kind), "step_unknown_kind");
    witness!(d.st == BAD && d.kind == 5 && d.lenb == Some(34) && d.rem == 33, "step_sack_34_one_byte_short");
    witness!(d.st == BAD && is_known(d.kind) && d.lenb.is_none(), "step_length_byte_missing");
}

/// (b) progress, stated without any oracle: one `next()` either yields an element and
/// leaves a strict suffix, or (None / error) leaves the iterator empty and exhausted.
pub fn iter_progress() {
    let len = any_le(40);
    let buf = Tight::<40>::new(len);
    let before = buf.slice();
    let mut it = TcpOptionsIterator::from_slice(before);
    let r = it.next();
    let after = it.rest();
    match r {
        Some(Ok(_)) => {
            witness!(true, "progress_element");
            assert!(after.len() < before.len(), "an element must consume at least one byte");
            assert!(
                is_suffix_at(before, before.len() - after.len(), after),
                "rest() must be a strict suffix of the previous rest()"
            );
        }
        Some(Err(_)) => {
            witness!(true, "progress_error");
            assert!(after.is_empty(), "iterator must be empty after an error");
            assert!(it.next().is_none() && it.rest().is_empty(), "next() after an error must be None");
        }
        None => {
            witness!(len > 1, "progress_end");
            assert!(after.is_empty(), "iterator must be empty after None");
            assert!(it.next().is_none() && it.rest().is_empty(), "next() after None must be None");
        }
    }
}

/// (b) exhausted stays exhausted: an iterator whose rest() is empty (anywhere in or behind
/// an area) returns None and keeps an empty rest(), three times in a row.
pub fn iter_exhausted() {
    let data: [u8; 8] = any();
    let at = any_le(8);
    let mut it = TcpOptionsIterator::from_slice(&data[at..at]);
    assert!(it.next().is_none() && it.rest().is_empty());
    assert!(it.next().is_none() && it.rest().is_empty());
    assert!(it.next().is_none() && it.rest().is_empty());
    let mut it = TcpOptionsIterator::from_slice(&[]);
    assert!(it.next().is_none() && it.rest().is_empty());
    assert!(it.next().is_none() && it.rest().is_empty());
}

/// (b) complete iteration over an arbitrary area of at most N bytes: the elements exactly
/// tile a prefix (the wire sizes of the yielded elements add up to the position of rest()),
/// the first None / error ends the iteration after at most N+1 calls, and the iterator
/// stays exhausted. What each single step yields is decided by `iter_step`; the area lives
/// on the stack here (exact-size placement is `iter_step`'s job).
fn iter_walk<const N: usize>() {
    let len = any_le(N);
    let data: [u8; N] = any();
    let whole = &data[..len];
    let mut it = TcpOptionsIterator::from_slice(whole);
    let mut pos = 0usize;
    let mut count = 0usize;
    let mut err = false;
    let mut done = false;
    // every element consumes at least one byte: at most N elements and one final call
    for _ in 0..=N {
        if !done {
            match it.next() {
                Some(Ok(e)) => {
                    pos += ref_size(&norm(&e));
                    count += 1;
                    assert!(is_suffix_at(whole, pos, it.rest()), "elements must tile a prefix of the area");
                }
                Some(Err(_)) => {
                    err = true;
                    done = true;
                    assert!(it.rest().is_empty());
                }
                None => {
                    done = true;
                    assert!(it.rest().is_empty());
                }
            }
        }
    }
    assert!(done && pos <= len, "iteration must end after at most len+1 calls");
    assert!(it.next().is_none() && it.rest().is_empty(), "iterator must stay exhausted");
    witness!(count == N && !err, "walk_all_bytes_are_noops");
    witness!(count >= 3 && err && pos + 2 <= len, "walk_error_behind_three_elements");
    witness!(count >= 2 && !err && pos == len && len == N && pos > count, "walk_tiles_whole_area");
}

pub fn iter_walk_6() {
    iter_walk::<6>()
}
pub fn iter_walk_12() {
    iter_walk::<12>()
}

// ================================================================== reference lemma

/// Lemma about the reference only (no etherparse code): the reference decoder inverts the
/// reference encoder whatever follows the option, END and the empty area end the iteration.
/// With `encode_*` (real encoder = reference encoder) and `iter_step` (real step = reference
/// step) this composes to the round trip for every list that `encode_*` covers.
pub fn ref_inverse() {
    let (_, r) = any_elem();
    let sz = ref_size(&r);
    // the option followed by arbitrary bytes, in an area of arbitrary length
    let mut area: [u8; 40] = any();
    for t in 0..34 {
        if t < sz {
            area[t] = ref_byte(&r, t);
        }
    }
    let total = any_le(40);
    assume(sz <= total);
    let d = ref_step(&area[..total]);
    assert!(d.st == ELEM && d.used == sz && same(&d.elem, &r), "reference decoder must invert the reference encoder");
    witness!(r.kind == 5 && r.n == 4 && total == 40, "inverse_sack4");
    witness!(r.kind == 1 && total == 1, "inverse_noop_alone");
    // END padding and the empty area
    let mut z: [u8; 4] = any();
    z[0] = 0;
    let zl = any_le(4);
    let dz = ref_step(&z[..zl]);
    assert!(dz.st == if zl == 0 { EXHAUSTED } else { END });
}

// ================================================================== (a) encoding

/// reference offsets of the elements and reference size of the list
fn layout<const K: usize>(refs: &[RElem; K]) -> ([usize; K], usize) {
    let mut start = [0usize; K];
    let mut req = 0usize;
    for i in 0..K {
        start[i] = req;
        req += ref_size(&refs[i]);
    }
    (start, req)
}

/// encoded option area against the reference encoding of `refs` (reference size `req` <= 40)
fn check_bytes<const K: usize>(opts: &TcpOptions, refs: &[RElem; K], start: &[usize; K], req: usize) {
    let padded = (req + 3) / 4 * 4;
    let s = opts.as_slice();
    assert!(s.len() == padded, "length must be the required size rounded up to a multiple of 4");
    assert!(
        opts.len() == padded
            && opts.len_u8() as usize == padded
            && opts.is_empty() == (padded == 0)
            && opts.data_offset() as usize == 5 + padded / 4,
        "len / len_u8 / is_empty / data_offset must describe the padded size"
    );
    // every byte of every element (symbolic element index, symbolic byte index)
    if K > 0 {
        let j = any_le(K - 1);
        let t = any_le(33);
        assume(t < ref_size(&refs[j]));
        assert!(
            s.get(start[j].wrapping_add(t)) == Some(&ref_byte(&refs[j], t)),
            "encoded bytes differ from the reference encoding"
        );
    }
    // only END padding behind the elements
    let p = any_le(39);
    assert!(!(req <= p && p < padded) || s.get(p) == Some(&0), "padding must be END (0)");
}

/// the iterator over an encoded area yields exactly the encoded elements, then only END
/// padding up to the next multiple of four
fn check_iteration<const K: usize>(
    opts: &TcpOptions,
    mut it: TcpOptionsIterator<'_>,
    refs: &[RElem; K],
    start: &[usize; K],
    req: usize,
) {
    let padded = (req + 3) / 4 * 4;
    let s = opts.as_slice();
    // the iterator runs over exactly the option bytes
    let s0 = it.rest();
    let q = any_le(39);
    assert!(
        s0.len() == padded && (q >= padded || s0.get(q) == s.get(q)),
        "the iterator must run over exactly the option bytes"
    );
    for i in 0..K {
        match it.next() {
            Some(Ok(e)) => assert!(same(&norm(&e), &refs[i]), "decoded element differs from the encoded one"),
            _ => assert!(false, "encoded element must decode as an element"),
        }
        assert!(is_suffix_at(s0, start[i] + ref_size(&refs[i]), it.rest()));
    }
    // ... followed only by END padding up to the next multiple of four
    let r = it.rest();
    let z = any_le(3);
    assert!(
        r.len() == padded.wrapping_sub(req) && r.len() < 4 && (z >= r.len() || r.get(z) == Some(&0)),
        "only END padding (< 4 zero bytes) may remain behind the elements"
    );
    // (an empty iterator stays exhausted: `iter_exhausted`)
    assert!(it.next().is_none() && it.rest().is_empty(), "iteration must end at the padding");
}

/// Encodes the list `elems` and checks the result against the reference of `refs`.
/// `via`: 0 = `TcpOptions::try_from_elements` (+ `elements_iter`), 1 = `TryFrom<&[TcpOptionElement]>`,
/// 2 = `TcpHeader::set_options` (+ `TcpHeader::options_iterator`); `decode`: also iterate.
/// Returns the reference size of the list.
fn encode_list<const K: usize>(via: u8, decode: bool, elems: &[TcpOptionElement; K], refs: &[RElem; K]) -> usize {
    let (start, req) = layout(refs);
    let fits = req <= 40;
    if via == 2 {
        let mut h = TcpHeader::default();
        // previous content that must not shine through
        h.options = TcpOptions::from(any::<[u8; 40]>());
        match h.set_options(elems) {
            Ok(()) => {
                assert!(fits, "a list that needs more than 40 bytes must be rejected");
                assert!(
                    h.data_offset() as usize == 5 + (req + 3) / 4
                        && h.header_len() == 20 + (req + 3) / 4 * 4
                        && h.header_len_u16() as usize == h.header_len(),
                    "data_offset / header_len of the header must include the padded options"
                );
                check_bytes(&h.options, refs, &start, req);
                if decode {
                    check_iteration(&h.options, h.options_iterator(), refs, &start, req);
                }
            }
            Err(TcpOptionWriteError::NotEnoughSpace(sz)) => {
                assert!(!fits, "a list that fits into 40 bytes must be accepted");
                assert!(sz == req, "NotEnoughSpace must state the required size");
                // the header stays a valid header
                assert!(h.options.len() <= 40 && h.options.len() % 4 == 0);
            }
        }
    } else {
        let res = if via == 0 { TcpOptions::try_from_elements(elems) } else { TcpOptions::try_from(&elems[..]) };
        match res {
            Ok(opts) => {
                assert!(fits, "a list that needs more than 40 bytes must be rejected");
                check_bytes(&opts, refs, &start, req);
                if decode {
                    check_iteration(&opts, opts.elements_iter(), refs, &start, req);
                }
            }
            Err(TcpOptionWriteError::NotEnoughSpace(sz)) => {
                assert!(!fits, "a list that fits into 40 bytes must be accepted");
                assert!(sz == req, "NotEnoughSpace must state the required size");
            }
        }
    }
    req
}

/// list of exactly K arbitrary elements; returns the reference size
fn encode_exact<const K: usize>(via: u8, decode: bool) -> usize {
    let mut elems: [TcpOptionElement; K] = core::array::from_fn(|_| TcpOptionElement::Noop);
    let mut refs = [R_ZERO; K];
    for i in 0..K {
        let (e, r) = any_elem();
        elems[i] = e;
        refs[i] = r;
    }
    encode_list::<K>(via, decode, &elems, &refs)
}

/// witnesses of the 40 byte boundary (reachable from 3 elements on: 34+4+2, 34+4+3)
fn boundary_witnesses(req: usize) {
    witness!(req == 40, "fits_exactly_40");
    witness!(req == 41, "rejected_41");
    witness!(req <= 40 && req % 4 == 1, "three_padding_bytes");
}

/// real encoder = reference encoder (bytes, padding, length, data offset, rejection),
/// lists of exactly K arbitrary elements
pub fn encode_k1() {
    let req = encode_exact::<1>(0, false);
    witness!(req == 34, "one_full_sack");
    witness!(req == 1, "one_noop_three_padding_bytes");
    let req = encode_exact::<1>(1, false);
    witness!(req == 10, "tryfrom_one_timestamp");
}
pub fn encode_k2() {
    let req = encode_exact::<2>(0, false);
    witness!(req == 68, "two_full_sacks_rejected");
    witness!(req == 36, "fits_without_padding");
    witness!(req == 5, "three_padding_bytes");
}
pub fn encode_tryfrom_k2() {
    let req = encode_exact::<2>(1, false);
    witness!(req == 44, "rejected_44");
    witness!(req == 37, "three_padding_bytes");
}
pub fn encode_k3() {
    boundary_witnesses(encode_exact::<3>(0, false));
}
pub fn encode_k4() {
    boundary_witnesses(encode_exact::<4>(0, false));
}
pub fn encode_k5() {
    boundary_witnesses(encode_exact::<5>(0, false));
}
pub fn encode_k6() {
    let req = encode_exact::<6>(0, false);
    boundary_witnesses(req);
    witness!(req == 204, "six_full_sacks");
}

/// the 40 byte boundary with arbitrary elements at quick-tier cost: a SACK option with four
/// blocks (34 bytes, arbitrary values) followed by two arbitrary elements
pub fn encode_boundary() {
    let first: (u32, u32) = (any(), any());
    let b0: (u32, u32) = (any(), any());
    let b1: (u32, u32) = (any(), any());
    let b2: (u32, u32) = (any(), any());
    let (e1, r1) = any_elem();
    let (e2, r2) = any_elem();
    let elems = [TcpOptionElement::SelectiveAcknowledgement(first, [Some(b0), Some(b1), Some(b2)]), e1, e2];
    let refs = [RElem { kind: 5, val: 0, n: 4, b0: first, b1: b0, b2: b1, b3: b2 }, r1, r2];
    boundary_witnesses(encode_list::<3>(0, false, &elems, &refs));
}

/// direct round trip: encode, then iterate the result; lists of exactly K arbitrary elements
pub fn roundtrip_k0() {
    // the empty list through all three entry points: no option bytes, data offset 5,
    // iteration ends immediately
    let backing = [NOOP, NOOP];
    let list = &backing[..0];
    let a = TcpOptions::try_from_elements(list);
    let b = TcpOptions::try_from(list);
    let mut h = TcpHeader::default();
    h.options = TcpOptions::from(any::<[u8; 40]>());
    let c = h.set_options(list);
    assert!(c.is_ok());
    assert!(h.header_len() == 20 && h.data_offset() == 5);
    match (a, b) {
        (Ok(a), Ok(b)) => {
            empty_options(&a, a.elements_iter());
            empty_options(&b, b.elements_iter());
            empty_options(&h.options, h.options_iterator());
        }
        _ => assert!(false, "the empty list must be accepted"),
    }
}
fn empty_options(o: &TcpOptions, mut it: TcpOptionsIterator<'_>) {
    assert!(o.len() == 0 && o.len_u8() == 0 && o.is_empty() && o.as_slice().is_empty() && o.data_offset() == 5);
    assert!(it.rest().is_empty() && it.next().is_none() && it.rest().is_empty());
}
pub fn roundtrip_k1() {
    let req = encode_exact::<1>(0, true);
    witness!(req == 34, "one_full_sack");
    witness!(req == 3, "one_padding_byte");
}
pub fn roundtrip_k2() {
    let req = encode_exact::<2>(0, true);
    witness!(req == 36, "sack3_and_timestamp");
    witness!(req == 5, "three_padding_bytes");
}
pub fn roundtrip_k3() {
    boundary_witnesses(encode_exact::<3>(0, true));
}

/// `TcpHeader::set_options` + `TcpHeader::options_iterator`
pub fn header_roundtrip_k1() {
    let req = encode_exact::<1>(2, true);
    witness!(req == 34, "one_full_sack");
    witness!(req == 3, "one_padding_byte");
}
pub fn header_roundtrip_k2() {
    let req = encode_exact::<2>(2, true);
    witness!(req == 36, "sack3_and_timestamp");
    witness!(req == 44, "rejected_44");
}
pub fn header_set_options_k3() {
    boundary_witnesses(encode_exact::<3>(2, false));
}

const NOOP: TcpOptionElement = TcpOptionElement::Noop;

/// long lists: exactly 38 elements, No-Operation except one arbitrary element at the
/// given position: 38, 39, 40 bytes fit, 41 and more are rejected
fn encode_long_at(j: usize) {
    const K: usize = 38;
    let mut elems: [TcpOptionElement; K] = [NOOP; K];
    let mut refs = [R_NOOP; K];
    let (e, r) = any_elem();
    elems[j] = e;
    refs[j] = r;
    let req = encode_list::<K>(0, false, &elems, &refs);
    witness!(req == 40, "long_fits_exactly_40");
    witness!(req == 41, "long_rejected_41");
}
pub fn encode_long_first() {
    encode_long_at(0)
}
pub fn encode_long_middle() {
    encode_long_at(19)
}
pub fn encode_long_last() {
    encode_long_at(37)
}

/// 40 No-Operations fill the area exactly and decode as 40 elements; 41 are rejected
pub fn encode_noops() {
    let e40 = [NOOP; 40];
    let r40 = [R_NOOP; 40];
    let a = encode_list::<40>(0, true, &e40, &r40);
    assert!(a == 40);
    let e41 = [NOOP; 41];
    let r41 = [R_NOOP; 41];
    let b = encode_list::<41>(0, true, &e41, &r41);
    assert!(b == 41);
}

// ================================================================== raw areas and headers

/// `o` = `data` zero padded to a multiple of four / rejection of more than 40 bytes
fn check_raw(res: Result<&TcpOptions, &TcpOptionWriteError>, data: &[u8]) {
    let len = data.len();
    match res {
        Ok(o) => {
            assert!(len <= 40, "more than 40 bytes must be rejected");
            let padded = (len + 3) / 4 * 4;
            let s = o.as_slice();
            assert!(
                s.len() == padded
                    && o.len() == padded
                    && o.len_u8() as usize == padded
                    && o.data_offset() as usize == 5 + padded / 4
                    && o.is_empty() == (len == 0),
                "len / len_u8 / is_empty / data_offset must describe the length rounded up to a multiple of 4"
            );
            let i = any_le(39);
            assert!(i >= len || s.get(i) == data.get(i), "option bytes must be the given bytes");
            assert!(i < len || i >= padded || s.get(i) == Some(&0), "padding must be END (0)");
        }
        Err(TcpOptionWriteError::NotEnoughSpace(sz)) => {
            assert!(len > 40, "up to 40 bytes must be accepted");
            assert!(*sz == len, "NotEnoughSpace must state the required size");
        }
    }
}

/// raw option areas of 0..=44 bytes through `TcpHeader::set_options_raw`; then one checked
/// step of `TcpHeader::options_iterator`
pub fn header_set_options_raw() {
    let a = area::<44>();
    let len = a.len;
    let data = a.tight.slice();
    let mut h = TcpHeader::default();
    h.options = TcpOptions::from(any::<[u8; 40]>());
    let r = h.set_options_raw(data);
    witness!(len == 40, "raw_40_accepted");
    witness!(len == 41, "raw_41_rejected");
    witness!(len % 4 == 1 && len < 40, "raw_three_padding_bytes");
    match &r {
        Ok(()) => {
            check_raw(Ok(&h.options), &a.data[..len]);
            let padded = (len + 3) / 4 * 4;
            assert!(
                h.header_len() == 20 + padded && h.data_offset() as usize == 5 + padded / 4,
                "data_offset / header_len of the header must include the padded options"
            );
            // reference image of the option area (the assertion in check_raw ties it to the real one)
            let mut model = [0u8; 40];
            model[..len].copy_from_slice(&a.data[..len]);
            // the iterator of the header runs over exactly the option bytes
            let mut it = h.options_iterator();
            assert!(is_suffix_at(h.options.as_slice(), 0, it.rest()));
            let d = check_step(&mut it, &model[..padded]);
            witness!(d.st == ELEM && d.elem.kind == 5 && d.elem.n == 4, "raw_step_sack_4_blocks");
            witness!(d.st == BAD, "raw_step_error");
        }
        Err(e) => {
            check_raw(Err(e), &a.data[..len]);
            assert!(h.options.len() <= 40 && h.options.len() % 4 == 0);
        }
    }
}

/// raw option areas of 0..=44 bytes through `TcpOptions::try_from_slice` / `TryFrom<&[u8]>`
pub fn options_from_slice() {
    let a = area::<44>();
    let data = a.tight.slice();
    witness!(a.len == 41, "slice_41_rejected");
    witness!(a.len == 37, "slice_37_padded");
    let x = TcpOptions::try_from_slice(data);
    check_raw(x.as_ref(), &a.data[..a.len]);
    let y = TcpOptions::try_from(data);
    check_raw(y.as_ref(), &a.data[..a.len]);
    if let Ok(o) = &x {
        let it = o.elements_iter();
        assert!(is_suffix_at(o.as_slice(), 0, it.rest()));
    }
}

macro_rules! from_array {
    ($($n:literal),*) => {
        /// `TcpOptions::from([u8; N])`, N = 4, 8, .. 40: bytes, length, data offset, iterator
        pub fn options_from_array() {
            let i = any_le(39);
            $(
                {
                    let a: [u8; $n] = any();
                    let o = TcpOptions::from(a);
                    assert!(
                        o.len() == $n && o.as_slice().len() == $n && o.len_u8() == $n && o.data_offset() == 5 + $n / 4,
                        "length and data offset of the converted array"
                    );
                    assert!(i >= $n || o.as_slice().get(i) == a.get(i), "bytes of the converted array");
                    let it = o.elements_iter();
                    assert!(is_suffix_at(o.as_slice(), 0, it.rest()), "the iterator must run over the option bytes");
                }
            )*
        }
    };
}
from_array!(4, 8, 12, 16, 20, 24, 28, 32, 36, 40);

/// option area of a sliced TCP header: `TcpHeaderSlice::{options, options_iterator}` cover
/// exactly the bytes 20 .. 4*data_offset; one checked step on it and on the iterator of
/// the header decoded from it (`to_header`)
pub fn header_slice_options() {
    let a = area::<60>();
    let len = a.len;
    let s = a.tight.slice();
    let r = TcpHeaderSlice::from_slice(s);
    // RFC 9293: data offset = header length in 32 bit words, at least 5
    let dof = (a.data[12] >> 4) as usize;
    if len >= 20 && dof >= 5 && dof * 4 <= len {
        assert!(r.is_ok(), "header with a valid data offset must be accepted");
    }
    if let Ok(hs) = r {
        assert!(len >= 20 && dof >= 5 && dof * 4 <= len);
        let end = dof * 4;
        let olen = end - 20;
        let o = hs.options();
        let mut it = hs.options_iterator();
        let r0 = it.rest();
        assert!(
            o.len() == olen
                && core::ptr::eq(o.as_ptr(), s[20..].as_ptr())
                && r0.len() == olen
                && core::ptr::eq(r0.as_ptr(), s[20..].as_ptr()),
            "options() and options_iterator() must cover the bytes 20 .. 4*data_offset"
        );
        let d = check_step(&mut it, &a.data[20..end]);
        witness!(d.st == EXHAUSTED && len > 20, "slice_no_options_but_payload");
        witness!(d.st == BAD && d.kind == 8 && d.lenb == Some(10) && d.rem == 8 && len >= 30, "slice_option_reaches_into_payload");
        witness!(d.st == ELEM && d.elem.kind == 5 && d.elem.n == 4, "slice_sack_4_blocks");

        // decoded header: same option bytes, same iteration
        let h = hs.to_header();
        let ho = h.options.as_slice();
        let q = any_le(39);
        assert!(
            ho.len() == olen
                && h.options.len() == olen
                && h.data_offset() as usize == dof
                && (q >= olen || ho.get(q) == a.data.get(q.wrapping_add(20))),
            "decoded header must carry the option bytes"
        );
        let mut it2 = h.options_iterator();
        assert!(is_suffix_at(ho, 0, it2.rest()));
        let d2 = check_step(&mut it2, &a.data[20..end]);
        assert!(d2.st == d.st);
    }
}

crate::harnesses! {
    c13_iter_step = iter_step; unwind 4,
    c13_iter_progress = iter_progress; unwind 4,
    c13_iter_exhausted = iter_exhausted; unwind 4,
    c13_iter_walk_6 = iter_walk_6; unwind 8,
    c13_iter_walk_12 = iter_walk_12; unwind 14,
    c13_ref_inverse = ref_inverse; unwind 36,
    c13_encode_k1 = encode_k1; unwind 4,
    c13_encode_k2 = encode_k2; unwind 4,
    c13_encode_tryfrom_k2 = encode_tryfrom_k2; unwind 4,
    c13_encode_k3 = encode_k3; unwind 4,
    c13_encode_k4 = encode_k4; unwind 5,
    c13_encode_k5 = encode_k5; unwind 6,
    c13_encode_k6 = encode_k6; unwind 7,
    c13_encode_boundary = encode_boundary; unwind 4,
    c13_roundtrip_k0 = roundtrip_k0; unwind 4,
    c13_roundtrip_k1 = roundtrip_k1; unwind 4,
    c13_roundtrip_k2 = roundtrip_k2; unwind 4,
    c13_roundtrip_k3 = roundtrip_k3; unwind 4,
    c13_encode_long_first = encode_long_first; unwind 39,
    c13_encode_long_middle = encode_long_middle; unwind 39,
    c13_encode_long_last = encode_long_last; unwind 39,
    c13_encode_noops = encode_noops; unwind 42,
    c13_header_roundtrip_k1 = header_roundtrip_k1; unwind 4,
    c13_header_roundtrip_k2 = header_roundtrip_k2; unwind 4,
    c13_header_set_options_k3 = header_set_options_k3; unwind 4,
    c13_header_set_options_raw = header_set_options_raw; unwind 4,
    c13_options_from_slice = options_from_slice; unwind 4,
    c13_options_from_array = options_from_array; unwind 4,
    c13_header_slice_options = header_slice_options; unwind 4,
}
