//! Oracle self-validation (NOT the deciding technique): runs harness bodies natively on pseudo-random
//! tapes to shake out mistakes in the reference model / harness before the solver runs are trusted.
//! A failure here is a harness or oracle bug (or a real defect) to be triaged; it proves nothing.
//!
//! usage: selfcheck <name-substring> [iterations] [seed]
#[cfg(kani)]
fn main() {}

#[cfg(not(kani))]
fn main() {
    let a: Vec<String> = std::env::args().collect();
    let pat = a.get(1).cloned().unwrap_or_default();
    let iters: u64 = a.get(2).and_then(|v| v.parse().ok()).unwrap_or(20000);
    let seed: u64 = a.get(3).and_then(|v| v.parse().ok()).unwrap_or(1);
    std::panic::set_hook(Box::new(|_| {}));
    let mut bad = 0;
    for (name, f) in ep_verif::replay_table() {
        if !name.contains(&pat) || name.starts_with("selftest") {
            continue;
        }
        let mut ran = 0u64;
        let mut failed = None;
        for i in 0..iters {
            ep_verif::sym::load_fuzz(seed.wrapping_mul(0x9E3779B97F4A7C15).wrapping_add(i * 7919 + 1));
            let r = std::panic::catch_unwind(|| f());
            match r {
                Ok(()) => ran += 1,
                Err(p) => {
                    if p.downcast_ref::<ep_verif::sym::AssumeViolated>().is_some() {
                        continue;
                    }
                    let msg = p.downcast_ref::<String>().cloned().or(p.downcast_ref::<&str>().map(|s| s.to_string())).unwrap_or_default();
                    failed = Some((msg, ep_verif::sym::drawn()));
                    break;
                }
            }
        }
        match failed {
            None => println!("ok   {:40} {} runs ({} skipped by assume)", name, ran, iters - ran),
            Some((msg, tape)) => {
                bad += 1;
                println!("FAIL {:40} {}", name, msg);
                println!("     tape: {{\"harness\": \"{}\", \"vals\": {:?}}}", name, tape);
            }
        }
    }
    std::process::exit(if bad > 0 { 1 } else { 0 });
}
