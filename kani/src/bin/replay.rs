//! Native replay of a solver counterexample (or cover witness).
//!
//! usage: replay <tape.json>
//! tape: {"harness": "<name>", "vals": [[b0,b1,..], ...]}  (one entry per kani::any() call)
//! exit: 0 harness body completed, 101 panic (Rust default), 134 abort, 3 tape unusable
#[cfg(kani)]
fn main() {}

#[cfg(not(kani))]
use std::io::Read;

#[cfg(not(kani))]
fn parse_vals(s: &str) -> Vec<Vec<u8>> {
    // minimal parser for [[1,2],[3]] - the tape is written by /verif/check
    let mut out = Vec::new();
    let mut cur: Option<Vec<u8>> = None;
    let mut num: Option<u32> = None;
    let mut depth = 0;
    for c in s.chars() {
        match c {
            '[' => {
                depth += 1;
                if depth == 2 {
                    cur = Some(Vec::new());
                }
            }
            ']' => {
                if let (Some(n), Some(v)) = (num.take(), cur.as_mut()) {
                    v.push(n as u8);
                }
                if depth == 2 {
                    out.push(cur.take().unwrap());
                }
                depth -= 1;
            }
            ',' => {
                if let (Some(n), Some(v)) = (num.take(), cur.as_mut()) {
                    v.push(n as u8);
                }
            }
            d if d.is_ascii_digit() => {
                num = Some(num.unwrap_or(0) * 10 + d.to_digit(10).unwrap());
            }
            _ => {}
        }
    }
    out
}

#[cfg(not(kani))]
fn main() {
    let path = std::env::args().nth(1).expect("usage: replay <tape.json>");
    let mut txt = String::new();
    std::fs::File::open(&path).expect("open tape").read_to_string(&mut txt).unwrap();
    let hkey = "\"harness\"";
    let hpos = txt.find(hkey).expect("harness key");
    let rest = &txt[hpos + hkey.len()..];
    let q1 = rest.find('"').unwrap();
    let q2 = rest[q1 + 1..].find('"').unwrap();
    let harness = rest[q1 + 1..q1 + 1 + q2].to_string();
    let vkey = "\"vals\"";
    let vpos = txt.find(vkey).expect("vals key");
    let vtxt = &txt[vpos + vkey.len()..];
    let start = vtxt.find('[').unwrap();
    // find matching bracket
    let mut depth = 0;
    let mut end = start;
    for (i, c) in vtxt[start..].char_indices() {
        if c == '[' {
            depth += 1;
        }
        if c == ']' {
            depth -= 1;
            if depth == 0 {
                end = start + i + 1;
                break;
            }
        }
    }
    let vals = parse_vals(&vtxt[start..end]);
    let table = ep_verif::replay_table();
    let f = match table.iter().find(|(n, _)| *n == harness) {
        Some((_, f)) => *f,
        None => {
            eprintln!("REPLAY-UNKNOWN-HARNESS {}", harness);
            std::process::exit(3);
        }
    };
    ep_verif::sym::load(vals);
    println!("REPLAY-START {}", harness);
    f();
    println!("REPLAY-COMPLETED {}", harness);
}
