//! C14 - out-of-range lengths and values are rejected, never truncated.
//!
//! Every harness drives ONE symbolic length over its whole range (not sampled around the
//! limits) through the real constructor / setter and compares with a limit computed here from
//! the width of the wire field and the header sizes of the RFCs (no constant of etherparse is
//! used): accepted <=> representable, accepted value read back from the encoded bytes, rejected
//! => error carries (offending value, true maximum, value type) and the header is unchanged.
//!
//! Slice taking APIs get a slice over a real, zero filled heap object of SYMBOLIC size
//! (`Zeros`, size <= 2^33 > u32::MAX + 2^16, so both sides of every 8, 16 and 32 bit limit
//! are inside the bound; natively a lazily mapped calloc, so tapes replay). Where the API would
//! sum the slice (`checksum::u64_16bit_word::add_slice`) that function is replaced by a havoc
//! stub (content irrelevant to the verdict, checksum values are not asserted here - C09 decides
//! them) and the 2/4/8 byte kernels by logging havoc stubs, so that the length word fed into
//! the pseudo header is observable (`#[cfg(kani)]` assertions: natively there is no stub).
//! In the stubbed harnesses all symbolic inputs are drawn BEFORE the first call that reaches a
//! stub, so the values the stubs draw come last on a counterexample tape and the native replay
//! (no stubs) reads the same inputs.
//!
//! Not built (measured): PacketBuilder over IPv6 - `Ipv6Extensions::write_internal` exhausts the
//! 20 GB cap even with empty extensions and `to_bytes` of AH / raw headers stubbed; `ArpPacket::
//! to_bytes` with symbolic address lengths (same); see reg/c14.py "outside".
//!
//! Known finding: `IpHeaders::set_payload_len` (IPv6 arm, `len + extensions` overflows usize)
//! reports `ValueType::Ipv4PayloadLength` - routed to `KF:c14-ip-headers-v6-overflow-value-type`
//! in the lean harness `ip_headers_v6_overflow_value_type`.

use crate::sym::{any, any_le, assume};
use crate::witness;
use etherparse::err::{ValueTooBigError, ValueType};
use etherparse::*;
use std::alloc::{alloc_zeroed, dealloc, Layout};

// ================================================================= infrastructure

/// bound on the size of a symbolic-size object: 8 GiB (natively a lazily mapped calloc)
pub const MAX_OBJ: usize = 1 << 33;

/// a zero filled heap object of exactly `len` bytes, `len` symbolic
pub struct Zeros {
    ptr: *mut u8,
    len: usize,
}

impl Zeros {
    pub fn new(len: usize) -> Zeros {
        assume(len <= MAX_OBJ);
        if len == 0 {
            return Zeros { ptr: core::ptr::NonNull::<u8>::dangling().as_ptr(), len: 0 };
        }
        let ptr = unsafe { alloc_zeroed(Layout::from_size_align(len, 1).unwrap()) };
        assume(!ptr.is_null());
        Zeros { ptr, len }
    }
    pub fn slice(&self) -> &[u8] {
        unsafe { core::slice::from_raw_parts(self.ptr, self.len) }
    }
    pub fn slice_mut(&mut self) -> &mut [u8] {
        unsafe { core::slice::from_raw_parts_mut(self.ptr, self.len) }
    }
}

impl Drop for Zeros {
    fn drop(&mut self) {
        if self.len != 0 {
            unsafe { dealloc(self.ptr, Layout::from_size_align(self.len, 1).unwrap()) }
        }
    }
}

fn any_bool() -> bool {
    any()
}

/// limits written from the field widths
const U16_FIELD_MAX: usize = (1 << 16) - 1;
const U32_FIELD_MAX: usize = (1 << 32) - 1;
/// RFC 791: header without options; RFC 768; RFC 9293 (without options); RFC 8200; RFC 4443
const IPV4_BASE: usize = 20;
const UDP_HDR: usize = 8;
const TCP_BASE: usize = 20;
const ICMPV6_HDR: usize = 8;

/// ghost log of the checksum kernels (only in force under `#[kani::stub]`)
pub mod ghost {
    pub const CAP: usize = 40;
    pub static mut CALLS: usize = 0;
    /// 2 / 4 / 8 = kernel of that many bytes, 0 = add_slice
    pub static mut SIZE: [u8; CAP] = [0; CAP];
    pub static mut BYTES: [[u8; 8]; CAP] = [[0; 8]; CAP];
    pub static mut SLEN: [usize; CAP] = [0; CAP];

    pub fn reset() {
        unsafe { CALLS = 0 }
    }
    pub fn record(size: u8, bytes: [u8; 8], slen: usize) -> u64 {
        let out: u64 = crate::sym::any();
        unsafe {
            let k = CALLS;
            assert!(k < CAP, "C14 ghost log overflow");
            SIZE[k] = size;
            BYTES[k] = bytes;
            SLEN[k] = slen;
            CALLS = k + 1;
        }
        out
    }
    /// number of logged kernel calls of `size` bytes whose data is `bytes`
    pub fn count_word(size: u8, bytes: [u8; 8]) -> usize {
        let mut n = 0;
        let mut k = 0;
        let calls = unsafe { CALLS };
        while k < calls {
            let (s, b) = unsafe { (SIZE[k], BYTES[k]) };
            if s == size && b == bytes {
                n += 1;
            }
            k += 1;
        }
        n
    }
    /// number of logged add_slice calls over a slice of `len` bytes
    pub fn count_slice(len: usize) -> usize {
        let mut n = 0;
        let mut k = 0;
        let calls = unsafe { CALLS };
        while k < calls {
            let (s, l) = unsafe { (SIZE[k], SLEN[k]) };
            if s == 0 && l == len {
                n += 1;
            }
            k += 1;
        }
        n
    }
    pub fn w16(v: u16) -> [u8; 8] {
        let b = v.to_be_bytes();
        [b[0], b[1], 0, 0, 0, 0, 0, 0]
    }
    pub fn w32(v: u32) -> [u8; 8] {
        let b = v.to_be_bytes();
        [b[0], b[1], b[2], b[3], 0, 0, 0, 0]
    }
}
pub fn g_add8(_start: u64, v: [u8; 8]) -> u64 {
    ghost::record(8, v, 0)
}
pub fn g_add4(_start: u64, v: [u8; 4]) -> u64 {
    ghost::record(4, [v[0], v[1], v[2], v[3], 0, 0, 0, 0], 0)
}
pub fn g_add2(_start: u64, v: [u8; 2]) -> u64 {
    ghost::record(2, [v[0], v[1], 0, 0, 0, 0, 0, 0], 0)
}
pub fn g_add_slice(_start: u64, s: &[u8]) -> u64 {
    ghost::record(0, [0; 8], s.len())
}

// ================================================================= IPv4 / IPv6 length setters

fn dscp() -> IpDscp {
    let v: u8 = any();
    assume(v < 64);
    IpDscp::try_new(v).unwrap()
}
fn ecn() -> IpEcn {
    let v: u8 = any();
    assume(v < 4);
    IpEcn::try_new(v).unwrap()
}
fn frag_offset() -> IpFragOffset {
    let v: u16 = any();
    assume(v < (1 << 13));
    IpFragOffset::try_new(v).unwrap()
}
fn flow_label() -> Ipv6FlowLabel {
    let v: u32 = any();
    assume(v < (1 << 20));
    Ipv6FlowLabel::try_new(v).unwrap()
}

/// all field values, options of every accepted length 0,4,..,40
fn ipv4_header() -> Ipv4Header {
    let words = any_le(10);
    let data: [u8; 40] = any();
    let options = match Ipv4Options::try_from(&data[..words * 4]) {
        Ok(o) => o,
        Err(_) => panic!("documented acceptance set of Ipv4Options"),
    };
    Ipv4Header {
        dscp: dscp(),
        ecn: ecn(),
        total_len: any(),
        identification: any(),
        dont_fragment: any_bool(),
        more_fragments: any_bool(),
        fragment_offset: frag_offset(),
        time_to_live: any(),
        protocol: IpNumber(any()),
        header_checksum: any(),
        source: any(),
        destination: any(),
        options,
    }
}

/// field-wise equality (the options are compared at one symbolic position: no memcmp loop)
fn ipv4_same(a: &Ipv4Header, b: &Ipv4Header, j: usize) -> bool {
    a.dscp == b.dscp
        && a.ecn == b.ecn
        && a.total_len == b.total_len
        && a.identification == b.identification
        && a.dont_fragment == b.dont_fragment
        && a.more_fragments == b.more_fragments
        && a.fragment_offset == b.fragment_offset
        && a.time_to_live == b.time_to_live
        && a.protocol == b.protocol
        && a.header_checksum == b.header_checksum
        && a.source == b.source
        && a.destination == b.destination
        && a.options.len() == b.options.len()
        && (j >= a.options.len() || a.options.as_slice()[j] == b.options.as_slice()[j])
}

fn ipv6_header() -> Ipv6Header {
    Ipv6Header {
        traffic_class: any(),
        flow_label: flow_label(),
        payload_length: any(),
        next_header: IpNumber(any()),
        hop_limit: any(),
        source: any(),
        destination: any(),
    }
}

/// `Ipv4Header::new`: the u16 payload length plus 20 must fit the 16 bit total length
pub fn ipv4_new() {
    let payload_len: u16 = any();
    let ttl: u8 = any();
    let proto: u8 = any();
    let src: [u8; 4] = any();
    let dst: [u8; 4] = any();
    let max = (U16_FIELD_MAX - IPV4_BASE) as u16;
    let r = Ipv4Header::new(payload_len, ttl, IpNumber(proto), src, dst);
    witness!(r.is_ok() && payload_len == max, "accepted at the limit");
    witness!(r.is_err() && payload_len == max + 1, "rejected just above the limit");
    match r {
        Ok(h) => {
            assert!(payload_len <= max, "C14: value above the field maximum accepted");
            assert!(usize::from(h.total_len) == IPV4_BASE + usize::from(payload_len));
            let b = h.to_bytes();
            assert!(b.len() == IPV4_BASE);
            assert!(usize::from(u16::from_be_bytes([b[2], b[3]])) == IPV4_BASE + usize::from(payload_len));
            assert!(h.payload_len() == Ok(payload_len));
            assert!(h.time_to_live == ttl && h.protocol.0 == proto && h.source == src && h.destination == dst);
        }
        Err(e) => {
            assert!(payload_len > max, "C14: representable value rejected");
            assert!(e.actual == payload_len);
            assert!(e.max_allowed == max);
            assert!(e.value_type == ValueType::Ipv4PayloadLength);
        }
    }
}

/// `Ipv4Header::set_payload_len` / `max_payload_len`, every options length, every usize
pub fn ipv4_set_payload_len() {
    let mut h = ipv4_header();
    let value: usize = any();
    let j: usize = any();
    let before = h.clone();
    let hdr = IPV4_BASE + h.options.len();
    let max = U16_FIELD_MAX - hdr;
    assert!(usize::from(h.max_payload_len()) == max);
    let r = h.set_payload_len(value);
    witness!(r.is_ok() && value == max && hdr == 60, "accepted at the limit, full options");
    witness!(r.is_err() && value == max + 1 && hdr == 24, "rejected just above the limit");
    witness!(r.is_err() && value == 65536, "rejected 2^16");
    witness!(r.is_err() && value == usize::MAX, "rejected usize::MAX");
    match r {
        Ok(()) => {
            assert!(value <= max, "C14: value above the field maximum accepted");
            assert!(usize::from(h.total_len) == hdr + value);
            let b = h.to_bytes();
            assert!(b.len() == hdr);
            assert!(usize::from(u16::from_be_bytes([b[2], b[3]])) == hdr + value, "C14: encoded total length");
            assert!(h.payload_len().ok().map(usize::from) == Some(value), "C14: decodes to the value given");
            // nothing but the length changed
            let mut back = h.clone();
            back.total_len = before.total_len;
            assert!(ipv4_same(&back, &before, j));
        }
        Err(e) => {
            assert!(value > max, "C14: representable value rejected");
            assert!(e.actual == value);
            assert!(e.max_allowed == max);
            assert!(e.value_type == ValueType::Ipv4PayloadLength);
            assert!(ipv4_same(&h, &before, j), "C14: header changed by a rejected call");
        }
    }
}

/// `Ipv6Header::set_payload_length`, every usize
pub fn ipv6_set_payload_length() {
    let mut h = ipv6_header();
    let value: usize = any();
    let before = h.clone();
    let max = U16_FIELD_MAX;
    let r = h.set_payload_length(value);
    witness!(r.is_ok() && value == max, "accepted at the limit");
    witness!(r.is_err() && value == max + 1, "rejected just above the limit");
    witness!(r.is_err() && value == usize::MAX, "rejected usize::MAX");
    match r {
        Ok(()) => {
            assert!(value <= max, "C14: value above the field maximum accepted");
            assert!(usize::from(h.payload_length) == value);
            let b = h.to_bytes();
            assert!(usize::from(u16::from_be_bytes([b[4], b[5]])) == value, "C14: encoded payload length");
            let mut back = h.clone();
            back.payload_length = before.payload_length;
            assert!(back == before);
        }
        Err(e) => {
            assert!(value > max, "C14: representable value rejected");
            assert!(e.actual == value);
            assert!(e.max_allowed == max);
            assert!(e.value_type == ValueType::Ipv6PayloadLength);
            assert!(h == before, "C14: header changed by a rejected call");
        }
    }
}

// ================================================================= IpHeaders::set_payload_len

/// AH with an ICV of `words` 32 bit words (RFC 4302: 12 bytes + ICV)
fn auth_header(words: usize) -> IpAuthHeader {
    let icv: [u8; 8] = any();
    match IpAuthHeader::new(IpNumber(any()), any(), any(), &icv[..words * 4]) {
        Ok(h) => h,
        Err(_) => panic!("documented acceptance set of IpAuthHeader::new"),
    }
}

/// (actual, max_allowed) of a rejected `IpHeaders::set_payload_len(len)`: the function reports
/// either the caller's value against the caller's maximum or - after adding the extension
/// headers - the IP payload length against the maximum IP payload length; both name the same
/// excess in consistent units, the documentation does not say which
fn ip_headers_err_ok(e: &ValueTooBigError<usize>, len: usize, max: usize, ext_len: usize) -> bool {
    let caller_units = e.actual == len && e.max_allowed == max;
    let ip_units = match len.checked_add(ext_len) {
        Some(total) => e.actual == total && e.max_allowed == max + ext_len,
        None => false,
    };
    witness!(caller_units, "error in caller units");
    witness!(ip_units && ext_len != 0, "error in ip payload units");
    caller_units || ip_units
}

/// `IpHeaders::Ipv4(..).set_payload_len`: options 0..40, optional AH (ICV 0..8), every usize
pub fn ip_headers_v4_set_payload_len() {
    let h = ipv4_header();
    let has_auth = any_bool();
    let words = any_le(2);
    let len: usize = any();
    let j: usize = any();
    let exts = Ipv4Extensions { auth: if has_auth { Some(auth_header(words)) } else { None } };
    let ext_len = if has_auth { 12 + 4 * words } else { 0 };
    assert!(exts.header_len() == ext_len);
    let hdr = IPV4_BASE + h.options.len();
    let max = U16_FIELD_MAX - hdr - ext_len;
    let mut ip = IpHeaders::Ipv4(h.clone(), exts);
    let r = ip.set_payload_len(len);
    witness!(r.is_ok() && len == max && has_auth && words == 2 && hdr == 60, "accepted at the limit");
    witness!(r.is_err() && len == max + 1 && has_auth, "rejected just above the limit (AH)");
    witness!(r.is_err() && len == max + 1 && !has_auth, "rejected just above the limit (no ext)");
    witness!(r.is_err() && len == usize::MAX && has_auth, "rejected usize::MAX (sum overflows)");
    let (h2, e2) = match &ip {
        IpHeaders::Ipv4(h2, e2) => (h2, e2),
        _ => panic!("C14: variant changed"),
    };
    assert!(e2.header_len() == ext_len);
    match r {
        Ok(()) => {
            assert!(len <= max, "C14: value above the field maximum accepted");
            assert!(usize::from(h2.total_len) == hdr + ext_len + len);
            let b = h2.to_bytes();
            assert!(usize::from(u16::from_be_bytes([b[2], b[3]])) == hdr + ext_len + len, "C14: encoded total length");
            let mut back = h2.clone();
            back.total_len = h.total_len;
            assert!(ipv4_same(&back, &h, j));
        }
        Err(e) => {
            assert!(len > max, "C14: representable value rejected");
            assert!(e.value_type == ValueType::Ipv4PayloadLength);
            assert!(ip_headers_err_ok(&e, len, max, ext_len), "C14: error does not carry (offending, allowed)");
            assert!(ipv4_same(h2, &h, j), "C14: header changed by a rejected call");
        }
    }
}

/// `IpHeaders::Ipv6(..).set_payload_len`: optional fragment header and AH, every usize
pub fn ip_headers_v6_set_payload_len() {
    let h = ipv6_header();
    let has_frag = any_bool();
    let has_auth = any_bool();
    let words = any_le(2);
    let len: usize = any();
    let frag = Ipv6FragmentHeader::new(IpNumber(any()), frag_offset(), any_bool(), any());
    let exts = Ipv6Extensions {
        fragment: if has_frag { Some(frag) } else { None },
        auth: if has_auth { Some(auth_header(words)) } else { None },
        ..Default::default()
    };
    // RFC 8200 4.5: fragment header 8 bytes; RFC 4302: 12 + ICV
    let ext_len = (if has_frag { 8 } else { 0 }) + (if has_auth { 12 + 4 * words } else { 0 });
    assert!(exts.header_len() == ext_len);
    let max = U16_FIELD_MAX - ext_len;
    let mut ip = IpHeaders::Ipv6(h.clone(), exts);
    let r = ip.set_payload_len(len);
    witness!(r.is_ok() && len == max && has_auth && has_frag, "accepted at the limit");
    witness!(r.is_err() && len == max + 1 && has_frag, "rejected just above the limit (ext)");
    witness!(r.is_err() && len == max + 1 && ext_len == 0, "rejected just above the limit (no ext)");
    witness!(r.is_err() && len == usize::MAX && ext_len != 0, "rejected usize::MAX (sum overflows)");
    let (h2, e2) = match &ip {
        IpHeaders::Ipv6(h2, e2) => (h2, e2),
        _ => panic!("C14: variant changed"),
    };
    assert!(e2.header_len() == ext_len);
    match r {
        Ok(()) => {
            assert!(len <= max, "C14: value above the field maximum accepted");
            assert!(usize::from(h2.payload_length) == ext_len + len);
            let b = h2.to_bytes();
            assert!(usize::from(u16::from_be_bytes([b[4], b[5]])) == ext_len + len, "C14: encoded payload length");
            let mut back = h2.clone();
            back.payload_length = h.payload_length;
            assert!(back == h);
        }
        Err(e) => {
            assert!(len > max, "C14: representable value rejected");
            assert!(ip_headers_err_ok(&e, len, max, ext_len), "C14: error does not carry (offending, allowed)");
            assert!(*h2 == h, "C14: header changed by a rejected call");
            // the value type of the `len + extension headers overflows usize` arm is decided by
            // ip_headers_v6_overflow_value_type (known finding, kept in a lean harness so that the
            // counterexample trace stays small enough for the native replay)
            if len.checked_add(ext_len).is_some() {
                assert!(e.value_type == ValueType::Ipv6PayloadLength, "C14: wrong value type");
            }
        }
    }
}

/// `IpHeaders::Ipv6(..).set_payload_len(len)` where `len + extension headers` overflows usize:
/// rejected with the IPv6 value type
pub fn ip_headers_v6_overflow_value_type() {
    let len: usize = any();
    assume(len > usize::MAX - 8);
    let frag = Ipv6FragmentHeader::new(IpNumber(17), IpFragOffset::ZERO, false, 0);
    let mut ip = IpHeaders::Ipv6(Ipv6Header::default(), Ipv6Extensions { fragment: Some(frag), ..Default::default() });
    match ip.set_payload_len(len) {
        Ok(()) => panic!("C14: value above the field maximum accepted"),
        Err(e) => {
            assert!(e.actual == len && e.max_allowed == U16_FIELD_MAX - 8, "C14: error does not carry (offending, allowed)");
            // known finding: this arm reports the IPv4 value type (net/ip_headers.rs, copy of the
            // IPv4 arm above it)
            if e.value_type == ValueType::Ipv4PayloadLength {
                witness!(true, "KF:c14-ip-headers-v6-overflow-value-type");
            } else {
                assert!(e.value_type == ValueType::Ipv6PayloadLength, "C14: wrong value type");
            }
        }
    }
}

// ================================================================= UDP (length given as a number)

/// `UdpHeader::without_ipv4_checksum`: 8 + payload must fit the 16 bit UDP length
pub fn udp_without_checksum() {
    let sp: u16 = any();
    let dp: u16 = any();
    let len: usize = any();
    let max = U16_FIELD_MAX - UDP_HDR;
    let r = UdpHeader::without_ipv4_checksum(sp, dp, len);
    witness!(r.is_ok() && len == max, "accepted at the limit");
    witness!(r.is_err() && len == max + 1, "rejected just above the limit");
    witness!(r.is_err() && len == U16_FIELD_MAX + 1, "rejected 2^16");
    witness!(r.is_err() && len == usize::MAX, "rejected usize::MAX");
    match r {
        Ok(h) => {
            assert!(len <= max, "C14: value above the field maximum accepted");
            assert!(usize::from(h.length) == UDP_HDR + len);
            let b = h.to_bytes();
            assert!(usize::from(u16::from_be_bytes([b[4], b[5]])) == UDP_HDR + len, "C14: encoded UDP length");
            assert!(h.source_port == sp && h.destination_port == dp && h.checksum == 0);
        }
        Err(e) => {
            assert!(len > max, "C14: representable value rejected");
            assert!(e.actual == len);
            assert!(e.max_allowed == max);
            assert!(e.value_type == ValueType::UdpPayloadLengthIpv4);
        }
    }
}

// ================================================================= MACsec short length

/// `MacsecShortLen::{try_from_u8, from_len}`: 6 bit field, too long => documented 'unknown' 0
pub fn macsec_short_len() {
    let v: u8 = any();
    let max: u8 = (1 << 6) - 1;
    let r = MacsecShortLen::try_from_u8(v);
    witness!(r.is_ok() && v == max, "accepted at the limit");
    witness!(r.is_err() && v == max + 1, "rejected just above the limit");
    match r {
        Ok(s) => {
            assert!(v <= max, "C14: value above the field maximum accepted");
            assert!(s.value() == v);
        }
        Err(e) => {
            assert!(v > max, "C14: representable value rejected");
            assert!(e.actual == v && e.max_allowed == max && e.value_type == ValueType::MacsecShortLen);
        }
    }
    let len: usize = any();
    let s = MacsecShortLen::from_len(len);
    witness!(len == 63 && s.value() == 63, "from_len at the limit");
    witness!(len == 64, "from_len just above the limit");
    witness!(len == 256 + 5, "from_len value whose low byte would fit");
    if len <= usize::from(max) {
        assert!(usize::from(s.value()) == len, "C14: representable length not stored exactly");
    } else {
        assert!(s.value() == 0, "C14: too long a length must become the 'unknown' short length 0");
    }
}

fn macsec_header() -> MacsecHeader {
    let k: u8 = any();
    assume(k < 4);
    let ptype = match k {
        0 => MacsecPType::Unmodified(EtherType(any())),
        1 => MacsecPType::Modified,
        2 => MacsecPType::Encrypted,
        _ => MacsecPType::EncryptedUnmodified,
    };
    let an: u8 = any();
    assume(an < 4);
    let sl: u8 = any();
    assume(sl < 64);
    let sci: u64 = any();
    MacsecHeader {
        ptype,
        endstation_id: any_bool(),
        scb: any_bool(),
        an: MacsecAn::try_new(an).unwrap(),
        short_len: MacsecShortLen::try_from_u8(sl).unwrap(),
        packet_nr: any(),
        sci: if any_bool() { Some(sci) } else { None },
    }
}

/// `MacsecHeader::set_payload_len`: the short length counts the ether type of an unmodified
/// payload (2 bytes, IEEE 802.1AE: SL = octets after the SecTAG); what does not fit the 6 bit
/// field is stored as 0 = unknown, never truncated
pub fn macsec_set_payload_len() {
    let mut h = macsec_header();
    let len: usize = any();
    let before = h.clone();
    let extra = if matches!(h.ptype, MacsecPType::Unmodified(_)) { 2usize } else { 0 };
    let max = 63 - extra;
    h.set_payload_len(len);
    let sl = usize::from(h.short_len.value());
    witness!(len == max && extra == 2 && sl == 63, "unmodified at the limit");
    witness!(len == max && extra == 0 && sl == 63, "modified at the limit");
    witness!(len == max + 1 && extra == 2, "unmodified just above the limit");
    witness!(len == max + 1 && extra == 0, "modified just above the limit");
    witness!(len == 256 && sl == 0, "low byte zero");
    if len <= max {
        assert!(sl == len + extra, "C14: representable length not stored exactly");
        if sl != 0 {
            assert!(h.expected_payload_len() == Some(len), "C14: decodes to the value given");
        }
    } else {
        assert!(sl == 0, "C14: too long a length must become the 'unknown' short length 0");
        assert!(h.expected_payload_len().is_none());
    }
    let b = h.to_bytes();
    assert!(usize::from(b[1]) == sl, "C14: encoded short length");
    // nothing but the short length changed
    let mut back = h.clone();
    back.short_len = before.short_len;
    assert!(back == before);
}

// ================================================================= UDP (payload given as a slice)

/// number of logged 2 byte kernel calls carrying `v` (big endian)
#[cfg(kani)]
fn words16(v: usize) -> usize {
    ghost::count_word(2, ghost::w16(v as u16))
}
/// number of logged 4 byte kernel calls carrying `v` (big endian)
#[cfg(kani)]
fn words32(v: usize) -> usize {
    ghost::count_word(4, ghost::w32(v as u32))
}

fn check_too_big(e: &ValueTooBigError<usize>, actual: usize, max: usize, vt: ValueType) {
    assert!(e.actual == actual, "C14: error does not carry the offending value");
    assert!(e.max_allowed == max, "C14: error does not carry the true maximum");
    assert!(e.value_type == vt, "C14: wrong value type");
}

/// `UdpHeader::with_ipv4_checksum`, `calc_checksum_ipv4(_raw)`: 8 + payload must fit the 16 bit
/// UDP length (= the 16 bit length of the RFC 768 pseudo header)
pub fn udp_ipv4_slice() {
    let sp: u16 = any();
    let dp: u16 = any();
    let ip = ipv4_header();
    let len: usize = any();
    let which = any_le(2);
    let mut pre = UdpHeader { source_port: any(), destination_port: any(), length: any(), checksum: any() };
    let z = Zeros::new(len);
    let max = U16_FIELD_MAX - UDP_HDR;
    ghost::reset();
    witness!(len == max, "at the limit");
    witness!(len == max + 1, "just above the limit");
    witness!(len == U16_FIELD_MAX + 1 + 3, "low 16 bits would fit");
    witness!(len == MAX_OBJ, "largest object");
    match which {
        0 => {
            let r = UdpHeader::with_ipv4_checksum(sp, dp, &ip, z.slice());
            witness!(r.is_ok(), "with: ok");
            witness!(r.is_err(), "with: err");
            match r {
                Ok(h) => {
                    assert!(len <= max, "C14: value above the field maximum accepted");
                    assert!(usize::from(h.length) == UDP_HDR + len);
                    let b = h.to_bytes();
                    assert!(usize::from(u16::from_be_bytes([b[4], b[5]])) == UDP_HDR + len, "C14: encoded UDP length");
                    assert!(h.source_port == sp && h.destination_port == dp);
                    #[cfg(kani)]
                    {
                        // pseudo header length and header length word, both 8 + len
                        assert!(words16(UDP_HDR + len) >= 2, "C14: length word summed into the checksum");
                        assert!(ghost::count_slice(len) == 1, "C14: whole payload summed");
                    }
                }
                Err(e) => {
                    assert!(len > max, "C14: representable value rejected");
                    check_too_big(&e, len, max, ValueType::UdpPayloadLengthIpv4);
                }
            }
        }
        _ => {
            let before = pre.clone();
            let r = if which == 1 {
                pre.calc_checksum_ipv4(&ip, z.slice())
            } else {
                pre.calc_checksum_ipv4_raw(ip.source, ip.destination, z.slice())
            };
            witness!(r.is_ok() && which == 1, "calc: ok");
            witness!(r.is_err() && which == 1, "calc: err");
            witness!(r.is_ok() && which == 2, "calc_raw: ok");
            witness!(r.is_err() && which == 2, "calc_raw: err");
            match r {
                Ok(_) => {
                    assert!(len <= max, "C14: value above the field maximum accepted");
                    #[cfg(kani)]
                    assert!(ghost::count_slice(len) == 1, "C14: whole payload summed");
                }
                Err(e) => {
                    assert!(len > max, "C14: representable value rejected");
                    check_too_big(&e, len, max, ValueType::UdpPayloadLengthIpv4);
                }
            }
            assert!(pre == before);
        }
    }
}

/// `UdpHeader::with_ipv6_checksum` (8 + payload must fit the 16 bit UDP length) and
/// `calc_checksum_ipv6(_raw)` (8 + payload must fit the 32 bit upper-layer packet length of the
/// RFC 8200 8.1 pseudo header)
pub fn udp_ipv6_slice() {
    let sp: u16 = any();
    let dp: u16 = any();
    let ip = ipv6_header();
    let len: usize = any();
    let which = any_le(2);
    let mut pre = UdpHeader { source_port: any(), destination_port: any(), length: any(), checksum: any() };
    let z = Zeros::new(len);
    ghost::reset();
    witness!(len == U16_FIELD_MAX - UDP_HDR, "at the 16 bit limit");
    witness!(len == U16_FIELD_MAX - UDP_HDR + 1, "just above the 16 bit limit");
    witness!(len == U32_FIELD_MAX - UDP_HDR, "at the 32 bit limit");
    witness!(len == U32_FIELD_MAX - UDP_HDR + 1, "just above the 32 bit limit");
    witness!(len == MAX_OBJ, "largest object");
    match which {
        0 => {
            let max = U16_FIELD_MAX - UDP_HDR;
            let r = UdpHeader::with_ipv6_checksum(sp, dp, &ip, z.slice());
            witness!(r.is_ok(), "with: ok");
            witness!(r.is_err(), "with: err");
            match r {
                Ok(h) => {
                    assert!(len <= max, "C14: value above the field maximum accepted");
                    assert!(usize::from(h.length) == UDP_HDR + len);
                    let b = h.to_bytes();
                    assert!(usize::from(u16::from_be_bytes([b[4], b[5]])) == UDP_HDR + len, "C14: encoded UDP length");
                    assert!(h.source_port == sp && h.destination_port == dp);
                    #[cfg(kani)]
                    {
                        assert!(words16(UDP_HDR + len) >= 2, "C14: length word summed into the checksum");
                        assert!(ghost::count_slice(len) == 1, "C14: whole payload summed");
                    }
                }
                Err(e) => {
                    assert!(len > max, "C14: representable value rejected");
                    check_too_big(&e, len, max, ValueType::UdpPayloadLengthIpv6);
                }
            }
        }
        _ => {
            let max = U32_FIELD_MAX - UDP_HDR;
            let before = pre.clone();
            let r = if which == 1 {
                pre.calc_checksum_ipv6(&ip, z.slice())
            } else {
                pre.calc_checksum_ipv6_raw(ip.source, ip.destination, z.slice())
            };
            witness!(r.is_ok() && which == 1, "calc: ok");
            witness!(r.is_err() && which == 1, "calc: err");
            witness!(r.is_ok() && which == 2, "calc_raw: ok");
            witness!(r.is_err() && which == 2, "calc_raw: err");
            match r {
                Ok(_) => {
                    assert!(len <= max, "C14: value above the field maximum accepted");
                    #[cfg(kani)]
                    assert!(ghost::count_slice(len) == 1, "C14: whole payload summed");
                }
                Err(e) => {
                    assert!(len > max, "C14: representable value rejected");
                    check_too_big(&e, len, max, ValueType::UdpPayloadLengthIpv6);
                }
            }
            assert!(pre == before);
        }
    }
}

// ================================================================= TCP

/// all field values, options of every accepted length 0..=40 (padded to a multiple of 4)
fn tcp_header() -> TcpHeader {
    let ol = any_le(40);
    let data: [u8; 40] = any();
    let options = match TcpOptions::try_from_slice(&data[..ol]) {
        Ok(o) => o,
        Err(_) => panic!("documented acceptance set of TcpOptions"),
    };
    TcpHeader {
        source_port: any(),
        destination_port: any(),
        sequence_number: any(),
        acknowledgment_number: any(),
        ns: any_bool(),
        fin: any_bool(),
        syn: any_bool(),
        rst: any_bool(),
        psh: any_bool(),
        ack: any_bool(),
        urg: any_bool(),
        ece: any_bool(),
        cwr: any_bool(),
        window_size: any(),
        checksum: any(),
        urgent_pointer: any(),
        options,
    }
}

/// `TcpHeader::calc_checksum_ipv4(_raw)`: header + payload must fit the 16 bit TCP length of
/// the pseudo header (RFC 9293 3.1)
pub fn tcp_header_ipv4() {
    let h = tcp_header();
    let ip = ipv4_header();
    let len: usize = any();
    let raw = any_bool();
    let z = Zeros::new(len);
    let hdr = TCP_BASE + h.options.len();
    assert!(hdr % 4 == 0 && hdr <= 60 && h.header_len() == hdr);
    let max = U16_FIELD_MAX - hdr;
    ghost::reset();
    let r = if raw {
        h.calc_checksum_ipv4_raw(ip.source, ip.destination, z.slice())
    } else {
        h.calc_checksum_ipv4(&ip, z.slice())
    };
    witness!(r.is_ok() && len == max && hdr == 60, "accepted at the limit, full options");
    witness!(r.is_ok() && len == max && hdr == 20 && raw, "accepted at the limit (raw)");
    witness!(r.is_err() && len == max + 1 && !raw, "rejected just above the limit");
    witness!(r.is_err() && len == max + 1 && raw, "rejected just above the limit (raw)");
    witness!(r.is_err() && len == U16_FIELD_MAX + 1, "rejected 2^16");
    witness!(r.is_err() && len == MAX_OBJ, "rejected largest object");
    match r {
        Ok(_) => {
            assert!(len <= max, "C14: value above the field maximum accepted");
            #[cfg(kani)]
            {
                assert!(words16(hdr + len) >= 1, "C14: TCP length word summed into the checksum");
                assert!(ghost::count_slice(len) >= 1, "C14: whole payload summed");
            }
        }
        Err(e) => {
            assert!(len > max, "C14: representable value rejected");
            check_too_big(&e, len, max, ValueType::TcpPayloadLengthIpv4);
        }
    }
}

/// `TcpHeader::calc_checksum_ipv6(_raw)`: header + payload must fit the 32 bit upper-layer
/// packet length (RFC 8200 8.1)
pub fn tcp_header_ipv6() {
    let h = tcp_header();
    let ip = ipv6_header();
    let len: usize = any();
    let raw = any_bool();
    let z = Zeros::new(len);
    let hdr = TCP_BASE + h.options.len();
    let max = U32_FIELD_MAX - hdr;
    ghost::reset();
    let r = if raw {
        h.calc_checksum_ipv6_raw(ip.source, ip.destination, z.slice())
    } else {
        h.calc_checksum_ipv6(&ip, z.slice())
    };
    witness!(r.is_ok() && len == max && hdr == 60, "accepted at the limit, full options");
    witness!(r.is_ok() && len == max && hdr == 20 && raw, "accepted at the limit (raw)");
    witness!(r.is_ok() && len == U16_FIELD_MAX + 1, "accepted 2^16");
    witness!(r.is_err() && len == max + 1 && !raw, "rejected just above the limit");
    witness!(r.is_err() && len == max + 1 && raw, "rejected just above the limit (raw)");
    witness!(r.is_err() && len == MAX_OBJ, "rejected largest object");
    match r {
        Ok(_) => {
            assert!(len <= max, "C14: value above the field maximum accepted");
            #[cfg(kani)]
            {
                assert!(words32(hdr + len) >= 1, "C14: TCP length summed into the checksum");
                assert!(ghost::count_slice(len) >= 1, "C14: whole payload summed");
            }
        }
        Err(e) => {
            assert!(len > max, "C14: representable value rejected");
            check_too_big(&e, len, max, ValueType::TcpPayloadLengthIpv6);
        }
    }
}

/// `TcpSlice::calc_checksum_ipv4 / ipv6`: the slice is the whole segment (header + payload), its
/// length is what the pseudo header carries (16 bit for IPv4, 32 bit for IPv6)
pub fn tcp_slice_calc() {
    let len: usize = any();
    let doff: u8 = any();
    let v6 = any_bool();
    let src4: [u8; 4] = any();
    let dst4: [u8; 4] = any();
    let src6: [u8; 16] = any();
    let dst6: [u8; 16] = any();
    assume(5 <= doff && doff <= 15);
    let hdr = usize::from(doff) * 4;
    assume(len >= hdr);
    let mut z = Zeros::new(len);
    z.slice_mut()[12] = doff << 4;
    let s = match TcpSlice::from_slice(z.slice()) {
        Ok(s) => s,
        Err(_) => panic!("a segment that holds its header is accepted"),
    };
    assert!(s.payload().len() == len - hdr);
    ghost::reset();
    let (r, max, vt) = if v6 {
        (s.calc_checksum_ipv6(src6, dst6), U32_FIELD_MAX, ValueType::TcpPayloadLengthIpv6)
    } else {
        (s.calc_checksum_ipv4(src4, dst4), U16_FIELD_MAX, ValueType::TcpPayloadLengthIpv4)
    };
    witness!(r.is_ok() && len == max && !v6 && doff == 15, "v4 accepted at the limit");
    witness!(r.is_err() && len == max + 1 && !v6, "v4 rejected just above the limit");
    witness!(r.is_ok() && len == max && v6, "v6 accepted at the limit");
    witness!(r.is_err() && len == max + 1 && v6, "v6 rejected just above the limit");
    witness!(r.is_err() && len == MAX_OBJ, "rejected largest object");
    match r {
        Ok(_) => {
            assert!(len <= max, "C14: value above the field maximum accepted");
            #[cfg(kani)]
            {
                if v6 {
                    assert!(words32(len) >= 1, "C14: TCP length summed into the checksum");
                } else {
                    assert!(words16(len) >= 1, "C14: TCP length word summed into the checksum");
                }
                // everything behind the checksum field, i.e. the whole payload, is summed
                assert!(ghost::count_slice(len - 18) >= 1, "C14: whole payload summed");
            }
        }
        Err(e) => {
            assert!(len > max, "C14: representable value rejected");
            check_too_big(&e, len, max, vt);
        }
    }
}

/// `TcpHeaderSlice::calc_checksum_ipv4_raw / ipv6_raw`
pub fn tcp_header_slice_calc() {
    let len: usize = any();
    let doff: u8 = any();
    let v6 = any_bool();
    let src4: [u8; 4] = any();
    let dst4: [u8; 4] = any();
    let src6: [u8; 16] = any();
    let dst6: [u8; 16] = any();
    let mut bytes: [u8; 60] = any();
    assume(5 <= doff && doff <= 15);
    let hdr = usize::from(doff) * 4;
    bytes[12] = (doff << 4) | (bytes[12] & 0x0f);
    let z = Zeros::new(len);
    let s = match TcpHeaderSlice::from_slice(&bytes[..hdr]) {
        Ok(s) => s,
        Err(_) => panic!("a complete header is accepted"),
    };
    assert!(s.slice().len() == hdr);
    ghost::reset();
    let (r, max, vt) = if v6 {
        (s.calc_checksum_ipv6_raw(src6, dst6, z.slice()), U32_FIELD_MAX - hdr, ValueType::TcpPayloadLengthIpv6)
    } else {
        (s.calc_checksum_ipv4_raw(src4, dst4, z.slice()), U16_FIELD_MAX - hdr, ValueType::TcpPayloadLengthIpv4)
    };
    witness!(r.is_ok() && len == max && !v6 && doff == 15, "v4 accepted at the limit");
    witness!(r.is_err() && len == max + 1 && !v6, "v4 rejected just above the limit");
    witness!(r.is_ok() && len == max && v6, "v6 accepted at the limit");
    witness!(r.is_err() && len == max + 1 && v6, "v6 rejected just above the limit");
    witness!(r.is_err() && len == MAX_OBJ, "rejected largest object");
    match r {
        Ok(_) => {
            assert!(len <= max, "C14: value above the field maximum accepted");
            #[cfg(kani)]
            {
                if v6 {
                    assert!(words32(hdr + len) >= 1, "C14: TCP length summed into the checksum");
                } else {
                    assert!(words16(hdr + len) >= 1, "C14: TCP length word summed into the checksum");
                }
                assert!(ghost::count_slice(len) >= 1, "C14: whole payload summed");
            }
        }
        Err(e) => {
            assert!(len > max, "C14: representable value rejected");
            check_too_big(&e, len, max, vt);
        }
    }
}

// ================================================================= ICMPv6

/// every variant of `Icmpv6Type` (a missing dispatch arm of the checksum would show)
fn icmpv6_type() -> Icmpv6Type {
    use icmpv6::*;
    use Icmpv6Type::*;
    let k: u8 = any();
    assume(k < 12);
    match k {
        0 => Unknown { type_u8: any(), code_u8: any(), bytes5to8: any() },
        1 => {
            use DestUnreachableCode::*;
            let c: u8 = any();
            assume(c < 7);
            DestinationUnreachable(match c {
                0 => NoRoute,
                1 => Prohibited,
                2 => BeyondScope,
                3 => Address,
                4 => Port,
                5 => SourceAddressFailedPolicy,
                _ => RejectRoute,
            })
        }
        2 => PacketTooBig { mtu: any() },
        3 => TimeExceeded(if any_bool() {
            TimeExceededCode::HopLimitExceeded
        } else {
            TimeExceededCode::FragmentReassemblyTimeExceeded
        }),
        4 => ParameterProblem(ParameterProblemHeader {
            code: if any_bool() {
                ParameterProblemCode::ErroneousHeaderField
            } else {
                ParameterProblemCode::OptionTooBig
            },
            pointer: any(),
        }),
        5 => EchoRequest(IcmpEchoHeader { id: any(), seq: any() }),
        6 => EchoReply(IcmpEchoHeader { id: any(), seq: any() }),
        7 => RouterSolicitation,
        8 => RouterAdvertisement(RouterAdvertisementHeader {
            cur_hop_limit: any(),
            managed_address_config: any_bool(),
            other_config: any_bool(),
            router_lifetime: any(),
        }),
        9 => NeighborSolicitation,
        10 => NeighborAdvertisement(NeighborAdvertisementHeader {
            router: any_bool(),
            solicited: any_bool(),
            r#override: any_bool(),
        }),
        _ => Redirect,
    }
}

/// `Icmpv6Type::calc_checksum`, `Icmpv6Header::{with_checksum, update_checksum}`: 8 + payload
/// must fit the 32 bit upper-layer packet length of the pseudo header (RFC 4443 2.3, RFC 8200 8.1)
pub fn icmpv6_calc() {
    let t = icmpv6_type();
    let src: [u8; 16] = any();
    let dst: [u8; 16] = any();
    let len: usize = any();
    let which = any_le(2);
    let old_checksum: u16 = any();
    let z = Zeros::new(len);
    let max = U32_FIELD_MAX - ICMPV6_HDR;
    assert!(t.header_len() == ICMPV6_HDR);
    ghost::reset();
    let mut hdr = Icmpv6Header { icmp_type: t.clone(), checksum: old_checksum };
    let r: Result<(), ValueTooBigError<usize>> = match which {
        0 => t.calc_checksum(src, dst, z.slice()).map(|_| ()),
        1 => Icmpv6Header::with_checksum(t.clone(), src, dst, z.slice()).map(|h| {
            assert!(h.icmp_type == t);
        }),
        _ => hdr.update_checksum(src, dst, z.slice()),
    };
    witness!(r.is_ok() && len == max && which == 0, "calc accepted at the limit");
    witness!(r.is_err() && len == max + 1 && which == 0, "calc rejected just above the limit");
    witness!(r.is_ok() && len == max && which == 1, "with accepted at the limit");
    witness!(r.is_err() && len == max + 1 && which == 1, "with rejected just above the limit");
    witness!(r.is_ok() && len == max && which == 2, "update accepted at the limit");
    witness!(r.is_err() && len == max + 1 && which == 2, "update rejected just above the limit");
    witness!(r.is_ok() && len == U16_FIELD_MAX + 1, "accepted 2^16");
    witness!(r.is_err() && len == MAX_OBJ, "rejected largest object");
    assert!(hdr.icmp_type == t);
    match r {
        Ok(()) => {
            assert!(len <= max, "C14: value above the field maximum accepted");
            #[cfg(kani)]
            {
                assert!(words32(ICMPV6_HDR + len) >= 1, "C14: ICMPv6 length summed into the checksum");
                assert!(ghost::count_slice(len) == 1, "C14: whole payload summed");
            }
        }
        Err(e) => {
            assert!(len > max, "C14: representable value rejected");
            check_too_big(&e, len, max, ValueType::Icmpv6PayloadLength);
            assert!(hdr.checksum == old_checksum, "C14: header changed by a rejected call");
        }
    }
}

// ================================================================= option areas, ICV, extension payload

/// `std::io::Write` that keeps the first 64 bytes and counts the rest (never fails, no loop)
pub struct Capture {
    pub buf: [u8; 64],
    pub pos: usize,
    pub total: usize,
}
impl Capture {
    pub fn new() -> Capture {
        Capture { buf: [0; 64], pos: 0, total: 0 }
    }
}
impl std::io::Write for Capture {
    fn write(&mut self, d: &[u8]) -> std::io::Result<usize> {
        let room = 64 - self.pos;
        let n = if d.len() < room { d.len() } else { room };
        self.buf[self.pos..self.pos + n].copy_from_slice(&d[..n]);
        self.pos += n;
        self.total += d.len();
        Ok(d.len())
    }
    fn write_all(&mut self, d: &[u8]) -> std::io::Result<()> {
        self.write(d).map(|_| ())
    }
    fn flush(&mut self) -> std::io::Result<()> {
        Ok(())
    }
}

/// a zero object of `len` bytes with ONE symbolic byte at a symbolic position
fn marked(len: usize) -> (Zeros, usize, u8) {
    let j: usize = any();
    let v: u8 = any();
    let mut z = Zeros::new(len);
    if j < len {
        z.slice_mut()[j] = v;
    }
    (z, j, v)
}

/// RFC 4302 2.2: payload len is an 8 bit count of 32 bit words minus 2, the fixed part has 12
/// bytes => the ICV has at most (255 + 2) * 4 - 12 bytes and is a multiple of 4
const AH_MAX_ICV: usize = (255 + 2) * 4 - 12;

fn auth_check_ok(h: &IpAuthHeader, len: usize, j: usize, v: u8) {
    assert!(len <= AH_MAX_ICV && len % 4 == 0, "C14: unrepresentable ICV length accepted");
    assert!(h.raw_icv().len() == len);
    assert!(h.header_len() == 12 + len);
    if j < len {
        assert!(h.raw_icv()[j] == v);
    }
    let mut w = Capture::new();
    let _ = h.write(&mut w);
    assert!(w.total == 12 + len);
    // decode the encoded payload length field
    assert!((usize::from(w.buf[1]) + 2) * 4 - 12 == len, "C14: encoded AH payload length");
}

fn auth_check_err(e: &err::ip_auth::IcvLenError, len: usize) {
    use err::ip_auth::IcvLenError::*;
    assert!(len > AH_MAX_ICV || len % 4 != 0, "C14: representable ICV length rejected");
    match e {
        TooBig(l) => assert!(*l == len && len > AH_MAX_ICV, "C14: error does not describe the fault"),
        Unaligned(l) => assert!(*l == len && len % 4 != 0, "C14: error does not describe the fault"),
    }
}

/// `IpAuthHeader::new`, every slice length
pub fn auth_new() {
    let len: usize = any();
    let nh: u8 = any();
    let spi: u32 = any();
    let seq: u32 = any();
    let (z, j, v) = marked(len);
    let r = IpAuthHeader::new(IpNumber(nh), spi, seq, z.slice());
    witness!(r.is_ok() && len == AH_MAX_ICV, "accepted at the limit");
    witness!(r.is_ok() && len == 0, "accepted empty");
    witness!(r.is_err() && len == AH_MAX_ICV + 4, "rejected just above the limit");
    witness!(r.is_err() && len == AH_MAX_ICV - 1, "rejected unaligned");
    witness!(r.is_err() && len == 1024 + 256 * 4, "rejected: word count whose low byte would fit");
    witness!(r.is_err() && len == MAX_OBJ, "rejected largest object");
    match r {
        Ok(h) => {
            auth_check_ok(&h, len, j, v);
            assert!(h.next_header.0 == nh && h.spi == spi && h.sequence_number == seq);
        }
        Err(e) => auth_check_err(&e, len),
    }
}

/// `IpAuthHeader::set_raw_icv`, every slice length, header with a previous ICV of 0..8 bytes
pub fn auth_set_raw_icv() {
    let len: usize = any();
    let words = any_le(2);
    let mut h = auth_header(words);
    let (nh, spi, seq) = (h.next_header, h.spi, h.sequence_number);
    let k: usize = any();
    assume(k < 8);
    let old_k = if k < words * 4 { h.raw_icv()[k] } else { 0 };
    let (z, j, v) = marked(len);
    let r = h.set_raw_icv(z.slice());
    witness!(r.is_ok() && len == AH_MAX_ICV, "accepted at the limit");
    witness!(r.is_ok() && len == 0 && words == 2, "accepted empty");
    witness!(r.is_err() && len == AH_MAX_ICV + 4, "rejected just above the limit");
    witness!(r.is_err() && len == 5 && words == 2, "rejected unaligned");
    witness!(r.is_err() && len == MAX_OBJ, "rejected largest object");
    assert!(h.next_header == nh && h.spi == spi && h.sequence_number == seq);
    match r {
        Ok(()) => auth_check_ok(&h, len, j, v),
        Err(e) => {
            auth_check_err(&e, len);
            assert!(h.raw_icv().len() == words * 4, "C14: header changed by a rejected call");
            assert!(h.header_len() == 12 + words * 4);
            if k < words * 4 {
                assert!(h.raw_icv()[k] == old_k, "C14: header changed by a rejected call");
            }
        }
    }
}

/// RFC 8200 4.3: hdr ext len is an 8 bit count of 8 byte units not including the first 8 bytes;
/// 2 of the bytes are next header + length => payload = 8 * (n + 1) - 2, n <= 255
const EXT_MIN_PAYLOAD: usize = 8 - 2;
const EXT_MAX_PAYLOAD: usize = 8 * (255 + 1) - 2;

fn ext_representable(len: usize) -> bool {
    len >= EXT_MIN_PAYLOAD && len <= EXT_MAX_PAYLOAD && (len + 2) % 8 == 0
}

fn ext_check_ok(h: &Ipv6RawExtHeader, len: usize, j: usize, v: u8) {
    assert!(ext_representable(len), "C14: unrepresentable extension payload length accepted");
    assert!(h.payload().len() == len);
    assert!(h.header_len() == 2 + len);
    if j < len {
        assert!(h.payload()[j] == v);
    }
    let mut w = Capture::new();
    let _ = h.write(&mut w);
    assert!(w.total == 2 + len);
    assert!(w.buf[0] == h.next_header.0);
    assert!((usize::from(w.buf[1]) + 1) * 8 - 2 == len, "C14: encoded hdr ext len");
}

fn ext_check_err(e: &err::ipv6_exts::ExtPayloadLenError, len: usize) {
    use err::ipv6_exts::ExtPayloadLenError::*;
    assert!(!ext_representable(len), "C14: representable extension payload length rejected");
    match e {
        TooSmall(l) => assert!(*l == len && len < EXT_MIN_PAYLOAD, "C14: error does not describe the fault"),
        TooBig(l) => assert!(*l == len && len > EXT_MAX_PAYLOAD, "C14: error does not describe the fault"),
        Unaligned(l) => assert!(*l == len && (len + 2) % 8 != 0, "C14: error does not describe the fault"),
    }
}

/// `Ipv6RawExtHeader::new_raw`, every slice length
pub fn raw_ext_new() {
    let len: usize = any();
    let nh: u8 = any();
    let (z, j, v) = marked(len);
    let r = Ipv6RawExtHeader::new_raw(IpNumber(nh), z.slice());
    witness!(r.is_ok() && len == EXT_MAX_PAYLOAD, "accepted at the limit");
    witness!(r.is_ok() && len == EXT_MIN_PAYLOAD, "accepted minimum");
    witness!(r.is_err() && len == EXT_MAX_PAYLOAD + 8, "rejected just above the limit");
    witness!(r.is_err() && len == EXT_MAX_PAYLOAD - 1, "rejected unaligned");
    witness!(r.is_err() && len == 5, "rejected too small");
    witness!(r.is_err() && len == 8 * 256 + 6, "rejected: unit count whose low byte would fit");
    witness!(r.is_err() && len == MAX_OBJ, "rejected largest object");
    match r {
        Ok(h) => {
            ext_check_ok(&h, len, j, v);
            assert!(h.next_header.0 == nh);
        }
        Err(e) => ext_check_err(&e, len),
    }
}

/// `Ipv6RawExtHeader::set_payload`, every slice length, header with a previous payload of 6 or 14
pub fn raw_ext_set_payload() {
    let len: usize = any();
    let nh: u8 = any();
    let old: [u8; 14] = any();
    let old_len = if any_bool() { 6 } else { 14 };
    let k: usize = any();
    assume(k < old_len);
    let mut h = match Ipv6RawExtHeader::new_raw(IpNumber(nh), &old[..old_len]) {
        Ok(h) => h,
        Err(_) => panic!("documented acceptance set of Ipv6RawExtHeader::new_raw"),
    };
    let (z, j, v) = marked(len);
    let r = h.set_payload(z.slice());
    witness!(r.is_ok() && len == EXT_MAX_PAYLOAD, "accepted at the limit");
    witness!(r.is_ok() && len == EXT_MIN_PAYLOAD && old_len == 14, "accepted minimum");
    witness!(r.is_err() && len == EXT_MAX_PAYLOAD + 8, "rejected just above the limit");
    witness!(r.is_err() && len == 7, "rejected unaligned");
    witness!(r.is_err() && len == 0, "rejected too small");
    witness!(r.is_err() && len == MAX_OBJ, "rejected largest object");
    assert!(h.next_header.0 == nh);
    match r {
        Ok(()) => ext_check_ok(&h, len, j, v),
        Err(e) => {
            ext_check_err(&e, len);
            assert!(h.payload().len() == old_len, "C14: header changed by a rejected call");
            assert!(h.payload()[k] == old[k], "C14: header changed by a rejected call");
        }
    }
}

/// `Ipv4Options::try_from(&[u8])` and the deprecated `Ipv4Header::set_options`: IHL is a 4 bit
/// count of 32 bit words, 5 of them are the fixed header => at most 40 bytes, multiple of 4
#[allow(deprecated)]
pub fn ipv4_options_try_from() {
    let len: usize = any();
    let via_header = any_bool();
    let mut h = ipv4_header();
    let before = h.clone();
    let jj: usize = any();
    let (z, j, v) = marked(len);
    let max = (15 - 5) * 4;
    let ok = len <= max && len % 4 == 0;
    let r = if via_header {
        h.set_options(z.slice()).map(|_| h.options.clone())
    } else {
        Ipv4Options::try_from(z.slice())
    };
    witness!(r.is_ok() && len == max && via_header, "accepted at the limit (header)");
    witness!(r.is_ok() && len == max && !via_header, "accepted at the limit");
    witness!(r.is_err() && len == max + 4, "rejected just above the limit");
    witness!(r.is_err() && len == max + 1, "rejected 41");
    witness!(r.is_err() && len == 39, "rejected unaligned");
    witness!(r.is_err() && len == 256 + 4, "rejected: low byte would fit");
    witness!(r.is_err() && len == MAX_OBJ, "rejected largest object");
    match r {
        Ok(o) => {
            assert!(ok, "C14: unrepresentable options length accepted");
            assert!(o.len() == len && usize::from(o.len_u8()) == len);
            assert!(o.as_slice().len() == len);
            if j < len {
                assert!(o.as_slice()[j] == v);
            }
            if via_header {
                assert!(h.header_len() == IPV4_BASE + len);
                assert!(usize::from(h.ihl()) * 4 == IPV4_BASE + len);
                let b = h.to_bytes();
                assert!(usize::from(b[0] & 0x0f) * 4 == IPV4_BASE + len, "C14: encoded IHL");
                assert!(b.len() == IPV4_BASE + len);
            }
        }
        Err(e) => {
            assert!(!ok, "C14: representable options length rejected");
            assert!(e.bad_len == len, "C14: error does not carry the offending value");
            assert!(ipv4_same(&h, &before, jj), "C14: header changed by a rejected call");
        }
    }
}

/// `TcpOptions::try_from_slice`, `TcpHeader::set_options_raw`: data offset is a 4 bit count of 32
/// bit words, 5 of them are the fixed header => at most 40 bytes; shorter areas are zero padded
/// to the next multiple of 4 (documented)
pub fn tcp_options_try_from_slice() {
    let len: usize = any();
    let via_header = any_bool();
    let mut h = tcp_header();
    let old_len = h.options.len();
    let old_doff = h.data_offset();
    let (z, j, v) = marked(len);
    let max = (15 - 5) * 4;
    let r = if via_header {
        h.set_options_raw(z.slice()).map(|_| h.options.clone())
    } else {
        TcpOptions::try_from_slice(z.slice())
    };
    witness!(r.is_ok() && len == max && via_header, "accepted at the limit (header)");
    witness!(r.is_ok() && len == max && !via_header, "accepted at the limit");
    witness!(r.is_ok() && len == 37, "accepted unaligned (padded)");
    witness!(r.is_err() && len == max + 1, "rejected just above the limit");
    witness!(r.is_err() && len == 256 + 4, "rejected: low byte would fit");
    witness!(r.is_err() && len == MAX_OBJ, "rejected largest object");
    match r {
        Ok(o) => {
            assert!(len <= max, "C14: unrepresentable options length accepted");
            let padded = (len + 3) / 4 * 4;
            assert!(o.len() == padded && usize::from(o.len_u8()) == padded);
            assert!(usize::from(o.data_offset()) * 4 == TCP_BASE + padded, "C14: data offset");
            if j < len {
                assert!(o.as_slice()[j] == v);
            }
            let k: usize = any();
            if len <= k && k < padded {
                assert!(o.as_slice()[k] == 0, "padding is zero");
            }
            if via_header {
                assert!(h.header_len() == TCP_BASE + padded);
                let b = h.to_bytes();
                assert!(usize::from(b[12] >> 4) * 4 == TCP_BASE + padded, "C14: encoded data offset");
                assert!(b.len() == TCP_BASE + padded);
            }
        }
        Err(e) => {
            assert!(len > max, "C14: representable options length rejected");
            assert!(e == TcpOptionWriteError::NotEnoughSpace(len), "C14: error does not carry the offending value");
            assert!(h.options.len() == old_len && h.data_offset() == old_doff, "C14: header changed by a rejected call");
        }
    }
}

// ================================================================= ARP address lengths

/// RFC 826: hardware and protocol address length are 8 bit fields, one value for sender and target
const ARP_ADDR_MAX: usize = (1 << 8) - 1;

fn arp_hw_err_ok(e: &err::arp::ArpHwAddrError, s: usize, t: usize) -> bool {
    use err::arp::ArpHwAddrError::*;
    match e {
        LenTooBig(l) => *l == s && s > ARP_ADDR_MAX,
        LenNonMatching(a, b) => *a == s && *b == t && s != t,
    }
}
fn arp_proto_err_ok(e: &err::arp::ArpProtoAddrError, s: usize, t: usize) -> bool {
    use err::arp::ArpProtoAddrError::*;
    match e {
        LenTooBig(l) => *l == s && s > ARP_ADDR_MAX,
        LenNonMatching(a, b) => *a == s && *b == t && s != t,
    }
}

/// the packet carries exactly these address lengths (accessors and derived packet length)
fn arp_lens(p: &ArpPacket, hw: usize, proto: usize) {
    assert!(usize::from(p.hw_addr_size()) == hw, "C14: hardware address size");
    assert!(usize::from(p.protocol_addr_size()) == proto, "C14: protocol address size");
    assert!(p.sender_hw_addr().len() == hw && p.target_hw_addr().len() == hw);
    assert!(p.sender_protocol_addr().len() == proto && p.target_protocol_addr().len() == proto);
    assert!(p.packet_len() == 8 + 2 * hw + 2 * proto);
}

/// `ArpPacket::new`: four slices of independent symbolic lengths
pub fn arp_new() {
    let (sh, sp, th, tp): (usize, usize, usize, usize) = (any(), any(), any(), any());
    let (a, b, c, d) = (Zeros::new(sh), Zeros::new(sp), Zeros::new(th), Zeros::new(tp));
    let ok = sh == th && sp == tp && sh <= ARP_ADDR_MAX && sp <= ARP_ADDR_MAX;
    let r = ArpPacket::new(
        ArpHardwareId(any()),
        EtherType(any()),
        ArpOperation(any()),
        a.slice(),
        b.slice(),
        c.slice(),
        d.slice(),
    );
    witness!(r.is_ok() && sh == ARP_ADDR_MAX && sp == ARP_ADDR_MAX, "accepted at both limits");
    witness!(r.is_ok() && sh == 0 && sp == 0, "accepted empty");
    witness!(r.is_err() && sh == ARP_ADDR_MAX + 1 && th == sh && sp == tp && sp <= ARP_ADDR_MAX, "rejected hw just above the limit");
    witness!(r.is_err() && sp == ARP_ADDR_MAX + 1 && tp == sp && sh == th && sh <= ARP_ADDR_MAX, "rejected proto just above the limit");
    witness!(r.is_err() && sh == 256 + 6 && th == sh && sp == 4 && tp == 4, "rejected: low byte would fit");
    witness!(r.is_err() && sh == 6 && th == 7, "rejected hw mismatch");
    witness!(r.is_err() && sp == 4 && tp == 16 && sh == th, "rejected proto mismatch");
    match r {
        Ok(p) => {
            assert!(ok, "C14: unrepresentable address lengths accepted");
            arp_lens(&p, sh, sp);
        }
        Err(e) => {
            assert!(!ok, "C14: representable address lengths rejected");
            match e {
                err::arp::ArpNewError::HwAddr(e) => assert!(arp_hw_err_ok(&e, sh, th), "C14: error does not describe the fault"),
                err::arp::ArpNewError::ProtoAddr(e) => assert!(arp_proto_err_ok(&e, sp, tp), "C14: error does not describe the fault"),
            }
        }
    }
}

fn arp_small() -> (ArpPacket, usize, usize) {
    let hw = if any_bool() { 6 } else { 1 };
    let proto = if any_bool() { 4 } else { 0 };
    let x: [u8; 6] = any();
    let y: [u8; 4] = any();
    match ArpPacket::new(ArpHardwareId(any()), EtherType(any()), ArpOperation(any()), &x[..hw], &y[..proto], &x[..hw], &y[..proto]) {
        Ok(p) => (p, hw, proto),
        Err(_) => panic!("documented acceptance set of ArpPacket::new"),
    }
}

/// `ArpPacket::set_hw_addrs` / `set_protocol_addrs`
pub fn arp_set_addrs() {
    let (s, t): (usize, usize) = (any(), any());
    let hw_side = any_bool();
    let (mut p, hw, proto) = arp_small();
    let (a, b) = (Zeros::new(s), Zeros::new(t));
    let ok = s == t && s <= ARP_ADDR_MAX;
    let first = if hw > 0 { p.sender_hw_addr()[0] } else { 0 };
    let (t0, t1, t2) = (p.hw_addr_type, p.proto_addr_type, p.operation);
    witness!(ok && s == ARP_ADDR_MAX && hw_side, "hw accepted at the limit");
    witness!(ok && s == ARP_ADDR_MAX && !hw_side, "proto accepted at the limit");
    witness!(s == t && s == ARP_ADDR_MAX + 1 && hw_side, "hw rejected just above the limit");
    witness!(s == t && s == ARP_ADDR_MAX + 1 && !hw_side, "proto rejected just above the limit");
    witness!(s == t && s == 512, "low byte zero");
    witness!(s == 6 && t == 8, "mismatch");
    if hw_side {
        match p.set_hw_addrs(a.slice(), b.slice()) {
            Ok(()) => {
                assert!(ok, "C14: unrepresentable address lengths accepted");
                arp_lens(&p, s, proto);
            }
            Err(e) => {
                assert!(!ok, "C14: representable address lengths rejected");
                assert!(arp_hw_err_ok(&e, s, t), "C14: error does not describe the fault");
                arp_lens(&p, hw, proto);
                if hw > 0 {
                    assert!(p.sender_hw_addr()[0] == first, "C14: packet changed by a rejected call");
                }
            }
        }
    } else {
        match p.set_protocol_addrs(a.slice(), b.slice()) {
            Ok(()) => {
                assert!(ok, "C14: unrepresentable address lengths accepted");
                arp_lens(&p, hw, s);
            }
            Err(e) => {
                assert!(!ok, "C14: representable address lengths rejected");
                assert!(arp_proto_err_ok(&e, s, t), "C14: error does not describe the fault");
                arp_lens(&p, hw, proto);
            }
        }
    }
    assert!(p.hw_addr_type == t0 && p.proto_addr_type == t1 && p.operation == t2);
}

/// `ArpPacket::new` + `to_bytes` at the field maximum (concrete sizes: symbolic ones exhaust
/// CBMC's memory in `to_bytes`): 255 is what the two 8 bit fields carry
pub fn arp_new_encoded_max() {
    let a = [0u8; ARP_ADDR_MAX];
    let b = [0u8; ARP_ADDR_MAX];
    let p = match ArpPacket::new(ArpHardwareId(any()), EtherType(any()), ArpOperation(any()), &a, &b, &a, &b) {
        Ok(p) => p,
        Err(_) => panic!("C14: representable address lengths rejected"),
    };
    let bytes = p.to_bytes();
    assert!(usize::from(bytes[4]) == ARP_ADDR_MAX, "C14: encoded hardware address length");
    assert!(usize::from(bytes[5]) == ARP_ADDR_MAX, "C14: encoded protocol address length");
    assert!(bytes.len() == 8 + 4 * ARP_ADDR_MAX);
    witness!(true, "reached");
}

// ================================================================= PacketBuilder

fn be16(b: &[u8; 64], at: usize) -> usize {
    usize::from(u16::from_be_bytes([b[at], b[at + 1]]))
}

/// a rejected builder call reports the payload length error of the IP header: the IP payload
/// length (transport header + payload, `shift` more than the caller's value) against the
/// maximum IP payload, or the caller's value against the caller's maximum - the same excess in
/// consistent units (the documentation does not say which)
fn builder_err(r: Result<(), err::packet::BuildWriteError>, len: usize, max: usize, shift: usize, vt: ValueType) {
    match r {
        Err(err::packet::BuildWriteError::PayloadLen(e)) => {
            assert!(len > max, "C14: representable value rejected");
            assert!(e.value_type == vt, "C14: wrong value type");
            let caller_units = e.actual == len && e.max_allowed == max;
            let ip_units = e.actual == len + shift && e.max_allowed == max + shift;
            assert!(caller_units || ip_units, "C14: error does not carry (offending, allowed)");
        }
        Err(_) => panic!("C14: a length fault must be reported as PayloadLen"),
        Ok(()) => panic!("unreachable"),
    }
}

const ETH: usize = 14;

/// Ethernet II / IPv4 / UDP: payload + 8 must fit the UDP length AND payload + 8 + 20 the IPv4
/// total length; the tighter one is the true maximum
pub fn builder_ipv4_udp() {
    let len: usize = any();
    let (sp, dp): (u16, u16) = (any(), any());
    let b = PacketBuilder::ethernet2(any(), any()).ipv4(any(), any(), any()).udp(sp, dp);
    let z = Zeros::new(len);
    let mut w = Capture::new();
    let max = U16_FIELD_MAX - IPV4_BASE - UDP_HDR;
    ghost::reset();
    let r = b.write(&mut w, z.slice());
    witness!(r.is_ok() && len == max, "accepted at the limit");
    witness!(r.is_err() && len == max + 1, "rejected just above the limit");
    witness!(r.is_err() && len == U16_FIELD_MAX - UDP_HDR, "rejected: fits UDP, not IPv4");
    witness!(r.is_err() && len == U16_FIELD_MAX + 1, "rejected 2^16");
    witness!(r.is_err() && len == MAX_OBJ, "rejected largest object");
    if r.is_ok() {
        assert!(len <= max, "C14: value above the field maximum accepted");
        assert!(w.total == ETH + IPV4_BASE + UDP_HDR + len);
        assert!(w.buf[ETH] == 0x45);
        assert!(be16(&w.buf, ETH + 2) == IPV4_BASE + UDP_HDR + len, "C14: encoded IPv4 total length");
        assert!(be16(&w.buf, ETH + IPV4_BASE + 4) == UDP_HDR + len, "C14: encoded UDP length");
        assert!(be16(&w.buf, ETH + IPV4_BASE) == usize::from(sp) && be16(&w.buf, ETH + IPV4_BASE + 2) == usize::from(dp));
        #[cfg(kani)]
        assert!(words16(UDP_HDR + len) >= 2, "C14: length word summed into the checksum");
    } else {
        builder_err(r, len, max, UDP_HDR, ValueType::Ipv4PayloadLength);
    }
}

/// Ethernet II / IPv4 / TCP (no options): payload + 20 + 20 must fit the IPv4 total length
pub fn builder_ipv4_tcp() {
    let len: usize = any();
    let b = PacketBuilder::ethernet2(any(), any()).ipv4(any(), any(), any()).tcp(any(), any(), any(), any());
    let z = Zeros::new(len);
    let mut w = Capture::new();
    let max = U16_FIELD_MAX - IPV4_BASE - TCP_BASE;
    ghost::reset();
    let r = b.write(&mut w, z.slice());
    witness!(r.is_ok() && len == max, "accepted at the limit");
    witness!(r.is_err() && len == max + 1, "rejected just above the limit");
    witness!(r.is_err() && len == U16_FIELD_MAX + 1, "rejected 2^16");
    witness!(r.is_err() && len == MAX_OBJ, "rejected largest object");
    if r.is_ok() {
        assert!(len <= max, "C14: value above the field maximum accepted");
        assert!(w.total == ETH + IPV4_BASE + TCP_BASE + len);
        assert!(be16(&w.buf, ETH + 2) == IPV4_BASE + TCP_BASE + len, "C14: encoded IPv4 total length");
        assert!(w.buf[ETH + IPV4_BASE + 12] >> 4 == 5);
        #[cfg(kani)]
        assert!(words16(TCP_BASE + len) >= 1, "C14: TCP length word summed into the checksum");
    } else {
        builder_err(r, len, max, TCP_BASE, ValueType::Ipv4PayloadLength);
    }
}


/// Ethernet II / IPv4 / ICMPv4 echo request: payload + 8 + 20 must fit the IPv4 total length
pub fn builder_ipv4_icmpv4() {
    let len: usize = any();
    let b = PacketBuilder::ethernet2(any(), any()).ipv4(any(), any(), any()).icmpv4_echo_request(any(), any());
    let z = Zeros::new(len);
    let mut w = Capture::new();
    let icmp = 8; // RFC 792 echo: type, code, checksum, identifier, sequence number
    let max = U16_FIELD_MAX - IPV4_BASE - icmp;
    ghost::reset();
    let r = b.write(&mut w, z.slice());
    witness!(r.is_ok() && len == max, "accepted at the limit");
    witness!(r.is_err() && len == max + 1, "rejected just above the limit");
    witness!(r.is_err() && len == U16_FIELD_MAX + 1, "rejected 2^16");
    witness!(r.is_err() && len == MAX_OBJ, "rejected largest object");
    if r.is_ok() {
        assert!(len <= max, "C14: value above the field maximum accepted");
        assert!(w.total == ETH + IPV4_BASE + icmp + len);
        assert!(be16(&w.buf, ETH + 2) == IPV4_BASE + icmp + len, "C14: encoded IPv4 total length");
        assert!(w.buf[ETH + IPV4_BASE] == 8 && w.buf[ETH + 9] == 1);
    } else {
        builder_err(r, len, max, icmp, ValueType::Ipv4PayloadLength);
    }
}

// ================================================================= TransportHeader dispatch

/// `TransportHeader::update_checksum_ipv4 / ipv6` (what the builder calls after the IP length is
/// set): every variant reaches the limit of its own protocol, a rejected call changes nothing
pub fn transport_update_checksum() {
    let which = any_le(2);
    let v6 = any_bool();
    let len: usize = any();
    let ip4 = ipv4_header();
    let ip6 = ipv6_header();
    let mut t = match which {
        0 => TransportHeader::Udp(UdpHeader { source_port: any(), destination_port: any(), length: any(), checksum: any() }),
        1 => TransportHeader::Tcp(tcp_header()),
        _ => TransportHeader::Icmpv6(Icmpv6Header { icmp_type: icmpv6_type(), checksum: any() }),
    };
    let before = t.clone();
    let hdr = t.header_len();
    let z = Zeros::new(len);
    ghost::reset();
    let field = if v6 { U32_FIELD_MAX } else { U16_FIELD_MAX };
    let max = field - hdr;
    let vt = match (which, v6) {
        (0, false) => ValueType::UdpPayloadLengthIpv4,
        (0, true) => ValueType::UdpPayloadLengthIpv6,
        (1, false) => ValueType::TcpPayloadLengthIpv4,
        (1, true) => ValueType::TcpPayloadLengthIpv6,
        _ => ValueType::Icmpv6PayloadLength,
    };
    let r: Result<(), Option<ValueTooBigError<usize>>> = if v6 {
        t.update_checksum_ipv6(&ip6, z.slice()).map_err(Some)
    } else {
        match t.update_checksum_ipv4(&ip4, z.slice()) {
            Ok(()) => Ok(()),
            Err(err::packet::TransportChecksumError::PayloadLen(e)) => Err(Some(e)),
            Err(err::packet::TransportChecksumError::Icmpv6InIpv4) => Err(None),
        }
    };
    witness!(r.is_ok() && len == max && which == 0 && !v6, "udp/v4 accepted at the limit");
    witness!(r.is_err() && len == max + 1 && which == 0 && !v6, "udp/v4 rejected just above the limit");
    witness!(r.is_ok() && len == max && which == 1 && !v6, "tcp/v4 accepted at the limit");
    witness!(r.is_err() && len == max + 1 && which == 1 && !v6, "tcp/v4 rejected just above the limit");
    witness!(r.is_ok() && len == max && which == 0 && v6, "udp/v6 accepted at the limit");
    witness!(r.is_err() && len == max + 1 && which == 0 && v6, "udp/v6 rejected just above the limit");
    witness!(r.is_ok() && len == max && which == 1 && v6, "tcp/v6 accepted at the limit");
    witness!(r.is_err() && len == max + 1 && which == 1 && v6, "tcp/v6 rejected just above the limit");
    witness!(r.is_ok() && len == max && which == 2 && v6, "icmpv6/v6 accepted at the limit");
    witness!(r.is_err() && len == max + 1 && which == 2 && v6, "icmpv6/v6 rejected just above the limit");
    witness!(r.is_err() && which == 2 && !v6, "icmpv6 in ipv4");
    match r {
        Ok(()) => {
            assert!(len <= max, "C14: value above the field maximum accepted");
            assert!(!(which == 2 && !v6), "ICMPv6 in IPv4 has no defined checksum");
            #[cfg(kani)]
            assert!(ghost::count_slice(len) >= 1, "C14: whole payload summed");
        }
        Err(None) => {
            assert!(which == 2 && !v6);
            assert!(t == before, "C14: header changed by a rejected call");
        }
        Err(Some(e)) => {
            assert!(len > max, "C14: representable value rejected");
            check_too_big(&e, len, max, vt);
            assert!(t == before, "C14: header changed by a rejected call");
        }
    }
}

crate::harnesses! {
    c14_ipv4_new = ipv4_new; unwind 8,
    c14_ipv4_set_payload_len = ipv4_set_payload_len; unwind 8,
    c14_ipv6_set_payload_length = ipv6_set_payload_length; unwind 20,
    c14_ip_headers_v4_set_payload_len = ip_headers_v4_set_payload_len; unwind 12,
    c14_ip_headers_v6_set_payload_len = ip_headers_v6_set_payload_len; unwind 20,
    c14_ip_headers_v6_overflow_value_type = ip_headers_v6_overflow_value_type; unwind 4,
    c14_udp_without_checksum = udp_without_checksum; unwind 4,
    c14_macsec_short_len = macsec_short_len; unwind 4,
    c14_macsec_set_payload_len = macsec_set_payload_len; unwind 20,
    c14_auth_new = auth_new; unwind 4,
    c14_auth_set_raw_icv = auth_set_raw_icv; unwind 4,
    c14_raw_ext_new = raw_ext_new; unwind 4,
    c14_raw_ext_set_payload = raw_ext_set_payload; unwind 4,
    c14_ipv4_options_try_from = ipv4_options_try_from; unwind 8,
    c14_tcp_options_try_from_slice = tcp_options_try_from_slice; unwind 42,
    c14_arp_new = arp_new; unwind 4,
    c14_arp_set_addrs = arp_set_addrs; unwind 4,
    c14_arp_new_encoded_max = arp_new_encoded_max; unwind 10,
    #[kani::stub(etherparse::checksum::u64_16bit_word::add_slice, g_add_slice)]
    #[kani::stub(etherparse::checksum::u64_16bit_word::add_2bytes, g_add2)]
    #[kani::stub(etherparse::checksum::u64_16bit_word::add_4bytes, g_add4)]
    #[kani::stub(etherparse::checksum::u64_16bit_word::add_8bytes, g_add8)]
    c14_udp_ipv4_slice = udp_ipv4_slice; unwind 21,
    #[kani::stub(etherparse::checksum::u64_16bit_word::add_slice, g_add_slice)]
    #[kani::stub(etherparse::checksum::u64_16bit_word::add_2bytes, g_add2)]
    #[kani::stub(etherparse::checksum::u64_16bit_word::add_4bytes, g_add4)]
    #[kani::stub(etherparse::checksum::u64_16bit_word::add_8bytes, g_add8)]
    c14_udp_ipv6_slice = udp_ipv6_slice; unwind 21,
    #[kani::stub(etherparse::checksum::u64_16bit_word::add_slice, g_add_slice)]
    #[kani::stub(etherparse::checksum::u64_16bit_word::add_2bytes, g_add2)]
    #[kani::stub(etherparse::checksum::u64_16bit_word::add_4bytes, g_add4)]
    #[kani::stub(etherparse::checksum::u64_16bit_word::add_8bytes, g_add8)]
    c14_tcp_header_ipv4 = tcp_header_ipv4; unwind 21,
    #[kani::stub(etherparse::checksum::u64_16bit_word::add_slice, g_add_slice)]
    #[kani::stub(etherparse::checksum::u64_16bit_word::add_2bytes, g_add2)]
    #[kani::stub(etherparse::checksum::u64_16bit_word::add_4bytes, g_add4)]
    #[kani::stub(etherparse::checksum::u64_16bit_word::add_8bytes, g_add8)]
    c14_tcp_header_ipv6 = tcp_header_ipv6; unwind 21,
    #[kani::stub(etherparse::checksum::u64_16bit_word::add_slice, g_add_slice)]
    #[kani::stub(etherparse::checksum::u64_16bit_word::add_2bytes, g_add2)]
    #[kani::stub(etherparse::checksum::u64_16bit_word::add_4bytes, g_add4)]
    #[kani::stub(etherparse::checksum::u64_16bit_word::add_8bytes, g_add8)]
    c14_tcp_slice_calc = tcp_slice_calc; unwind 21,
    #[kani::stub(etherparse::checksum::u64_16bit_word::add_slice, g_add_slice)]
    #[kani::stub(etherparse::checksum::u64_16bit_word::add_2bytes, g_add2)]
    #[kani::stub(etherparse::checksum::u64_16bit_word::add_4bytes, g_add4)]
    #[kani::stub(etherparse::checksum::u64_16bit_word::add_8bytes, g_add8)]
    c14_tcp_header_slice_calc = tcp_header_slice_calc; unwind 21,
    #[kani::stub(etherparse::checksum::u64_16bit_word::add_slice, g_add_slice)]
    #[kani::stub(etherparse::checksum::u64_16bit_word::add_2bytes, g_add2)]
    #[kani::stub(etherparse::checksum::u64_16bit_word::add_4bytes, g_add4)]
    #[kani::stub(etherparse::checksum::u64_16bit_word::add_8bytes, g_add8)]
    c14_icmpv6_calc = icmpv6_calc; unwind 21,
    #[kani::stub(etherparse::checksum::u64_16bit_word::add_slice, g_add_slice)]
    #[kani::stub(etherparse::checksum::u64_16bit_word::add_2bytes, g_add2)]
    #[kani::stub(etherparse::checksum::u64_16bit_word::add_4bytes, g_add4)]
    #[kani::stub(etherparse::checksum::u64_16bit_word::add_8bytes, g_add8)]
    c14_transport_update_checksum = transport_update_checksum; unwind 42,
    #[kani::stub(etherparse::checksum::u64_16bit_word::add_slice, g_add_slice)]
    #[kani::stub(etherparse::checksum::u64_16bit_word::add_2bytes, g_add2)]
    #[kani::stub(etherparse::checksum::u64_16bit_word::add_4bytes, g_add4)]
    #[kani::stub(etherparse::checksum::u64_16bit_word::add_8bytes, g_add8)]
    c14_builder_ipv4_udp = builder_ipv4_udp; unwind 41,
    #[kani::stub(etherparse::checksum::u64_16bit_word::add_slice, g_add_slice)]
    #[kani::stub(etherparse::checksum::u64_16bit_word::add_2bytes, g_add2)]
    #[kani::stub(etherparse::checksum::u64_16bit_word::add_4bytes, g_add4)]
    #[kani::stub(etherparse::checksum::u64_16bit_word::add_8bytes, g_add8)]
    c14_builder_ipv4_tcp = builder_ipv4_tcp; unwind 41,
    #[kani::stub(etherparse::checksum::u64_16bit_word::add_slice, g_add_slice)]
    #[kani::stub(etherparse::checksum::u64_16bit_word::add_2bytes, g_add2)]
    #[kani::stub(etherparse::checksum::u64_16bit_word::add_4bytes, g_add4)]
    #[kani::stub(etherparse::checksum::u64_16bit_word::add_8bytes, g_add8)]
    c14_builder_ipv4_icmpv4 = builder_ipv4_icmpv4; unwind 41,
}
