//! C14 harnesses (see /verif/DESIGN.md section 5).

crate::harnesses! {}
