//! Input source shared by the solver run and the native replay.
//!
//! Under `cfg(kani)` every value is a fresh `kani::any()`; natively the values come from a
//! tape (one entry per primitive `kani::any()` call, in call order - exactly the layout of
//! Kani's concrete playback), so that the *same harness body* that CBMC explored is what
//! re-executes a counterexample against the normally compiled crate.

#[cfg(not(kani))]
mod tape {
    use std::cell::RefCell;
    pub struct State {
        pub vals: Vec<Vec<u8>>,
        pub pos: usize,
        /// oracle self-validation mode: values behind the tape come from a PRNG, assume() unwinds
        pub fuzz: Option<u64>,
        pub drawn: Vec<Vec<u8>>,
    }
    thread_local! {
        pub static TAPE: RefCell<State> = RefCell::new(State { vals: Vec::new(), pos: 0, fuzz: None, drawn: Vec::new() });
    }
    pub fn load(v: Vec<Vec<u8>>) {
        TAPE.with(|t| *t.borrow_mut() = State { vals: v, pos: 0, fuzz: None, drawn: Vec::new() });
    }
    pub fn load_fuzz(seed: u64) {
        TAPE.with(|t| *t.borrow_mut() = State { vals: Vec::new(), pos: 0, fuzz: Some(seed | 1), drawn: Vec::new() });
    }
    pub fn drawn() -> Vec<Vec<u8>> {
        TAPE.with(|t| t.borrow().drawn.clone())
    }
    pub fn is_fuzz() -> bool {
        TAPE.with(|t| t.borrow().fuzz.is_some())
    }
    pub fn next(sz: usize) -> Vec<u8> {
        TAPE.with(|t| {
            let t = &mut *t.borrow_mut();
            let r = match t.vals.get(t.pos) {
                Some(e) => e.clone(),
                None => match &mut t.fuzz {
                    // tape exhausted: the solver did not care about the value
                    None => vec![0u8; sz],
                    Some(x) => {
                        let mut v = Vec::with_capacity(sz);
                        if sz == 8 {
                            // usize draws are lengths / counts / indices in the harnesses: keep them small
                            *x ^= *x << 13;
                            *x ^= *x >> 7;
                            *x ^= *x << 17;
                            let small = (*x >> 33) % 80;
                            v.extend_from_slice(&small.to_ne_bytes());
                        }
                        for _ in v.len()..sz {
                            *x ^= *x << 13;
                            *x ^= *x >> 7;
                            *x ^= *x << 17;
                            let b = (*x >> 24) as u8;
                            // bias towards small and boundary values (lengths, type bytes)
                            v.push(match (*x >> 40) % 8 {
                                0 => b % 8,
                                1 => b % 64,
                                2 => 0,
                                _ => b,
                            });
                        }
                        v
                    }
                },
            };
            t.pos += 1;
            if r.len() != sz {
                eprintln!("REPLAY-TAPE-MISMATCH: entry {} has {} bytes, harness asked for {}", t.pos - 1, r.len(), sz);
                std::process::exit(3);
            }
            t.drawn.push(r.clone());
            r
        })
    }
}
#[cfg(not(kani))]
pub use tape::{drawn, load_fuzz};
#[cfg(not(kani))]
pub use tape::load;

pub trait SymVal: Sized {
    fn sym() -> Self;
}

macro_rules! prim {
    ($($t:ty),*) => {$(
        impl SymVal for $t {
            #[cfg(kani)]
            #[inline(always)]
            fn sym() -> Self { kani::any() }
            #[cfg(not(kani))]
            fn sym() -> Self {
                let b = tape::next(core::mem::size_of::<$t>());
                let mut a = [0u8; core::mem::size_of::<$t>()];
                a.copy_from_slice(&b);
                <$t>::from_ne_bytes(a)
            }
        }
    )*};
}
prim!(u8, u16, u32, u64, usize, i8, i16, i32, i64);

impl SymVal for bool {
    fn sym() -> Self {
        let b: u8 = any();
        assume(b < 2);
        b == 1
    }
}

impl<const N: usize> SymVal for [u8; N] {
    #[cfg(kani)]
    #[inline(always)]
    fn sym() -> Self {
        kani::any()
    }
    #[cfg(not(kani))]
    fn sym() -> Self {
        let mut a = [0u8; N];
        for x in a.iter_mut() {
            *x = tape::next(1)[0];
        }
        a
    }
}

#[inline(always)]
pub fn any<T: SymVal>() -> T {
    T::sym()
}

/// `kani::assume`; natively a tape that violates an assumption is not a replay of anything.
#[inline(always)]
pub fn assume(c: bool) {
    #[cfg(kani)]
    kani::assume(c);
    #[cfg(not(kani))]
    if !c {
        if tape::is_fuzz() {
            std::panic::panic_any(AssumeViolated);
        }
        eprintln!("REPLAY-ASSUMPTION-VIOLATED");
        std::process::exit(3);
    }
}

#[cfg(not(kani))]
pub struct AssumeViolated;

/// Reachability witness (vacuity guard). The driver requires every witness SATISFIED.
#[macro_export]
macro_rules! witness {
    ($c:expr, $name:literal) => {{
        #[cfg(kani)]
        kani::cover!($c, $name);
        #[cfg(not(kani))]
        {
            if $c {
                $crate::sym::hit($name);
            }
        }
    }};
}

#[cfg(not(kani))]
pub fn hit(name: &str) {
    if !tape::is_fuzz() {
        println!("REPLAY-WITNESS {}", name);
    }
}

/// symbolic value `<= max`
pub fn any_le(max: usize) -> usize {
    let v: usize = any();
    assume(v <= max);
    v
}
