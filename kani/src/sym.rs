//! Input source shared by the solver run and the native replay.
//!
//! Under `cfg(kani)` every value is a fresh `kani::any()`; natively the values come from a
//! tape (one entry per primitive `kani::any()` call, in call order - exactly the layout of
//! Kani's concrete playback), so that the *same harness body* that CBMC explored is what
//! re-executes a counterexample against the normally compiled crate.

#[cfg(not(kani))]
mod tape {
    use std::cell::RefCell;
    thread_local! {
        pub static TAPE: RefCell<(Vec<Vec<u8>>, usize)> = RefCell::new((Vec::new(), 0));
    }
    pub fn load(v: Vec<Vec<u8>>) {
        TAPE.with(|t| *t.borrow_mut() = (v, 0));
    }
    pub fn next(sz: usize) -> Vec<u8> {
        TAPE.with(|t| {
            let t = &mut *t.borrow_mut();
            let r = match t.0.get(t.1) {
                Some(e) => e.clone(),
                // tape exhausted: the solver did not care about the value
                None => vec![0u8; sz],
            };
            t.1 += 1;
            if r.len() != sz {
                eprintln!("REPLAY-TAPE-MISMATCH: entry {} has {} bytes, harness asked for {}", t.1 - 1, r.len(), sz);
                std::process::exit(3);
            }
            r
        })
    }
}
#[cfg(not(kani))]
pub use tape::load;

pub trait SymVal: Sized {
    fn sym() -> Self;
}

macro_rules! prim {
    ($($t:ty),*) => {$(
        impl SymVal for $t {
            #[cfg(kani)]
            #[inline(always)]
            fn sym() -> Self { kani::any() }
            #[cfg(not(kani))]
            fn sym() -> Self {
                let b = tape::next(core::mem::size_of::<$t>());
                let mut a = [0u8; core::mem::size_of::<$t>()];
                a.copy_from_slice(&b);
                <$t>::from_ne_bytes(a)
            }
        }
    )*};
}
prim!(u8, u16, u32, u64, usize, i8, i16, i32, i64);

impl SymVal for bool {
    fn sym() -> Self {
        let b: u8 = any();
        assume(b < 2);
        b == 1
    }
}

impl<const N: usize> SymVal for [u8; N] {
    #[cfg(kani)]
    #[inline(always)]
    fn sym() -> Self {
        kani::any()
    }
    #[cfg(not(kani))]
    fn sym() -> Self {
        let mut a = [0u8; N];
        for x in a.iter_mut() {
            *x = tape::next(1)[0];
        }
        a
    }
}

#[inline(always)]
pub fn any<T: SymVal>() -> T {
    T::sym()
}

/// `kani::assume`; natively a tape that violates an assumption is not a replay of anything.
#[inline(always)]
pub fn assume(c: bool) {
    #[cfg(kani)]
    kani::assume(c);
    #[cfg(not(kani))]
    if !c {
        eprintln!("REPLAY-ASSUMPTION-VIOLATED");
        std::process::exit(3);
    }
}

/// Reachability witness (vacuity guard). The driver requires every witness SATISFIED.
#[macro_export]
macro_rules! witness {
    ($c:expr, $name:literal) => {{
        #[cfg(kani)]
        kani::cover!($c, $name);
        #[cfg(not(kani))]
        {
            if $c {
                $crate::sym::hit($name);
            }
        }
    }};
}

#[cfg(not(kani))]
pub fn hit(name: &str) {
    println!("REPLAY-WITNESS {}", name);
}

/// symbolic value `<= max`
pub fn any_le(max: usize) -> usize {
    let v: usize = any();
    assume(v <= max);
    v
}
