//! Harnesses that MUST fail: they exercise the driver's counterexample -> tape -> native
//! replay path (`/verif/check --selftest`). Never part of a property's harness set.
use crate::sym::{any, assume};

/// user assertion fails for exactly one input pair
pub fn fail_assert() {
    let a: u16 = any();
    let b: [u8; 3] = any();
    let c: bool = any();
    assume(a > 7);
    if a == 0x1234 && b[1] == 0x42 && c {
        assert!(b[0] == b[2], "selftest: deliberate failure");
    }
}

/// reads one byte behind an exact-size allocation (C01 class, only Kani/Miri/debug see it)
pub fn fail_oob() {
    let len = crate::sym::any_le(8);
    let buf = crate::tight::Tight::<8>::new(len);
    let s = buf.slice();
    if s.len() == 5 {
        let v = unsafe { *s.get_unchecked(5) };
        assert!(v == v);
    }
}

crate::harnesses! {
    selftest_fail_assert = fail_assert; unwind 10,
    selftest_fail_oob = fail_oob; unwind 10,
}
