//! C16 - I/O faults and short buffers surface as errors without partial garbage.
//!
//! Test doubles (the only hand written parts; the code under test is the real crate):
//!  * `FailAt<K>`: `std::io::Write` that accepts exactly `k` bytes (a write that does not fit is
//!    accepted partially - short write - and the next call reports the fault), reports the fault
//!    ONCE with a concrete `io::ErrorKind` and afterwards *accepts* everything again while
//!    remembering that it was called (`after`). A serialiser that swallows the error of one part
//!    and carries on is therefore seen twice: it reports success and it wrote behind the fault.
//!  * `FailRd<K>`: `std::io::Read + Seek` over a byte array that delivers exactly `k` bytes (short
//!    read allowed) and then reports the fault.
//!  * `TightMut<N>`: output slice in a heap object of *exactly* `len` bytes (symbolic `len`), so
//!    that any write outside the slice is outside the object and fails a CBMC pointer check.
//!
//! Oracle of every writer harness: the fault-free encoding is produced in the same harness by
//! the same real function into a writer that never fails; with fault position k
//!   k <  encoded_len: result is Err carrying the double's error kind, exactly k bytes were
//!                     accepted, they equal encoding[..k], nothing was offered after the fault;
//!   k == encoded_len: result is Ok and all bytes arrived.
//! No `io::Error` is ever dropped (its drop glue on symbolic state is very expensive for CBMC):
//! errors are inspected with `kind()` and then forgotten.

use crate::sym::{any, any_le, assume};
use crate::witness;
use etherparse::*;
use std::io;

// ------------------------------------------------------------------------------------------
// test doubles
// ------------------------------------------------------------------------------------------

/// the kind the writer double fails with
const WKIND: io::ErrorKind = io::ErrorKind::Other;
/// the kind the reader double fails with
const RKIND: io::ErrorKind = io::ErrorKind::Other;

pub struct FailAt<const K: usize> {
    /// bytes accepted before the fault (zero behind `pos`)
    pub buf: [u8; K],
    /// number of bytes accepted before the fault
    pub pos: usize,
    /// number of bytes the writer accepts before it fails (`k == K`: never fails)
    pub k: usize,
    /// the fault has been reported
    pub failed: bool,
    /// data was offered after the fault had been reported
    pub after: bool,
    /// more than K bytes were offered to a writer that never fails (capture buffer too small)
    pub overflow: bool,
}

impl<const K: usize> FailAt<K> {
    pub fn new(k: usize) -> Self {
        assert!(k <= K);
        FailAt { buf: [0u8; K], pos: 0, k, failed: false, after: false, overflow: false }
    }
    /// accept as much of `data` as the budget allows; returns the number of bytes accepted
    #[inline]
    fn put(&mut self, data: &[u8]) -> usize {
        let room = self.k - self.pos;
        let n = if data.len() < room { data.len() } else { room };
        self.buf[self.pos..self.pos + n].copy_from_slice(&data[..n]);
        self.pos += n;
        n
    }
}

#[inline]
fn wfault() -> io::Error {
    io::Error::from(WKIND)
}

impl<const K: usize> io::Write for FailAt<K> {
    /// short writes: the part that fits is accepted, the fault comes with the next call
    fn write(&mut self, data: &[u8]) -> io::Result<usize> {
        if data.is_empty() {
            return Ok(0);
        }
        if self.failed {
            self.after = true;
            return Ok(data.len());
        }
        if self.k == self.pos {
            if self.k == K {
                // infallible instance: the capture buffer is too small for the encoding
                self.overflow = true;
                return Ok(data.len());
            }
            self.failed = true;
            return Err(wfault());
        }
        Ok(self.put(data))
    }
    /// observably the default `write_all` (loop over `write`) without the loop and without the
    /// `ErrorKind::Interrupted` test of std on a symbolic error
    fn write_all(&mut self, data: &[u8]) -> io::Result<()> {
        if data.is_empty() {
            return Ok(());
        }
        if self.failed {
            self.after = true;
            return Ok(());
        }
        let n = self.put(data);
        if n < data.len() {
            if self.k == K {
                self.overflow = true;
                return Ok(());
            }
            self.failed = true;
            return Err(wfault());
        }
        Ok(())
    }
    fn flush(&mut self) -> io::Result<()> {
        Ok(())
    }
}

/// the error is the one the writer double produced; never runs the drop glue
fn is_wfault(e: io::Error) -> bool {
    let r = e.kind() == WKIND;
    core::mem::forget(e);
    r
}

/// Decides one writer: `run` serialises the same value into whatever writer it is given.
/// `L` = capture size >= encoded length, `len` = the encoded length the type announces.
fn fault_write<const L: usize, E, F, G>(len: usize, run: F, fault: G)
where
    F: Fn(&mut FailAt<L>) -> Result<(), E>,
    G: Fn(E) -> bool,
{
    assert!(len <= L);
    // fault-free encoding
    let mut full = FailAt::<L>::new(L);
    match run(&mut full) {
        Ok(()) => {}
        Err(e) => {
            core::mem::forget(e);
            panic!("C16: fault-free run must succeed");
        }
    }
    assert!(!full.failed && !full.overflow);
    assert!(full.pos == len, "C16: announced length is the number of bytes written");

    // fault after k bytes
    let k = any_le(L);
    assume(k <= len);
    let mut w = FailAt::<L>::new(k);
    let r = run(&mut w);
    witness!(k == 0, "fault_at_start");
    witness!(k > 0 && k < len, "fault_inside");
    witness!(k + 1 == len, "one_byte_short");
    witness!(k == len, "no_fault");
    if k < len {
        match r {
            Ok(()) => panic!("C16: the fault was swallowed (Ok returned)"),
            Err(e) => assert!(fault(e), "C16: the error returned is the writer's error"),
        }
        assert!(w.failed, "C16: fault reported");
        assert!(!w.after, "C16: nothing is written after the fault");
    } else {
        match r {
            Ok(()) => {}
            Err(e) => {
                core::mem::forget(e);
                panic!("C16: no fault, result must be Ok");
            }
        }
        assert!(!w.failed);
    }
    assert!(w.pos == k, "C16: exactly k bytes were accepted");
    // received bytes == first k bytes of the fault-free encoding (behind k: untouched zeroes)
    let mut i = 0;
    while i < L {
        if i < k {
            assert!(w.buf[i] == full.buf[i], "C16: received bytes are a prefix of the encoding");
        } else {
            assert!(w.buf[i] == 0);
        }
        i += 1;
    }
}

macro_rules! must_ok {
    ($e:expr) => {
        match $e {
            Ok(v) => v,
            Err(e) => {
                core::mem::forget(e);
                panic!("C16: value construction must succeed")
            }
        }
    };
}

fn any_bool() -> bool {
    any()
}

// ------------------------------------------------------------------------------------------
// symbolic header values (acceptance sets of the documented constructors, as in C08)
// ------------------------------------------------------------------------------------------

fn vlan_pcp() -> VlanPcp {
    let v: u8 = any();
    assume(v < 8);
    must_ok!(VlanPcp::try_new(v))
}
fn vlan_id() -> VlanId {
    let v: u16 = any();
    assume(v < (1 << 12));
    must_ok!(VlanId::try_new(v))
}
fn dscp() -> IpDscp {
    let v: u8 = any();
    assume(v < 64);
    must_ok!(IpDscp::try_new(v))
}
fn ecn() -> IpEcn {
    let v: u8 = any();
    assume(v < 4);
    must_ok!(IpEcn::try_new(v))
}
fn frag_offset() -> IpFragOffset {
    let v: u16 = any();
    assume(v < (1 << 13));
    must_ok!(IpFragOffset::try_new(v))
}
fn flow_label() -> Ipv6FlowLabel {
    let v: u32 = any();
    assume(v < (1 << 20));
    must_ok!(Ipv6FlowLabel::try_new(v))
}

fn eth2_header() -> Ethernet2Header {
    Ethernet2Header { source: any(), destination: any(), ether_type: EtherType(any()) }
}

fn vlan_header() -> SingleVlanHeader {
    SingleVlanHeader {
        pcp: vlan_pcp(),
        drop_eligible_indicator: any_bool(),
        vlan_id: vlan_id(),
        ether_type: EtherType(any()),
    }
}

fn udp_header() -> UdpHeader {
    UdpHeader { source_port: any(), destination_port: any(), length: any(), checksum: any() }
}

/// all field values; options of `words` * 4 bytes with arbitrary content
fn ipv4_header_w(words: usize) -> Ipv4Header {
    let data: [u8; 40] = any();
    let options: Ipv4Options = must_ok!(Ipv4Options::try_from(&data[..words * 4]));
    Ipv4Header {
        dscp: dscp(),
        ecn: ecn(),
        total_len: any(),
        identification: any(),
        dont_fragment: any_bool(),
        more_fragments: any_bool(),
        fragment_offset: frag_offset(),
        time_to_live: any(),
        protocol: IpNumber(any()),
        header_checksum: any(),
        source: any(),
        destination: any(),
        options,
    }
}

fn sll_header() -> LinuxSllHeader {
    let pt: u16 = any();
    assume(pt <= 7);
    let packet_type = must_ok!(LinuxSllPacketType::try_from(pt));
    let k: u8 = any();
    assume(k < 5);
    let v: u16 = any();
    // linux/if_arp.h: ARPHRD_NETLINK 824, ARPHRD_IPGRE 778, ARPHRD_IEEE80211_RADIOTAP 803,
    // ARPHRD_FRAD 770, ARPHRD_ETHER 1
    let (arp, proto) = match k {
        0 => (ArpHardwareId(824), LinuxSllProtocolType::NetlinkProtocolType(v)),
        1 => (ArpHardwareId(778), LinuxSllProtocolType::GenericRoutingEncapsulationProtocolType(v)),
        2 => (ArpHardwareId(803), LinuxSllProtocolType::Ignored(v)),
        3 => (ArpHardwareId(770), LinuxSllProtocolType::Ignored(v)),
        _ => (
            ArpHardwareId(1),
            match LinuxNonstandardEtherType::try_from(v) {
                Ok(n) => LinuxSllProtocolType::LinuxNonstandardEtherType(n),
                Err(()) => LinuxSllProtocolType::EtherType(EtherType(v)),
            },
        ),
    };
    LinuxSllHeader {
        packet_type,
        arp_hrd_type: arp,
        sender_address_valid_length: any(),
        sender_address: any(),
        protocol_type: proto,
    }
}

/// all four payload types, with/without SCI (header lengths 6, 8, 14, 16); `Unmodified` with
/// short length 1 is excluded (inconsistent value, see C08)
fn macsec_header() -> MacsecHeader {
    let k: u8 = any();
    assume(k < 4);
    let ptype = match k {
        0 => MacsecPType::Unmodified(EtherType(any())),
        1 => MacsecPType::Modified,
        2 => MacsecPType::Encrypted,
        _ => MacsecPType::EncryptedUnmodified,
    };
    let an: u8 = any();
    assume(an < 4);
    let sl: u8 = any();
    assume(sl < 64);
    assume(!(k == 0 && sl == 1));
    let has_sci = any_bool();
    let sci: u64 = any();
    MacsecHeader {
        ptype,
        endstation_id: any_bool(),
        scb: any_bool(),
        an: must_ok!(MacsecAn::try_new(an)),
        short_len: must_ok!(MacsecShortLen::try_from_u8(sl)),
        packet_nr: any(),
        sci: if has_sci { Some(sci) } else { None },
    }
}

fn ipv6_header() -> Ipv6Header {
    Ipv6Header {
        traffic_class: any(),
        flow_label: flow_label(),
        payload_length: any(),
        next_header: IpNumber(any()),
        hop_limit: any(),
        source: any(),
        destination: any(),
    }
}

fn ipv6_frag_header() -> Ipv6FragmentHeader {
    Ipv6FragmentHeader::new(IpNumber(any()), frag_offset(), any_bool(), any())
}

/// all field values; options of `words` * 4 bytes with arbitrary content
fn tcp_header_w(words: usize) -> TcpHeader {
    let data: [u8; 40] = any();
    let options = must_ok!(TcpOptions::try_from_slice(&data[..words * 4]));
    TcpHeader {
        source_port: any(),
        destination_port: any(),
        sequence_number: any(),
        acknowledgment_number: any(),
        ns: any_bool(),
        fin: any_bool(),
        syn: any_bool(),
        rst: any_bool(),
        psh: any_bool(),
        ack: any_bool(),
        urg: any_bool(),
        ece: any_bool(),
        cwr: any_bool(),
        window_size: any(),
        checksum: any(),
        urgent_pointer: any(),
        options,
    }
}

/// every value the decoder can produce (all variants, C08: decode . encode = id on them),
/// 8 byte messages and the 20 byte timestamp messages
fn icmpv4_header() -> Icmpv4Header {
    let b: [u8; 20] = any();
    let (h, _) = must_ok!(Icmpv4Header::from_slice(&b));
    h
}

/// every value the decoder can produce (all variants)
fn icmpv6_header() -> Icmpv6Header {
    let b: [u8; 8] = any();
    let (h, _) = must_ok!(Icmpv6Header::from_slice(&b));
    h
}

/// concrete ICV length of K words, after having held 8 bytes (stale bytes behind the ICV)
fn auth_header_k<const K: usize>() -> IpAuthHeader {
    let data: [u8; 8] = any();
    let mut h = must_ok!(IpAuthHeader::new(IpNumber(any()), any(), any(), &data));
    let data: [u8; 8] = any();
    must_ok!(h.set_raw_icv(&data[..4 * K]));
    h
}

/// ICV of 0, 4 or 8 bytes
fn auth_header() -> IpAuthHeader {
    let k = any_le(2);
    let data: [u8; 8] = any();
    must_ok!(IpAuthHeader::new(IpNumber(any()), any(), any(), &data[..4 * k]))
}

/// concrete length field K (payload 6 + 8 K bytes), after having held 14 bytes
fn raw_ext_k<const K: usize>() -> Ipv6RawExtHeader {
    let data: [u8; 14] = any();
    let mut h = must_ok!(Ipv6RawExtHeader::new_raw(IpNumber(any()), &data));
    let data: [u8; 14] = any();
    must_ok!(h.set_payload(&data[..6 + 8 * K]));
    h
}

/// concrete length field 0 (8 byte header)
fn raw_ext_0() -> Ipv6RawExtHeader {
    let data: [u8; 6] = any();
    must_ok!(Ipv6RawExtHeader::new_raw(IpNumber(any()), &data))
}

/// concrete address sizes (symbolic sizes exhaust CBMC's memory inside ArpPacket, see C08)
fn arp_fixed<const H: usize, const P: usize>() -> ArpPacket {
    let a: [u8; H] = any();
    let b: [u8; P] = any();
    let c: [u8; H] = any();
    let d: [u8; P] = any();
    must_ok!(ArpPacket::new(ArpHardwareId(any()), EtherType(any()), ArpOperation(any()), &a, &b, &c, &d))
}

// ------------------------------------------------------------------------------------------
// write: single part serialisers (one `write_all` of `to_bytes()`)
// ------------------------------------------------------------------------------------------

pub fn w_eth2() {
    let h = eth2_header();
    fault_write::<14, _, _, _>(h.header_len(), |w| h.write(w), is_wfault);
}

pub fn w_vlan() {
    let h = vlan_header();
    fault_write::<4, _, _, _>(h.header_len(), |w| h.write(w), is_wfault);
}

pub fn w_sll() {
    let h = sll_header();
    fault_write::<16, _, _, _>(h.header_len(), |w| h.write(w), is_wfault);
}

pub fn w_macsec() {
    let h = macsec_header();
    let hl = h.header_len();
    witness!(hl == 6, "len_6");
    witness!(hl == 16, "len_16");
    fault_write::<16, _, _, _>(hl, |w| h.write(w), is_wfault);
}

/// LinkHeader dispatches to the two link headers
pub fn w_link_header() {
    let h = if any_bool() { LinkHeader::Ethernet2(eth2_header()) } else { LinkHeader::LinuxSll(sll_header()) };
    witness!(matches!(h, LinkHeader::LinuxSll(_)), "sll");
    witness!(matches!(h, LinkHeader::Ethernet2(_)), "eth2");
    fault_write::<16, _, _, _>(h.header_len(), |w| h.write(w), is_wfault);
}

pub fn w_arp_6_4() {
    let h = arp_fixed::<6, 4>();
    fault_write::<28, _, _, _>(h.packet_len(), |w| h.write(w), is_wfault);
}

pub fn w_ipv6() {
    let h = ipv6_header();
    fault_write::<40, _, _, _>(h.header_len(), |w| h.write(w), is_wfault);
}

pub fn w_ipv6_frag() {
    let h = ipv6_frag_header();
    fault_write::<8, _, _, _>(h.header_len(), |w| h.write(w), is_wfault);
}

pub fn w_udp() {
    let h = udp_header();
    fault_write::<8, _, _, _>(h.header_len(), |w| h.write(w), is_wfault);
}

/// the std default `write_all` loop over `write` (short write, then the error) instead of the
/// double's own `write_all`: same observable behaviour
pub struct ViaWrite<'a, const K: usize>(pub &'a mut FailAt<K>);
impl<'a, const K: usize> io::Write for ViaWrite<'a, K> {
    fn write(&mut self, data: &[u8]) -> io::Result<usize> {
        self.0.write(data)
    }
    fn flush(&mut self) -> io::Result<()> {
        Ok(())
    }
}

pub fn w_udp_std_loop() {
    let h = udp_header();
    fault_write::<8, _, _, _>(h.header_len(), |w| h.write(&mut ViaWrite(w)), is_wfault);
}

pub fn w_icmpv4() {
    let h = icmpv4_header();
    let hl = h.header_len();
    witness!(hl == 20, "timestamp");
    witness!(hl == 8, "short");
    fault_write::<20, _, _, _>(hl, |w| h.write(w), is_wfault);
}

pub fn w_icmpv6() {
    let h = icmpv6_header();
    fault_write::<8, _, _, _>(h.header_len(), |w| h.write(w), is_wfault);
}

// ------------------------------------------------------------------------------------------
// write: multi part serialisers (a fault can hit inside every part and exactly between parts)
// ------------------------------------------------------------------------------------------

/// IPv4: 20 byte base header and options are two separate writes; `write` computes the checksum
fn w_ipv4_case(words: usize) {
    let h = ipv4_header_w(words);
    let raw = any_bool();
    witness!(raw, "write_raw");
    witness!(!raw, "write");
    fault_write::<28, _, _, _>(h.header_len(), |w| if raw { h.write_raw(w) } else { h.write(w) }, is_wfault);
}
pub fn w_ipv4_opt0() {
    w_ipv4_case(0)
}
pub fn w_ipv4_opt4() {
    w_ipv4_case(1)
}
pub fn w_ipv4_opt8() {
    w_ipv4_case(2)
}

/// TCP: 20 byte base header and options are two separate writes
pub fn w_tcp() {
    let words = any_le(2);
    let h = tcp_header_w(words);
    witness!(words == 0, "no_options");
    witness!(words == 2, "options");
    fault_write::<28, _, _, _>(h.header_len(), |w| h.write(w), is_wfault);
}

/// authentication header: 12 fixed bytes, then the ICV
pub fn w_auth() {
    let h = auth_header();
    let hl = h.header_len();
    witness!(hl == 12, "icv_0");
    witness!(hl == 20, "icv_8");
    fault_write::<20, _, _, _>(hl, |w| h.write(w), is_wfault);
}

/// generic IPv6 extension header: 2 fixed bytes, then the payload (payload length concrete per
/// harness: a symbolic copy length into the 2046 byte buffer exhausts CBMC's memory)
pub fn w_raw_ext_8() {
    let h = raw_ext_k::<0>();
    fault_write::<8, _, _, _>(h.header_len(), |w| h.write(w), is_wfault);
}
pub fn w_raw_ext_16() {
    let h = raw_ext_k::<1>();
    fault_write::<16, _, _, _>(h.header_len(), |w| h.write(w), is_wfault);
}

/// TransportHeader dispatches to the four transport headers
pub fn w_transport_header() {
    let k: u8 = any();
    assume(k < 4);
    let h = match k {
        0 => TransportHeader::Udp(udp_header()),
        1 => TransportHeader::Tcp(tcp_header_w(any_le(1))),
        2 => TransportHeader::Icmpv4(icmpv4_header()),
        _ => TransportHeader::Icmpv6(icmpv6_header()),
    };
    witness!(k == 0, "udp");
    witness!(k == 1, "tcp");
    witness!(k == 2, "icmpv4");
    witness!(k == 3, "icmpv6");
    fault_write::<24, _, _, _>(h.header_len(), |w| h.write(w), is_wfault);
}

fn is_wfault_v6exts(e: err::ipv6_exts::HeaderWriteError) -> bool {
    let r = match &e {
        err::ipv6_exts::HeaderWriteError::Io(e) => e.kind() == WKIND,
        _ => false,
    };
    core::mem::forget(e);
    r
}
fn is_wfault_ip(e: err::ip::HeadersWriteError) -> bool {
    let r = match &e {
        err::ip::HeadersWriteError::Io(e) => e.kind() == WKIND,
        _ => false,
    };
    core::mem::forget(e);
    r
}

/// IpHeaders, IPv4 variant without extension header: base header, options
pub fn w_ip_headers_v4_opt0() {
    let v = IpHeaders::Ipv4(ipv4_header_w(0), Ipv4Extensions { auth: None });
    fault_write::<20, _, _, _>(v.header_len(), |w| v.write(w), is_wfault_ip);
}

const UDP_NR: IpNumber = IpNumber(17);

/// Ipv6Extensions chain: fragment -> UDP
pub fn w_ipv6_exts_frag() {
    let mut v = Ipv6Extensions { fragment: Some(ipv6_frag_header()), ..Default::default() };
    let first = v.set_next_headers(UDP_NR);
    fault_write::<8, _, _, _>(v.header_len(), |w| v.write(w, first), is_wfault_v6exts);
}

/// Ipv6Extensions chain: hop-by-hop (8 bytes) -> fragment -> UDP: fault inside each member and
/// exactly between them
pub fn w_ipv6_exts_hbh_frag() {
    let mut v = Ipv6Extensions {
        hop_by_hop_options: Some(raw_ext_0()),
        fragment: Some(ipv6_frag_header()),
        ..Default::default()
    };
    let first = v.set_next_headers(UDP_NR);
    fault_write::<16, _, _, _>(v.header_len(), |w| v.write(w, first), is_wfault_v6exts);
}

/// Ipv6Extensions chain: routing (8 bytes) -> final destination options (8 bytes) -> UDP (the
/// `route_written` branch of the walk)
pub fn w_ipv6_exts_route_fdest() {
    let mut v = Ipv6Extensions {
        routing: Some(Ipv6RoutingExtensions { routing: raw_ext_0(), final_destination_options: Some(raw_ext_0()) }),
        ..Default::default()
    };
    let first = v.set_next_headers(UDP_NR);
    fault_write::<16, _, _, _>(v.header_len(), |w| v.write(w, first), is_wfault_v6exts);
}

// ------------------------------------------------------------------------------------------
// read: reader that fails after k bytes
// ------------------------------------------------------------------------------------------

/// counters of the reader double, observable while the reader itself is mutably borrowed
pub struct RdStat {
    /// bytes delivered so far
    pub pos: core::cell::Cell<usize>,
    /// the fault has been reported
    pub failed: core::cell::Cell<bool>,
    /// a read was attempted after the fault had been reported
    pub after: core::cell::Cell<bool>,
}
impl RdStat {
    pub fn new() -> Self {
        RdStat { pos: core::cell::Cell::new(0), failed: core::cell::Cell::new(false), after: core::cell::Cell::new(false) }
    }
}

/// delivers exactly the first `k` bytes of `data` (short read allowed), then reports the fault
/// once; later reads are recorded (`after`) and "succeed" without touching the buffer
pub struct FailRd<'a, const K: usize> {
    data: [u8; K],
    k: usize,
    st: &'a RdStat,
}

impl<'a, const K: usize> FailRd<'a, K> {
    pub fn new(data: &[u8; K], k: usize, st: &'a RdStat) -> Self {
        assert!(k <= K);
        FailRd { data: *data, k, st }
    }
    #[inline]
    fn take(&mut self, buf: &mut [u8]) -> usize {
        let pos = self.st.pos.get();
        let room = self.k - pos;
        let n = if buf.len() < room { buf.len() } else { room };
        buf[..n].copy_from_slice(&self.data[pos..pos + n]);
        self.st.pos.set(pos + n);
        n
    }
}

#[inline]
fn rfault() -> io::Error {
    io::Error::from(RKIND)
}

impl<'a, const K: usize> io::Read for FailRd<'a, K> {
    fn read(&mut self, buf: &mut [u8]) -> io::Result<usize> {
        if buf.is_empty() {
            return Ok(0);
        }
        if self.st.failed.get() {
            self.st.after.set(true);
            return Ok(buf.len());
        }
        if self.st.pos.get() == self.k {
            self.st.failed.set(true);
            return Err(rfault());
        }
        Ok(self.take(buf))
    }
    /// observably the default `read_exact` (loop over `read`) without the loop
    fn read_exact(&mut self, buf: &mut [u8]) -> io::Result<()> {
        if buf.is_empty() {
            return Ok(());
        }
        if self.st.failed.get() {
            self.st.after.set(true);
            return Ok(());
        }
        let n = self.take(buf);
        if n < buf.len() {
            self.st.failed.set(true);
            return Err(rfault());
        }
        Ok(())
    }
}

impl<'a, const K: usize> io::Seek for FailRd<'a, K> {
    fn seek(&mut self, _: io::SeekFrom) -> io::Result<u64> {
        Ok(self.st.pos.get() as u64)
    }
}

fn is_rfault(e: &io::Error) -> bool {
    e.kind() == RKIND
}

/// the fault-free encoding of a value: the real `write` into a writer that never fails
fn encode<const L: usize, E, F: Fn(&mut FailAt<L>) -> Result<(), E>>(run: F) -> ([u8; L], usize) {
    let mut full = FailAt::<L>::new(L);
    match run(&mut full) {
        Ok(()) => {}
        Err(e) => {
            core::mem::forget(e);
            panic!("C16: fault-free run must succeed");
        }
    }
    assert!(!full.failed && !full.overflow);
    (full.buf, full.pos)
}

/// Decides one decoder: the reader holds the `len` byte encoding of a well formed value and
/// fails after k <= len bytes.
///   k <  len: Err carrying the reader's error (never Ok, never a content error: the bytes
///             delivered are the beginning of a valid header), all k bytes were pulled;
///   k == len: Ok, exactly len bytes pulled.
fn fault_read<const L: usize, T, E, F, G>(enc: &[u8; L], len: usize, run: F, fault: G)
where
    F: Fn(&mut FailRd<L>) -> Result<T, E>,
    G: Fn(&E) -> bool,
{
    assert!(len <= L);
    let k = any_le(L);
    assume(k <= len);
    let st = RdStat::new();
    let mut r = FailRd::<L>::new(enc, k, &st);
    let res = run(&mut r);
    witness!(k == 0, "fault_at_start");
    witness!(k > 0 && k < len, "fault_inside");
    witness!(k + 1 == len, "one_byte_short");
    witness!(k == len, "no_fault");
    if k < len {
        match res {
            Ok(v) => {
                core::mem::forget(v);
                panic!("C16: the fault was swallowed (Ok returned)");
            }
            Err(e) => {
                assert!(fault(&e), "C16: the error returned is the reader's error");
                core::mem::forget(e);
            }
        }
        assert!(st.failed.get(), "C16: fault reported");
        assert!(!st.after.get(), "C16: nothing is read after the fault");
        assert!(st.pos.get() == k);
    } else {
        match res {
            Ok(v) => core::mem::forget(v),
            Err(e) => {
                core::mem::forget(e);
                panic!("C16: no fault, result must be Ok");
            }
        }
        assert!(!st.failed.get());
        assert!(st.pos.get() == len, "C16: exactly the header is consumed");
    }
}

pub fn r_eth2() {
    let h = eth2_header();
    let (enc, len) = encode::<14, _, _>(|w| h.write(w));
    fault_read(&enc, len, |r| Ethernet2Header::read(r), is_rfault);
}

pub fn r_vlan() {
    let h = vlan_header();
    let (enc, len) = encode::<4, _, _>(|w| h.write(w));
    fault_read(&enc, len, |r| SingleVlanHeader::read(r), is_rfault);
}

pub fn r_sll() {
    let h = sll_header();
    let (enc, len) = encode::<16, _, _>(|w| h.write(w));
    fault_read(&enc, len, |r| LinuxSllHeader::read(r), |e| match e {
        err::ReadError::Io(e) => is_rfault(e),
        _ => false,
    });
}

/// MACsec: 6 bytes, then 2 / 8 / 10 more depending on the first byte
pub fn r_macsec() {
    let h = macsec_header();
    let (enc, len) = encode::<16, _, _>(|w| h.write(w));
    witness!(len == 6, "len_6");
    witness!(len == 16, "len_16");
    fault_read(&enc, len, |r| MacsecHeader::read(r), |e| match e {
        err::macsec::HeaderReadError::Io(e) => is_rfault(e),
        _ => false,
    });
}

/// ARP: 8 fixed bytes, then four address fields read one by one
pub fn r_arp_6_4() {
    let h = arp_fixed::<6, 4>();
    let (enc, len) = encode::<28, _, _>(|w| h.write(w));
    fault_read(&enc, len, |r| ArpPacket::read(r), is_rfault);
}

/// IPv4: version byte, 19 bytes, options
fn r_ipv4_case(words: usize) {
    let h = ipv4_header_w(words);
    let (enc, len) = encode::<28, _, _>(|w| h.write_raw(w));
    fault_read(&enc, len, |r| Ipv4Header::read(r), |e| match e {
        err::ipv4::HeaderReadError::Io(e) => is_rfault(e),
        _ => false,
    });
}
pub fn r_ipv4_opt0() {
    r_ipv4_case(0)
}
pub fn r_ipv4_opt8() {
    r_ipv4_case(2)
}

/// IPv6: version byte, then 39 bytes
pub fn r_ipv6() {
    let h = ipv6_header();
    let (enc, len) = encode::<40, _, _>(|w| h.write(w));
    fault_read(&enc, len, |r| Ipv6Header::read(r), |e| match e {
        err::ipv6::HeaderReadError::Io(e) => is_rfault(e),
        _ => false,
    });
}

pub fn r_ipv6_frag() {
    let h = ipv6_frag_header();
    let (enc, len) = encode::<8, _, _>(|w| h.write(w));
    fault_read(&enc, len, |r| Ipv6FragmentHeader::read(r), is_rfault);
}

/// generic extension header: 2 bytes, then the payload
pub fn r_raw_ext_16() {
    let h = raw_ext_k::<1>();
    let (enc, len) = encode::<16, _, _>(|w| h.write(w));
    fault_read(&enc, len, |r| Ipv6RawExtHeader::read(r), is_rfault);
}

/// authentication header: 12 bytes, then the ICV
pub fn r_auth() {
    let h = auth_header();
    let (enc, len) = encode::<20, _, _>(|w| h.write(w));
    witness!(len == 12, "icv_0");
    witness!(len == 20, "icv_8");
    fault_read(&enc, len, |r| IpAuthHeader::read(r), |e| match e {
        err::ip_auth::HeaderReadError::Io(e) => is_rfault(e),
        _ => false,
    });
}

/// Ipv4Extensions announced by protocol number 51: one authentication header
pub fn r_ipv4_exts_auth() {
    let h = auth_header_k::<1>();
    let (enc, len) = encode::<16, _, _>(|w| h.write(w));
    fault_read(&enc, len, |r| Ipv4Extensions::read(r, IpNumber(51)), |e| match e {
        err::ip_auth::HeaderReadError::Io(e) => is_rfault(e),
        _ => false,
    });
}

pub fn r_udp() {
    let h = udp_header();
    let (enc, len) = encode::<8, _, _>(|w| h.write(w));
    fault_read(&enc, len, |r| UdpHeader::read(r), is_rfault);
}

/// TCP: 20 bytes, then the options
pub fn r_tcp() {
    let words = any_le(2);
    let h = tcp_header_w(words);
    let (enc, len) = encode::<28, _, _>(|w| h.write(w));
    witness!(len == 20, "no_options");
    witness!(len == 28, "options");
    fault_read(&enc, len, |r| TcpHeader::read(r), |e| match e {
        err::tcp::HeaderReadError::Io(e) => is_rfault(e),
        _ => false,
    });
}

/// ICMPv4: 8 bytes, timestamp messages 12 more
pub fn r_icmpv4() {
    let h = icmpv4_header();
    let (enc, len) = encode::<20, _, _>(|w| h.write(w));
    witness!(len == 20, "timestamp");
    witness!(len == 8, "short");
    fault_read(&enc, len, |r| Icmpv4Header::read(r), is_rfault);
}

pub fn r_icmpv6() {
    let h = icmpv6_header();
    let (enc, len) = encode::<8, _, _>(|w| h.write(w));
    fault_read(&enc, len, |r| Icmpv6Header::read(r), is_rfault);
}

// ------------------------------------------------------------------------------------------
// LimitedReader
// ------------------------------------------------------------------------------------------

const LR_DATA: usize = 12;
const LR_BUF: usize = 5;

/// Any limit, an inner reader holding 12 bytes that fails after k of them, up to three
/// `read_exact` calls of symbolic sizes 0..=5 with an optional `start_layer` before each:
/// the inner reader never delivers more than the limit; a request over the remaining budget
/// is refused with a length error *before* anything is pulled; otherwise the call is the inner
/// reader's (bytes or its fault).
pub fn limited_reader() {
    use etherparse::err::io::LimitedReadError;
    use etherparse::err::Layer;
    use etherparse::io::LimitedReader;
    let data: [u8; LR_DATA] = any();
    let k = any_le(LR_DATA);
    let st = RdStat::new();
    let inner = FailRd::<LR_DATA>::new(&data, k, &st);
    let limit: usize = any();
    let offset: usize = any();
    assume(offset <= u32::MAX as usize);
    let mut lr = LimitedReader::new(inner, limit, LenSource::Ipv6HeaderPayloadLen, offset, Layer::Ipv6Header);
    // model: budget of the current layer, bytes read inside the current layer
    let mut budget = limit;
    let mut in_layer = 0usize;
    let mut call = 0;
    while call < 3 {
        if any_bool() {
            lr.start_layer(Layer::Ipv6ExtHeader);
            budget -= in_layer;
            in_layer = 0;
            witness!(call > 0, "start_layer_after_read");
        }
        let n = any_le(LR_BUF);
        let mut buf = [0u8; LR_BUF];
        let before = st.pos.get();
        let res = lr.read_exact(&mut buf[..n]);
        let after = st.pos.get();
        assert!(after <= limit, "C16: never more bytes pulled than the limit allows");
        if n > budget - in_layer {
            witness!(true, "len_error");
            witness!(n == budget - in_layer + 1, "len_error_one_over");
            witness!(call == 2 && before > 0, "len_error_after_reads");
            match res {
                Err(LimitedReadError::Len(e)) => {
                    assert!(e.required_len == in_layer + n);
                    assert!(e.len == budget);
                }
                other => {
                    core::mem::forget(other);
                    panic!("C16: a request over the limit is a length error");
                }
            }
            assert!(after == before, "C16: the limit is checked before anything is pulled");
        } else if n > k - before {
            witness!(true, "io_error");
            match res {
                Err(LimitedReadError::Io(e)) => {
                    assert!(is_rfault(&e));
                    core::mem::forget(e);
                }
                other => {
                    core::mem::forget(other);
                    panic!("C16: the inner reader's fault is reported");
                }
            }
            assert!(after == k);
            assert!(!st.after.get());
            // the state of a reader after an I/O error is unspecified: end of the sequence
            core::mem::forget(lr);
            return;
        } else {
            match res {
                Ok(()) => {}
                Err(e) => {
                    core::mem::forget(e);
                    panic!("C16: request inside limit and data must succeed");
                }
            }
            assert!(after == before + n);
            let mut j = 0;
            while j < LR_BUF {
                if j < n {
                    assert!(buf[j] == data[before + j]);
                }
                j += 1;
            }
            in_layer += n;
            witness!(call == 2 && after == limit && limit > 0, "limit_exactly_used");
        }
        call += 1;
    }
    let inner = lr.take_reader();
    assert!(st.pos.get() <= limit);
    core::mem::forget(inner);
}

/// `read_limited` of the three extension header types: limit m and fault position k both
/// symbolic. Ok iff both allow the whole header; limit not binding -> the reader's error;
/// no fault -> length error; never more than min(m, k) bytes pulled.
fn fault_read_limited<const L: usize, T, E, F, G>(enc: &[u8; L], len: usize, run: F, classify: G)
where
    F: Fn(&mut etherparse::io::LimitedReader<FailRd<L>>) -> Result<T, E>,
    G: Fn(&E) -> u8, // 1 = the reader's I/O error, 2 = length error, 0 = anything else
{
    use etherparse::err::Layer;
    assert!(len <= L);
    let k = any_le(L);
    assume(k <= len);
    let m = any_le(L + 1);
    assume(m <= len + 1);
    let st = RdStat::new();
    let inner = FailRd::<L>::new(enc, k, &st);
    let mut lr = etherparse::io::LimitedReader::new(inner, m, LenSource::Ipv6HeaderPayloadLen, 40, Layer::Ipv6Header);
    let res = run(&mut lr);
    witness!(k < len && m >= len, "fault_only");
    witness!(k == len && m < len, "limit_only");
    witness!(k == len && m + 1 == len, "limit_one_short");
    witness!(k < len && m < len, "both");
    witness!(k == len && m > len, "neither");
    match res {
        Ok(v) => {
            core::mem::forget(v);
            assert!(k == len && m >= len, "C16: Ok only if limit and reader allow the whole header");
            assert!(st.pos.get() == len);
        }
        Err(e) => {
            let c = classify(&e);
            core::mem::forget(e);
            assert!(k < len || m < len, "C16: nothing in the way, result must be Ok");
            assert!(c == 1 || c == 2, "C16: I/O or length error");
            if m >= len {
                assert!(c == 1, "C16: limit not binding: the reader's error");
            }
            if k == len {
                assert!(c == 2, "C16: no fault: length error");
            }
            if c == 2 {
                assert!(!st.failed.get());
            }
        }
    }
    assert!(st.pos.get() <= m, "C16: never more bytes pulled than the limit allows");
    assert!(!st.after.get());
    core::mem::forget(lr);
}

fn classify_limited(e: &etherparse::err::io::LimitedReadError) -> u8 {
    match e {
        etherparse::err::io::LimitedReadError::Io(e) => {
            if is_rfault(e) {
                1
            } else {
                0
            }
        }
        etherparse::err::io::LimitedReadError::Len(l) => {
            if l.required_len > l.len {
                2
            } else {
                0
            }
        }
    }
}

pub fn rl_ipv6_frag() {
    let h = ipv6_frag_header();
    let (enc, len) = encode::<8, _, _>(|w| h.write(w));
    fault_read_limited(&enc, len, |r| Ipv6FragmentHeader::read_limited(r), classify_limited);
}

pub fn rl_raw_ext_16() {
    let h = raw_ext_k::<1>();
    let (enc, len) = encode::<16, _, _>(|w| h.write(w));
    fault_read_limited(&enc, len, |r| Ipv6RawExtHeader::read_limited(r), classify_limited);
}

pub fn rl_auth() {
    let h = auth_header();
    let (enc, len) = encode::<20, _, _>(|w| h.write(w));
    fault_read_limited(&enc, len, |r| IpAuthHeader::read_limited(r), |e| match e {
        err::ip_auth::HeaderLimitedReadError::Io(e) => {
            if is_rfault(e) {
                1
            } else {
                0
            }
        }
        err::ip_auth::HeaderLimitedReadError::Len(l) => {
            if l.required_len > l.len {
                2
            } else {
                0
            }
        }
        _ => 0,
    });
}

// ------------------------------------------------------------------------------------------
// write_to_slice: output slice of symbolic length in an object of exactly that size
// ------------------------------------------------------------------------------------------

/// `len <= N` symbolic bytes in a heap object of exactly `len` bytes, handed out mutably; a
/// write outside the slice is outside the object (CBMC pointer check). `orig` keeps the
/// initial content.
pub struct TightMut<const N: usize> {
    ptr: *mut u8,
    len: usize,
    pub orig: [u8; N],
}

impl<const N: usize> TightMut<N> {
    pub fn new(len: usize) -> Self {
        use std::alloc::{alloc, Layout};
        assume(len <= N);
        let orig: [u8; N] = any();
        if len == 0 {
            return TightMut { ptr: core::ptr::NonNull::<u8>::dangling().as_ptr(), len: 0, orig };
        }
        let ptr = unsafe { alloc(Layout::from_size_align(len, 1).unwrap()) };
        assume(!ptr.is_null());
        unsafe { core::ptr::copy_nonoverlapping(orig.as_ptr(), ptr, len) };
        TightMut { ptr, len, orig }
    }
    pub fn base(&self) -> usize {
        self.ptr as usize
    }
    pub fn slice_mut(&mut self) -> &mut [u8] {
        unsafe { core::slice::from_raw_parts_mut(self.ptr, self.len) }
    }
    pub fn slice(&self) -> &[u8] {
        unsafe { core::slice::from_raw_parts(self.ptr, self.len) }
    }
    /// Ok case: the first `n` bytes are the encoding, everything behind is untouched
    pub fn check_written(&self, enc: &[u8], n: usize) {
        assert!(n <= self.len);
        let out = self.slice();
        let mut i = 0;
        while i < N {
            if i < n {
                assert!(out[i] == enc[i], "C16: the slice starts with the encoding");
            } else if i < self.len {
                assert!(out[i] == self.orig[i], "C16: bytes behind the encoding are untouched");
            }
            i += 1;
        }
    }
    /// Err case: what was written before the fault is a prefix of the encoding, i.e. there is a
    /// j with out[..j] == enc[..j] and out[j..] untouched
    pub fn check_prefix(&self, enc: &[u8]) {
        let out = self.slice();
        let mut in_prefix = true;
        let mut i = 0;
        while i < N {
            if i < self.len {
                if in_prefix && i < enc.len() && out[i] == enc[i] {
                    // written (or untouched and equal by coincidence)
                } else {
                    in_prefix = false;
                    assert!(out[i] == self.orig[i], "C16: behind the written prefix nothing is touched");
                }
            }
            i += 1;
        }
    }
}

impl<const N: usize> Drop for TightMut<N> {
    fn drop(&mut self) {
        if self.len != 0 {
            unsafe { std::alloc::dealloc(self.ptr, std::alloc::Layout::from_size_align(self.len, 1).unwrap()) }
        }
    }
}

pub fn slice_eth2() {
    use etherparse::err::Layer;
    let h = eth2_header();
    // fault-free: the same function into a slice that is large enough
    let mut big = [0u8; 15];
    let rest = must_ok!(h.write_to_slice(&mut big)).len();
    let need = 15 - rest;
    assert!(need == h.header_len());
    let len = any_le(need + 1);
    let mut t = TightMut::<15>::new(len);
    let base = t.base();
    witness!(len == 0, "empty_slice");
    witness!(len + 1 == need, "one_byte_short");
    witness!(len == need, "exact");
    witness!(len == need + 1, "one_byte_more");
    match h.write_to_slice(t.slice_mut()) {
        Ok(rest) => {
            assert!(len >= need, "C16: too short a slice must not report success");
            assert!(rest.len() == len - need);
            assert!(rest.as_ptr() as usize == base + need, "C16: the unused part follows the header");
            t.check_written(&big, need);
        }
        Err(e) => {
            assert!(len < need, "C16: the slice is large enough");
            assert!(e.required_len == need, "C16: space error states the real required length");
            assert!(e.len == len);
            assert!(e.layer == Layer::Ethernet2Header);
            assert!(e.layer_start_offset == 0);
            t.check_prefix(&big[..need]);
        }
    }
}

pub fn slice_sll() {
    use etherparse::err::Layer;
    let h = sll_header();
    let mut big = [0u8; 17];
    let rest = must_ok!(h.write_to_slice(&mut big)).len();
    let need = 17 - rest;
    assert!(need == h.header_len());
    let len = any_le(need + 1);
    let mut t = TightMut::<17>::new(len);
    let base = t.base();
    witness!(len == 0, "empty_slice");
    witness!(len + 1 == need, "one_byte_short");
    witness!(len == need, "exact");
    witness!(len == need + 1, "one_byte_more");
    match h.write_to_slice(t.slice_mut()) {
        Ok(rest) => {
            assert!(len >= need, "C16: too short a slice must not report success");
            assert!(rest.len() == len - need);
            assert!(rest.as_ptr() as usize == base + need, "C16: the unused part follows the header");
            t.check_written(&big, need);
        }
        Err(e) => {
            assert!(len < need, "C16: the slice is large enough");
            assert!(e.required_len == need, "C16: space error states the real required length");
            assert!(e.len == len);
            assert!(e.layer == Layer::LinuxSllHeader);
            assert!(e.layer_start_offset == 0);
            t.check_prefix(&big[..need]);
        }
    }
}

/// canary twin: the output slice sits at a symbolic offset inside a larger array; every byte
/// outside the slice keeps its value
pub fn slice_eth2_embedded() {
    let h = eth2_header();
    let enc = h.to_bytes();
    let mut arr: [u8; 32] = any();
    let orig = arr;
    let off = any_le(8);
    let len = any_le(15);
    let ok = h.write_to_slice(&mut arr[off..off + len]).is_ok();
    witness!(ok && off > 0 && len == 15, "ok_with_surroundings");
    witness!(!ok && len == 13, "one_byte_short");
    assert!(ok == (len >= 14));
    let mut i = 0;
    while i < 32 {
        if ok && i >= off && i < off + 14 {
            assert!(arr[i] == enc[i - off]);
        } else if !ok && i >= off && i < off + len {
            assert!(arr[i] == orig[i] || arr[i] == enc[i - off]);
        } else {
            assert!(arr[i] == orig[i], "C16: canary bytes around the slice are untouched");
        }
        i += 1;
    }
}

// ------------------------------------------------------------------------------------------
// PacketBuilder
// ------------------------------------------------------------------------------------------

const PAY: usize = 4;

/// parameters of Ethernet II + IPv4 + UDP (the builder is consumed by `write`, so it is rebuilt
/// from the same values for every run)
#[derive(Clone, Copy)]
struct EthV4Udp {
    mac_s: [u8; 6],
    mac_d: [u8; 6],
    ip_s: [u8; 4],
    ip_d: [u8; 4],
    ttl: u8,
    sp: u16,
    dp: u16,
}
impl EthV4Udp {
    fn any() -> Self {
        EthV4Udp { mac_s: any(), mac_d: any(), ip_s: any(), ip_d: any(), ttl: any(), sp: any(), dp: any() }
    }
    fn builder(&self) -> PacketBuilderStep<UdpHeader> {
        PacketBuilder::ethernet2(self.mac_s, self.mac_d).ipv4(self.ip_s, self.ip_d, self.ttl).udp(self.sp, self.dp)
    }
}

fn is_wfault_build(e: err::packet::BuildWriteError) -> bool {
    let r = match &e {
        err::packet::BuildWriteError::Io(e) => e.kind() == WKIND,
        _ => false,
    };
    core::mem::forget(e);
    r
}

/// builder `write`: Ethernet II (14) + IPv4 (20) + UDP (8) + payload of P bytes, fault at every
/// byte (the payload length is concrete per harness: the builder moves a > 10 KB state by value
/// and two runs with a symbolic payload length exceed the memory cap - measured)
fn b_write_eth_v4_udp<const P: usize, const L: usize>() {
    let p = EthV4Udp::any();
    let pay: [u8; P] = any();
    // RFC 894 / 791 / 768: 14 + 20 + 8 + payload
    assert!(L == 42 + P);
    fault_write::<L, _, _, _>(L, |w| p.builder().write(w, &pay), is_wfault_build);
}
pub fn b_write_eth_v4_udp_3() {
    b_write_eth_v4_udp::<3, 45>()
}

/// builder `write_to_slice`: slice length 0..=size+1 (N = size + 1)
fn b_slice_eth_v4_udp<const P: usize, const N: usize>() {
    use etherparse::err::packet::BuildSliceWriteError;
    let p = EthV4Udp::any();
    let pay: [u8; P] = any();
    let size = 42 + P;
    assert!(N == size + 1);
    assert!(p.builder().size(P) == size);
    let mut big = [0u8; N];
    let n = must_ok!(p.builder().write_to_slice(&mut big, &pay));
    assert!(n == size, "C16: fault-free run writes header lengths + payload");
    let len = any_le(N);
    let mut t = TightMut::<N>::new(len);
    witness!(len == 0, "empty_slice");
    witness!(len + 1 == size, "one_byte_short");
    witness!(len == size, "exact");
    witness!(len == size + 1, "one_byte_more");
    witness!(len == 42, "headers_fit");
    match p.builder().write_to_slice(t.slice_mut(), &pay) {
        Ok(n) => {
            assert!(len >= size, "C16: too short a slice must not report success");
            assert!(n == size);
            t.check_written(&big, size);
        }
        Err(BuildSliceWriteError::Space(required)) => {
            assert!(len < size, "C16: the slice is large enough");
            assert!(required == size, "C16: space error states the real required length");
            t.check_prefix(&big[..size]);
        }
        Err(_) => panic!("C16: only a space error is possible"),
    }
}
pub fn b_slice_eth_v4_udp_3() {
    b_slice_eth_v4_udp::<3, 46>()
}

crate::harnesses! {
    c16_w_eth2 = w_eth2; unwind 16,
    c16_w_vlan = w_vlan; unwind 6,
    c16_w_sll = w_sll; unwind 18,
    c16_w_macsec = w_macsec; unwind 18,
    c16_w_link_header = w_link_header; unwind 18,
    c16_w_arp_6_4 = w_arp_6_4; unwind 30,
    c16_w_ipv6 = w_ipv6; unwind 42,
    c16_w_ipv6_frag = w_ipv6_frag; unwind 10,
    c16_w_udp = w_udp; unwind 10,
    c16_w_udp_std_loop = w_udp_std_loop; unwind 10,
    c16_w_icmpv4 = w_icmpv4; unwind 22,
    c16_w_icmpv6 = w_icmpv6; unwind 10,
    c16_w_ipv4_opt0 = w_ipv4_opt0; unwind 30,
    c16_w_ipv4_opt4 = w_ipv4_opt4; unwind 30,
    c16_w_ipv4_opt8 = w_ipv4_opt8; unwind 30,
    c16_w_tcp = w_tcp; unwind 30,
    c16_w_auth = w_auth; unwind 22,
    c16_w_raw_ext_8 = w_raw_ext_8; unwind 18,
    c16_w_raw_ext_16 = w_raw_ext_16; unwind 18,
    c16_w_transport_header = w_transport_header; unwind 26,
    c16_w_ip_headers_v4_opt0 = w_ip_headers_v4_opt0; unwind 30,
    c16_w_ipv6_exts_frag = w_ipv6_exts_frag; unwind 10,
    c16_w_ipv6_exts_hbh_frag = w_ipv6_exts_hbh_frag; unwind 18,
    c16_w_ipv6_exts_route_fdest = w_ipv6_exts_route_fdest; unwind 18,
    c16_r_eth2 = r_eth2; unwind 16,
    c16_r_vlan = r_vlan; unwind 6,
    c16_r_sll = r_sll; unwind 18,
    c16_r_macsec = r_macsec; unwind 18,
    c16_r_arp_6_4 = r_arp_6_4; unwind 30,
    c16_r_ipv4_opt0 = r_ipv4_opt0; unwind 30,
    c16_r_ipv4_opt8 = r_ipv4_opt8; unwind 30,
    c16_r_ipv6 = r_ipv6; unwind 42,
    c16_r_ipv6_frag = r_ipv6_frag; unwind 10,
    c16_r_raw_ext_16 = r_raw_ext_16; unwind 18,
    c16_r_auth = r_auth; unwind 22,
    c16_r_ipv4_exts_auth = r_ipv4_exts_auth; unwind 18,
    c16_r_udp = r_udp; unwind 10,
    c16_r_tcp = r_tcp; unwind 30,
    c16_r_icmpv4 = r_icmpv4; unwind 22,
    c16_r_icmpv6 = r_icmpv6; unwind 10,
    c16_limited_reader = limited_reader; unwind 8,
    c16_rl_ipv6_frag = rl_ipv6_frag; unwind 10,
    c16_rl_raw_ext_16 = rl_raw_ext_16; unwind 18,
    c16_rl_auth = rl_auth; unwind 22,
    c16_slice_eth2 = slice_eth2; unwind 18,
    c16_slice_sll = slice_sll; unwind 20,
    c16_slice_eth2_embedded = slice_eth2_embedded; unwind 34,
    c16_b_write_eth_v4_udp_3 = b_write_eth_v4_udp_3; unwind 48,
    c16_b_slice_eth_v4_udp_3 = b_slice_eth_v4_udp_3; unwind 48,
}
