//! Reference decoder (DESIGN 3.1): an independent, deliberately naive reading of the wire formats
//! (IEEE 802.3 / 802.1Q / 802.1AE, LINKTYPE_LINUX_SLL, RFC 826, 791, 4302, 8200, 768, 9293, 792, 4443)
//! plus the crate's *documented* conventions where the RFCs are silent (at most 3 link extensions;
//! stop at the first undecoded layer; a fragmented IP payload carries no transport layer; IPv6 payload
//! length 0 / UDP length 0 mean "to the end of the enclosing data"; MACsec short length semantics; the
//! SLL packet / hardware types the crate accepts).
//!
//! It shares no code and no constant with etherparse, reads bytes only through checked indexing, and
//! returns plain data: byte ranges, the few field values the glue depends on, what limits the data of
//! each layer, and - on failure - a fault record (layer, offset, bytes available, what is demanded).

/// what limits the bytes available to a layer
#[derive(Copy, Clone, PartialEq, Eq, Debug)]
pub enum Lim {
    Slice,
    MacsecSl,
    V4Total,
    V6Payload,
    UdpLen,
}

/// reference layer kinds
#[derive(Copy, Clone, PartialEq, Eq, Debug)]
pub enum RL {
    Eth,
    Sll,
    Vlan,
    Macsec,
    Arp,
    V4,
    Auth,
    V6,
    HopByHop,
    Route,
    DestOpt,
    Frag,
    Udp,
    Tcp,
    Icmp4,
    Icmp6,
}

#[derive(Copy, Clone, PartialEq, Eq, Debug)]
pub enum Want {
    /// more bytes are needed than available; up to three byte counts the layer can legitimately demand
    /// at this point (fixed part, full header, full packet), 0 = unused
    Missing([usize; 3]),
    /// a length field of the layer itself limits the layer to `field` bytes, fewer than its own header `need`
    UnderClaim { field: usize, need: usize },
    /// more bytes than the layer admits
    TooBig { max: usize },
    /// exact size demanded (ICMPv4 timestamp)
    Exact(usize),
    IpVersion(u8),
    V4Version(u8),
    V4Ihl(u8),
    V6Version(u8),
    TcpDataOffset(u8),
    HopByHopNotFirst,
    AuthZeroLen,
    MacsecVersion,
    MacsecShortLenOne,
    SllPacketType(u16),
    SllHwType(u16),
}

#[derive(Copy, Clone, PartialEq, Eq, Debug)]
pub struct RFault {
    pub layer: RL,
    /// offset of the faulting layer from the start of the slice the reference function was given
    pub off: usize,
    /// bytes really available to the faulting layer
    pub avail: usize,
    /// what limits `avail`
    pub lim: Lim,
    pub want: Want,
    /// a second fault that co-exists with `want` and is decidable from the bytes that ARE present; an
    /// implementation may legitimately test it first (only used for a cut IPv4 header whose first byte
    /// already shows a bad version / IHL)
    pub alt: Option<Want>,
}

impl RFault {
    pub fn content_is(&self, w: Want) -> bool {
        self.want == w || self.alt == Some(w)
    }
    pub fn shifted(mut self, by: usize) -> RFault {
        self.off += by;
        self
    }
    pub fn is_len(&self) -> bool {
        matches!(self.want, Want::Missing(_) | Want::UnderClaim { .. } | Want::TooBig { .. } | Want::Exact(_))
    }
    /// `required` is one of the demands the layer may legitimately make
    pub fn legit_demand(&self, required: usize) -> bool {
        match self.want {
            Want::Missing(d) => required != 0 && (d[0] == required || d[1] == required || d[2] == required),
            Want::UnderClaim { need, .. } => required == need,
            Want::TooBig { max } => required == max,
            Want::Exact(n) => required == n,
            _ => false,
        }
    }
}

#[inline]
fn be16(s: &[u8], i: usize) -> u16 {
    ((s[i] as u16) << 8) | (s[i + 1] as u16)
}

#[inline]
fn missing1(a: usize) -> Want {
    Want::Missing([a, 0, 0])
}

// ------------------------------------------------------------------------------------------ link

pub const ET_IPV4: u16 = 0x0800;
pub const ET_ARP: u16 = 0x0806;
pub const ET_VLAN: u16 = 0x8100;
pub const ET_IPV6: u16 = 0x86dd;
pub const ET_QINQ: u16 = 0x88a8;
pub const ET_QINQ_OLD: u16 = 0x9100;
pub const ET_MACSEC: u16 = 0x88e5;

/// Ethernet II: 6 + 6 + 2 bytes, everything behind it is payload
pub fn eth(s: &[u8]) -> Result<u16, RFault> {
    if s.len() < 14 {
        return Err(RFault { layer: RL::Eth, off: 0, avail: s.len(), lim: Lim::Slice, want: missing1(14), alt: None });
    }
    Ok(be16(s, 12))
}

/// 802.1Q tag: TCI + ether type
pub fn vlan(s: &[u8], lim: Lim) -> Result<u16, RFault> {
    if s.len() < 4 {
        return Err(RFault { layer: RL::Vlan, off: 0, avail: s.len(), lim, want: missing1(4), alt: None });
    }
    Ok(be16(s, 2))
}

#[derive(Copy, Clone, PartialEq, Eq, Debug)]
pub struct RMacsec {
    pub hlen: usize,
    /// ether type of an unmodified payload
    pub ether_type: Option<u16>,
    /// payload length (behind the SecTAG incl. its ether type)
    pub payload_len: usize,
    /// the short length field limited the payload
    pub lim: Lim,
    /// lax only: the short length promised more than is there
    pub incomplete: bool,
}

/// 802.1AE SecTAG. Version bit must be 0; SC bit adds the 8 byte SCI; with E=0,C=0 the payload is
/// unmodified and the 2 byte ether type directly follows the tag (counted in the short length).
/// Short length 0 = unknown (payload to the end), 1 is impossible for an unmodified payload.
pub fn macsec(s: &[u8], lim: Lim, lax: bool) -> Result<RMacsec, RFault> {
    let f = |want| RFault { layer: RL::Macsec, off: 0, avail: s.len(), lim, want, alt: None };
    if s.len() < 6 {
        return Err(f(missing1(6)));
    }
    let tci = s[0];
    if tci & 0x80 != 0 {
        return Err(f(Want::MacsecVersion));
    }
    let unmodified = tci & 0x0c == 0;
    let sl = (s[1] & 0x3f) as usize;
    if unmodified && sl == 1 {
        return Err(f(Want::MacsecShortLenOne));
    }
    let sci = tci & 0x20 != 0;
    let hlen = 6 + if sci { 8 } else { 0 } + if unmodified { 2 } else { 0 };
    if s.len() < hlen {
        return Err(f(Want::Missing([hlen, 0, 0])));
    }
    let ether_type = if unmodified { Some(be16(s, hlen - 2)) } else { None };
    let rest = s.len() - hlen;
    if sl == 0 {
        return Ok(RMacsec { hlen, ether_type, payload_len: rest, lim, incomplete: false });
    }
    // bytes following the SecTAG proper; the ether type of an unmodified payload is part of them
    let claimed = if unmodified { sl - 2 } else { sl };
    if claimed > rest {
        if lax {
            return Ok(RMacsec { hlen, ether_type, payload_len: rest, lim, incomplete: true });
        }
        return Err(f(Want::Missing([hlen + claimed, 0, 0])));
    }
    Ok(RMacsec { hlen, ether_type, payload_len: claimed, lim: Lim::MacsecSl, incomplete: false })
}

#[derive(Copy, Clone, PartialEq, Eq, Debug)]
pub enum RSllProto {
    /// continue with this ether type
    EtherType(u16),
    /// nothing the crate decodes further
    Other,
}

/// LINKTYPE_LINUX_SLL: packet type(2) ARPHRD(2) addr len(2) addr(8) protocol(2).
/// Accepted (documented by the crate): packet types 0..=7; ARPHRD_NETLINK 824, ARPHRD_IPGRE 778,
/// ARPHRD_IEEE80211_RADIOTAP 803, ARPHRD_FRAD 770, ARPHRD_ETHER 1. Only for ARPHRD_ETHER the protocol
/// field is an ether type, unless it is one of the Linux "non DIX" values of linux/if_ether.h.
pub fn sll(s: &[u8]) -> Result<RSllProto, RFault> {
    let f = |want| RFault { layer: RL::Sll, off: 0, avail: s.len(), lim: Lim::Slice, want, alt: None };
    if s.len() < 16 {
        return Err(f(missing1(16)));
    }
    let pt = be16(s, 0);
    if pt > 7 {
        return Err(f(Want::SllPacketType(pt)));
    }
    let hw = be16(s, 2);
    let proto = be16(s, 14);
    match hw {
        824 | 778 | 803 | 770 => Ok(RSllProto::Other),
        1 => {
            if linux_nonstandard(proto) {
                Ok(RSllProto::Other)
            } else {
                Ok(RSllProto::EtherType(proto))
            }
        }
        _ => Err(f(Want::SllHwType(hw))),
    }
}

/// values of if_ether.h "non DIX types" the crate lists as LinuxNonstandardEtherType
pub fn linux_nonstandard(v: u16) -> bool {
    // linux/if_ether.h, section "Non DIX types"
    matches!(v, 0x0001..=0x0009 | 0x000c..=0x000e | 0x0010..=0x0011 | 0x0015..=0x001c | 0x00f5..=0x00fa)
}

// ------------------------------------------------------------------------------------------ ARP

/// RFC 826: htype ptype hlen plen oper + 2*hlen + 2*plen
pub fn arp(s: &[u8], lim: Lim) -> Result<usize, RFault> {
    let f = |want| RFault { layer: RL::Arp, off: 0, avail: s.len(), lim, want, alt: None };
    if s.len() < 8 {
        return Err(f(missing1(8)));
    }
    let total = 8 + 2 * (s[4] as usize) + 2 * (s[5] as usize);
    if s.len() < total {
        return Err(f(Want::Missing([total, 0, 0])));
    }
    Ok(total)
}

// ------------------------------------------------------------------------------------------ IP

pub const P_HOPOPT: u8 = 0;
pub const P_ICMP: u8 = 1;
pub const P_TCP: u8 = 6;
pub const P_UDP: u8 = 17;
pub const P_ROUTE: u8 = 43;
pub const P_FRAG: u8 = 44;
pub const P_AUTH: u8 = 51;
pub const P_ICMP6: u8 = 58;
pub const P_DSTOPT: u8 = 60;

#[derive(Copy, Clone, PartialEq, Eq, Debug)]
pub struct RIp {
    pub v6: bool,
    /// base header incl. IPv4 options
    pub hlen: usize,
    /// extension headers (AH for v4, the decoded chain for v6)
    pub exts_len: usize,
    pub n_exts: usize,
    /// protocol of the payload
    pub proto: u8,
    pub fragmented: bool,
    pub payload_off: usize,
    pub payload_len: usize,
    pub lim: Lim,
    /// lax: the length field promised more than the slice holds
    pub incomplete: bool,
    /// lax: fault in the extension headers (everything in front of it is valid)
    pub ext_fault: Option<RFault>,
}

/// AH (RFC 4302): next(1) len(1) reserved(2) spi(4) seq(4) icv; length = (len+2)*4, len 0 is malformed
pub fn auth(s: &[u8], lim: Lim) -> Result<(u8, usize), RFault> {
    let f = |want| RFault { layer: RL::Auth, off: 0, avail: s.len(), lim, want, alt: None };
    if s.len() < 12 {
        return Err(f(missing1(12)));
    }
    if s[1] == 0 {
        return Err(f(Want::AuthZeroLen));
    }
    let len = (s[1] as usize + 2) * 4;
    if s.len() < len {
        return Err(f(Want::Missing([len, 0, 0])));
    }
    Ok((s[0], len))
}

/// RFC 791 header + total length cut + (crate convention) an authentication header if protocol is 51.
/// `outer` limits the slice itself.
pub fn ipv4(s: &[u8], outer: Lim, lax: bool) -> Result<RIp, RFault> {
    let f = |want| RFault { layer: RL::V4, off: 0, avail: s.len(), lim: outer, want, alt: None };
    if s.len() < 20 {
        // fixed part is cut; if the first byte is there the full header length is known as well and a
        // bad version / IHL is already visible (an implementation may report either fault)
        let mut e = f(missing1(20));
        if !s.is_empty() {
            let (v, ihl) = (s[0] >> 4, s[0] & 0xf);
            if v != 4 {
                e.alt = Some(Want::V4Version(v));
            } else if ihl < 5 {
                e.alt = Some(Want::V4Ihl(ihl));
            } else {
                e.want = Want::Missing([20, ihl as usize * 4, 0]);
            }
        }
        return Err(e);
    }
    let version = s[0] >> 4;
    if version != 4 {
        return Err(f(Want::V4Version(version)));
    }
    let ihl = s[0] & 0xf;
    if ihl < 5 {
        return Err(f(Want::V4Ihl(ihl)));
    }
    let hlen = ihl as usize * 4;
    if s.len() < hlen {
        return Err(f(Want::Missing([hlen, 0, 0])));
    }
    let total = be16(s, 2) as usize;
    let mut incomplete = false;
    let (end, lim) = if total < hlen {
        if lax {
            (s.len(), outer)
        } else {
            return Err(f(Want::UnderClaim { field: total, need: hlen }));
        }
    } else if total > s.len() {
        if lax {
            incomplete = true;
            (s.len(), outer)
        } else {
            return Err(f(Want::Missing([total, 0, 0])));
        }
    } else {
        (total, Lim::V4Total)
    };
    let flags_frag = be16(s, 6);
    let fragmented = (flags_frag & 0x2000 != 0) || (flags_frag & 0x1fff != 0);
    let mut proto = s[9];
    let mut exts_len = 0;
    let mut n_exts = 0;
    let mut ext_fault = None;
    if proto == P_AUTH {
        match auth(&s[hlen..end], lim) {
            Ok((next, len)) => {
                proto = next;
                exts_len = len;
                n_exts = 1;
            }
            Err(e) => {
                if lax {
                    ext_fault = Some(e.shifted(hlen));
                } else {
                    return Err(e.shifted(hlen));
                }
            }
        }
    }
    Ok(RIp {
        v6: false,
        hlen,
        exts_len,
        n_exts,
        proto,
        fragmented,
        payload_off: hlen + exts_len,
        payload_len: end - hlen - exts_len,
        lim,
        incomplete,
        ext_fault,
    })
}

/// RFC 8200 header + payload length cut + the extension headers the crate decodes:
/// hop-by-hop (only directly behind the base header), routing, destination options, fragment, AH.
pub fn ipv6(s: &[u8], outer: Lim, lax: bool) -> Result<RIp, RFault> {
    let f = |want| RFault { layer: RL::V6, off: 0, avail: s.len(), lim: outer, want, alt: None };
    if s.len() < 40 {
        return Err(f(missing1(40)));
    }
    let version = s[0] >> 4;
    if version != 6 {
        return Err(f(Want::V6Version(version)));
    }
    let plen = be16(s, 4) as usize;
    let mut incomplete = false;
    let (end, lim) = if plen == 0 && s.len() > 40 {
        // documented: payload length 0 = up to the end of the enclosing data (jumbograms are not decoded)
        (s.len(), outer)
    } else if 40 + plen > s.len() {
        if lax {
            incomplete = true;
            (s.len(), outer)
        } else {
            return Err(f(Want::Missing([40 + plen, 0, 0])));
        }
    } else {
        (40 + plen, Lim::V6Payload)
    };
    let (exts_len, n_exts, proto, fragmented, ext_fault) = ipv6_exts(&s[40..end], s[6], lim);
    if let (Some(e), false) = (ext_fault, lax) {
        return Err(e.shifted(40));
    }
    Ok(RIp {
        v6: true,
        hlen: 40,
        exts_len,
        n_exts,
        proto,
        fragmented,
        payload_off: 40 + exts_len,
        payload_len: end - 40 - exts_len,
        lim,
        incomplete,
        ext_fault: ext_fault.map(|e| e.shifted(40)),
    })
}

/// walks the extension chain; returns (bytes consumed, headers, payload protocol, fragmented, fault)
pub fn ipv6_exts(s: &[u8], first: u8, lim: Lim) -> (usize, usize, u8, bool, Option<RFault>) {
    let mut off = 0usize;
    let mut n = 0usize;
    let mut next = first;
    let mut fragmented = false;
    loop {
        let rest = &s[off..];
        let fault = |layer, want| Some(RFault { layer, off, avail: rest.len(), lim, want, alt: None });
        match next {
            P_HOPOPT | P_ROUTE | P_DSTOPT => {
                let layer = match next {
                    P_HOPOPT => RL::HopByHop,
                    P_ROUTE => RL::Route,
                    _ => RL::DestOpt,
                };
                if next == P_HOPOPT && n != 0 {
                    return (off, n, next, fragmented, fault(layer, Want::HopByHopNotFirst));
                }
                if rest.len() < 8 {
                    return (off, n, next, fragmented, fault(layer, missing1(8)));
                }
                let len = (rest[1] as usize + 1) * 8;
                if rest.len() < len {
                    return (off, n, next, fragmented, fault(layer, Want::Missing([len, 0, 0])));
                }
                next = rest[0];
                off += len;
            }
            P_FRAG => {
                if rest.len() < 8 {
                    return (off, n, next, fragmented, fault(RL::Frag, missing1(8)));
                }
                let w = be16(rest, 2);
                if (w >> 3) != 0 || (w & 1) != 0 {
                    fragmented = true;
                }
                next = rest[0];
                off += 8;
            }
            P_AUTH => match auth(rest, lim) {
                Ok((nx, len)) => {
                    next = nx;
                    off += len;
                }
                Err(e) => return (off, n, next, fragmented, Some(e.shifted(off))),
            },
            _ => return (off, n, next, fragmented, None),
        }
        n += 1;
    }
}

/// version dispatch (the version nibble decides; anything else is an unsupported version)
pub fn ip(s: &[u8], outer: Lim, lax: bool) -> Result<RIp, RFault> {
    if s.is_empty() {
        return Err(RFault { layer: RL::V4, off: 0, avail: 0, lim: outer, want: Want::Missing([1, 20, 40]), alt: None });
    }
    match s[0] >> 4 {
        4 => ipv4(s, outer, lax),
        6 => ipv6(s, outer, lax),
        v => Err(RFault { layer: RL::V4, off: 0, avail: s.len(), lim: outer, want: Want::IpVersion(v), alt: None }),
    }
}

// ------------------------------------------------------------------------------------------ transport

#[derive(Copy, Clone, PartialEq, Eq, Debug)]
pub struct RTr {
    pub layer: RL,
    pub hlen: usize,
    /// length of header + payload
    pub len: usize,
    pub lim: Lim,
}

/// RFC 768: length covers header + data; 0 = "to the end" (documented convention)
pub fn udp(s: &[u8], outer: Lim, lax: bool) -> Result<RTr, RFault> {
    let f = |want| RFault { layer: RL::Udp, off: 0, avail: s.len(), lim: outer, want, alt: None };
    if s.len() < 8 {
        return Err(f(missing1(8)));
    }
    let l = be16(s, 4) as usize;
    if l == 0 {
        return Ok(RTr { layer: RL::Udp, hlen: 8, len: s.len(), lim: outer });
    }
    if l > s.len() {
        if lax {
            return Ok(RTr { layer: RL::Udp, hlen: 8, len: s.len(), lim: outer });
        }
        return Err(f(Want::Missing([l, 0, 0])));
    }
    if l < 8 {
        if lax {
            return Ok(RTr { layer: RL::Udp, hlen: 8, len: s.len(), lim: outer });
        }
        return Err(RFault { layer: RL::Udp, off: 0, avail: l, lim: Lim::UdpLen, want: Want::UnderClaim { field: l, need: 8 }, alt: None });
    }
    Ok(RTr { layer: RL::Udp, hlen: 8, len: l, lim: Lim::UdpLen })
}

/// RFC 9293: data offset >= 5 words, header must fit
pub fn tcp(s: &[u8], outer: Lim) -> Result<RTr, RFault> {
    let f = |want| RFault { layer: RL::Tcp, off: 0, avail: s.len(), lim: outer, want, alt: None };
    if s.len() < 20 {
        return Err(f(missing1(20)));
    }
    let doff = s[12] >> 4;
    if doff < 5 {
        return Err(f(Want::TcpDataOffset(doff)));
    }
    let hlen = doff as usize * 4;
    if s.len() < hlen {
        return Err(f(Want::Missing([hlen, 0, 0])));
    }
    Ok(RTr { layer: RL::Tcp, hlen, len: s.len(), lim: outer })
}

/// RFC 792: 8 byte header; timestamp / timestamp reply (types 13, 14 with code 0) are exactly 20 bytes
pub fn icmp4(s: &[u8], outer: Lim) -> Result<RTr, RFault> {
    let f = |want| RFault { layer: RL::Icmp4, off: 0, avail: s.len(), lim: outer, want, alt: None };
    if s.len() < 8 {
        return Err(f(missing1(8)));
    }
    if (s[0] == 13 || s[0] == 14) && s[1] == 0 {
        if s.len() != 20 {
            return Err(f(Want::Exact(20)));
        }
        return Ok(RTr { layer: RL::Icmp4, hlen: 20, len: 20, lim: outer });
    }
    Ok(RTr { layer: RL::Icmp4, hlen: 8, len: s.len(), lim: outer })
}

/// RFC 4443: 8 byte header (the upper size limit of 2^32-1 bytes is out of reach of every bound used here)
pub fn icmp6(s: &[u8], outer: Lim) -> Result<RTr, RFault> {
    if s.len() < 8 {
        return Err(RFault { layer: RL::Icmp6, off: 0, avail: s.len(), lim: outer, want: missing1(8), alt: None });
    }
    Ok(RTr { layer: RL::Icmp6, hlen: 8, len: s.len(), lim: outer })
}

/// transport dispatch behind an IP layer (nothing if the payload is fragmented)
pub fn transport(s: &[u8], proto: u8, fragmented: bool, outer: Lim, lax: bool) -> Result<Option<RTr>, RFault> {
    if fragmented {
        return Ok(None);
    }
    match proto {
        P_ICMP => icmp4(s, outer).map(Some),
        P_UDP => udp(s, outer, lax).map(Some),
        P_TCP => tcp(s, outer).map(Some),
        P_ICMP6 => icmp6(s, outer).map(Some),
        _ => Ok(None),
    }
}

// ------------------------------------------------------------------------------------------ whole packet

#[derive(Copy, Clone, PartialEq, Eq, Debug)]
pub enum Start {
    Ethernet,
    Sll,
    EtherType(u16),
    Ip,
}

#[derive(Copy, Clone, PartialEq, Eq, Debug)]
pub struct RExt {
    pub kind: RL,
    pub off: usize,
    pub hlen: usize,
}

#[derive(Copy, Clone, PartialEq, Eq, Debug)]
pub enum RNet {
    Ip { off: usize, ip: RIp },
    Arp { off: usize, len: usize },
}

#[derive(Copy, Clone, PartialEq, Eq, Debug)]
pub struct RWalk {
    pub link: Option<RL>,
    pub n_exts: usize,
    pub exts: [RExt; 3],
    pub net: Option<RNet>,
    pub tr: Option<(usize, RTr)>,
    /// ether type of the innermost ether payload that was reached and its range (for payload checks)
    pub ether_payload: Option<(u16, usize, usize)>,
    /// what limits that payload (the slice, or the short length of an enclosing MACsec tag)
    pub ether_payload_lim: Lim,
    /// strict: decoding fails with this; lax: decoding stops here and keeps what is in front of it
    pub fault: Option<RFault>,
    /// lax only: the ether type announced one IP version, the version nibble says the other one (the lax
    /// decoders pick the version from the nibble; the strict decoders reject this)
    pub ip_version_mismatch: bool,
}

/// The crate's documented stacking: link header, up to three VLAN / MACsec tags, ARP | IPv4 | IPv6,
/// then UDP | TCP | ICMPv4 | ICMPv6 unless the IP payload is fragmented. `lax` keeps going after length
/// over-claims the way the lax decoders document it.
pub fn walk(start: Start, s: &[u8], lax: bool) -> RWalk {
    let none = RExt { kind: RL::Vlan, off: 0, hlen: 0 };
    let mut w = RWalk { link: None, n_exts: 0, exts: [none; 3], net: None, tr: None, ether_payload: None, ether_payload_lim: Lim::Slice, fault: None, ip_version_mismatch: false };
    let mut pos = 0usize;
    let mut end = s.len();
    let mut lim = Lim::Slice;
    let mut et: u16;
    match start {
        Start::Ethernet => match eth(s) {
            Ok(e) => {
                w.link = Some(RL::Eth);
                pos = 14;
                et = e;
            }
            Err(f) => {
                w.fault = Some(f);
                return w;
            }
        },
        Start::Sll => match sll(s) {
            Ok(p) => {
                w.link = Some(RL::Sll);
                pos = 16;
                match p {
                    RSllProto::EtherType(e) => et = e,
                    RSllProto::Other => return w,
                }
            }
            Err(f) => {
                w.fault = Some(f);
                return w;
            }
        },
        Start::EtherType(e) => et = e,
        Start::Ip => {
            return walk_ip(w, s, 0, end, lim, lax, None);
        }
    }
    loop {
        w.ether_payload = Some((et, pos, end - pos));
        w.ether_payload_lim = lim;
        match et {
            ET_VLAN | ET_QINQ | ET_QINQ_OLD => {
                if w.n_exts == 3 {
                    return w;
                }
                match vlan(&s[pos..end], lim) {
                    Ok(e) => {
                        w.exts[w.n_exts] = RExt { kind: RL::Vlan, off: pos, hlen: 4 };
                        w.n_exts += 1;
                        pos += 4;
                        et = e;
                    }
                    Err(f) => {
                        w.fault = Some(f.shifted(pos));
                        return w;
                    }
                }
            }
            ET_MACSEC => {
                if w.n_exts == 3 {
                    return w;
                }
                match macsec(&s[pos..end], lim, lax) {
                    Ok(m) => {
                        w.exts[w.n_exts] = RExt { kind: RL::Macsec, off: pos, hlen: m.hlen };
                        w.n_exts += 1;
                        pos += m.hlen;
                        end = pos + m.payload_len;
                        lim = m.lim;
                        match m.ether_type {
                            Some(e) => et = e,
                            None => {
                                w.ether_payload = None;
                                return w;
                            }
                        }
                    }
                    Err(f) => {
                        w.fault = Some(f.shifted(pos));
                        return w;
                    }
                }
            }
            ET_ARP => {
                match arp(&s[pos..end], lim) {
                    Ok(len) => w.net = Some(RNet::Arp { off: pos, len }),
                    Err(f) => w.fault = Some(f.shifted(pos)),
                }
                return w;
            }
            ET_IPV4 => return walk_ip(w, s, pos, end, lim, lax, Some(false)),
            ET_IPV6 => return walk_ip(w, s, pos, end, lim, lax, Some(true)),
            _ => return w,
        }
    }
}

fn walk_ip(mut w: RWalk, s: &[u8], pos: usize, end: usize, lim: Lim, lax: bool, v6: Option<bool>) -> RWalk {
    let d = &s[pos..end];
    // the lax decoders select the IP version from the version nibble for both IP ether types
    let v6 = if lax {
        if let (Some(want6), false) = (v6, d.is_empty()) {
            let nib = d[0] >> 4;
            w.ip_version_mismatch = (want6 && nib == 4) || (!want6 && nib == 6);
        }
        None
    } else {
        v6
    };
    let r = match v6 {
        None => ip(d, lim, lax),
        Some(false) => ipv4(d, lim, lax),
        Some(true) => ipv6(d, lim, lax),
    };
    match r {
        Ok(ipr) => {
            w.net = Some(RNet::Ip { off: pos, ip: ipr });
            if let Some(f) = ipr.ext_fault {
                // lax: stopped inside the extension headers
                w.fault = Some(f.shifted(pos));
                return w;
            }
            let tpos = pos + ipr.payload_off;
            match transport(&s[tpos..tpos + ipr.payload_len], ipr.proto, ipr.fragmented, ipr.lim, lax) {
                Ok(Some(t)) => w.tr = Some((tpos, t)),
                Ok(None) => {}
                Err(f) => w.fault = Some(f.shifted(tpos)),
            }
        }
        Err(f) => w.fault = Some(f.shifted(pos)),
    }
    w
}
