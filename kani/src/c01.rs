//! C01 / C02 - per-layer decoders over an exact-size buffer of symbolic length and content.
//!
//! The same bodies decide both properties (DESIGN 2.2): out-of-object accesses and violated
//! unsafe preconditions are C01-class, panics / overflows / unwinding are C02-class, the explicit
//! containment assertions (`C01: ...`) are C01.
//!
//! Every decoder gets its input in a heap object of exactly `len` bytes (`Tight`), all public
//! accessors, conversions and iterators of the result are called, and every sub-slice handed back
//! must lie inside the input.

use crate::sym::{any, any_le, assume};
use crate::tight::{inside, Tight};
use crate::witness;
use etherparse::*;

macro_rules! within {
    ($outer:expr, $sub:expr) => {{
        assert!(inside($outer, $sub), "C01: returned sub-slice lies outside the input slice");
    }};
}
pub(crate) use within;

#[inline(never)]
fn sink<T>(v: T) {
    // keeps a computed value alive (accessors are pure; Kani checks them while evaluating)
    core::mem::forget(v);
}

// =============================================================== link layer

pub fn touch_ether_payload(outer: &[u8], p: &EtherPayloadSlice) {
    within!(outer, p.payload);
    sink(p.ether_type);
    sink(p.len_source);
}

pub fn touch_lax_ether_payload(outer: &[u8], p: &LaxEtherPayloadSlice) {
    within!(outer, p.payload);
    sink(p.ether_type);
    sink(p.len_source);
    sink(p.incomplete);
}

pub fn eth2_header_slice() {
    let t = Tight::<20>::new(any_le(20));
    let s = t.slice();
    match Ethernet2HeaderSlice::from_slice(s) {
        Ok(h) => {
            witness!(true, "ok");
            within!(s, h.slice());
            assert!(h.slice().len() == 14);
            sink(h.destination());
            sink(h.source());
            sink(h.ether_type());
            sink(h.to_header());
        }
        Err(_) => {
            witness!(true, "err");
        }
    }
    match Ethernet2Header::from_slice(s) {
        Ok((h, rest)) => {
            within!(s, rest);
            sink(h);
        }
        Err(_) => {}
    }
}

pub fn eth2_slice() {
    let t = Tight::<24>::new(any_le(24));
    let s = t.slice();
    let fcs: bool = any();
    let r = if fcs {
        Ethernet2Slice::from_slice_with_crc32_fcs(s)
    } else {
        Ethernet2Slice::from_slice_without_fcs(s)
    };
    match r {
        Ok(e) => {
            witness!(fcs, "ok_fcs");
            witness!(!fcs && e.payload_slice().len() > 0, "ok_nofcs_payload");
            within!(s, e.slice());
            within!(s, e.header_slice());
            within!(s, e.payload_slice());
            touch_ether_payload(s, &e.payload());
            sink(e.destination());
            sink(e.source());
            sink(e.ether_type());
            sink(e.fcs());
            sink(e.to_header());
        }
        Err(_) => {
            witness!(true, "err");
        }
    }
}

pub fn vlan_slice() {
    let t = Tight::<12>::new(any_le(12));
    let s = t.slice();
    match SingleVlanHeaderSlice::from_slice(s) {
        Ok(h) => {
            within!(s, h.slice());
            sink(h.priority_code_point());
            sink(h.drop_eligible_indicator());
            sink(h.vlan_identifier());
            sink(h.ether_type());
            sink(h.to_header());
        }
        Err(_) => {}
    }
    match SingleVlanSlice::from_slice(s) {
        Ok(v) => {
            witness!(v.payload_slice().len() > 0, "ok_payload");
            within!(s, v.slice());
            within!(s, v.header_slice());
            within!(s, v.payload_slice());
            touch_ether_payload(s, &v.payload());
            sink(v.priority_code_point());
            sink(v.drop_eligible_indicator());
            sink(v.vlan_identifier());
            sink(v.ether_type());
            sink(v.to_header());
        }
        Err(_) => {
            witness!(true, "err");
        }
    }
    match SingleVlanHeader::from_slice(s) {
        Ok((h, rest)) => {
            within!(s, rest);
            sink(h);
        }
        Err(_) => {}
    }
}

pub fn touch_macsec_header(outer: &[u8], h: &MacsecHeaderSlice) {
    within!(outer, h.slice());
    sink(h.tci_an_raw());
    sink(h.endstation_id());
    sink(h.tci_scb());
    sink(h.encrypted());
    sink(h.userdata_changed());
    sink(h.is_unmodified());
    sink(h.ptype());
    sink(h.an());
    sink(h.short_len());
    sink(h.packet_nr());
    sink(h.sci_present());
    sink(h.sci());
    sink(h.next_ether_type());
    sink(h.header_len());
    sink(h.expected_payload_len());
    sink(h.to_header());
}

pub fn macsec_slice() {
    let t = Tight::<32>::new(any_le(32));
    let s = t.slice();
    match MacsecHeaderSlice::from_slice(s) {
        Ok(h) => touch_macsec_header(s, &h),
        Err(_) => {}
    }
    match MacsecHeader::from_slice(s) {
        Ok(h) => sink(h),
        Err(_) => {}
    }
    match MacsecSlice::from_slice(s) {
        Ok(m) => {
            touch_macsec_header(s, &m.header);
            match &m.payload {
                MacsecPayloadSlice::Unmodified(e) => {
                    witness!(e.len_source == LenSource::MacsecShortLength, "ok_unmodified_short_len");
                    touch_ether_payload(s, e);
                }
                MacsecPayloadSlice::Modified(p) => {
                    witness!(true, "ok_modified");
                    within!(s, p);
                }
            }
            if let Some(e) = m.ether_payload() {
                touch_ether_payload(s, &e);
            }
            sink(m.next_ether_type());
        }
        Err(_) => {
            witness!(true, "err");
        }
    }
}

pub fn lax_macsec_slice() {
    let t = Tight::<32>::new(any_le(32));
    let s = t.slice();
    match LaxMacsecSlice::from_slice(s) {
        Ok(m) => {
            touch_macsec_header(s, &m.header);
            match &m.payload {
                LaxMacsecPayloadSlice::Unmodified(e) => {
                    witness!(e.incomplete, "ok_unmodified_incomplete");
                    touch_lax_ether_payload(s, e);
                }
                LaxMacsecPayloadSlice::Modified { incomplete, payload } => {
                    witness!(*incomplete, "ok_modified_incomplete");
                    within!(s, payload);
                }
            }
            if let Some(e) = m.ether_payload() {
                touch_lax_ether_payload(s, &e);
            }
            sink(m.next_ether_type());
        }
        Err(_) => {
            witness!(true, "err");
        }
    }
}

pub fn touch_sll_header(outer: &[u8], h: &LinuxSllHeaderSlice) {
    within!(outer, h.slice());
    sink(h.packet_type());
    sink(h.arp_hardware_type());
    sink(h.sender_address_valid_length());
    sink(h.sender_address_full());
    within!(outer, h.sender_address());
    sink(h.protocol_type());
    sink(h.to_header());
}

pub fn sll_slice() {
    let t = Tight::<24>::new(any_le(24));
    let s = t.slice();
    match LinuxSllHeaderSlice::from_slice(s) {
        Ok(h) => touch_sll_header(s, &h),
        Err(_) => {}
    }
    match LinuxSllHeader::from_slice(s) {
        Ok((h, rest)) => {
            within!(s, rest);
            sink(h);
        }
        Err(_) => {}
    }
    match LinuxSllSlice::from_slice(s) {
        Ok(l) => {
            witness!(l.payload_slice().len() > 0, "ok_payload");
            within!(s, l.slice());
            within!(s, l.header_slice());
            within!(s, l.payload_slice());
            within!(s, l.payload().payload);
            within!(s, l.sender_address());
            sink(l.packet_type());
            sink(l.arp_hardware_type());
            sink(l.sender_address_valid_length());
            sink(l.sender_address_full());
            sink(l.protocol_type());
            sink(l.to_header());
        }
        Err(_) => {
            witness!(true, "err");
        }
    }
}

/// `LinuxSllHeader::from_bytes` on arbitrary 16 bytes
pub fn sll_from_bytes() {
    let b: [u8; 16] = any();
    match LinuxSllHeader::from_bytes(b) {
        Ok(h) => {
            witness!(true, "ok");
            sink(h.to_bytes());
        }
        Err(_) => {
            witness!(true, "err");
        }
    }
}

// =============================================================== ARP

pub fn arp_slice() {
    let t = Tight::<36>::new(any_le(36));
    let s = t.slice();
    match ArpPacketSlice::from_slice(s) {
        Ok(a) => {
            witness!(a.sender_hw_addr().len() > 0 && a.target_protocol_addr().len() > 0, "ok_nonempty_addrs");
            within!(s, a.slice());
            within!(s, a.sender_hw_addr());
            within!(s, a.sender_protocol_addr());
            within!(s, a.target_hw_addr());
            within!(s, a.target_protocol_addr());
            sink(a.hw_addr_type());
            sink(a.proto_addr_type());
            sink(a.hw_addr_size());
            sink(a.proto_addr_size());
            sink(a.operation());
            let p = a.to_packet();
            sink(p.hw_addr_size());
            sink(p.protocol_addr_size());
            sink(p.sender_hw_addr().len());
            sink(p.sender_protocol_addr().len());
            sink(p.target_hw_addr().len());
            sink(p.target_protocol_addr().len());
            sink(p.packet_len());
            sink(p.try_eth_ipv4().is_ok());
        }
        Err(_) => {
            witness!(true, "err");
        }
    }
    match ArpPacket::from_slice(s) {
        Ok(p) => sink(p.packet_len()),
        Err(_) => {}
    }
}

// =============================================================== readers (slice backed)

/// `read` of the link-layer header types from a reader over an exact-size buffer
pub fn link_readers() {
    use std::io::Cursor;
    let t = Tight::<20>::new(any_le(20));
    let s = t.slice();
    let which: u8 = any();
    assume(which < 4);
    match which {
        0 => {
            let mut c = Cursor::new(s);
            if let Ok(h) = Ethernet2Header::read(&mut c) {
                witness!(true, "eth_ok");
                sink(h);
            }
        }
        1 => {
            let mut c = Cursor::new(s);
            if let Ok(h) = SingleVlanHeader::read(&mut c) {
                sink(h);
            }
        }
        2 => {
            let mut c = Cursor::new(s);
            match LinuxSllHeader::read(&mut c) {
                Ok(h) => {
                    witness!(true, "sll_ok");
                    sink(h.to_bytes());
                }
                Err(e) => {
                    core::mem::forget(e);
                }
            }
        }
        _ => {
            let mut c = Cursor::new(s);
            match MacsecHeader::read(&mut c) {
                Ok(h) => {
                    witness!(true, "macsec_ok");
                    sink(h.to_bytes());
                }
                Err(e) => {
                    core::mem::forget(e);
                }
            }
        }
    }
}


// =============================================================== network layer

pub fn touch_ipv4_header(outer: &[u8], h: &Ipv4HeaderSlice) {
    within!(outer, h.slice());
    within!(outer, h.options());
    sink(h.version());
    sink(h.ihl());
    sink(h.dcp());
    sink(h.ecn());
    sink(h.total_len());
    sink(h.payload_len());
    sink(h.identification());
    sink(h.dont_fragment());
    sink(h.more_fragments());
    sink(h.fragments_offset());
    sink(h.ttl());
    sink(h.protocol());
    sink(h.header_checksum());
    sink(h.source());
    sink(h.destination());
    sink(h.source_addr());
    sink(h.destination_addr());
    sink(h.is_fragmenting_payload());
    sink(h.to_header());
}

pub fn touch_auth(outer: &[u8], a: &IpAuthHeaderSlice) {
    within!(outer, a.slice());
    within!(outer, a.raw_icv());
    sink(a.next_header());
    sink(a.spi());
    sink(a.sequence_number());
}

pub fn touch_raw_ext(outer: &[u8], r: &Ipv6RawExtHeaderSlice) {
    within!(outer, r.slice());
    within!(outer, r.payload());
    sink(r.next_header());
}

pub fn touch_frag(outer: &[u8], f: &Ipv6FragmentHeaderSlice) {
    within!(outer, f.slice());
    sink(f.next_header());
    sink(f.fragment_offset());
    sink(f.more_fragments());
    sink(f.identification());
    sink(f.is_fragmenting_payload());
    sink(f.to_header());
}

pub fn touch_ip_payload(outer: &[u8], p: &IpPayloadSlice) {
    within!(outer, p.payload);
    sink(p.ip_number);
    sink(p.fragmented);
    sink(p.len_source);
}

pub fn touch_lax_ip_payload(outer: &[u8], p: &LaxIpPayloadSlice) {
    within!(outer, p.payload);
    sink(p.ip_number);
    sink(p.fragmented);
    sink(p.len_source);
    sink(p.incomplete);
}

/// walks the extension chain to exhaustion; returns the number of headers yielded
pub fn touch_ipv6_exts(outer: &[u8], e: &Ipv6ExtensionsSlice) -> usize {
    within!(outer, e.slice());
    sink(e.is_fragmenting_payload());
    sink(e.first_header());
    sink(e.is_empty());
    let mut n = 0usize;
    let mut it = e.clone().into_iter();
    while let Some(x) = it.next() {
        match x {
            Ipv6ExtensionSlice::HopByHop(r)
            | Ipv6ExtensionSlice::Routing(r)
            | Ipv6ExtensionSlice::DestinationOptions(r) => touch_raw_ext(outer, &r),
            Ipv6ExtensionSlice::Fragment(f) => touch_frag(outer, &f),
            Ipv6ExtensionSlice::Authentication(a) => touch_auth(outer, &a),
        }
        n += 1;
        // C02: every yielded header consumes at least 8 bytes of the chain
        assert!(n * 8 <= e.slice().len());
    }
    n
}

pub fn touch_ipv6_header(outer: &[u8], h: &Ipv6HeaderSlice) {
    within!(outer, h.slice());
    sink(h.version());
    sink(h.traffic_class());
    sink(h.ecn());
    sink(h.dscp());
    sink(h.flow_label());
    sink(h.payload_length());
    sink(h.next_header());
    sink(h.hop_limit());
    sink(h.source());
    sink(h.destination());
    sink(h.source_addr());
    sink(h.destination_addr());
    sink(h.to_header());
}

pub fn ipv4_header_slice() {
    let t = Tight::<64>::new(any_le(64));
    let s = t.slice();
    match Ipv4HeaderSlice::from_slice(s) {
        Ok(h) => {
            witness!(h.options().len() == 40, "ok_max_options");
            touch_ipv4_header(s, &h);
        }
        Err(_) => {
            witness!(true, "err");
        }
    }
    match Ipv4Header::from_slice(s) {
        Ok((h, rest)) => {
            within!(s, rest);
            sink(h.header_len());
        }
        Err(_) => {}
    }
}

pub fn ipv4_slice() {
    let t = Tight::<44>::new(any_le(44));
    let s = t.slice();
    match Ipv4Slice::from_slice(s) {
        Ok(ip) => {
            witness!(ip.extensions().auth.is_some() && ip.payload().payload.len() > 0, "ok_auth_payload");
            witness!(ip.header().options().len() > 0, "ok_options");
            touch_ipv4_header(s, &ip.header());
            if let Some(a) = ip.extensions().auth {
                touch_auth(s, &a);
            }
            sink(ip.extensions().is_empty());
            touch_ip_payload(s, ip.payload());
            sink(ip.payload_ip_number());
            sink(ip.is_payload_fragmented());
        }
        Err(_) => {
            witness!(true, "err");
        }
    }
}

pub fn lax_ipv4_slice() {
    let t = Tight::<44>::new(any_le(44));
    let s = t.slice();
    match LaxIpv4Slice::from_slice(s) {
        Ok((ip, stop)) => {
            witness!(stop.is_some(), "ok_stop_err");
            witness!(ip.payload().incomplete, "ok_incomplete");
            touch_ipv4_header(s, &ip.header());
            if let Some(a) = ip.extensions().auth {
                touch_auth(s, &a);
            }
            touch_lax_ip_payload(s, ip.payload());
            sink(ip.payload_ip_number());
            sink(ip.is_payload_fragmented());
            core::mem::forget(stop);
        }
        Err(_) => {
            witness!(true, "err");
        }
    }
}

pub fn ipv4_exts() {
    let t = Tight::<28>::new(any_le(28));
    let s = t.slice();
    let start = IpNumber(any());
    match Ipv4ExtensionsSlice::from_slice(start, s) {
        Ok((e, _n, rest)) => {
            witness!(e.auth.is_some(), "ok_auth");
            within!(s, rest);
            if let Some(a) = e.auth {
                touch_auth(s, &a);
            }
        }
        Err(_) => {}
    }
    let (e, _n, rest, err) = Ipv4ExtensionsSlice::from_slice_lax(start, s);
    witness!(err.is_some(), "lax_err");
    within!(s, rest);
    if let Some(a) = e.auth {
        touch_auth(s, &a);
    }
    core::mem::forget(err);
}

pub fn auth_slice() {
    let t = Tight::<28>::new(any_le(28));
    let s = t.slice();
    match IpAuthHeaderSlice::from_slice(s) {
        Ok(a) => {
            witness!(a.raw_icv().len() == 16, "ok_icv16");
            touch_auth(s, &a);
        }
        Err(_) => {
            witness!(true, "err");
        }
    }
}

pub fn ipv6_header_slice() {
    let t = Tight::<48>::new(any_le(48));
    let s = t.slice();
    match Ipv6HeaderSlice::from_slice(s) {
        Ok(h) => {
            witness!(true, "ok");
            touch_ipv6_header(s, &h);
        }
        Err(_) => {
            witness!(true, "err");
        }
    }
    match Ipv6Header::from_slice(s) {
        Ok((_h, rest)) => {
            within!(s, rest);
        }
        Err(_) => {}
    }
}

pub fn raw_ext_slice() {
    let t = Tight::<32>::new(any_le(32));
    let s = t.slice();
    match Ipv6RawExtHeaderSlice::from_slice(s) {
        Ok(r) => {
            witness!(r.slice().len() == 24, "ok_len24");
            touch_raw_ext(s, &r);
        }
        Err(_) => {
            witness!(true, "err");
        }
    }
    match Ipv6FragmentHeaderSlice::from_slice(s) {
        Ok(f) => touch_frag(s, &f),
        Err(_) => {}
    }
    match Ipv6FragmentHeader::from_slice(s) {
        Ok((_f, rest)) => {
            within!(s, rest);
        }
        Err(_) => {}
    }
}

/// strict extension chain decoding + iteration to exhaustion
pub fn ipv6_exts_strict<const N: usize>() {
    let t = Tight::<N>::new(any_le(N));
    let s = t.slice();
    let start = IpNumber(any());
    match Ipv6ExtensionsSlice::from_slice(start, s) {
        Ok((e, _n, rest)) => {
            within!(s, rest);
            let n = touch_ipv6_exts(s, &e);
            witness!(n >= 2, "ok_two_headers");
            // the chain and the rest tile the input
            assert!(e.slice().len() + rest.len() == s.len());
        }
        Err(_) => {
            witness!(true, "err");
        }
    }
}

/// lax extension chain decoding + iteration to exhaustion (the result may have stopped early)
pub fn ipv6_exts_lax<const N: usize>() {
    let t = Tight::<N>::new(any_le(N));
    let s = t.slice();
    let start = IpNumber(any());
    let (e, _n, rest, err) = Ipv6ExtensionsSlice::from_slice_lax(start, s);
    within!(s, rest);
    let n = touch_ipv6_exts(s, &e);
    witness!(err.is_some() && n >= 1, "stopped_after_a_header");
    witness!(err.is_none() && n >= 2, "complete_two_headers");
    witness!(err.is_some() && n == 0, "stopped_at_first_header");
    assert!(e.slice().len() + rest.len() == s.len());
    core::mem::forget(err);
}

pub fn ipv6_slice<const N: usize>() {
    let t = Tight::<N>::new(any_le(N));
    let s = t.slice();
    let lax: bool = any();
    let r = if lax { Ipv6Slice::from_slice_lax(s) } else { Ipv6Slice::from_slice(s) };
    match r {
        Ok(ip) => {
            witness!(!lax && !ip.extensions().is_empty() && ip.payload().payload.len() > 0, "ok_exts_payload");
            witness!(lax && ip.payload().len_source == LenSource::Slice, "lax_slice_len");
            touch_ipv6_header(s, &ip.header());
            touch_ipv6_exts(s, ip.extensions());
            touch_ip_payload(s, ip.payload());
            sink(ip.is_payload_fragmented());
        }
        Err(_) => {
            witness!(true, "err");
        }
    }
}

pub fn lax_ipv6_slice<const N: usize>() {
    let t = Tight::<N>::new(any_le(N));
    let s = t.slice();
    match LaxIpv6Slice::from_slice(s) {
        Ok((ip, stop)) => {
            witness!(stop.is_some() && !ip.extensions().is_empty(), "ok_stop_after_ext");
            witness!(ip.payload().incomplete, "ok_incomplete");
            touch_ipv6_header(s, &ip.header());
            touch_ipv6_exts(s, ip.extensions());
            touch_lax_ip_payload(s, ip.payload());
            sink(ip.is_payload_fragmented());
            core::mem::forget(stop);
        }
        Err(_) => {
            witness!(true, "err");
        }
    }
}

pub fn ip_slice<const N: usize>() {
    let t = Tight::<N>::new(any_le(N));
    let s = t.slice();
    match IpSlice::from_slice(s) {
        Ok(ip) => {
            witness!(ip.ipv4().is_some(), "ok_v4");
            witness!(ip.ipv6().is_some(), "ok_v6");
            match &ip {
                IpSlice::Ipv4(v4) => {
                    touch_ipv4_header(s, &v4.header());
                    if let Some(a) = v4.extensions().auth {
                        touch_auth(s, &a);
                    }
                }
                IpSlice::Ipv6(v6) => {
                    touch_ipv6_header(s, &v6.header());
                    touch_ipv6_exts(s, v6.extensions());
                }
            }
            touch_ip_payload(s, ip.payload());
            sink(ip.payload_ip_number());
            sink(ip.is_fragmenting_payload());
            sink(ip.source_addr());
            sink(ip.destination_addr());
            let _ = ip.header();
        }
        Err(_) => {
            witness!(true, "err");
        }
    }
}

pub fn lax_ip_slice<const N: usize>() {
    let t = Tight::<N>::new(any_le(N));
    let s = t.slice();
    match LaxIpSlice::from_slice(s) {
        Ok((ip, stop)) => {
            witness!(ip.ipv4().is_some() && stop.is_some(), "ok_v4_stop");
            witness!(ip.ipv6().is_some() && stop.is_some(), "ok_v6_stop");
            match &ip {
                LaxIpSlice::Ipv4(v4) => {
                    touch_ipv4_header(s, &v4.header());
                    if let Some(a) = v4.extensions().auth {
                        touch_auth(s, &a);
                    }
                }
                LaxIpSlice::Ipv6(v6) => {
                    touch_ipv6_header(s, &v6.header());
                    touch_ipv6_exts(s, v6.extensions());
                }
            }
            touch_lax_ip_payload(s, ip.payload());
            sink(ip.payload_ip_number());
            sink(ip.is_fragmenting_payload());
            sink(ip.source_addr());
            sink(ip.destination_addr());
            core::mem::forget(stop);
        }
        Err(_) => {
            witness!(true, "err");
        }
    }
}

crate::harnesses! {
    c01_eth2_header_slice = eth2_header_slice; unwind 4,
    c01_eth2_slice = eth2_slice; unwind 4,
    c01_vlan_slice = vlan_slice; unwind 4,
    c01_macsec_slice = macsec_slice; unwind 4,
    c01_lax_macsec_slice = lax_macsec_slice; unwind 4,
    c01_sll_slice = sll_slice; unwind 4,
    c01_sll_from_bytes = sll_from_bytes; unwind 4,
    c01_arp_slice = arp_slice; unwind 40,
    c01_link_readers = link_readers; unwind 24,
    c01_ipv4_header_slice = ipv4_header_slice; unwind 4,
    c01_ipv4_slice = ipv4_slice; unwind 4,
    c01_lax_ipv4_slice = lax_ipv4_slice; unwind 4,
    c01_ipv4_exts = ipv4_exts; unwind 4,
    c01_auth_slice = auth_slice; unwind 4,
    c01_ipv6_header_slice = ipv6_header_slice; unwind 4,
    c01_raw_ext_slice = raw_ext_slice; unwind 4,
    // extension chains: N=16 -> <= 2 headers (loop <= 3 passes), N=24 -> <= 3 headers
    c01_ipv6_exts_strict_16 = ipv6_exts_strict::<16>; unwind 4,
    c01_ipv6_exts_lax_16 = ipv6_exts_lax::<16>; unwind 4,
    c01_ipv6_exts_strict_24 = ipv6_exts_strict::<24>; unwind 5,
    c01_ipv6_exts_lax_24 = ipv6_exts_lax::<24>; unwind 5,
    c01_ipv6_slice_56 = ipv6_slice::<56>; unwind 4,
    c01_lax_ipv6_slice_56 = lax_ipv6_slice::<56>; unwind 4,
    c01_ip_slice_56 = ip_slice::<56>; unwind 4,
    c01_lax_ip_slice_56 = lax_ip_slice::<56>; unwind 4,
    c01_ipv6_slice_64 = ipv6_slice::<64>; unwind 5,
    c01_lax_ipv6_slice_64 = lax_ipv6_slice::<64>; unwind 5,
    c01_ip_slice_64 = ip_slice::<64>; unwind 5,
    c01_lax_ip_slice_64 = lax_ip_slice::<64>; unwind 5,
}

// =============================================================== transport layer (c01t)

pub mod transport {
    use super::*;

    pub fn touch_udp(outer: &[u8], u: &UdpSlice) {
        within!(outer, u.slice());
        within!(outer, u.header_slice());
        within!(outer, u.payload());
        sink(u.payload_len_source());
        sink(u.source_port());
        sink(u.destination_port());
        sink(u.length());
        sink(u.checksum());
        sink(u.to_header());
    }

    pub fn udp_slice() {
        let t = Tight::<16>::new(any_le(16));
        let s = t.slice();
        match UdpHeaderSlice::from_slice(s) {
            Ok(h) => {
                within!(s, h.slice());
                sink(h.source_port());
                sink(h.destination_port());
                sink(h.length());
                sink(h.checksum());
                sink(h.to_header());
            }
            Err(_) => {}
        }
        match UdpHeader::from_slice(s) {
            Ok((_h, rest)) => {
                within!(s, rest);
            }
            Err(_) => {}
        }
        let lax: bool = any();
        let r = if lax { UdpSlice::from_slice_lax(s) } else { UdpSlice::from_slice(s) };
        match r {
            Ok(u) => {
                witness!(!lax && u.payload().len() > 0 && u.payload().len() + 8 < s.len(), "ok_cut_payload");
                witness!(lax && u.payload_len_source() == LenSource::Slice, "lax_fallback");
                touch_udp(s, &u);
            }
            Err(_) => {
                witness!(true, "err");
            }
        }
    }

    pub fn touch_tcp_options(outer: &[u8], opts: &[u8], it: TcpOptionsIterator) {
        within!(outer, opts);
        let mut it = it;
        let mut n = 0usize;
        while let Some(r) = it.next() {
            within!(outer, it.rest());
            n += 1;
            // C02: no more items than bytes
            assert!(n <= opts.len());
            core::mem::forget(r);
        }
        assert!(it.next().is_none());
    }

    pub fn tcp_header_slice<const N: usize, const ITER: bool>() {
        let t = Tight::<N>::new(any_le(N));
        let s = t.slice();
        match TcpHeaderSlice::from_slice(s) {
            Ok(h) => {
                witness!(h.options().len() >= 4, "ok_options");
                within!(s, h.slice());
                sink(h.source_port());
                sink(h.destination_port());
                sink(h.sequence_number());
                sink(h.acknowledgment_number());
                sink(h.data_offset());
                sink((h.ns(), h.fin(), h.syn(), h.rst(), h.psh(), h.ack(), h.urg(), h.ece(), h.cwr()));
                sink(h.window_size());
                sink(h.checksum());
                sink(h.urgent_pointer());
                within!(s, h.options());
                if ITER {
                    touch_tcp_options(s, h.options(), h.options_iterator());
                    let hd = h.to_header();
                    sink(hd.header_len());
                }
            }
            Err(_) => {
                witness!(true, "err");
            }
        }
    }

    pub fn tcp_slice<const N: usize, const ITER: bool>() {
        let t = Tight::<N>::new(any_le(N));
        let s = t.slice();
        match TcpSlice::from_slice(s) {
            Ok(h) => {
                witness!(h.options().len() >= 4 && h.payload().len() > 0, "ok_options_payload");
                within!(s, h.slice());
                within!(s, h.header_slice());
                within!(s, h.payload());
                sink(h.source_port());
                sink(h.destination_port());
                sink(h.sequence_number());
                sink(h.acknowledgment_number());
                sink(h.data_offset());
                sink((h.ns(), h.fin(), h.syn(), h.rst(), h.psh(), h.ack(), h.urg(), h.ece(), h.cwr()));
                sink(h.window_size());
                sink(h.checksum());
                sink(h.urgent_pointer());
                within!(s, h.options());
                if ITER {
                    touch_tcp_options(s, h.options(), h.options_iterator());
                    let hd = h.to_header();
                    sink(hd.header_len());
                }
            }
            Err(_) => {
                witness!(true, "err");
            }
        }
        match TcpHeader::from_slice(s) {
            Ok((_h, rest)) => {
                within!(s, rest);
            }
            Err(_) => {}
        }
    }

    pub fn icmpv4_slice() {
        let t = Tight::<28>::new(any_le(28));
        let s = t.slice();
        match Icmpv4Slice::from_slice(s) {
            Ok(i) => {
                witness!(i.payload().len() > 0, "ok_payload");
                within!(s, i.slice());
                within!(s, i.payload());
                sink(i.header_len());
                sink(i.type_u8());
                sink(i.code_u8());
                sink(i.checksum());
                sink(i.bytes5to8());
                sink(i.icmp_type());
                sink(i.header());
                assert!(i.header_len() + i.payload().len() == i.slice().len());
            }
            Err(_) => {
                witness!(true, "err");
            }
        }
        match Icmpv4Header::from_slice(s) {
            Ok((h, rest)) => {
                within!(s, rest);
                sink(h.header_len());
            }
            Err(_) => {}
        }
    }

    pub fn icmpv6_slice() {
        let t = Tight::<28>::new(any_le(28));
        let s = t.slice();
        match Icmpv6Slice::from_slice(s) {
            Ok(i) => {
                witness!(i.payload().len() > 0, "ok_payload");
                within!(s, i.slice());
                within!(s, i.payload());
                sink(i.header_len());
                sink(i.type_u8());
                sink(i.code_u8());
                sink(i.checksum());
                sink(i.bytes5to8());
                sink(i.icmp_type());
                sink(i.header());
                assert!(i.header_len() + i.payload().len() == i.slice().len());
                match i.payload_slice() {
                    Ok(p) => {
                        within!(s, p.slice());
                    }
                    Err(_) => {}
                }
            }
            Err(_) => {
                witness!(true, "err");
            }
        }
        match Icmpv6Header::from_slice(s) {
            Ok((h, rest)) => {
                within!(s, rest);
                sink(h.header_len());
            }
            Err(_) => {}
        }
    }

    crate::harnesses! {
        c01_udp_slice = udp_slice; unwind 4,
        c01_tcp_header_slice_64_noiter = tcp_header_slice::<64, false>; unwind 4,
        // all data offsets / option area sizes, accessors only (the iterator itself: C13 harnesses)
        c01_tcp_slice_64_noiter = tcp_slice::<64, false>; unwind 4,
        c01_icmpv4_slice = icmpv4_slice; unwind 4,
        c01_icmpv6_slice = icmpv6_slice; unwind 4,
    }
}

// =============================================================== readers of the network / transport headers

pub mod readers {
    use super::*;
    use std::io::Cursor;

    // One function per reader (not one body generic over a const selector: a witness in an arm that is dead for an
    // instantiation comes back UNSATISFIABLE). Input: a reader over an exact-size buffer; afterwards the accessors
    // that touch variable parts are called (an over-long option length written by the reader would show there).

    pub fn rd_ipv4() {
        let t = Tight::<64>::new(any_le(64));
        let mut c = Cursor::new(t.slice());
        if let Ok(h) = Ipv4Header::read(&mut c) {
            witness!(h.options.len() > 0, "ok_options");
            assert!(h.options.len() <= 40 && h.header_len() <= 60);
            sink(h.to_bytes().len());
        }
    }

    /// documented: the version is not checked by this function - every first byte is a legal argument
    pub fn rd_ipv4_without_version() {
        let t = Tight::<64>::new(any_le(64));
        let mut c = Cursor::new(t.slice());
        let first: u8 = any();
        match Ipv4Header::read_without_version(&mut c, first) {
            Ok(h) => {
                witness!(first >> 4 != 4, "ok_other_version_nibble");
                assert!(h.options.len() <= 40 && h.header_len() <= 60, "C01: option length beyond the option buffer");
                sink(h.to_bytes().len());
            }
            Err(e) => core::mem::forget(e),
        }
    }

    pub fn rd_ipv6() {
        let t = Tight::<44>::new(any_le(44));
        let mut c = Cursor::new(t.slice());
        if let Ok(h) = Ipv6Header::read(&mut c) {
            witness!(true, "ok");
            sink(h.to_bytes());
        }
        let mut c2 = Cursor::new(t.slice());
        let nib: u8 = any();
        if let Ok(h) = Ipv6Header::read_without_version(&mut c2, nib) {
            sink(h.to_bytes());
        }
    }

    pub fn rd_auth() {
        let t = Tight::<28>::new(any_le(28));
        let mut c = Cursor::new(t.slice());
        match IpAuthHeader::read(&mut c) {
            Ok(h) => {
                witness!(h.raw_icv().len() > 0, "ok_icv");
                assert!(h.header_len() == 12 + h.raw_icv().len());
            }
            Err(e) => core::mem::forget(e),
        }
    }

    pub fn rd_raw_ext() {
        let t = Tight::<28>::new(any_le(28));
        let mut c = Cursor::new(t.slice());
        match Ipv6RawExtHeader::read(&mut c) {
            Ok(h) => {
                witness!(h.payload().len() > 6, "ok_long");
                assert!(h.header_len() == 2 + h.payload().len());
            }
            Err(e) => core::mem::forget(e),
        }
    }

    pub fn rd_frag_udp() {
        let t = Tight::<12>::new(any_le(12));
        let mut c = Cursor::new(t.slice());
        if let Ok(h) = Ipv6FragmentHeader::read(&mut c) {
            witness!(true, "ok_frag");
            sink(h.to_bytes());
        }
        let mut c2 = Cursor::new(t.slice());
        if let Ok(h) = UdpHeader::read(&mut c2) {
            sink(h.to_bytes());
        }
    }

    pub fn rd_tcp() {
        let t = Tight::<64>::new(any_le(64));
        let mut c = Cursor::new(t.slice());
        match TcpHeader::read(&mut c) {
            Ok(h) => {
                witness!(h.options.len() > 0, "ok_options");
                assert!(h.options.len() <= 40 && h.header_len() <= 60);
            }
            Err(e) => core::mem::forget(e),
        }
    }

    pub fn rd_icmp() {
        let t = Tight::<24>::new(any_le(24));
        let mut c = Cursor::new(t.slice());
        match Icmpv4Header::read(&mut c) {
            Ok(h) => {
                witness!(true, "ok_v4");
                sink(h.header_len());
            }
            Err(e) => core::mem::forget(e),
        }
        let mut c2 = Cursor::new(t.slice());
        match Icmpv6Header::read(&mut c2) {
            Ok(h) => sink(h.header_len()),
            Err(e) => core::mem::forget(e),
        }
    }

    crate::harnesses! {
        c01_rd_ipv4 = rd_ipv4; unwind 4,
        c01_rd_ipv4_without_version = rd_ipv4_without_version; unwind 4,
        c01_rd_ipv6 = rd_ipv6; unwind 4,
        c01_rd_auth = rd_auth; unwind 4,
        c01_rd_raw_ext = rd_raw_ext; unwind 4,
        c01_rd_frag_udp = rd_frag_udp; unwind 4,
        c01_rd_tcp = rd_tcp; unwind 4,
        c01_rd_icmp = rd_icmp; unwind 4,
    }
}

// =============================================================== whole packets (thorough tier)

pub mod packet {
    use super::*;

    fn touch_link(s: &[u8], l: &LinkSlice) {
        match l {
            LinkSlice::Ethernet2(e) => {
                within!(s, e.slice());
                within!(s, e.payload_slice());
                sink(e.to_header());
            }
            LinkSlice::LinuxSll(l) => {
                within!(s, l.slice());
                within!(s, l.payload_slice());
                within!(s, l.sender_address());
                sink(l.to_header());
            }
            LinkSlice::EtherPayload(e) => touch_ether_payload(s, e),
            LinkSlice::LinuxSllPayload(e) => {
                within!(s, e.payload);
            }
        }
        sink(l.to_header());
        if let Some(p) = l.ether_payload() {
            touch_ether_payload(s, &p);
        }
    }

    fn touch_transport(s: &[u8], t: &TransportSlice) {
        match t {
            TransportSlice::Udp(u) => super::transport::touch_udp(s, u),
            TransportSlice::Tcp(t) => {
                within!(s, t.slice());
                within!(s, t.header_slice());
                within!(s, t.payload());
                within!(s, t.options());
                sink((t.source_port(), t.destination_port(), t.sequence_number(), t.data_offset(), t.window_size()));
            }
            TransportSlice::Icmpv4(i) => {
                within!(s, i.slice());
                within!(s, i.payload());
                sink(i.header());
            }
            TransportSlice::Icmpv6(i) => {
                within!(s, i.slice());
                within!(s, i.payload());
                sink(i.header());
            }
        }
    }

    fn touch_sliced(s: &[u8], p: &SlicedPacket) {
        if let Some(l) = &p.link {
            touch_link(s, l);
        }
        let mut i = 0;
        while i < p.link_exts.len() {
            match &p.link_exts[i] {
                LinkExtSlice::Vlan(v) => {
                    within!(s, v.slice());
                    within!(s, v.payload_slice());
                    sink(v.to_header());
                }
                LinkExtSlice::Macsec(m) => {
                    touch_macsec_header(s, &m.header);
                    if let Some(e) = m.ether_payload() {
                        touch_ether_payload(s, &e);
                    }
                }
            }
            sink(p.link_exts[i].header_len());
            i += 1;
        }
        match &p.net {
            Some(NetSlice::Ipv4(v4)) => {
                touch_ipv4_header(s, &v4.header());
                if let Some(a) = v4.extensions().auth {
                    touch_auth(s, &a);
                }
                touch_ip_payload(s, v4.payload());
            }
            Some(NetSlice::Ipv6(v6)) => {
                touch_ipv6_header(s, &v6.header());
                touch_ipv6_exts(s, v6.extensions());
                touch_ip_payload(s, v6.payload());
            }
            Some(NetSlice::Arp(a)) => {
                within!(s, a.slice());
                within!(s, a.target_protocol_addr());
                sink(a.to_packet().packet_len());
            }
            None => {}
        }
        if let Some(t) = &p.transport {
            touch_transport(s, t);
        }
        sink(p.payload_ether_type());
        if let Some(e) = p.ether_payload() {
            touch_ether_payload(s, &e);
        }
        if let Some(ip) = p.ip_payload() {
            touch_ip_payload(s, ip);
        }
        sink(p.is_ip_payload_fragmented());
        sink(p.vlan().is_some());
        sink(p.vlan_ids().len());
    }

    fn touch_lax_sliced(s: &[u8], p: &LaxSlicedPacket) {
        if let Some(l) = &p.link {
            touch_link(s, l);
        }
        let mut i = 0;
        while i < p.link_exts.len() {
            match &p.link_exts[i] {
                LaxLinkExtSlice::Vlan(v) => {
                    within!(s, v.slice());
                    within!(s, v.payload_slice());
                }
                LaxLinkExtSlice::Macsec(m) => {
                    touch_macsec_header(s, &m.header);
                    if let Some(e) = m.ether_payload() {
                        touch_lax_ether_payload(s, &e);
                    }
                }
            }
            sink(p.link_exts[i].header_len());
            sink(p.link_exts[i].to_header());
            i += 1;
        }
        match &p.net {
            Some(LaxNetSlice::Ipv4(v4)) => {
                touch_ipv4_header(s, &v4.header());
                if let Some(a) = v4.extensions().auth {
                    touch_auth(s, &a);
                }
                touch_lax_ip_payload(s, v4.payload());
            }
            Some(LaxNetSlice::Ipv6(v6)) => {
                touch_ipv6_header(s, &v6.header());
                touch_ipv6_exts(s, v6.extensions());
                touch_lax_ip_payload(s, v6.payload());
            }
            Some(LaxNetSlice::Arp(a)) => {
                within!(s, a.slice());
                within!(s, a.target_protocol_addr());
            }
            None => {}
        }
        if let Some(t) = &p.transport {
            touch_transport(s, t);
        }
        if let Some(e) = p.ether_payload() {
            touch_lax_ether_payload(s, &e);
        }
        if let Some(ip) = p.ip_payload() {
            touch_lax_ip_payload(s, ip);
        }
        sink(p.vlan().is_some());
        sink(p.vlan_ids().len());
    }

    /// light variant: only the slices the cursor itself cuts (accessors are decided per layer)
    fn touch_sliced_light(s: &[u8], p: &SlicedPacket) {
        match &p.link {
            Some(LinkSlice::Ethernet2(e)) => within!(s, e.slice()),
            Some(LinkSlice::LinuxSll(l)) => within!(s, l.slice()),
            Some(LinkSlice::EtherPayload(e)) => within!(s, e.payload),
            Some(LinkSlice::LinuxSllPayload(e)) => within!(s, e.payload),
            None => {}
        }
        let mut i = 0;
        while i < p.link_exts.len() {
            match &p.link_exts[i] {
                LinkExtSlice::Vlan(v) => within!(s, v.slice()),
                LinkExtSlice::Macsec(m) => {
                    within!(s, m.header.slice());
                    match &m.payload {
                        MacsecPayloadSlice::Unmodified(e) => within!(s, e.payload),
                        MacsecPayloadSlice::Modified(x) => within!(s, x),
                    }
                }
            }
            i += 1;
        }
        match &p.net {
            Some(NetSlice::Ipv4(v4)) => {
                within!(s, v4.header().slice());
                within!(s, v4.payload().payload);
            }
            Some(NetSlice::Ipv6(v6)) => {
                within!(s, v6.header().slice());
                within!(s, v6.extensions().slice());
                within!(s, v6.payload().payload);
            }
            Some(NetSlice::Arp(a)) => within!(s, a.slice()),
            None => {}
        }
        match &p.transport {
            Some(TransportSlice::Udp(u)) => within!(s, u.slice()),
            Some(TransportSlice::Tcp(t)) => within!(s, t.slice()),
            Some(TransportSlice::Icmpv4(x)) => within!(s, x.slice()),
            Some(TransportSlice::Icmpv6(x)) => within!(s, x.slice()),
            None => {}
        }
    }

    pub fn sliced<const N: usize, const START: u8>() {
        let t = Tight::<N>::new(any_le(N));
        let s = t.slice();
        let r = match START {
            0 => SlicedPacket::from_ethernet(s),
            1 => SlicedPacket::from_linux_sll(s),
            2 => SlicedPacket::from_ether_type(EtherType(any()), s),
            _ => SlicedPacket::from_ip(s),
        };
        match r {
            Ok(p) => {
                witness!(p.transport.is_some(), "ok_transport");
                touch_sliced_light(s, &p);
                core::mem::forget(p);
            }
            Err(e) => {
                witness!(true, "err");
                core::mem::forget(e);
            }
        }
    }

    fn touch_lax_sliced_light(s: &[u8], p: &LaxSlicedPacket) {
        match &p.link {
            Some(LinkSlice::Ethernet2(e)) => within!(s, e.slice()),
            Some(LinkSlice::LinuxSll(l)) => within!(s, l.slice()),
            Some(LinkSlice::EtherPayload(e)) => within!(s, e.payload),
            Some(LinkSlice::LinuxSllPayload(e)) => within!(s, e.payload),
            None => {}
        }
        let mut i = 0;
        while i < p.link_exts.len() {
            match &p.link_exts[i] {
                LaxLinkExtSlice::Vlan(v) => within!(s, v.slice()),
                LaxLinkExtSlice::Macsec(m) => {
                    within!(s, m.header.slice());
                    match &m.payload {
                        LaxMacsecPayloadSlice::Unmodified(e) => within!(s, e.payload),
                        LaxMacsecPayloadSlice::Modified { payload, .. } => within!(s, payload),
                    }
                }
            }
            i += 1;
        }
        match &p.net {
            Some(LaxNetSlice::Ipv4(v4)) => {
                within!(s, v4.header().slice());
                within!(s, v4.payload().payload);
            }
            Some(LaxNetSlice::Ipv6(v6)) => {
                within!(s, v6.header().slice());
                within!(s, v6.extensions().slice());
                within!(s, v6.payload().payload);
            }
            Some(LaxNetSlice::Arp(a)) => within!(s, a.slice()),
            None => {}
        }
        match &p.transport {
            Some(TransportSlice::Udp(u)) => within!(s, u.slice()),
            Some(TransportSlice::Tcp(t)) => within!(s, t.slice()),
            Some(TransportSlice::Icmpv4(x)) => within!(s, x.slice()),
            Some(TransportSlice::Icmpv6(x)) => within!(s, x.slice()),
            None => {}
        }
    }

    pub fn lax_sliced<const N: usize, const START: u8>() {
        let t = Tight::<N>::new(any_le(N));
        let s = t.slice();
        let r = match START {
            0 => LaxSlicedPacket::from_ethernet(s).ok(),
            2 => Some(LaxSlicedPacket::from_ether_type(EtherType(any()), s)),
            _ => LaxSlicedPacket::from_ip(s).ok(),
        };
        if let Some(p) = r {
            witness!(p.stop_err.is_some() && p.net.is_some(), "stopped_behind_net");
            touch_lax_sliced_light(s, &p);
            core::mem::forget(p);
        }
    }

    pub fn headers<const N: usize, const START: u8>() {
        let t = Tight::<N>::new(any_le(N));
        let s = t.slice();
        let r = match START {
            0 => PacketHeaders::from_ethernet_slice(s),
            2 => PacketHeaders::from_ether_type(EtherType(any()), s),
            _ => PacketHeaders::from_ip_slice(s),
        };
        match r {
            Ok(p) => {
                witness!(p.transport.is_some(), "ok_transport");
                within!(s, p.payload.slice());
                sink(p.vlan().is_some());
                sink(p.vlan_ids().len());
                core::mem::forget(p);
            }
            Err(e) => core::mem::forget(e),
        }
    }

    pub fn lax_headers<const N: usize, const START: u8>() {
        let t = Tight::<N>::new(any_le(N));
        let s = t.slice();
        let r = match START {
            0 => LaxPacketHeaders::from_ethernet(s).ok(),
            1 => LaxPacketHeaders::from_linux_sll(s).ok(),
            2 => Some(LaxPacketHeaders::from_ether_type(EtherType(any()), s)),
            _ => LaxPacketHeaders::from_ip(s).ok(),
        };
        if let Some(p) = r {
            witness!(p.stop_err.is_some(), "stopped");
            within!(s, p.payload.slice());
            sink(p.vlan().is_some());
            sink(p.vlan_ids().len());
            core::mem::forget(p);
        }
    }

    // Only the entry points that start at the IP header fit the 20 GB cap with an exact-size buffer; from_ethernet /
    // from_linux_sll / from_ether_type (and every PacketHeaders / LaxPacketHeaders entry point) were measured and
    // exceed it (bodies kept above). Their cursor code is covered on plain arrays by the C03 / C05 glue harnesses.
    crate::harnesses! {
        c01_pk_sliced_ip = sliced::<56, 3>; unwind 5,
        c01_pk_sliced_ip_44 = sliced::<44, 3>; unwind 5,
        c01_pk_lax_sliced_ip = lax_sliced::<48, 3>; unwind 5,
    }
}
