//! C03 (strict slicing equals the wire formats) and C07 (errors describe the real fault), per layer.
//!
//! One body per strict constructor that whole-packet slicing is built from, generic over `MODE`:
//! `MODE == 3` asserts the C03 clauses (same verdict as the reference, same ranges / field values),
//! `MODE == 7` asserts the C07 clauses on the error value (layer, offset, len, required_len, length
//! source, content value). Verdict agreement is asserted in both.

use crate::refm::{self, Lim, RFault, Want, RL};
use crate::sym::{any, any_le, assume};
use crate::tight::{inside, off};
use crate::witness;
use etherparse::err::{self, Layer, LenError};
use etherparse::*;

// ------------------------------------------------------------------ error comparison (C07)

pub fn layer_admissible(rl: RL, l: Layer) -> bool {
    use Layer::*;
    match rl {
        RL::Eth => l == Ethernet2Header,
        RL::Sll => l == LinuxSllHeader,
        RL::Vlan => l == VlanHeader,
        RL::Macsec => l == MacsecHeader || l == MacsecPacket,
        RL::Arp => l == Arp,
        RL::V4 => l == Ipv4Header || l == Ipv4Packet || l == IpHeader,
        RL::Auth => l == IpAuthHeader,
        RL::V6 => l == Ipv6Header || l == Ipv6Packet || l == IpHeader,
        RL::HopByHop => l == Ipv6ExtHeader || l == Ipv6HopByHopHeader,
        RL::Route => l == Ipv6ExtHeader || l == Ipv6RouteHeader,
        RL::DestOpt => l == Ipv6ExtHeader || l == Ipv6DestOptionsHeader,
        RL::Frag => l == Ipv6ExtHeader || l == Ipv6FragHeader,
        RL::Udp => l == UdpHeader || l == UdpPayload,
        RL::Tcp => l == TcpHeader,
        RL::Icmp4 => l == Icmpv4 || l == Icmpv4Timestamp || l == Icmpv4TimestampReply,
        RL::Icmp6 => l == Icmpv6,
    }
}

pub fn len_source_of(l: Lim) -> LenSource {
    match l {
        Lim::Slice => LenSource::Slice,
        Lim::MacsecSl => LenSource::MacsecShortLength,
        Lim::V4Total => LenSource::Ipv4HeaderTotalLen,
        Lim::V6Payload => LenSource::Ipv6HeaderPayloadLen,
        Lim::UdpLen => LenSource::UdpHeaderLen,
    }
}

/// the C07 clauses for a length error against the reference fault record;
/// `base` = offset of the slice handed to the reference from the start of the caller's buffer
pub fn check_len_error(e: &LenError, f: &RFault, base: usize) {
    assert!(f.is_len(), "C07: length error reported where the reference sees a content fault");
    assert!(layer_admissible(f.layer, e.layer), "C07: error names a layer other than the one that failed");
    assert!(e.layer_start_offset == base + f.off, "C07: layer_start_offset is not the true offset of the faulting layer");
    match f.want {
        Want::Missing(_) => {
            assert!(e.len == f.avail, "C07: len is not the number of bytes available to the layer");
            assert!(e.required_len > e.len, "C07: missing data must have required_len > len");
            assert!(f.legit_demand(e.required_len), "C07: required_len is not a size the layer demands");
            assert!(
                e.len_source == LenSource::Slice || e.len_source == len_source_of(f.lim),
                "C07: length source names a field that did not limit the layer"
            );
        }
        Want::UnderClaim { field, need } => {
            // the layer's own length field limits it to `field` bytes, fewer than its header
            assert!(e.len == field, "C07: len is not the length the field allows");
            assert!(e.required_len == need, "C07: required_len is not the header length");
            assert!(e.required_len > e.len);
            let own = match f.layer {
                RL::V4 => LenSource::Ipv4HeaderTotalLen,
                RL::Udp => LenSource::UdpHeaderLen,
                _ => LenSource::Slice,
            };
            assert!(e.len_source == own, "C07: length source must be the under-claiming field");
        }
        Want::Exact(n) => {
            assert!(e.len == f.avail, "C07: len is not the number of bytes available to the layer");
            assert!(e.required_len == n, "C07: required_len is not the exact size demanded");
            assert!(
                e.len_source == LenSource::Slice || e.len_source == len_source_of(f.lim),
                "C07: length source names a field that did not limit the layer"
            );
        }
        Want::TooBig { max } => {
            assert!(e.len == f.avail);
            assert!(e.required_len == max && e.required_len < e.len);
        }
        _ => {}
    }
}

// ------------------------------------------------------------------ link layer

pub fn eth<const MODE: u8>() {
    let data: [u8; 20] = any();
    let s = &data[..any_le(20)];
    let r = refm::eth(s);
    match Ethernet2Slice::from_slice_without_fcs(s) {
        Ok(e) => {
            assert!(r.is_ok(), "C03: accepted although the reference rejects");
            if MODE == 3 {
                witness!(e.payload_slice().len() > 0, "3|ok_payload");
                assert!(e.ether_type().0 == r.unwrap());
                assert!(off(s, e.header_slice()) == 0 && e.header_slice().len() == 14);
                assert!(off(s, e.payload_slice()) == 14 && e.payload_slice().len() == s.len() - 14);
                let p = e.payload();
                assert!(p.ether_type.0 == r.unwrap() && p.len_source == LenSource::Slice);
                assert!(off(s, p.payload) == 14 && p.payload.len() == s.len() - 14);
                assert!(e.destination() == [s[0], s[1], s[2], s[3], s[4], s[5]]);
                assert!(e.source() == [s[6], s[7], s[8], s[9], s[10], s[11]]);
                let h = e.to_header();
                assert!(h.destination == e.destination() && h.source == e.source() && h.ether_type == e.ether_type());
            }
        }
        Err(e) => {
            assert!(r.is_err(), "C03: rejected although the reference accepts");
            if MODE == 7 {
                witness!(true, "7|err");
                check_len_error(&e, &r.unwrap_err(), 0);
            }
        }
    }
}

pub fn vlan<const MODE: u8>() {
    let data: [u8; 12] = any();
    let s = &data[..any_le(12)];
    let r = refm::vlan(s, Lim::Slice);
    match SingleVlanSlice::from_slice(s) {
        Ok(v) => {
            assert!(r.is_ok(), "C03: accepted although the reference rejects");
            if MODE == 3 {
                witness!(v.payload_slice().len() > 0, "3|ok_payload");
                assert!(v.ether_type().0 == r.unwrap());
                assert!(off(s, v.header_slice()) == 0 && v.header_slice().len() == 4);
                assert!(off(s, v.payload_slice()) == 4 && v.payload_slice().len() == s.len() - 4);
                let p = v.payload();
                assert!(p.ether_type.0 == r.unwrap() && p.len_source == LenSource::Slice);
                assert!(off(s, p.payload) == 4 && p.payload.len() == s.len() - 4);
                let tci = u16::from_be_bytes([s[0], s[1]]);
                assert!(v.vlan_identifier().value() == tci & 0xfff);
                assert!(v.priority_code_point().value() == (tci >> 13) as u8);
                assert!(v.drop_eligible_indicator() == (tci & 0x1000 != 0));
            }
        }
        Err(e) => {
            assert!(r.is_err(), "C03: rejected although the reference accepts");
            if MODE == 7 {
                witness!(true, "7|err");
                check_len_error(&e, &r.unwrap_err(), 0);
            }
        }
    }
}

pub fn macsec<const MODE: u8>() {
    let data: [u8; 28] = any();
    let s = &data[..any_le(28)];
    let r = refm::macsec(s, Lim::Slice, false);
    match MacsecSlice::from_slice(s) {
        Ok(m) => {
            assert!(r.is_ok(), "C03: accepted although the reference rejects");
            if MODE == 3 {
                let r = r.unwrap();
                assert!(off(s, m.header.slice()) == 0 && m.header.slice().len() == r.hlen);
                assert!(m.header.header_len() == r.hlen);
                assert!(m.next_ether_type().map(|e| e.0) == r.ether_type);
                let want_src = if r.lim == Lim::MacsecSl { LenSource::MacsecShortLength } else { LenSource::Slice };
                match &m.payload {
                    MacsecPayloadSlice::Unmodified(e) => {
                        witness!(e.len_source == LenSource::MacsecShortLength && e.payload.len() + r.hlen < s.len(), "3|ok_unmodified_cut");
                        assert!(Some(e.ether_type.0) == r.ether_type);
                        assert!(off(s, e.payload) == r.hlen && e.payload.len() == r.payload_len);
                        assert!(e.len_source == want_src);
                    }
                    MacsecPayloadSlice::Modified(p) => {
                        witness!(p.len() + r.hlen < s.len(), "3|ok_modified_cut");
                        assert!(r.ether_type.is_none());
                        assert!(off(s, p) == r.hlen && p.len() == r.payload_len);
                    }
                }
                assert!(m.header.packet_nr() == u32::from_be_bytes([s[2], s[3], s[4], s[5]]));
                if s[0] & 0x20 != 0 {
                    assert!(m.header.sci() == Some(u64::from_be_bytes([s[6], s[7], s[8], s[9], s[10], s[11], s[12], s[13]])));
                } else {
                    assert!(m.header.sci().is_none());
                }
            }
        }
        Err(e) => {
            assert!(r.is_err(), "C03: rejected although the reference accepts");
            if MODE == 7 {
                let f = r.unwrap_err();
                match e {
                    err::macsec::HeaderSliceError::Len(l) => {
                        witness!(l.layer == Layer::MacsecPacket, "7|err_short_len");
                        witness!(l.layer == Layer::MacsecHeader, "7|err_header");
                        if l.len_source == LenSource::MacsecShortLength {
                            // KNOWN FINDING (pinned by the repository's own tests, cannot be repaired):
                            // the short length demanded more than the slice holds; the error reports the
                            // slice length as `len` but names the short length field as its source although
                            // that field did not limit the data. Everything else about the error is checked.
                            witness!(true, "7|KF:c07-macsec-short-len-source");
                            let mut l2 = l.clone();
                            l2.len_source = LenSource::Slice;
                            check_len_error(&l2, &f, 0);
                        } else {
                            check_len_error(&l, &f, 0);
                        }
                    }
                    err::macsec::HeaderSliceError::Content(c) => match c {
                        err::macsec::HeaderError::UnexpectedVersion => assert!(f.want == Want::MacsecVersion),
                        err::macsec::HeaderError::InvalidUnmodifiedShortLen => assert!(f.want == Want::MacsecShortLenOne),
                    },
                }
            }
        }
    }
}

pub fn sll<const MODE: u8>() {
    let data: [u8; 20] = any();
    let s = &data[..any_le(20)];
    let r = refm::sll(s);
    match LinuxSllSlice::from_slice(s) {
        Ok(l) => {
            assert!(r.is_ok(), "C03: accepted although the reference rejects");
            if MODE == 3 {
                witness!(l.payload_slice().len() > 0, "3|ok_payload");
                assert!(off(s, l.header_slice()) == 0 && l.header_slice().len() == 16);
                assert!(off(s, l.payload_slice()) == 16 && l.payload_slice().len() == s.len() - 16);
                assert!(u16::from(l.packet_type()) == u16::from_be_bytes([s[0], s[1]]));
                assert!(u16::from(l.arp_hardware_type()) == u16::from_be_bytes([s[2], s[3]]));
                assert!(l.sender_address_valid_length() == u16::from_be_bytes([s[4], s[5]]));
                assert!(l.sender_address_full() == [s[6], s[7], s[8], s[9], s[10], s[11], s[12], s[13]]);
                assert!(u16::from(l.protocol_type()) == u16::from_be_bytes([s[14], s[15]]));
                let is_et = matches!(l.protocol_type(), LinuxSllProtocolType::EtherType(_));
                match r.unwrap() {
                    refm::RSllProto::EtherType(et) => {
                        witness!(true, "3|ok_ether_type");
                        assert!(l.protocol_type() == LinuxSllProtocolType::EtherType(EtherType(et)));
                    }
                    refm::RSllProto::Other => {
                        witness!(true, "3|ok_other");
                        assert!(!is_et);
                    }
                }
            }
        }
        Err(e) => {
            assert!(r.is_err(), "C03: rejected although the reference accepts");
            if MODE == 7 {
                let f = r.unwrap_err();
                match e {
                    err::linux_sll::HeaderSliceError::Len(l) => check_len_error(&l, &f, 0),
                    err::linux_sll::HeaderSliceError::Content(c) => match c {
                        err::linux_sll::HeaderError::UnsupportedPacketTypeField { packet_type } => {
                            witness!(true, "7|err_packet_type");
                            assert!(f.want == Want::SllPacketType(packet_type));
                        }
                        err::linux_sll::HeaderError::UnsupportedArpHardwareId { arp_hardware_type } => {
                            witness!(true, "7|err_hw_type");
                            assert!(f.want == Want::SllHwType(u16::from(arp_hardware_type)));
                        }
                    },
                }
            }
        }
    }
}

pub fn arp<const MODE: u8>() {
    let data: [u8; 32] = any();
    let s = &data[..any_le(32)];
    let r = refm::arp(s, Lim::Slice);
    match ArpPacketSlice::from_slice(s) {
        Ok(a) => {
            assert!(r.is_ok(), "C03: accepted although the reference rejects");
            if MODE == 3 {
                witness!(a.hw_addr_size() > 0 && a.proto_addr_size() > 0 && a.slice().len() < s.len(), "3|ok_addrs_trailing");
                let total = r.unwrap();
                assert!(off(s, a.slice()) == 0 && a.slice().len() == total);
                let h = s[4] as usize;
                let p = s[5] as usize;
                assert!(u16::from(a.hw_addr_type()) == u16::from_be_bytes([s[0], s[1]]));
                assert!(a.proto_addr_type().0 == u16::from_be_bytes([s[2], s[3]]));
                assert!(a.hw_addr_size() as usize == h && a.proto_addr_size() as usize == p);
                assert!(a.operation().0 == u16::from_be_bytes([s[6], s[7]]));
                assert!(off(s, a.sender_hw_addr()) == 8 && a.sender_hw_addr().len() == h);
                assert!(off(s, a.sender_protocol_addr()) == 8 + h && a.sender_protocol_addr().len() == p);
                assert!(off(s, a.target_hw_addr()) == 8 + h + p && a.target_hw_addr().len() == h);
                assert!(off(s, a.target_protocol_addr()) == 8 + 2 * h + p && a.target_protocol_addr().len() == p);
            }
        }
        Err(e) => {
            assert!(r.is_err(), "C03: rejected although the reference accepts");
            if MODE == 7 {
                let f = r.unwrap_err();
                if e.len_source == LenSource::ArpAddrLengths {
                    // KNOWN FINDING (pinned by the repository's own tests): the address sizes demand more than
                    // the slice holds; `len` is the slice length but the source names the ARP size fields,
                    // which did not limit the data.
                    witness!(true, "7|KF:c07-arp-addr-len-source");
                    let mut e2 = e.clone();
                    e2.len_source = LenSource::Slice;
                    check_len_error(&e2, &f, 0);
                } else {
                    witness!(true, "7|err_fixed_part");
                    check_len_error(&e, &f, 0);
                }
            }
        }
    }
}

// ------------------------------------------------------------------ network layer

pub fn check_ipv4_fields(s: &[u8], h: &Ipv4HeaderSlice) {
    assert!(h.ihl() == s[0] & 0xf);
    assert!(h.total_len() == u16::from_be_bytes([s[2], s[3]]));
    assert!(h.identification() == u16::from_be_bytes([s[4], s[5]]));
    assert!(h.ttl() == s[8]);
    assert!(h.protocol().0 == s[9]);
    assert!(h.header_checksum() == u16::from_be_bytes([s[10], s[11]]));
    assert!(h.source() == [s[12], s[13], s[14], s[15]]);
    assert!(h.destination() == [s[16], s[17], s[18], s[19]]);
    let w = u16::from_be_bytes([s[6], s[7]]);
    assert!(h.dont_fragment() == (w & 0x4000 != 0));
    assert!(h.more_fragments() == (w & 0x2000 != 0));
    assert!(h.fragments_offset().value() == w & 0x1fff);
    assert!(off(s, h.options()) == 20 && h.options().len() == (s[0] & 0xf) as usize * 4 - 20);
}

pub fn ipv4<const MODE: u8>() {
    let data: [u8; 44] = any();
    let s = &data[..any_le(44)];
    let r = refm::ipv4(s, Lim::Slice, false);
    match Ipv4Slice::from_slice(s) {
        Ok(ip) => {
            assert!(r.is_ok(), "C03: accepted although the reference rejects");
            if MODE == 3 {
                let r = r.unwrap();
                witness!(r.n_exts == 1 && r.payload_len > 0 && r.payload_off + r.payload_len < s.len(), "3|ok_auth_payload_cut");
                witness!(r.hlen > 20, "3|ok_options");
                witness!(r.fragmented, "3|ok_fragmented");
                assert!(off(s, ip.header().slice()) == 0 && ip.header().slice().len() == r.hlen);
                check_ipv4_fields(s, &ip.header());
                match ip.extensions().auth {
                    Some(a) => {
                        assert!(r.n_exts == 1);
                        assert!(off(s, a.slice()) == r.hlen && a.slice().len() == r.exts_len);
                        assert!(a.next_header().0 == r.proto);
                        assert!(a.spi() == u32::from_be_bytes([s[r.hlen + 4], s[r.hlen + 5], s[r.hlen + 6], s[r.hlen + 7]]));
                    }
                    None => assert!(r.n_exts == 0),
                }
                let p = ip.payload();
                assert!(off(s, p.payload) == r.payload_off && p.payload.len() == r.payload_len);
                assert!(p.ip_number.0 == r.proto);
                assert!(p.fragmented == r.fragmented);
                assert!(ip.is_payload_fragmented() == r.fragmented);
                assert!(p.len_source == LenSource::Ipv4HeaderTotalLen);
            }
        }
        Err(e) => {
            assert!(r.is_err(), "C03: rejected although the reference accepts");
            if MODE == 7 {
                let f = r.unwrap_err();
                match e {
                    err::ipv4::SliceError::Len(l) => {
                        witness!(l.layer == Layer::IpAuthHeader && l.len_source == LenSource::Ipv4HeaderTotalLen, "7|err_auth_cut_by_total_len");
                        witness!(l.len_source == LenSource::Ipv4HeaderTotalLen && l.layer == Layer::Ipv4Packet, "7|err_total_len_under_claims");
                        check_len_error(&l, &f, 0);
                    }
                    err::ipv4::SliceError::Header(h) => match h {
                        err::ipv4::HeaderError::UnexpectedVersion { version_number } => {
                            assert!(f.content_is(Want::V4Version(version_number)));
                        }
                        err::ipv4::HeaderError::HeaderLengthSmallerThanHeader { ihl } => {
                            witness!(true, "7|err_ihl");
                            assert!(f.content_is(Want::V4Ihl(ihl)));
                        }
                    },
                    err::ipv4::SliceError::Exts(x) => match x {
                        err::ip_auth::HeaderError::ZeroPayloadLen => assert!(f.want == Want::AuthZeroLen && f.layer == RL::Auth),
                    },
                }
            }
        }
    }
}

pub fn check_ipv6_fields(s: &[u8], h: &Ipv6HeaderSlice) {
    assert!(h.payload_length() == u16::from_be_bytes([s[4], s[5]]));
    assert!(h.next_header().0 == s[6]);
    assert!(h.hop_limit() == s[7]);
    let w = u32::from_be_bytes([s[0], s[1], s[2], s[3]]);
    assert!(h.traffic_class() == (w >> 20) as u8);
    assert!(h.flow_label().value() == w & 0xfffff);
    let src = h.source();
    let dst = h.destination();
    assert!(src[0] == s[8] && src[7] == s[15] && src[15] == s[23]);
    assert!(dst[0] == s[24] && dst[7] == s[31] && dst[15] == s[39]);
}

pub fn ipv6_err_matches(e: &err::ipv6::SliceError, f: &RFault) {
    match e {
        err::ipv6::SliceError::Len(l) => {
            witness!(l.layer_start_offset > 40, "7|err_behind_an_extension_header");
            if f.layer != RL::V6 && f.lim == Lim::Slice && l.len_source == LenSource::Ipv6HeaderPayloadLen {
                // the payload length field is 0 ("to the end of the slice") yet the extension header error
                // names it as the limiting length: routed to a finding key, everything else still checked
                witness!(true, "KF:c07-ipv6-ext-len-source-payload-len-zero");
                let mut l2 = l.clone();
                l2.len_source = LenSource::Slice;
                check_len_error(&l2, f, 0);
            } else {
                check_len_error(l, f, 0);
            }
        }
        err::ipv6::SliceError::Header(h) => match h {
            err::ipv6::HeaderError::UnexpectedVersion { version_number } => {
                assert!(f.want == Want::V6Version(*version_number));
            }
        },
        err::ipv6::SliceError::Exts(x) => match x {
            err::ipv6_exts::HeaderError::HopByHopNotAtStart => {
                witness!(true, "7|err_hop_by_hop_not_first");
                assert!(f.want == Want::HopByHopNotFirst);
            }
            err::ipv6_exts::HeaderError::IpAuth(err::ip_auth::HeaderError::ZeroPayloadLen) => {
                assert!(f.want == Want::AuthZeroLen && f.layer == RL::Auth);
            }
        },
    }
}

pub fn ipv6<const MODE: u8, const N: usize>() {
    let data: [u8; N] = any();
    let s = &data[..any_le(N)];
    let r = refm::ipv6(s, Lim::Slice, false);
    match Ipv6Slice::from_slice(s) {
        Ok(ip) => {
            assert!(r.is_ok(), "C03: accepted although the reference rejects");
            if MODE == 3 {
                let r = r.unwrap();
                witness!(r.n_exts >= 1 && r.payload_len > 0, "3|ok_ext_payload");
                witness!(r.lim == Lim::V6Payload && r.payload_off + r.payload_len < s.len(), "3|ok_cut_by_payload_len");
                witness!(r.lim == Lim::Slice && r.payload_len > 0, "3|ok_payload_len_zero");
                witness!(r.fragmented, "3|ok_fragmented");
                assert!(off(s, ip.header().slice()) == 0 && ip.header().slice().len() == 40);
                check_ipv6_fields(s, &ip.header());
                let x = ip.extensions();
                assert!(x.slice().len() == r.exts_len);
                if r.exts_len > 0 {
                    assert!(off(s, x.slice()) == 40);
                    assert!(x.first_header() == Some(IpNumber(s[6])));
                } else {
                    assert!(x.first_header().is_none());
                }
                assert!(x.is_fragmenting_payload() == r.fragmented);
                let p = ip.payload();
                assert!(off(s, p.payload) == r.payload_off && p.payload.len() == r.payload_len);
                assert!(p.ip_number.0 == r.proto);
                assert!(p.fragmented == r.fragmented);
                assert!(p.len_source == len_source_of(r.lim));
            }
        }
        Err(e) => {
            assert!(r.is_err(), "C03: rejected although the reference accepts");
            if MODE == 7 {
                ipv6_err_matches(&e, &r.unwrap_err());
            }
        }
    }
}

/// the headers yielded by the extension iterator tile the chain in reference order
pub fn ipv6_ext_iter<const N: usize>() {
    let data: [u8; N] = any();
    let s = &data[..any_le(N)];
    let first: u8 = any();
    let (len, n, proto, fragmented, fault) = refm::ipv6_exts(s, first, Lim::Slice);
    match Ipv6ExtensionsSlice::from_slice(IpNumber(first), s) {
        Ok((x, next, rest)) => {
            assert!(fault.is_none(), "C03: accepted although the reference rejects");
            witness!(n >= 2, "ok_two_headers");
            assert!(x.slice().len() == len && rest.len() == s.len() - len && next.0 == proto);
            assert!(x.is_fragmenting_payload() == fragmented);
            let mut pos = 0usize;
            let mut cnt = 0usize;
            let mut kind = first;
            let mut it = x.clone().into_iter();
            while let Some(h) = it.next() {
                let (sl, nx) = match h {
                    Ipv6ExtensionSlice::HopByHop(r) => {
                        assert!(kind == refm::P_HOPOPT);
                        (r.slice(), r.next_header())
                    }
                    Ipv6ExtensionSlice::Routing(r) => {
                        assert!(kind == refm::P_ROUTE);
                        (r.slice(), r.next_header())
                    }
                    Ipv6ExtensionSlice::DestinationOptions(r) => {
                        assert!(kind == refm::P_DSTOPT);
                        (r.slice(), r.next_header())
                    }
                    Ipv6ExtensionSlice::Fragment(f) => {
                        assert!(kind == refm::P_FRAG);
                        (f.slice(), f.next_header())
                    }
                    Ipv6ExtensionSlice::Authentication(a) => {
                        assert!(kind == refm::P_AUTH);
                        (a.slice(), a.next_header())
                    }
                };
                assert!(off(s, sl) == pos, "C03: extension headers do not tile the chain");
                assert!(nx.0 == s[pos]);
                pos += sl.len();
                kind = nx.0;
                cnt += 1;
            }
            assert!(pos == len && cnt == n && kind == proto);
        }
        Err(_) => {
            assert!(fault.is_some(), "C03: rejected although the reference accepts");
        }
    }
}

/// version dispatching decoder against the reference dispatch
pub fn ip_dispatch<const MODE: u8>() {
    let data: [u8; 44] = any();
    let s = &data[..any_le(44)];
    // keep the IPv6 extension walk out of this harness (decided by c03_ipv6_*)
    if s.len() > 6 && s[0] >> 4 == 6 {
        assume(!matches!(s[6], refm::P_HOPOPT | refm::P_ROUTE | refm::P_FRAG | refm::P_AUTH | refm::P_DSTOPT));
    }
    let r = refm::ip(s, Lim::Slice, false);
    match IpSlice::from_slice(s) {
        Ok(ip) => {
            assert!(r.is_ok(), "C03: accepted although the reference rejects");
            if MODE == 3 {
                let r = r.unwrap();
                witness!(r.v6, "3|ok_v6");
                witness!(!r.v6, "3|ok_v4");
                assert!(ip.ipv6().is_some() == r.v6 && ip.ipv4().is_some() == !r.v6);
                let p = ip.payload();
                assert!(off(s, p.payload) == r.payload_off && p.payload.len() == r.payload_len);
                assert!(p.ip_number.0 == r.proto && p.fragmented == r.fragmented && p.len_source == len_source_of(r.lim));
            }
        }
        Err(e) => {
            assert!(r.is_err(), "C03: rejected although the reference accepts");
            if MODE == 7 {
                let f = r.unwrap_err();
                match e {
                    err::ip::SliceError::Len(l) => check_len_error(&l, &f, 0),
                    err::ip::SliceError::IpHeaders(h) => match h {
                        err::ip::HeadersError::Ip(err::ip::HeaderError::UnsupportedIpVersion { version_number }) => {
                            witness!(true, "7|err_version");
                            assert!(f.want == Want::IpVersion(version_number));
                        }
                        err::ip::HeadersError::Ip(err::ip::HeaderError::Ipv4HeaderLengthSmallerThanHeader { ihl }) => {
                            assert!(f.content_is(Want::V4Ihl(ihl)));
                        }
                        err::ip::HeadersError::Ipv4Ext(err::ip_auth::HeaderError::ZeroPayloadLen) => {
                            assert!(f.want == Want::AuthZeroLen);
                        }
                        err::ip::HeadersError::Ipv6Ext(_) => {
                            assert!(false, "C07: extension error although no extension header is present");
                        }
                    },
                }
            }
        }
    }
}

// ------------------------------------------------------------------ transport layer

pub fn udp<const MODE: u8>() {
    let data: [u8; 16] = any();
    let s = &data[..any_le(16)];
    let r = refm::udp(s, Lim::Slice, false);
    match UdpSlice::from_slice(s) {
        Ok(u) => {
            assert!(r.is_ok(), "C03: accepted although the reference rejects");
            if MODE == 3 {
                let r = r.unwrap();
                witness!(r.len < s.len() && r.len > 8, "3|ok_cut_by_length");
                witness!(r.lim == Lim::Slice && r.len > 8, "3|ok_length_zero");
                assert!(off(s, u.slice()) == 0 && u.slice().len() == r.len);
                assert!(off(s, u.header_slice()) == 0 && u.header_slice().len() == 8);
                assert!(off(s, u.payload()) == 8 && u.payload().len() == r.len - 8);
                assert!(u.source_port() == u16::from_be_bytes([s[0], s[1]]));
                assert!(u.destination_port() == u16::from_be_bytes([s[2], s[3]]));
                assert!(u.length() == u16::from_be_bytes([s[4], s[5]]));
                assert!(u.checksum() == u16::from_be_bytes([s[6], s[7]]));
                assert!(u.payload_len_source() == len_source_of(r.lim));
            }
        }
        Err(e) => {
            assert!(r.is_err(), "C03: rejected although the reference accepts");
            if MODE == 7 {
                witness!(e.len_source == LenSource::UdpHeaderLen, "7|err_length_under_claims");
                witness!(e.layer == Layer::UdpPayload, "7|err_length_over_claims");
                check_len_error(&e, &r.unwrap_err(), 0);
            }
        }
    }
}

pub fn tcp<const MODE: u8>() {
    let data: [u8; 64] = any();
    let s = &data[..any_le(64)];
    let r = refm::tcp(s, Lim::Slice);
    match TcpSlice::from_slice(s) {
        Ok(t) => {
            assert!(r.is_ok(), "C03: accepted although the reference rejects");
            if MODE == 3 {
                let r = r.unwrap();
                witness!(r.hlen == 60 && s.len() > 60, "3|ok_max_options_payload");
                assert!(off(s, t.slice()) == 0 && t.slice().len() == s.len());
                assert!(off(s, t.header_slice()) == 0 && t.header_slice().len() == r.hlen);
                assert!(off(s, t.payload()) == r.hlen && t.payload().len() == s.len() - r.hlen);
                assert!(off(s, t.options()) == 20 && t.options().len() == r.hlen - 20);
                assert!(t.source_port() == u16::from_be_bytes([s[0], s[1]]));
                assert!(t.destination_port() == u16::from_be_bytes([s[2], s[3]]));
                assert!(t.sequence_number() == u32::from_be_bytes([s[4], s[5], s[6], s[7]]));
                assert!(t.acknowledgment_number() == u32::from_be_bytes([s[8], s[9], s[10], s[11]]));
                assert!(t.data_offset() == s[12] >> 4);
                assert!(t.ns() == (s[12] & 1 != 0));
                assert!(t.cwr() == (s[13] & 0x80 != 0) && t.ece() == (s[13] & 0x40 != 0) && t.urg() == (s[13] & 0x20 != 0));
                assert!(t.ack() == (s[13] & 0x10 != 0) && t.psh() == (s[13] & 0x08 != 0) && t.rst() == (s[13] & 0x04 != 0));
                assert!(t.syn() == (s[13] & 0x02 != 0) && t.fin() == (s[13] & 0x01 != 0));
                assert!(t.window_size() == u16::from_be_bytes([s[14], s[15]]));
                assert!(t.checksum() == u16::from_be_bytes([s[16], s[17]]));
                assert!(t.urgent_pointer() == u16::from_be_bytes([s[18], s[19]]));
            }
        }
        Err(e) => {
            assert!(r.is_err(), "C03: rejected although the reference accepts");
            if MODE == 7 {
                let f = r.unwrap_err();
                match e {
                    err::tcp::HeaderSliceError::Len(l) => {
                        witness!(l.required_len > 20, "7|err_options_cut");
                        check_len_error(&l, &f, 0);
                    }
                    err::tcp::HeaderSliceError::Content(err::tcp::HeaderError::DataOffsetTooSmall { data_offset }) => {
                        witness!(true, "7|err_data_offset");
                        assert!(f.want == Want::TcpDataOffset(data_offset));
                    }
                }
            }
        }
    }
}

pub fn icmp<const MODE: u8>() {
    let data: [u8; 24] = any();
    let s = &data[..any_le(24)];
    let v6: bool = any();
    if v6 {
        let r = refm::icmp6(s, Lim::Slice);
        match Icmpv6Slice::from_slice(s) {
            Ok(i) => {
                assert!(r.is_ok(), "C03: accepted although the reference rejects");
                if MODE == 3 {
                    witness!(true, "3|ok_v6");
                    assert!(off(s, i.slice()) == 0 && i.slice().len() == s.len());
                    assert!(off(s, i.payload()) == 8 && i.payload().len() == s.len() - 8);
                    assert!(i.type_u8() == s[0] && i.code_u8() == s[1]);
                    assert!(i.checksum() == u16::from_be_bytes([s[2], s[3]]));
                    assert!(i.bytes5to8() == [s[4], s[5], s[6], s[7]]);
                }
            }
            Err(e) => {
                assert!(r.is_err(), "C03: rejected although the reference accepts");
                if MODE == 7 {
                    check_len_error(&e, &r.unwrap_err(), 0);
                }
            }
        }
    } else {
        let r = refm::icmp4(s, Lim::Slice);
        match Icmpv4Slice::from_slice(s) {
            Ok(i) => {
                assert!(r.is_ok(), "C03: accepted although the reference rejects");
                if MODE == 3 {
                    let r = r.unwrap();
                    witness!(r.hlen == 20, "3|ok_timestamp");
                    assert!(off(s, i.slice()) == 0 && i.slice().len() == s.len());
                    assert!(i.header_len() == r.hlen);
                    assert!(off(s, i.payload()) == r.hlen && i.payload().len() == s.len() - r.hlen);
                    assert!(i.type_u8() == s[0] && i.code_u8() == s[1]);
                    assert!(i.checksum() == u16::from_be_bytes([s[2], s[3]]));
                    assert!(i.bytes5to8() == [s[4], s[5], s[6], s[7]]);
                }
            }
            Err(e) => {
                assert!(r.is_err(), "C03: rejected although the reference accepts");
                if MODE == 7 {
                    witness!(e.required_len == 20 && e.len > 20, "7|err_timestamp_too_long");
                    witness!(e.required_len == 20 && e.len < 20, "7|err_timestamp_too_short");
                    check_len_error(&e, &r.unwrap_err(), 0);
                }
            }
        }
    }
}

crate::harnesses! {
    c03_eth = eth::<3>; unwind 9,
    c03_vlan = vlan::<3>; unwind 4,
    c03_macsec = macsec::<3>; unwind 4,
    c03_sll = sll::<3>; unwind 10,
    c03_arp = arp::<3>; unwind 4,
    c03_ipv4 = ipv4::<3>; unwind 6,
    c03_ipv6_56 = ipv6::<3, 56>; unwind 4,
    c03_ipv6_64 = ipv6::<3, 64>; unwind 5,
    c03_ipv6_ext_iter_16 = ipv6_ext_iter::<16>; unwind 4,
    c03_ipv6_ext_iter_24 = ipv6_ext_iter::<24>; unwind 5,
    c03_ip_dispatch = ip_dispatch::<3>; unwind 4,
    c03_udp = udp::<3>; unwind 4,
    c03_tcp = tcp::<3>; unwind 4,
    c03_icmp = icmp::<3>; unwind 6,
    c07_eth = eth::<7>; unwind 4,
    c07_vlan = vlan::<7>; unwind 4,
    c07_macsec = macsec::<7>; unwind 4,
    c07_sll = sll::<7>; unwind 4,
    c07_arp = arp::<7>; unwind 4,
    c07_ipv4 = ipv4::<7>; unwind 4,
    c07_ipv6_56 = ipv6::<7, 56>; unwind 4,
    c07_ipv6_64 = ipv6::<7, 64>; unwind 5,
    c07_ip_dispatch = ip_dispatch::<7>; unwind 4,
    c07_udp = udp::<7>; unwind 4,
    c07_tcp = tcp::<7>; unwind 4,
    c07_icmp = icmp::<7>; unwind 4,
}

// ------------------------------------------------------------------ whole packet glue (cursor)

pub mod glue {
    use super::*;
    use crate::refm::{RNet, RWalk, Start};

    pub fn check_packet_error(e: &err::packet::SliceError, f: &RFault) {
        use err::packet::SliceError as E;
        match e {
            E::Len(l) => {
                witness!(l.layer_start_offset > 0, "7|err_behind_a_prefix");
                if l.len_source == LenSource::MacsecShortLength && l.layer == Layer::MacsecPacket {
                    witness!(true, "7|KF:c07-macsec-short-len-source");
                    let mut l2 = l.clone();
                    l2.len_source = LenSource::Slice;
                    check_len_error(&l2, f, 0);
                } else if l.len_source == LenSource::ArpAddrLengths {
                    witness!(true, "7|KF:c07-arp-addr-len-source");
                    let mut l2 = l.clone();
                    l2.len_source = LenSource::Slice;
                    check_len_error(&l2, f, 0);
                } else {
                    check_len_error(l, f, 0);
                }
            }
            E::LinuxSll(err::linux_sll::HeaderError::UnsupportedPacketTypeField { packet_type }) => {
                assert!(f.want == Want::SllPacketType(*packet_type));
            }
            E::LinuxSll(err::linux_sll::HeaderError::UnsupportedArpHardwareId { arp_hardware_type }) => {
                assert!(f.want == Want::SllHwType(u16::from(*arp_hardware_type)));
            }
            E::Macsec(err::macsec::HeaderError::UnexpectedVersion) => assert!(f.want == Want::MacsecVersion),
            E::Macsec(err::macsec::HeaderError::InvalidUnmodifiedShortLen) => assert!(f.want == Want::MacsecShortLenOne),
            E::Ip(err::ip::HeaderError::UnsupportedIpVersion { version_number }) => {
                assert!(f.want == Want::IpVersion(*version_number));
            }
            E::Ip(err::ip::HeaderError::Ipv4HeaderLengthSmallerThanHeader { ihl }) => assert!(f.content_is(Want::V4Ihl(*ihl))),
            E::Ipv4(err::ipv4::HeaderError::UnexpectedVersion { version_number }) => {
                assert!(f.content_is(Want::V4Version(*version_number)));
            }
            E::Ipv4(err::ipv4::HeaderError::HeaderLengthSmallerThanHeader { ihl }) => assert!(f.content_is(Want::V4Ihl(*ihl))),
            E::Ipv6(err::ipv6::HeaderError::UnexpectedVersion { version_number }) => {
                assert!(f.want == Want::V6Version(*version_number));
            }
            E::Ipv4Exts(err::ip_auth::HeaderError::ZeroPayloadLen) => assert!(f.want == Want::AuthZeroLen),
            E::Ipv6Exts(err::ipv6_exts::HeaderError::HopByHopNotAtStart) => assert!(f.want == Want::HopByHopNotFirst),
            E::Ipv6Exts(err::ipv6_exts::HeaderError::IpAuth(err::ip_auth::HeaderError::ZeroPayloadLen)) => {
                assert!(f.want == Want::AuthZeroLen);
            }
            E::Tcp(err::tcp::HeaderError::DataOffsetTooSmall { data_offset }) => {
                assert!(f.want == Want::TcpDataOffset(*data_offset));
            }
        }
    }

    pub fn check_layers(s: &[u8], start: Start, p: &SlicedPacket, w: &RWalk) {
        // link
        match (&p.link, start) {
            (Some(LinkSlice::Ethernet2(e)), Start::Ethernet) => {
                assert!(off(s, e.header_slice()) == 0 && off(s, e.payload_slice()) == 14);
            }
            (Some(LinkSlice::LinuxSll(l)), Start::Sll) => {
                assert!(off(s, l.header_slice()) == 0 && off(s, l.payload_slice()) == 16);
            }
            (Some(LinkSlice::EtherPayload(e)), Start::EtherType(et)) => {
                assert!(e.ether_type.0 == et && off(s, e.payload) == 0 && e.payload.len() == s.len());
            }
            (None, Start::Ip) => {}
            _ => assert!(false, "C03: wrong link layer"),
        }
        // link extensions
        assert!(p.link_exts.len() == w.n_exts, "C03: wrong number of link extensions");
        // (unrolled: no loop, so that the unwind bound of a shaped harness is the depth of its stacking)
        check_ext(s, p, w, 0);
        check_ext(s, p, w, 1);
        check_ext(s, p, w, 2);
        // network
        match (&p.net, &w.net) {
            (None, None) => {}
            (Some(NetSlice::Arp(a)), Some(RNet::Arp { off: o, len })) => {
                assert!(off(s, a.slice()) == *o && a.slice().len() == *len);
            }
            (Some(NetSlice::Ipv4(v4)), Some(RNet::Ip { off: o, ip })) => {
                assert!(!ip.v6);
                assert!(off(s, v4.header().slice()) == *o && v4.header().slice().len() == ip.hlen);
                assert!(v4.extensions().auth.is_some() == (ip.n_exts == 1));
                check_payload(s, v4.payload(), *o, ip);
            }
            (Some(NetSlice::Ipv6(v6)), Some(RNet::Ip { off: o, ip })) => {
                assert!(ip.v6);
                assert!(off(s, v6.header().slice()) == *o);
                assert!(v6.extensions().slice().len() == ip.exts_len);
                check_payload(s, v6.payload(), *o, ip);
            }
            _ => assert!(false, "C03: wrong network layer"),
        }
        // transport
        match (&p.transport, &w.tr) {
            (None, None) => {}
            (Some(TransportSlice::Udp(u)), Some((o, t))) => {
                assert!(t.layer == RL::Udp);
                assert!(off(s, u.slice()) == *o && u.slice().len() == t.len, "C03: UDP range");
                assert!(off(s, u.payload()) == *o + 8 && u.payload().len() == t.len - 8);
            }
            (Some(TransportSlice::Tcp(x)), Some((o, t))) => {
                assert!(t.layer == RL::Tcp);
                assert!(off(s, x.slice()) == *o && x.slice().len() == t.len && x.header_len() == t.hlen);
                assert!(off(s, x.payload()) == *o + t.hlen && x.payload().len() == t.len - t.hlen);
            }
            (Some(TransportSlice::Icmpv4(x)), Some((o, t))) => {
                assert!(t.layer == RL::Icmp4);
                assert!(off(s, x.slice()) == *o && x.slice().len() == t.len && x.header_len() == t.hlen);
            }
            (Some(TransportSlice::Icmpv6(x)), Some((o, t))) => {
                assert!(t.layer == RL::Icmp6);
                assert!(off(s, x.slice()) == *o && x.slice().len() == t.len);
            }
            _ => assert!(false, "C03: wrong transport layer"),
        }
    }

    fn check_ext(s: &[u8], p: &SlicedPacket, w: &RWalk, i: usize) {
        if i < w.n_exts {
            let x = &w.exts[i];
            match &p.link_exts[i] {
                LinkExtSlice::Vlan(v) => {
                    assert!(x.kind == RL::Vlan);
                    assert!(off(s, v.header_slice()) == x.off, "C03: VLAN tag at the wrong offset");
                }
                LinkExtSlice::Macsec(m) => {
                    assert!(x.kind == RL::Macsec);
                    assert!(off(s, m.header.slice()) == x.off && m.header.slice().len() == x.hlen);
                }
            }
        }
    }

    fn check_payload(s: &[u8], p: &IpPayloadSlice, o: usize, ip: &refm::RIp) {
        assert!(off(s, p.payload) == o + ip.payload_off, "C03: IP payload starts at the wrong offset");
        assert!(p.payload.len() == ip.payload_len, "C03: IP payload has the wrong length");
        assert!(p.ip_number.0 == ip.proto && p.fragmented == ip.fragmented);
    }

    pub fn run<const MODE: u8, const N: usize>(start: Start, shape: fn(&mut [u8; N])) {
        let mut data: [u8; N] = any();
        shape(&mut data);
        let s = &data[..any_le(N)];
        let w = refm::walk(start, s, false);
        let r = match start {
            Start::Ethernet => SlicedPacket::from_ethernet(s),
            Start::Sll => SlicedPacket::from_linux_sll(s),
            Start::EtherType(et) => SlicedPacket::from_ether_type(EtherType(et), s),
            Start::Ip => SlicedPacket::from_ip(s),
        };
        match r {
            Ok(p) => {
                assert!(w.fault.is_none(), "C03: accepted although the reference rejects");
                if MODE == 3 {
                    witness!(p.transport.is_some() || p.net.is_some() || p.link_exts.len() == 3, "3|ok_deep");
                    check_layers(s, start, &p, &w);
                }
            }
            Err(e) => {
                assert!(w.fault.is_some(), "C03: rejected although the reference accepts");
                if MODE == 7 {
                    check_packet_error(&e, &w.fault.unwrap());
                }
            }
        }
    }

    // ---- shapes: concrete ether types / protocol numbers / header sizes select ONE stacking; every other
    //      byte (all length fields, flags, fragment bits, sizes) and the slice length stay symbolic

    /// MACsec(unmodified, no SCI, symbolic short length) -> VLAN -> IPv4(no options) -> UDP
    pub fn shape_macsec_vlan_ipv4_udp<const MODE: u8>() {
        run::<MODE, 42>(Start::EtherType(refm::ET_MACSEC), |d| {
            d[0] = 0x01;
            d[6] = 0x81;
            d[7] = 0x00;
            d[10] = 0x08;
            d[11] = 0x00;
            d[12] = 0x45;
            d[12 + 9] = 17;
        });
    }

    /// IPv6 -> routing header (symbolic length) -> UDP
    pub fn shape_ipv6_route_udp<const MODE: u8>() {
        run::<MODE, 60>(Start::Ip, |d| {
            d[0] = 0x60 | (d[0] & 0xf);
            d[6] = 43;
            d[40] = 17;
        });
    }

    /// SLL (Ethernet hardware type, host packet) -> ARP with symbolic address sizes
    pub fn shape_sll_arp<const MODE: u8>() {
        run::<MODE, 44>(Start::Sll, |d| {
            d[0] = 0;
            d[1] = 0;
            d[2] = 0;
            d[3] = 1;
            d[14] = 0x08;
            d[15] = 0x06;
        });
    }

    /// four stacked VLAN tags: only three link extensions are decoded
    pub fn shape_vlan_x4<const MODE: u8>() {
        run::<MODE, 20>(Start::EtherType(refm::ET_QINQ), |d| {
            d[2] = 0x91;
            d[3] = 0x00;
            d[6] = 0x81;
            d[7] = 0x00;
            d[10] = 0x81;
            d[11] = 0x00;
        });
    }

    /// Ethernet -> IPv4 (symbolic IHL) -> TCP
    pub fn shape_eth_ipv4_tcp<const MODE: u8>() {
        run::<MODE, 62>(Start::Ethernet, |d| {
            d[12] = 0x08;
            d[13] = 0x00;
            d[14] = 0x40 | (d[14] & 0xf);
            d[14 + 9] = 6;
        });
    }

    /// IPv4 (no options) -> ICMPv4 (timestamp rule) / fragment handling
    pub fn shape_ipv4_icmp<const MODE: u8>() {
        run::<MODE, 44>(Start::Ip, |d| {
            d[0] = 0x45;
            d[9] = 1;
        });
    }

    /// IPv6 -> fragment header -> ICMPv6 (not decoded when the fragment header fragments)
    pub fn shape_ipv6_frag_icmp6<const MODE: u8>() {
        run::<MODE, 60>(Start::Ip, |d| {
            d[0] = 0x60 | (d[0] & 0xf);
            d[6] = 44;
            d[40] = 58;
        });
    }

    // ---- struct decoders (PacketHeaders / LaxPacketHeaders): link-extension part only.
    //      The result types carry ~10 KB of header structs, so only the errors raised in front of the
    //      network layer are decided here (C07 clauses), on stacks of MACsec / VLAN tags whose ether
    //      types are pinned; the data behind the last tag is an ether type the crate does not decode.

    /// `PacketHeaders::from_ether_type` (strict) / `LaxPacketHeaders::from_ether_type` (stop error)
    pub fn headers_link_exts<const N: usize, const LAX: bool>(start: u16, shape: fn(&mut [u8; N])) {
        let mut data: [u8; N] = any();
        shape(&mut data);
        let s = &data[..any_le(N)];
        let w = refm::walk(Start::EtherType(start), s, LAX);
        // keep the network layer out of it (decided elsewhere; here: offsets of link extension faults)
        assume(w.net.is_none());
        if let Some(f) = &w.fault {
            assume(matches!(f.layer, RL::Vlan | RL::Macsec));
        }
        // (outside the const-generic branches: a witness in the dead branch would come back UNSATISFIABLE)
        witness!(w.fault.map_or(false, |f| f.off > 0 && s.len() > f.off + f.avail), "7|fault_behind_trimmed_data");
        witness!(w.fault.is_none() && w.ether_payload_lim == Lim::MacsecSl && w.n_exts >= 2, "7|ok_payload_cut_by_short_len_behind_two_exts");
        if LAX {
            let p = LaxPacketHeaders::from_ether_type(EtherType(start), s);
            assert!(p.stop_err.is_some() == w.fault.is_some(), "C07: stop error does not match the reference fault");
            if let (Some((e, _layer)), Some(f)) = (&p.stop_err, &w.fault) {
                check_packet_error(e, f);
            }
            assert!(p.link_exts.len() == w.n_exts);
            if w.fault.is_none() {
                // C05 / C04 for the struct family, link-extension part: the remaining payload is the reference's
                // innermost ether payload, with an honest length source
                match (&p.payload, &w.ether_payload) {
                    (LaxPayloadSlice::Ether(e), Some((et, o, l))) => {
                        assert!(e.ether_type.0 == *et, "C05: payload ether type");
                        assert!(off(s, e.payload) == *o && e.payload.len() == *l, "C05: payload range of the struct decoder");
                        assert!(e.len_source == len_source_of(w.ether_payload_lim), "C05: length source of the remaining payload");
                    }
                    (LaxPayloadSlice::MacsecModified { payload, .. }, None) => {
                        assert!(crate::tight::inside(s, payload));
                    }
                    _ => assert!(false, "C05: payload kind of the struct decoder"),
                }
            }
            core::mem::forget(p);
        } else {
            match PacketHeaders::from_ether_type(EtherType(start), s) {
                Ok(p) => {
                    assert!(w.fault.is_none(), "C03: accepted although the reference rejects");
                    assert!(p.link_exts.len() == w.n_exts);
                    match (&p.payload, &w.ether_payload) {
                        (PayloadSlice::Ether(e), Some((et, o, l))) => {
                            assert!(e.ether_type.0 == *et, "C04: payload ether type");
                            assert!(off(s, e.payload) == *o && e.payload.len() == *l, "C04: payload range of the struct decoder");
                            assert!(e.len_source == len_source_of(w.ether_payload_lim), "C04: length source of the remaining payload");
                        }
                        (PayloadSlice::MacsecMod(m), None) => {
                            assert!(crate::tight::inside(s, m));
                        }
                        _ => assert!(false, "C04: payload kind of the struct decoder"),
                    }
                    core::mem::forget(p);
                }
                Err(e) => {
                    let f = w.fault.expect("C03: rejected although the reference accepts");
                    check_packet_error(&e, &f);
                }
            }
        }
    }

    // Stubs for the network-layer decoders of the struct family. The harnesses above ASSUME that the reference
    // walk reaches no network layer, so these functions are unreachable inside the claim; replacing them by
    // functions that fail immediately keeps CBMC from exploring the 9 KB IpHeaders values in the three
    // network arms (which exceeds the memory cap). If one of them were reached, the harness would see an error
    // the reference does not predict and fail - it cannot turn a wrong result into a pass.
    pub fn stub_from_ipv4_slice(_s: &[u8]) -> Result<(IpHeaders, IpPayloadSlice<'_>), err::ipv4::SliceError> {
        Err(err::ipv4::SliceError::Header(err::ipv4::HeaderError::UnexpectedVersion { version_number: 0xff }))
    }
    pub fn stub_from_ipv6_slice(_s: &[u8]) -> Result<(IpHeaders, IpPayloadSlice<'_>), err::ipv6::SliceError> {
        Err(err::ipv6::SliceError::Header(err::ipv6::HeaderError::UnexpectedVersion { version_number: 0xff }))
    }
    pub fn stub_arp_from_slice(_s: &[u8]) -> Result<ArpPacket, LenError> {
        Err(LenError { required_len: usize::MAX, len: 0, len_source: LenSource::Slice, layer: Layer::Arp, layer_start_offset: 0 })
    }

    pub fn stub_lax_add_ip<'a>(_this: &mut LaxPacketHeaders<'a>, _offset: usize, _slice: &'a [u8]) -> Result<(), err::ip::LaxHeaderSliceError>
    where
        'a: 'a, // early-bound, as in `impl<'a> LaxPacketHeaders<'a>`
    {
        Err(err::ip::LaxHeaderSliceError::Content(err::ip::HeaderError::UnsupportedIpVersion { version_number: 0xff }))
    }

    // (A C04 twin of these harnesses - PacketHeaders against SlicedPacket on the same link-extension stacks - was
    // tried and exceeds the 20 GB cap even with the network decoders stubbed: two result families in one formula.)

    /// MACsec (unmodified, no SCI, symbolic short length) -> VLAN (ether type 0x88b5, not decoded further)
    pub fn shape_hdr_macsec_vlan<const LAX: bool>() {
        headers_link_exts::<18, LAX>(refm::ET_MACSEC, |d| {
            d[0] = 0x00;
            d[6] = 0x81;
            d[7] = 0x00;
            d[10] = 0x88;
            d[11] = 0xb5;
        });
    }

    /// VLAN -> MACsec (unmodified, no SCI, symbolic short length) -> MACsec (any layout)
    pub fn shape_hdr_vlan_macsec_macsec<const LAX: bool>() {
        headers_link_exts::<24, LAX>(refm::ET_VLAN, |d| {
            d[2] = 0x88;
            d[3] = 0xe5;
            d[4] = 0x00;
            d[10] = 0x88;
            d[11] = 0xe5;
        });
    }

    // ---- unshaped: every byte symbolic (thorough tier)
    pub fn any_ether_type<const MODE: u8, const N: usize>() {
        let et: u16 = any();
        run::<MODE, N>(Start::EtherType(et), |_| {});
    }
    pub fn any_ip<const MODE: u8, const N: usize>() {
        run::<MODE, N>(Start::Ip, |_| {});
    }
    pub fn any_ethernet<const MODE: u8, const N: usize>() {
        run::<MODE, N>(Start::Ethernet, |_| {});
    }
    pub fn any_sll<const MODE: u8, const N: usize>() {
        run::<MODE, N>(Start::Sll, |_| {});
    }

    crate::harnesses! {
        c03_glue_macsec_vlan_ipv4_udp = shape_macsec_vlan_ipv4_udp::<3>; unwind 4,
        c03_glue_ipv6_route_udp = shape_ipv6_route_udp::<3>; unwind 3,
        c03_glue_sll_arp = shape_sll_arp::<3>; unwind 2,
        c03_glue_vlan_x4 = shape_vlan_x4::<3>; unwind 5,
        c03_glue_eth_ipv4_tcp = shape_eth_ipv4_tcp::<3>; unwind 2,
        c03_glue_ipv4_icmp = shape_ipv4_icmp::<3>; unwind 2,
        c03_glue_ipv6_frag_icmp6 = shape_ipv6_frag_icmp6::<3>; unwind 3,
        c03_glue_any_ether_type_44 = any_ether_type::<3, 44>; unwind 5,
        c03_glue_any_ip_48 = any_ip::<3, 48>; unwind 5,
        c03_glue_any_ethernet_48 = any_ethernet::<3, 48>; unwind 5,
        c03_glue_any_sll_44 = any_sll::<3, 44>; unwind 5,
        c07_glue_macsec_vlan_ipv4_udp = shape_macsec_vlan_ipv4_udp::<7>; unwind 4,
        c07_glue_ipv6_route_udp = shape_ipv6_route_udp::<7>; unwind 3,
        c07_glue_sll_arp = shape_sll_arp::<7>; unwind 2,
        c07_glue_vlan_x4 = shape_vlan_x4::<7>; unwind 5,
        c07_glue_eth_ipv4_tcp = shape_eth_ipv4_tcp::<7>; unwind 2,
        c07_glue_ipv4_icmp = shape_ipv4_icmp::<7>; unwind 2,
        c07_glue_ipv6_frag_icmp6 = shape_ipv6_frag_icmp6::<7>; unwind 3,
        c07_glue_any_ether_type_44 = any_ether_type::<7, 44>; unwind 5,
        c07_glue_any_ip_48 = any_ip::<7, 48>; unwind 5,
        c07_glue_any_ethernet_48 = any_ethernet::<7, 48>; unwind 5,
        c07_glue_any_sll_44 = any_sll::<7, 44>; unwind 5,
        #[kani::stub(etherparse::IpHeaders::from_ipv4_slice, stub_from_ipv4_slice)]
        #[kani::stub(etherparse::IpHeaders::from_ipv6_slice, stub_from_ipv6_slice)]
        #[kani::stub(etherparse::ArpPacket::from_slice, stub_arp_from_slice)]
        c07_hdr_macsec_vlan = shape_hdr_macsec_vlan::<false>; unwind 4,
        #[kani::stub(etherparse::IpHeaders::from_ipv4_slice, stub_from_ipv4_slice)]
        #[kani::stub(etherparse::IpHeaders::from_ipv6_slice, stub_from_ipv6_slice)]
        #[kani::stub(etherparse::ArpPacket::from_slice, stub_arp_from_slice)]
        c07_hdr_vlan_macsec_macsec = shape_hdr_vlan_macsec_macsec::<false>; unwind 5,
        #[kani::stub(etherparse::LaxPacketHeaders::add_ip, stub_lax_add_ip)]
        #[kani::stub(etherparse::ArpPacket::from_slice, stub_arp_from_slice)]
        c07_hdr_macsec_vlan_lax = shape_hdr_macsec_vlan::<true>; unwind 4,
        #[kani::stub(etherparse::LaxPacketHeaders::add_ip, stub_lax_add_ip)]
        #[kani::stub(etherparse::ArpPacket::from_slice, stub_arp_from_slice)]
        c07_hdr_vlan_macsec_macsec_lax = shape_hdr_vlan_macsec_macsec::<true>; unwind 5,
    }
}
