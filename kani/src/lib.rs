//! Solver-decided checks of etherparse (see /verif/DESIGN.md).
//!
//! Every harness body is plain Rust over `sym::any()`; under `cargo kani` it is explored
//! symbolically by CBMC, natively (`src/bin/replay.rs`) it re-executes a recorded
//! counterexample against the normally compiled crate.
#![allow(clippy::all)]
#![allow(dead_code)]
#![allow(unused_imports)]

pub mod sym;
pub mod tight;
pub mod refm;

/// Declares the Kani proof wrappers and the native replay table of a module.
#[macro_export]
macro_rules! harnesses {
    ($( $(#[$m:meta])* $name:ident = $f:path ; unwind $u:literal ),* $(,)?) => {
        #[cfg(kani)]
        mod proofs {
            #[allow(unused_imports)]
            use super::*;
            $(
                #[kani::proof]
                #[kani::unwind($u)]
                $(#[$m])*
                fn $name() { $f() }
            )*
        }
        pub const REPLAY: &[(&str, fn())] = &[ $( (stringify!($name), $f as fn()) ),* ];
    };
}

pub mod selftest;
pub mod c01;
pub mod c02;
pub mod c03;
pub mod c04;
pub mod c05;
pub mod c06;
pub mod c07;
pub mod c08;
pub mod c09;
pub mod c10;
pub mod c11;
pub mod c12;
pub mod c13;
pub mod c14;
pub mod c15;
pub mod c16;
pub mod c17;

/// all natively replayable harnesses
pub fn replay_table() -> Vec<(&'static str, fn())> {
    let mut v = Vec::new();
    v.extend_from_slice(selftest::REPLAY);
    v.extend_from_slice(c01::REPLAY);
    v.extend_from_slice(c01::transport::REPLAY);
    v.extend_from_slice(c01::packet::REPLAY);
    v.extend_from_slice(c01::readers::REPLAY);
    v.extend_from_slice(c02::REPLAY);
    v.extend_from_slice(c03::REPLAY);
    v.extend_from_slice(c03::glue::REPLAY);
    v.extend_from_slice(c04::REPLAY);
    v.extend_from_slice(c05::REPLAY);
    v.extend_from_slice(c05::glue::REPLAY);
    v.extend_from_slice(c06::REPLAY);
    v.extend_from_slice(c07::REPLAY);
    v.extend_from_slice(c08::REPLAY);
    v.extend_from_slice(c09::REPLAY);
    v.extend_from_slice(c10::REPLAY);
    v.extend_from_slice(c11::REPLAY);
    v.extend_from_slice(c12::REPLAY);
    v.extend_from_slice(c13::REPLAY);
    v.extend_from_slice(c14::REPLAY);
    v.extend_from_slice(c15::REPLAY);
    v.extend_from_slice(c16::REPLAY);
    v.extend_from_slice(c17::REPLAY);
    v
}
