//! Solver-decided checks of etherparse (see /verif/DESIGN.md).
//!
//! Every harness body is plain Rust over `sym::any()`; under `cargo kani` it is explored
//! symbolically by CBMC, natively (`src/bin/replay.rs`) it re-executes a recorded
//! counterexample against the normally compiled crate.
#![allow(clippy::all)]
#![allow(dead_code)]

pub mod sym;

/// Declares the Kani proof wrappers and the native replay table of a module.
#[macro_export]
macro_rules! harnesses {
    ($( $(#[$m:meta])* $name:ident = $f:path ; unwind $u:literal ),* $(,)?) => {
        #[cfg(kani)]
        mod proofs {
            #[allow(unused_imports)]
            use super::*;
            $(
                #[kani::proof]
                #[kani::unwind($u)]
                $(#[$m])*
                fn $name() { $f() }
            )*
        }
        pub const REPLAY: &[(&str, fn())] = &[ $( (stringify!($name), $f as fn()) ),* ];
    };
}

pub mod tight;
pub mod selftest;
pub mod c15;

/// all natively replayable harnesses
pub fn replay_table() -> Vec<(&'static str, fn())> {
    let mut v = Vec::new();
    v.extend_from_slice(selftest::REPLAY);
    v.extend_from_slice(c15::REPLAY);
    v
}
