//! Exact-size input placement (DESIGN 3.3): the decoder input lives in its own heap object
//! of exactly `len` bytes, so under CBMC any access outside the slice is an access outside
//! the object and fails a pointer check (natively: Miri sees it, ASAN-like).
use crate::sym::{any, assume};
use std::alloc::{alloc, dealloc, Layout};

pub struct Tight<const N: usize> {
    ptr: *mut u8,
    len: usize,
}

impl<const N: usize> Tight<N> {
    /// `len <= N` symbolic bytes in an allocation of exactly `len` bytes
    pub fn new(len: usize) -> Self {
        assume(len <= N);
        let data: [u8; N] = any();
        Self::from_bytes(&data[..len])
    }

    pub fn from_bytes(data: &[u8]) -> Self {
        let len = data.len();
        assert!(len <= N);
        if len == 0 {
            return Tight { ptr: core::ptr::NonNull::<u8>::dangling().as_ptr(), len: 0 };
        }
        let ptr = unsafe { alloc(Layout::from_size_align(len, 1).unwrap()) };
        assume(!ptr.is_null());
        unsafe { core::ptr::copy_nonoverlapping(data.as_ptr(), ptr, len) };
        Tight { ptr, len }
    }

    pub fn slice(&self) -> &[u8] {
        unsafe { core::slice::from_raw_parts(self.ptr, self.len) }
    }
}

impl<const N: usize> Drop for Tight<N> {
    fn drop(&mut self) {
        if self.len != 0 {
            unsafe { dealloc(self.ptr, Layout::from_size_align(self.len, 1).unwrap()) }
        }
    }
}

/// `sub` lies entirely inside `outer` (pointer-range containment, the C01 sub-slice clause)
pub fn inside(outer: &[u8], sub: &[u8]) -> bool {
    let o = outer.as_ptr() as usize;
    let s = sub.as_ptr() as usize;
    // an empty sub-slice may sit at any position from start to one-past-the-end
    s >= o && s + sub.len() <= o + outer.len()
}

/// offset of `sub` from the start of `outer` (requires `inside`)
pub fn off(outer: &[u8], sub: &[u8]) -> usize {
    (sub.as_ptr() as usize).wrapping_sub(outer.as_ptr() as usize)
}
