//! C15 - bounded integer types and bit packing.
//!
//! Oracles are written from the wire formats (IEEE 802.1Q, 802.1AE, RFC 791, RFC 8200,
//! RFC 9776) as explicit bit layouts; no constant of etherparse is used.

use crate::sym::{any, assume};
use crate::witness;
use etherparse::err::{ValueTooBigError, ValueType};
use etherparse::*;

// ---------------------------------------------------------------- constructors

macro_rules! bounded_ctor {
    ($fname:ident, $ty:ty, $raw:ty, $bits:expr, $vt:expr, $try_new:ident) => {
        /// checked constructors accept exactly the values that fit into the field
        pub fn $fname() {
            let v: $raw = any();
            let max: $raw = ((1u64 << $bits) - 1) as $raw;
            let a = <$ty>::$try_new(v);
            let b = <$ty>::try_from(v);
            witness!(a.is_ok(), "ctor_ok");
            witness!(a.is_err(), "ctor_err");
            if v <= max {
                let a = a.expect("value that fits must be accepted");
                let b = b.expect("value that fits must be accepted (TryFrom)");
                assert!(a.value() == v);
                assert!(b.value() == v);
                assert!(<$raw>::from(a) == v);
                assert!(a == b);
            } else {
                let e = ValueTooBigError { actual: v, max_allowed: max, value_type: $vt };
                assert!(a == Err(e.clone()));
                assert!(b == Err(e));
            }
        }
    };
}

bounded_ctor!(ctor_vlan_id, VlanId, u16, 12, ValueType::VlanId, try_new);
bounded_ctor!(ctor_vlan_pcp, VlanPcp, u8, 3, ValueType::VlanPcp, try_new);
bounded_ctor!(ctor_ip_dscp, IpDscp, u8, 6, ValueType::IpDscp, try_new);
bounded_ctor!(ctor_ip_ecn, IpEcn, u8, 2, ValueType::IpEcn, try_new);
bounded_ctor!(ctor_ip_frag_offset, IpFragOffset, u16, 13, ValueType::IpFragmentOffset, try_new);
bounded_ctor!(ctor_ipv6_flow_label, Ipv6FlowLabel, u32, 20, ValueType::Ipv6FlowLabel, try_new);
bounded_ctor!(ctor_macsec_an, MacsecAn, u8, 2, ValueType::MacsecAn, try_new);
bounded_ctor!(ctor_macsec_short_len, MacsecShortLen, u8, 6, ValueType::MacsecShortLen, try_from_u8);
bounded_ctor!(ctor_igmp_qrv, igmp::Qrv, u8, 3, ValueType::IgmpQrv, try_new);

/// `IpFragOffset::byte_offset` is the offset in bytes (unit 8) and cannot overflow
pub fn frag_offset_bytes() {
    let v: u16 = any();
    assume(v <= 0x1fff);
    let f = IpFragOffset::try_new(v).unwrap();
    assert!(u32::from(f.byte_offset()) == u32::from(v) * 8);
}

// ---------------------------------------------------------------- symbolic valid values

pub fn vlan_id() -> VlanId {
    let v: u16 = any();
    assume(v < (1 << 12));
    VlanId::try_new(v).unwrap()
}
pub fn vlan_pcp() -> VlanPcp {
    let v: u8 = any();
    assume(v < 8);
    VlanPcp::try_new(v).unwrap()
}
pub fn dscp() -> IpDscp {
    let v: u8 = any();
    assume(v < 64);
    IpDscp::try_new(v).unwrap()
}
pub fn ecn() -> IpEcn {
    let v: u8 = any();
    assume(v < 4);
    IpEcn::try_new(v).unwrap()
}
pub fn frag_offset() -> IpFragOffset {
    let v: u16 = any();
    assume(v < (1 << 13));
    IpFragOffset::try_new(v).unwrap()
}
pub fn flow_label() -> Ipv6FlowLabel {
    let v: u32 = any();
    assume(v < (1 << 20));
    Ipv6FlowLabel::try_new(v).unwrap()
}
pub fn macsec_an() -> MacsecAn {
    let v: u8 = any();
    assume(v < 4);
    MacsecAn::try_new(v).unwrap()
}
pub fn macsec_sl() -> MacsecShortLen {
    let v: u8 = any();
    assume(v < 64);
    MacsecShortLen::try_from_u8(v).unwrap()
}

// ---------------------------------------------------------------- 802.1Q tag

/// encode: every field lands in exactly its bits (reference layout), decode inverts it
pub fn vlan_pack() {
    let pcp = vlan_pcp();
    let dei: bool = any();
    let vid = vlan_id();
    let et: u16 = any();
    let h = SingleVlanHeader {
        pcp,
        drop_eligible_indicator: dei,
        vlan_id: vid,
        ether_type: EtherType(et),
    };
    let b = h.to_bytes();
    // IEEE 802.1Q: TCI = PCP(3) DEI(1) VID(12), then the ether type
    let tci: u16 = ((pcp.value() as u16) << 13) | ((dei as u16) << 12) | vid.value();
    assert!(b[0] == (tci >> 8) as u8);
    assert!(b[1] == tci as u8);
    assert!(b[2] == (et >> 8) as u8);
    assert!(b[3] == et as u8);
    let s = SingleVlanHeaderSlice::from_slice(&b).unwrap();
    assert!(s.priority_code_point() == pcp);
    assert!(s.drop_eligible_indicator() == dei);
    assert!(s.vlan_identifier() == vid);
    assert!(s.ether_type().0 == et);
    assert!(SingleVlanHeader::from_bytes(b) == h);
    assert!(s.to_header() == h);
}

/// decoding arbitrary bytes yields in-range values equal to the reference extraction
pub fn vlan_unpack() {
    let b: [u8; 4] = any();
    let tci = u16::from_be_bytes([b[0], b[1]]);
    let s = SingleVlanHeaderSlice::from_slice(&b).unwrap();
    assert!(s.priority_code_point().value() == (tci >> 13) as u8);
    assert!(s.priority_code_point().value() <= 7);
    assert!(s.drop_eligible_indicator() == ((tci >> 12) & 1 == 1));
    assert!(s.vlan_identifier().value() == tci & 0x0fff);
    let h = SingleVlanHeader::from_bytes(b);
    assert!(h.pcp.value() == (tci >> 13) as u8);
    assert!(h.drop_eligible_indicator == ((tci >> 12) & 1 == 1));
    assert!(h.vlan_id.value() == tci & 0x0fff);
    assert!(h.ether_type.0 == u16::from_be_bytes([b[2], b[3]]));
    // the 4 bytes carry no reserved bit: re-encoding is the identity
    assert!(h.to_bytes() == b);
}

// ---------------------------------------------------------------- IPv4

/// bytes 0,1,6,7 of the IPv4 header (RFC 791 / RFC 2474 / RFC 3168 layout)
pub fn ipv4_pack() {
    let d = dscp();
    let e = ecn();
    let df: bool = any();
    let mf: bool = any();
    let fo = frag_offset();
    let mut h = Ipv4Header::default();
    h.dscp = d;
    h.ecn = e;
    h.dont_fragment = df;
    h.more_fragments = mf;
    h.fragment_offset = fo;
    h.total_len = any();
    h.identification = any();
    h.time_to_live = any();
    h.protocol = IpNumber(any());
    h.header_checksum = any();
    let b = h.to_bytes();
    assert!(b.len() == 20);
    assert!(b[0] == 0x45);
    assert!(b[1] == (d.value() << 2) | e.value());
    let w: u16 = ((df as u16) << 14) | ((mf as u16) << 13) | fo.value();
    assert!(b[6] == (w >> 8) as u8); // reserved bit 15 stays zero
    assert!(b[7] == w as u8);
    assert!(b[2] == (h.total_len >> 8) as u8 && b[3] == h.total_len as u8);
    assert!(b[4] == (h.identification >> 8) as u8 && b[5] == h.identification as u8);
    assert!(b[8] == h.time_to_live && b[9] == h.protocol.0);
    let s = Ipv4HeaderSlice::from_slice(&b).unwrap();
    assert!(s.dcp() == d);
    assert!(s.ecn() == e);
    assert!(s.dont_fragment() == df);
    assert!(s.more_fragments() == mf);
    assert!(s.fragments_offset() == fo);
    assert!(s.total_len() == h.total_len);
    assert!(s.identification() == h.identification);
    assert!(s.ttl() == h.time_to_live);
    assert!(s.protocol() == h.protocol);
    assert!(s.header_checksum() == h.header_checksum);
}

pub fn ipv4_unpack() {
    let mut b: [u8; 20] = any();
    b[0] = 0x45;
    let s = Ipv4HeaderSlice::from_slice(&b).unwrap();
    assert!(s.dcp().value() == b[1] >> 2);
    assert!(s.ecn().value() == b[1] & 3);
    let w = u16::from_be_bytes([b[6], b[7]]);
    assert!(s.dont_fragment() == (w & 0x4000 != 0));
    assert!(s.more_fragments() == (w & 0x2000 != 0));
    assert!(s.fragments_offset().value() == w & 0x1fff);
    let h = s.to_header();
    assert!(h.dscp.value() == b[1] >> 2 && h.dscp.value() < 64);
    assert!(h.ecn.value() == b[1] & 3);
    assert!(h.dont_fragment == (w & 0x4000 != 0));
    assert!(h.more_fragments == (w & 0x2000 != 0));
    assert!(h.fragment_offset.value() == w & 0x1fff);
    witness!(w & 0x8000 != 0, "reserved_flag_set");
}

// ---------------------------------------------------------------- IPv6

/// RFC 8200: version(4) traffic class(8) flow label(20)
pub fn ipv6_pack() {
    let tc: u8 = any();
    let fl = flow_label();
    let mut h = Ipv6Header::default();
    h.traffic_class = tc;
    h.flow_label = fl;
    h.payload_length = any();
    h.next_header = IpNumber(any());
    h.hop_limit = any();
    let b = h.to_bytes();
    let w: u32 = (6u32 << 28) | ((tc as u32) << 20) | fl.value();
    assert!(b[0] == (w >> 24) as u8);
    assert!(b[1] == (w >> 16) as u8);
    assert!(b[2] == (w >> 8) as u8);
    assert!(b[3] == w as u8);
    assert!(b[4] == (h.payload_length >> 8) as u8 && b[5] == h.payload_length as u8);
    assert!(b[6] == h.next_header.0 && b[7] == h.hop_limit);
    let s = Ipv6HeaderSlice::from_slice(&b).unwrap();
    assert!(s.traffic_class() == tc);
    assert!(s.flow_label() == fl);
    assert!(s.dscp().value() == tc >> 2);
    assert!(s.ecn().value() == tc & 3);
    assert!(s.payload_length() == h.payload_length);
    assert!(s.next_header() == h.next_header);
    assert!(s.hop_limit() == h.hop_limit);
    assert!(h.dscp().value() == tc >> 2);
    assert!(h.ecn().value() == tc & 3);
}

pub fn ipv6_unpack() {
    let mut b: [u8; 40] = [0; 40];
    let head: [u8; 8] = any();
    b[..8].copy_from_slice(&head);
    b[0] = 0x60 | (b[0] & 0xf);
    let w = u32::from_be_bytes([b[0], b[1], b[2], b[3]]);
    let s = Ipv6HeaderSlice::from_slice(&b).unwrap();
    assert!(s.traffic_class() == (w >> 20) as u8);
    assert!(s.flow_label().value() == w & 0xf_ffff);
    let h = s.to_header();
    assert!(h.traffic_class == (w >> 20) as u8);
    assert!(h.flow_label.value() == w & 0xf_ffff);
}

/// set_dscp / set_ecn change exactly their own bits of the traffic class
pub fn ipv6_set_dscp_ecn() {
    let tc: u8 = any();
    let d = dscp();
    let e = ecn();
    let mut h = Ipv6Header::default();
    h.traffic_class = tc;
    h.set_dscp(d);
    assert!(h.traffic_class == (d.value() << 2) | (tc & 3));
    assert!(h.dscp() == d);
    assert!(h.ecn().value() == tc & 3);
    let mut h = Ipv6Header::default();
    h.traffic_class = tc;
    h.set_ecn(e);
    assert!(h.traffic_class == (tc & 0xfc) | e.value());
    assert!(h.ecn() == e);
    assert!(h.dscp().value() == tc >> 2);
}

// ---------------------------------------------------------------- IPv6 fragment header

/// RFC 8200 4.5: next header, reserved, offset(13) res(2) M(1), identification
pub fn ipv6_frag_pack() {
    let fo = frag_offset();
    let mf: bool = any();
    let nh: u8 = any();
    let id: u32 = any();
    let h = Ipv6FragmentHeader::new(IpNumber(nh), fo, mf, id);
    let b = h.to_bytes();
    let w: u16 = (fo.value() << 3) | (mf as u16);
    assert!(b[0] == nh);
    assert!(b[1] == 0);
    assert!(b[2] == (w >> 8) as u8);
    assert!(b[3] == w as u8);
    assert!(b[4..8] == id.to_be_bytes());
    let s = Ipv6FragmentHeaderSlice::from_slice(&b).unwrap();
    assert!(s.fragment_offset() == fo);
    assert!(s.more_fragments() == mf);
    assert!(s.next_header().0 == nh);
    assert!(s.identification() == id);
    assert!(s.to_header() == h);
}

pub fn ipv6_frag_unpack() {
    let b: [u8; 8] = any();
    let w = u16::from_be_bytes([b[2], b[3]]);
    let s = Ipv6FragmentHeaderSlice::from_slice(&b).unwrap();
    assert!(s.fragment_offset().value() == w >> 3);
    assert!(s.more_fragments() == (w & 1 == 1));
    let h = s.to_header();
    assert!(h.fragment_offset.value() == w >> 3);
    assert!(h.more_fragments == (w & 1 == 1));
    assert!(h.is_fragmenting_payload() == ((w >> 3) != 0 || (w & 1) == 1));
    assert!(s.is_fragmenting_payload() == h.is_fragmenting_payload());
    witness!(w & 6 != 0, "reserved_bits_set");
}

// ---------------------------------------------------------------- MACsec SecTAG

fn macsec_ptype() -> MacsecPType {
    let k: u8 = any();
    assume(k < 4);
    match k {
        0 => MacsecPType::Unmodified(EtherType(any())),
        1 => MacsecPType::Modified,
        2 => MacsecPType::Encrypted,
        _ => MacsecPType::EncryptedUnmodified,
    }
}

/// IEEE 802.1AE SecTAG: TCI/AN octet = V ES SC SCB E C AN(2); SL octet = 00 SL(6)
pub fn macsec_pack() {
    let ptype = macsec_ptype();
    let es: bool = any();
    let scb: bool = any();
    let an = macsec_an();
    let sl = macsec_sl();
    let pn: u32 = any();
    let has_sci: bool = any();
    let sci: u64 = any();
    let h = MacsecHeader {
        ptype,
        endstation_id: es,
        scb,
        an,
        short_len: sl,
        packet_nr: pn,
        sci: if has_sci { Some(sci) } else { None },
    };
    let (e, c) = match ptype {
        MacsecPType::Unmodified(_) => (false, false),
        MacsecPType::Modified => (false, true),
        MacsecPType::Encrypted => (true, true),
        MacsecPType::EncryptedUnmodified => (true, false),
    };
    let b = h.to_bytes();
    let tci = ((es as u8) << 6)
        | ((has_sci as u8) << 5)
        | ((scb as u8) << 4)
        | ((e as u8) << 3)
        | ((c as u8) << 2)
        | an.value();
    assert!(b[0] == tci);
    assert!(b[1] == sl.value());
    assert!(b[2..6] == pn.to_be_bytes());
    let mut n = 6;
    if has_sci {
        assert!(b[6..14] == sci.to_be_bytes());
        n += 8;
    }
    if let MacsecPType::Unmodified(et) = ptype {
        assert!(b[n] == (et.0 >> 8) as u8 && b[n + 1] == et.0 as u8);
        n += 2;
    }
    assert!(b.len() == n);
    assert!(h.header_len() == n);
}

/// decoding an arbitrary accepted SecTAG yields the reference extraction
pub fn macsec_unpack() {
    let b: [u8; 16] = any();
    match MacsecHeaderSlice::from_slice(&b) {
        Ok(s) => {
            witness!(true, "accepted");
            assert!(b[0] & 0x80 == 0);
            assert!(s.an().value() == b[0] & 3);
            assert!(s.short_len().value() == b[1] & 0x3f);
            assert!(s.endstation_id() == (b[0] & 0x40 != 0));
            assert!(s.sci_present() == (b[0] & 0x20 != 0));
            assert!(s.tci_scb() == (b[0] & 0x10 != 0));
            assert!(s.encrypted() == (b[0] & 0x08 != 0));
            assert!(s.userdata_changed() == (b[0] & 0x04 != 0));
            let h = s.to_header();
            assert!(h.an.value() == b[0] & 3);
            assert!(h.short_len.value() == b[1] & 0x3f);
            assert!(h.endstation_id == (b[0] & 0x40 != 0));
            assert!(h.scb == (b[0] & 0x10 != 0));
            assert!(h.sci.is_some() == (b[0] & 0x20 != 0));
            assert!(h.encrypted() == (b[0] & 0x08 != 0));
            assert!(h.userdata_changed() == (b[0] & 0x04 != 0));
        }
        Err(_) => {
            witness!(true, "rejected");
        }
    }
}

// ---------------------------------------------------------------- IGMPv3 query byte 8

/// RFC 9776 4.1: Flags(4) S(1) QRV(3); every setter touches only its own bits
pub fn igmp_query_bits() {
    use igmp::*;
    let raw: u8 = any();
    let mk = || MembershipQueryWithSourcesHeader {
        max_response_code: MaxResponseCode(0),
        group_address: GroupAddress::new([0; 4]),
        raw_byte_8: raw,
        qqic: 0,
        num_of_sources: 0,
    };
    let h = mk();
    assert!(h.flags() == raw >> 4);
    assert!(h.s_flag() == (raw & 8 != 0));
    assert!(h.qrv().value() == raw & 7);

    let q: u8 = any();
    assume(q < 8);
    let mut a = mk();
    a.set_qrv(Qrv::try_new(q).unwrap());
    assert!(a.raw_byte_8 == (raw & 0xf8) | q);

    let s: bool = any();
    let mut a = mk();
    a.set_s_flag(s);
    assert!(a.raw_byte_8 == (raw & 0xf7) | ((s as u8) << 3));

    let f: u8 = any();
    let mut a = mk();
    a.set_flags(f);
    // only 4 bits exist: the value is masked into them and the neighbours keep their bits
    assert!(a.raw_byte_8 & 0x0f == raw & 0x0f);
    assert!(a.flags() == f & 0x0f);
}

crate::harnesses! {
    c15_ctor_vlan_id = ctor_vlan_id; unwind 20,
    c15_ctor_vlan_pcp = ctor_vlan_pcp; unwind 20,
    c15_ctor_ip_dscp = ctor_ip_dscp; unwind 20,
    c15_ctor_ip_ecn = ctor_ip_ecn; unwind 20,
    c15_ctor_ip_frag_offset = ctor_ip_frag_offset; unwind 20,
    c15_ctor_ipv6_flow_label = ctor_ipv6_flow_label; unwind 20,
    c15_ctor_macsec_an = ctor_macsec_an; unwind 20,
    c15_ctor_macsec_short_len = ctor_macsec_short_len; unwind 20,
    c15_ctor_igmp_qrv = ctor_igmp_qrv; unwind 20,
    c15_frag_offset_bytes = frag_offset_bytes; unwind 20,
    c15_vlan_pack = vlan_pack; unwind 20,
    c15_vlan_unpack = vlan_unpack; unwind 20,
    c15_ipv4_pack = ipv4_pack; unwind 20,
    c15_ipv4_unpack = ipv4_unpack; unwind 20,
    c15_ipv6_pack = ipv6_pack; unwind 20,
    c15_ipv6_unpack = ipv6_unpack; unwind 20,
    c15_ipv6_set_dscp_ecn = ipv6_set_dscp_ecn; unwind 20,
    c15_ipv6_frag_pack = ipv6_frag_pack; unwind 20,
    c15_ipv6_frag_unpack = ipv6_frag_unpack; unwind 20,
    c15_macsec_pack = macsec_pack; unwind 20,
    c15_macsec_unpack = macsec_unpack; unwind 20,
    c15_igmp_query_bits = igmp_query_bits; unwind 20,
}
