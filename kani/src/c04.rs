//! C04 - decoding into header structs agrees with slicing.
//!
//! Pure differential on identical symbolic bytes:
//!   `PacketHeaders::{from_ethernet_slice, from_ether_type, from_ip_slice}` vs
//!   `SlicedPacket::{from_ethernet, from_ether_type, from_ip}` and
//!   `LaxPacketHeaders::{from_ethernet, from_ether_type, from_ip}` vs `LaxSlicedPacket::{..}`.
//!
//! Oracle (`cmp_strict`, `cmp_lax`): same verdict (and the same error kind / layer / numbers, with
//! two enumerated ordering tolerances); on success `link`, every `link_exts[i]`, `net`, `transport`
//! equal to the `to_header()` conversions of the sliced result and the remaining payload covers the
//! same bytes (start address + length) and names the same protocol; lax: same `stop_err`.
//! The one permitted difference (IPv6 extension header of a kind whose struct slot is already
//! filled) is computed by an independent walker over the raw bytes (`walk_chain`), never assumed.
//!
//! Cost model that shaped this module (measured, see reg/c04.py):
//! * `PacketHeaders` / `LaxPacketHeaders` hold `NetHeaders`, a ~10 KB enum (IPv6 variant: four 2 KB
//!   raw extension buffers + 1 KB ICV buffer). Kani encodes enums as unions, CBMC handles the
//!   byte arrays above 1000 elements with its array theory: 5-9 GB and 3-6 min for ONE strict pair
//!   at N = 32, 20 GB exceeded as soon as a dispatch value (IP version, protocol, ether type) is
//!   symbolic, because then every decoder arm (three IPv6 chain walks) is executed symbolically.
//! * `assume` does not prune symbolic execution. Therefore the dispatch bytes of a harness are
//!   WRITTEN as constants into the symbolic array (`shaped!` skeletons); everything else,
//!   including the slice length, stays symbolic. `Shape` repeats what the skeleton can produce so
//!   that comparison arms of other kinds are closed statically (a result outside the shape FAILS).
//! * All struct comparisons are field by field and loop free (`bytes_eq`), so the unwind value
//!   of a harness is determined by the decoder loops alone.
//!
//! Only the harnesses listed in reg/c04.py are part of the claim; the other `shaped!` bodies and
//! the `exts_layer_*` bodies are kept because they are correct as far as they could be run, but
//! they need more memory than the shared machine had (see "outside" in the registry).

use crate::sym::{any, any_le, assume};
use crate::witness;
use etherparse::err::packet::SliceError;
use etherparse::err::{Layer, LenError};
use etherparse::*;

// ================================================================ loop free comparisons

macro_rules! idx_eq {
    ($a:expr, $b:expr; $($i:literal)*) => { true $( && ($i >= $a.len() || $a[$i] == $b[$i]) )* };
}

/// slice equality without a loop; lengths above 40 compare unequal (so a bound that is too small
/// for the data shows up as a failed assertion, never as a silently skipped comparison)
fn bytes_eq(a: &[u8], b: &[u8]) -> bool {
    a.len() == b.len()
        && a.len() <= 40
        && idx_eq!(a, b; 0 1 2 3 4 5 6 7 8 9 10 11 12 13 14 15 16 17 18 19
                         20 21 22 23 24 25 26 27 28 29 30 31 32 33 34 35 36 37 38 39)
}

fn mac_eq(a: &[u8; 6], b: &[u8; 6]) -> bool {
    a[0] == b[0] && a[1] == b[1] && a[2] == b[2] && a[3] == b[3] && a[4] == b[4] && a[5] == b[5]
}

/// same byte range: same start address and same length
fn same_range(a: &[u8], b: &[u8]) -> bool {
    a.as_ptr() == b.as_ptr() && a.len() == b.len()
}

fn eq_opt<T>(a: &Option<T>, b: &Option<T>, f: fn(&T, &T) -> bool) -> bool {
    match (a, b) {
        (None, None) => true,
        (Some(x), Some(y)) => f(x, y),
        _ => false,
    }
}

fn eq_eth(a: &Ethernet2Header, b: &Ethernet2Header) -> bool {
    mac_eq(&a.source, &b.source) && mac_eq(&a.destination, &b.destination) && a.ether_type == b.ether_type
}

fn eq_link(h: &Option<LinkHeader>, s: &Option<LinkSlice>) -> bool {
    let exp = match s {
        Some(l) => l.to_header(),
        None => None,
    };
    match (h, &exp) {
        (None, None) => true,
        (Some(LinkHeader::Ethernet2(a)), Some(LinkHeader::Ethernet2(b))) => eq_eth(a, b),
        // Linux SLL cannot be produced by the three entry points of this property
        _ => false,
    }
}

fn eq_ipv4_header(a: &Ipv4Header, b: &Ipv4Header) -> bool {
    a.dscp == b.dscp
        && a.ecn == b.ecn
        && a.total_len == b.total_len
        && a.identification == b.identification
        && a.dont_fragment == b.dont_fragment
        && a.more_fragments == b.more_fragments
        && a.fragment_offset == b.fragment_offset
        && a.time_to_live == b.time_to_live
        && a.protocol == b.protocol
        && a.header_checksum == b.header_checksum
        && u32::from_be_bytes(a.source) == u32::from_be_bytes(b.source)
        && u32::from_be_bytes(a.destination) == u32::from_be_bytes(b.destination)
        && bytes_eq(a.options.as_slice(), b.options.as_slice())
}

fn eq_auth(a: &IpAuthHeader, b: &IpAuthHeader) -> bool {
    a.next_header == b.next_header
        && a.spi == b.spi
        && a.sequence_number == b.sequence_number
        && bytes_eq(a.raw_icv(), b.raw_icv())
}

fn eq_ipv6_header(a: &Ipv6Header, b: &Ipv6Header) -> bool {
    a.traffic_class == b.traffic_class
        && a.flow_label == b.flow_label
        && a.payload_length == b.payload_length
        && a.next_header == b.next_header
        && a.hop_limit == b.hop_limit
        && u128::from_be_bytes(a.source) == u128::from_be_bytes(b.source)
        && u128::from_be_bytes(a.destination) == u128::from_be_bytes(b.destination)
}

fn eq_raw_ext(a: &Ipv6RawExtHeader, b: &Ipv6RawExtHeader) -> bool {
    a.next_header == b.next_header && bytes_eq(a.payload(), b.payload())
}

fn eq_frag(a: &Ipv6FragmentHeader, b: &Ipv6FragmentHeader) -> bool {
    a.next_header == b.next_header
        && a.fragment_offset == b.fragment_offset
        && a.more_fragments == b.more_fragments
        && a.identification == b.identification
}

fn eq_routing(a: &Ipv6RoutingExtensions, b: &Ipv6RoutingExtensions) -> bool {
    eq_raw_ext(&a.routing, &b.routing)
        && eq_opt(&a.final_destination_options, &b.final_destination_options, eq_raw_ext)
}

fn eq_ipv6_exts(a: &Ipv6Extensions, b: &Ipv6Extensions) -> bool {
    eq_opt(&a.hop_by_hop_options, &b.hop_by_hop_options, eq_raw_ext)
        && eq_opt(&a.destination_options, &b.destination_options, eq_raw_ext)
        && eq_opt(&a.routing, &b.routing, eq_routing)
        && eq_opt(&a.fragment, &b.fragment, eq_frag)
        && eq_opt(&a.auth, &b.auth, eq_auth)
}

fn eq_arp(a: &ArpPacket, b: &ArpPacket) -> bool {
    a.hw_addr_type == b.hw_addr_type
        && a.proto_addr_type == b.proto_addr_type
        && a.operation == b.operation
        && a.hw_addr_size() == b.hw_addr_size()
        && a.protocol_addr_size() == b.protocol_addr_size()
        && bytes_eq(a.sender_hw_addr(), b.sender_hw_addr())
        && bytes_eq(a.sender_protocol_addr(), b.sender_protocol_addr())
        && bytes_eq(a.target_hw_addr(), b.target_hw_addr())
        && bytes_eq(a.target_protocol_addr(), b.target_protocol_addr())
}

fn eq_tcp(a: &TcpHeader, b: &TcpHeader) -> bool {
    a.source_port == b.source_port
        && a.destination_port == b.destination_port
        && a.sequence_number == b.sequence_number
        && a.acknowledgment_number == b.acknowledgment_number
        && a.ns == b.ns
        && a.fin == b.fin
        && a.syn == b.syn
        && a.rst == b.rst
        && a.psh == b.psh
        && a.ack == b.ack
        && a.urg == b.urg
        && a.ece == b.ece
        && a.cwr == b.cwr
        && a.window_size == b.window_size
        && a.checksum == b.checksum
        && a.urgent_pointer == b.urgent_pointer
        && bytes_eq(a.options.as_slice(), b.options.as_slice())
}

// ================================================================ conversions of the sliced result

/// `[u8; 4]` members of the ICMP types compare through a 4 byte `memcmp`: needs unwind >= 5
fn eq_transport_slice(a: &TransportHeader, t: &TransportSlice, tr: u8) -> bool {
    match (a, t) {
        (TransportHeader::Udp(x), TransportSlice::Udp(u)) => tr & T_UDP != 0 && *x == u.to_header(),
        (TransportHeader::Tcp(x), TransportSlice::Tcp(t)) => tr & T_TCP != 0 && eq_tcp(x, &t.to_header()),
        (TransportHeader::Icmpv4(x), TransportSlice::Icmpv4(i)) => tr & T_ICMP4 != 0 && *x == i.header(),
        (TransportHeader::Icmpv6(x), TransportSlice::Icmpv6(i)) => tr & T_ICMP6 != 0 && *x == i.header(),
        _ => false,
    }
}

fn transport_payload<'a>(t: &TransportSlice<'a>) -> &'a [u8] {
    match t {
        TransportSlice::Udp(u) => u.payload(),
        TransportSlice::Tcp(t) => t.payload(),
        TransportSlice::Icmpv4(i) => i.payload(),
        TransportSlice::Icmpv6(i) => i.payload(),
    }
}

/// Net layer kinds a harness can produce by construction of its input (concrete dispatch bytes).
/// The comparison arms of the other kinds are closed *statically* (a result of another kind is a
/// failed comparison), which keeps their conversion code out of the symbolic execution.
pub const V4: u8 = 1;
pub const V6: u8 = 2;
pub const ARP: u8 = 4;
/// transport kinds, same idea
pub const T_UDP: u8 = 1;
pub const T_TCP: u8 = 2;
pub const T_ICMP4: u8 = 4;
pub const T_ICMP6: u8 = 8;
pub const T_ALL: u8 = 15;

/// `net` of the struct result equals the conversion of the sliced `net` (the big header structs are
/// compared in place, without building a `NetHeaders` value)
fn eq_net_strict(a: &NetHeaders, n: &NetSlice, kinds: u8) -> bool {
    match (a, n) {
        (NetHeaders::Ipv4(ah, ae), NetSlice::Ipv4(s)) => {
            if kinds & V4 == 0 {
                return false;
            }
            eq_ipv4_header(ah, &s.header().to_header()) && eq_opt(&ae.auth, &s.extensions().to_header().auth, eq_auth)
        }
        (NetHeaders::Ipv6(ah, ae), NetSlice::Ipv6(s)) => {
            if kinds & V6 == 0 {
                return false;
            }
            // the crate's own conversion of a sliced IP packet
            match IpSlice::Ipv6(s.clone()).to_header() {
                IpHeaders::Ipv6(bh, be) => eq_ipv6_header(ah, &bh) && eq_ipv6_exts(ae, &be),
                _ => false,
            }
        }
        (NetHeaders::Arp(x), NetSlice::Arp(y)) => kinds & ARP != 0 && eq_arp(x, &y.to_packet()),
        _ => false,
    }
}

fn eq_net_lax(a: &NetHeaders, n: &LaxNetSlice, kinds: u8) -> bool {
    match (a, n) {
        (NetHeaders::Ipv4(ah, ae), LaxNetSlice::Ipv4(s)) => {
            if kinds & V4 == 0 {
                return false;
            }
            eq_ipv4_header(ah, &s.header().to_header()) && eq_opt(&ae.auth, &s.extensions().to_header().auth, eq_auth)
        }
        (NetHeaders::Ipv6(ah, ae), LaxNetSlice::Ipv6(s)) => {
            if kinds & V6 == 0 {
                return false;
            }
            // there is no `to_header` on the lax IP slices: the extension part is converted with the lax
            // struct decoder over exactly the bytes the slicing result covers
            let (be, _, _, _) = Ipv6Extensions::from_slice_lax(s.header().next_header(), s.extensions().slice());
            eq_ipv6_header(ah, &s.header().to_header()) && eq_ipv6_exts(ae, &be)
        }
        (NetHeaders::Arp(x), LaxNetSlice::Arp(y)) => kinds & ARP != 0 && eq_arp(x, &y.to_packet()),
        _ => false,
    }
}

/// what the slicing result leaves undecoded: (bytes, ether type | ip number, fragmented)
#[derive(Clone, Copy, PartialEq, Eq)]
enum Proto {
    /// nothing left (ARP)
    Nothing,
    Ether(EtherType),
    /// MACsec encrypted / modified payload
    Opaque,
    Ip(IpNumber, bool),
    Udp,
    Tcp,
    Icmpv4,
    Icmpv6,
}

fn strict_innermost<'a>(s: &SlicedPacket<'a>) -> (&'a [u8], Proto) {
    if let Some(t) = &s.transport {
        let p = match t {
            TransportSlice::Udp(_) => Proto::Udp,
            TransportSlice::Tcp(_) => Proto::Tcp,
            TransportSlice::Icmpv4(_) => Proto::Icmpv4,
            TransportSlice::Icmpv6(_) => Proto::Icmpv6,
        };
        return (transport_payload(t), p);
    }
    if let Some(n) = &s.net {
        return match n.ip_payload_ref() {
            Some(p) => (p.payload, Proto::Ip(p.ip_number, p.fragmented)),
            None => (&[], Proto::Nothing),
        };
    }
    if let Some(e) = s.link_exts.last() {
        return match e {
            LinkExtSlice::Vlan(v) => {
                let p = v.payload();
                (p.payload, Proto::Ether(p.ether_type))
            }
            LinkExtSlice::Macsec(m) => match &m.payload {
                MacsecPayloadSlice::Unmodified(p) => (p.payload, Proto::Ether(p.ether_type)),
                MacsecPayloadSlice::Modified(p) => (p, Proto::Opaque),
            },
        };
    }
    match &s.link {
        Some(LinkSlice::Ethernet2(e)) => {
            let p = e.payload();
            (p.payload, Proto::Ether(p.ether_type))
        }
        Some(LinkSlice::EtherPayload(p)) => (p.payload, Proto::Ether(p.ether_type)),
        _ => (&[], Proto::Nothing),
    }
}

fn lax_innermost<'a>(s: &LaxSlicedPacket<'a>) -> (&'a [u8], Proto) {
    if let Some(t) = &s.transport {
        let p = match t {
            TransportSlice::Udp(_) => Proto::Udp,
            TransportSlice::Tcp(_) => Proto::Tcp,
            TransportSlice::Icmpv4(_) => Proto::Icmpv4,
            TransportSlice::Icmpv6(_) => Proto::Icmpv6,
        };
        return (transport_payload(t), p);
    }
    if let Some(n) = &s.net {
        return match n.ip_payload_ref() {
            Some(p) => (p.payload, Proto::Ip(p.ip_number, p.fragmented)),
            None => (&[], Proto::Nothing),
        };
    }
    if let Some(e) = s.link_exts.last() {
        return match e {
            LaxLinkExtSlice::Vlan(v) => {
                let p = v.payload();
                (p.payload, Proto::Ether(p.ether_type))
            }
            LaxLinkExtSlice::Macsec(m) => match &m.payload {
                LaxMacsecPayloadSlice::Unmodified(p) => (p.payload, Proto::Ether(p.ether_type)),
                LaxMacsecPayloadSlice::Modified { payload, .. } => (payload, Proto::Opaque),
            },
        };
    }
    match &s.link {
        Some(LinkSlice::Ethernet2(e)) => {
            let p = e.payload();
            (p.payload, Proto::Ether(p.ether_type))
        }
        Some(LinkSlice::EtherPayload(p)) => (p.payload, Proto::Ether(p.ether_type)),
        _ => (&[], Proto::Nothing),
    }
}

fn strict_payload_proto(p: &PayloadSlice) -> Proto {
    match p {
        PayloadSlice::Empty => Proto::Nothing,
        PayloadSlice::Ether(e) => Proto::Ether(e.ether_type),
        PayloadSlice::MacsecMod(_) => Proto::Opaque,
        PayloadSlice::Ip(i) => Proto::Ip(i.ip_number, i.fragmented),
        PayloadSlice::Udp(_) => Proto::Udp,
        PayloadSlice::Tcp(_) => Proto::Tcp,
        PayloadSlice::Icmpv4(_) => Proto::Icmpv4,
        PayloadSlice::Icmpv6(_) => Proto::Icmpv6,
    }
}

fn lax_payload_proto(p: &LaxPayloadSlice) -> Proto {
    match p {
        LaxPayloadSlice::Empty => Proto::Nothing,
        LaxPayloadSlice::Ether(e) => Proto::Ether(e.ether_type),
        LaxPayloadSlice::MacsecModified { .. } => Proto::Opaque,
        LaxPayloadSlice::Ip(i) => Proto::Ip(i.ip_number, i.fragmented),
        LaxPayloadSlice::Udp { .. } => Proto::Udp,
        LaxPayloadSlice::Tcp { .. } => Proto::Tcp,
        LaxPayloadSlice::Icmpv4 { .. } => Proto::Icmpv4,
        LaxPayloadSlice::Icmpv6 { .. } => Proto::Icmpv6,
        // cannot be produced by the three entry points of this property
        LaxPayloadSlice::LinuxSll(_) => Proto::Opaque,
    }
}

// ================================================================ independent IPv6 chain walker

/// The documented permitted difference: an IPv6 extension header of a kind that no longer fits
/// the fixed struct. Walks the chain over the raw bytes (RFC 8200 section 4 layouts, RFC 4302 for
/// AH) with the slot rules documented on `Ipv6Extensions::from_slice`: hop-by-hop only directly
/// behind the IPv6 header, one destination options header in front of a routing header and one
/// behind it, one routing, one fragment, one authentication header.
///
/// `d[ip..]` starts with a 40 byte IPv6 header (caller checked version and length), `end` is the
/// end of the IPv6 payload. Returns `Some((offset, kind))` iff all headers in front of `offset`
/// are complete and fit their slots and the header announced at `offset` has kind `kind` whose
/// slot is already filled.
fn walk_overflow(d: &[u8], ip: usize, end: usize) -> Option<(usize, u8)> {
    walk_chain(d, d[ip + 6], ip + 40, end)
}

/// the walker proper: chain announced as `first` starts at `d[start]` and may use `d[..end]`
#[allow(unused_assignments)]
fn walk_chain(d: &[u8], first: u8, start: usize, end: usize) -> Option<(usize, u8)> {
    let mut nh = first;
    let mut o = start;
    let (mut dest, mut route, mut fin_dest, mut frag, mut auth) = (false, false, false, false, false);
    // at most 4 headers fit the bounds used here; the 5th step only has to classify
    macro_rules! step {
        ($first:expr) => {{
            let slot_full = match nh {
                0 => {
                    if !$first {
                        return None; // hop-by-hop not at start: an error in both families
                    }
                    false
                }
                60 => {
                    if route {
                        fin_dest
                    } else {
                        dest
                    }
                }
                43 => route,
                44 => frag,
                51 => auth,
                _ => return None, // not an extension header: chain complete
            };
            if slot_full {
                return Some((o, nh));
            }
            // the header has to be complete, otherwise both families report a length error here
            if end < o + 8 && nh != 51 {
                return None;
            }
            if nh == 51 && end < o + 12 {
                return None;
            }
            let hl = match nh {
                44 => 8,
                51 => {
                    if d[o + 1] == 0 {
                        return None; // AH payload length 0: content error in both families
                    }
                    (d[o + 1] as usize + 2) * 4
                }
                _ => (d[o + 1] as usize + 1) * 8,
            };
            if end < o + hl {
                return None;
            }
            match nh {
                60 => {
                    if route {
                        fin_dest = true
                    } else {
                        dest = true
                    }
                }
                43 => route = true,
                44 => frag = true,
                51 => auth = true,
                _ => {}
            }
            nh = d[o];
            o += hl;
        }};
    }
    step!(true);
    step!(false);
    step!(false);
    step!(false);
    step!(false);
    None
}

/// end of the IPv6 payload as both families document it: payload length 0 (and data behind the
/// header) means "to the end of the slice"; `None` if the packet is rejected before the chain.
fn ipv6_payload_end(d: &[u8], ip: usize) -> Option<usize> {
    if d.len() < ip + 40 || (d[ip] >> 4) != 6 {
        return None;
    }
    let pl = ((d[ip + 4] as usize) << 8) | d[ip + 5] as usize;
    if pl == 0 && d.len() > ip + 40 {
        Some(d.len())
    } else if d.len() < ip + 40 + pl {
        None
    } else {
        Some(ip + 40 + pl)
    }
}

// ================================================================ the two oracles

/// What the concrete skeleton of a harness input can produce. Only used to close comparison arms
/// statically (a result outside the shape FAILS the comparison, it is never skipped).
#[derive(Clone, Copy)]
pub struct Shape {
    /// net layer kinds (V4 | V6 | ARP)
    pub kinds: u8,
    /// transport kinds (T_*)
    pub tr: u8,
    /// offset of the IPv6 header whose extension chain the independent walker has to follow
    /// (None: the skeleton contains no IPv6 extension header)
    pub ip6: Option<usize>,
}

fn overflow_of(d: &[u8], sh: Shape) -> Option<(usize, u8)> {
    match sh.ip6 {
        Some(ip) => match ipv6_payload_end(d, ip) {
            Some(end) => walk_overflow(d, ip, end),
            None => None,
        },
        None => None,
    }
}

/// Error values. C04 itself demands the same verdict; the two families call the same per-layer
/// decoders in the same order, so the error *kind* (length vs. which content error) and the
/// faulting layer have to agree as well, and so do the numbers of a length error - except for the
/// enumerated, justified tolerances below (two coexisting faults tested in a different order).
fn cmp_err(a: &SliceError, b: &SliceError) {
    match (a, b) {
        (SliceError::Len(x), SliceError::Len(y)) => {
            assert!(x.layer == y.layer, "len error: layer differs");
            // tolerance 1 (IPv4, fewer than 20 bytes and IHL > 5): `IpHeaders::from_slice` first demands the
            // 20 byte minimum, `IpSlice::from_slice` directly demands IHL*4; both name the same layer,
            // offset, length and length source
            let tol_v4_min = x.layer == Layer::Ipv4Header && x.len < 20 && x.required_len == 20 && y.required_len > 20;
            assert!(x.required_len == y.required_len || tol_v4_min, "len error: required_len differs");
            assert!(x.len == y.len, "len error: len differs");
            assert!(x.len_source == y.len_source, "len error: len_source differs");
            assert!(x.layer_start_offset == y.layer_start_offset, "len error: layer_start_offset differs");
        }
        // tolerance 2 (IPv4, fewer than 20 bytes and IHL < 5): `IpHeaders::from_slice` reports the missing
        // bytes, `IpSlice::from_slice` the bad IHL; both reject
        (SliceError::Len(x), SliceError::Ip(err::ip::HeaderError::Ipv4HeaderLengthSmallerThanHeader { .. })) => {
            assert!(x.layer == Layer::Ipv4Header && x.len < 20 && x.required_len == 20, "error kind differs (length vs content)");
        }
        (SliceError::Len(_), _) | (_, SliceError::Len(_)) => assert!(false, "error kind differs (length vs content)"),
        _ => assert!(a == b, "content error differs"),
    }
}

/// `PacketHeaders` (strict) decodes UDP with `UdpHeader::from_slice`, which ignores the UDP length
/// field, while `SlicedPacket` uses `UdpSlice::from_slice`, which rejects a length field that is
/// larger than the available data or in 1..=7 and cuts the payload to the length otherwise.
/// Narrow predicate of the finding: struct decoding produced a UDP header whose (non zero) length
/// field differs from the bytes that were available to it.
fn udp_len_ignored(t: &Option<TransportHeader>, payload_len: usize) -> bool {
    match t {
        Some(TransportHeader::Udp(u)) => u.length != 0 && usize::from(u.length) != 8 + payload_len,
        _ => false,
    }
}

fn cmp_strict(d: &[u8], h: &Result<PacketHeaders, SliceError>, s: &Result<SlicedPacket, SliceError>, sh: Shape) {
    if let Some((o, kind)) = overflow_of(d, sh) {
        // documented difference: struct decoding ends at the header that does not fit and reports it
        // as the payload's protocol; faults behind it go unnoticed
        match h {
            Ok(h) => {
                assert!(h.transport.is_none(), "overflow: no transport header behind an undecoded extension header");
                match &h.payload {
                    PayloadSlice::Ip(p) => {
                        assert!(p.ip_number == IpNumber(kind), "overflow: payload protocol is the header that did not fit");
                        assert!(p.payload.as_ptr() == d[o..].as_ptr(), "overflow: payload starts at the header that did not fit");
                    }
                    _ => assert!(false, "overflow: payload must be the IP payload"),
                }
                if let Ok(s) = s {
                    assert!(eq_link(&h.link, &s.link), "overflow: link");
                    assert!(h.link_exts.len() == s.link_exts.len(), "overflow: link_exts");
                    match (&h.net, &s.net) {
                        (Some(a), Some(b)) => assert!(eq_net_strict(a, b, sh.kinds), "overflow: net"),
                        _ => assert!(false, "overflow: net missing"),
                    }
                }
            }
            Err(_) => assert!(false, "overflow: struct decoding must stop without an error"),
        }
        return;
    }
    match (h, s) {
        (Ok(h), Ok(s)) => {
            assert!(eq_link(&h.link, &s.link), "link header differs");
            assert!(h.link_exts.len() == s.link_exts.len(), "number of link extensions differs");
            if h.link_exts.len() > 0 {
                assert!(h.link_exts[0] == s.link_exts[0].to_header(), "link_exts[0] differs");
            }
            if h.link_exts.len() > 1 {
                assert!(h.link_exts[1] == s.link_exts[1].to_header(), "link_exts[1] differs");
            }
            if h.link_exts.len() > 2 {
                assert!(h.link_exts[2] == s.link_exts[2].to_header(), "link_exts[2] differs");
            }
            match (&h.net, &s.net) {
                (None, None) => {}
                (Some(a), Some(b)) => assert!(eq_net_strict(a, b, sh.kinds), "net headers differ"),
                _ => assert!(false, "net header present in one result only"),
            }
            match (&h.transport, &s.transport) {
                (None, None) => {}
                (Some(a), Some(b)) => assert!(eq_transport_slice(a, b, sh.tr), "transport header differs"),
                _ => assert!(false, "transport header present in one result only"),
            }
            let (sp, sproto) = strict_innermost(s);
            let hp = h.payload.slice();
            let hproto = strict_payload_proto(&h.payload);
            assert!(hproto == sproto, "payload kind / protocol differs");
            if hproto != Proto::Nothing {
                assert!(hp.as_ptr() == sp.as_ptr(), "payload start differs");
            }
            if udp_len_ignored(&h.transport, hp.len()) {
                // known finding: slicing honours the length field (8 <= length < available) and cuts
                witness!(true, "KF:c04-udp-length-ignored");
                assert!(sp.len() < hp.len(), "kf: sliced payload is the shorter one");
            } else {
                assert!(hp.len() == sp.len(), "payload length differs");
            }
        }
        (Err(a), Err(b)) => cmp_err(a, b),
        (Ok(h), Err(e)) => {
            if udp_len_ignored(&h.transport, h.payload.slice().len()) {
                // known finding: UDP length larger than the data or in 1..=7, noticed by slicing only
                witness!(true, "KF:c04-udp-length-ignored");
                match e {
                    SliceError::Len(l) => {
                        assert!(l.layer == Layer::UdpPayload || l.layer == Layer::UdpHeader, "kf: sliced error is the UDP length")
                    }
                    _ => assert!(false, "kf: sliced error is the UDP length"),
                }
            } else {
                assert!(false, "verdict differs: PacketHeaders accepts, SlicedPacket rejects");
            }
        }
        (Err(_), Ok(_)) => assert!(false, "verdict differs: PacketHeaders rejects, SlicedPacket accepts"),
    }
}

fn cmp_lax(d: &[u8], h: &LaxPacketHeaders, s: &LaxSlicedPacket, sh: Shape) {
    let ovf = overflow_of(d, sh);
    assert!(eq_link(&h.link, &s.link), "lax: link header differs");
    assert!(h.link_exts.len() == s.link_exts.len(), "lax: number of link extensions differs");
    if h.link_exts.len() > 0 {
        assert!(h.link_exts[0] == s.link_exts[0].to_header(), "lax: link_exts[0] differs");
    }
    if h.link_exts.len() > 1 {
        assert!(h.link_exts[1] == s.link_exts[1].to_header(), "lax: link_exts[1] differs");
    }
    if h.link_exts.len() > 2 {
        assert!(h.link_exts[2] == s.link_exts[2].to_header(), "lax: link_exts[2] differs");
    }
    match (&h.net, &s.net) {
        (None, None) => {}
        // (in the overflow case both conversions stop at the header that does not fit)
        (Some(a), Some(b)) => assert!(eq_net_lax(a, b, sh.kinds), "lax: net headers differ"),
        _ => assert!(false, "lax: net header present in one result only"),
    }
    if let Some((o, kind)) = ovf {
        // documented difference, lax flavour: struct decoding stops silently at the header that does not
        // fit; whatever slicing finds behind it (more layers or a stop error) goes unnoticed
        assert!(h.stop_err.is_none(), "lax overflow: struct decoding must stop without an error");
        assert!(h.transport.is_none(), "lax overflow: no transport header behind an undecoded extension header");
        match &h.payload {
            LaxPayloadSlice::Ip(p) => {
                assert!(p.ip_number == IpNumber(kind), "lax overflow: payload protocol is the header that did not fit");
                assert!(p.payload.as_ptr() == d[o..].as_ptr(), "lax overflow: payload starts at the header that did not fit");
            }
            _ => assert!(false, "lax overflow: payload must be the IP payload"),
        }
        return;
    }
    match (&h.transport, &s.transport) {
        (None, None) => {}
        (Some(a), Some(b)) => assert!(eq_transport_slice(a, b, sh.tr), "lax: transport header differs"),
        _ => assert!(false, "lax: transport header present in one result only"),
    }
    match (&h.stop_err, &s.stop_err) {
        (None, None) => {}
        (Some((ea, la)), Some((eb, lb))) => {
            assert!(la == lb, "lax: stop layer differs");
            cmp_err(ea, eb);
        }
        _ => assert!(false, "lax: stop_err present in one result only"),
    }
    let (sp, sproto) = lax_innermost(s);
    let hp = h.payload.slice();
    let hproto = lax_payload_proto(&h.payload);
    if sproto == Proto::Nothing && hproto != Proto::Nothing {
        // known finding: after a successfully decoded ARP packet `LaxPacketHeaders` leaves `payload` at the
        // ether payload (the ARP bytes themselves) although the documentation (and the strict sibling)
        // say `Empty`
        witness!(true, "KF:c04-lax-arp-payload-not-empty");
        assert!(matches!(&h.net, Some(NetHeaders::Arp(_))) && h.stop_err.is_none(), "kf: only behind a decoded ARP packet");
        assert!(hproto == Proto::Ether(EtherType::ARP), "kf: stale ether payload");
        return;
    }
    assert!(hproto == sproto, "lax: payload kind / protocol differs");
    assert!(hp.len() == sp.len(), "lax: payload length differs");
    if hproto != Proto::Nothing {
        assert!(hp.as_ptr() == sp.as_ptr(), "lax: payload start differs");
    }
}

// ================================================================ harness bodies

/// shape specific vacuity guard
pub const W_NONE: u8 = 0;
/// struct result carries a transport header and a non-empty payload
pub const W_TRANSPORT: u8 = 1;
/// permitted difference reached with slicing failing behind the header that did not fit
pub const W_OVF_FAULT: u8 = 2;
/// permitted difference reached with slicing succeeding
pub const W_OVF_OK: u8 = 3;
/// fragmented IP payload
pub const W_FRAG: u8 = 4;
/// both reject with a content error
pub const W_ERR_CONTENT: u8 = 5;
/// never accepts (skeleton is a content fault)
pub const W_NEVER_OK: u8 = 6;
/// net header present in the struct result
pub const W_NET: u8 = 7;
/// three link extensions decoded
pub const W_EXTS3: u8 = 8;

/// cannot be rejected (unknown ether type: everything is payload)
pub const W_NEVER_ERR: u8 = 9;

fn strict_witnesses(d: &[u8], h: &Result<PacketHeaders, SliceError>, s: &Result<SlicedPacket, SliceError>, sh: Shape, w: u8) {
    witness!(w == W_NEVER_OK || (h.is_ok() && s.is_ok()), "both_accept");
    witness!(w == W_NEVER_ERR || (h.is_err() && s.is_err()), "both_reject");
    let special = match w {
        W_TRANSPORT => matches!(h, Ok(h) if h.transport.is_some() && h.payload.slice().len() > 0),
        W_OVF_FAULT => overflow_of(d, sh).is_some() && h.is_ok() && s.is_err(),
        W_OVF_OK => overflow_of(d, sh).is_some() && h.is_ok() && s.is_ok(),
        W_FRAG => matches!(h, Ok(h) if matches!(&h.payload, PayloadSlice::Ip(p) if p.fragmented && p.payload.len() > 0)),
        W_ERR_CONTENT | W_NEVER_OK => {
            matches!((h, s), (Err(a), Err(b)) if !matches!(a, SliceError::Len(_)) && !matches!(b, SliceError::Len(_)))
        }
        W_NET => matches!(h, Ok(h) if h.net.is_some()),
        W_EXTS3 => matches!(h, Ok(h) if h.link_exts.len() == 3),
        _ => true,
    };
    witness!(special, "shape_specific");
}

fn run_strict_ip(_et: u16, d: &[u8], sh: Shape, w: u8) {
    let h = PacketHeaders::from_ip_slice(d);
    let s = SlicedPacket::from_ip(d);
    strict_witnesses(d, &h, &s, sh, w);
    cmp_strict(d, &h, &s, sh);
}

fn run_strict_et(et: u16, d: &[u8], sh: Shape, w: u8) {
    let h = PacketHeaders::from_ether_type(EtherType(et), d);
    let s = SlicedPacket::from_ether_type(EtherType(et), d);
    strict_witnesses(d, &h, &s, sh, w);
    cmp_strict(d, &h, &s, sh);
}

fn run_strict_eth(_et: u16, d: &[u8], sh: Shape, w: u8) {
    let h = PacketHeaders::from_ethernet_slice(d);
    let s = SlicedPacket::from_ethernet(d);
    strict_witnesses(d, &h, &s, sh, w);
    cmp_strict(d, &h, &s, sh);
}

fn lax_special(d: &[u8], h: &LaxPacketHeaders, s: &LaxSlicedPacket, sh: Shape, w: u8) -> bool {
    match w {
        W_TRANSPORT => h.transport.is_some() && h.payload.slice().len() > 0 && h.stop_err.is_none(),
        W_OVF_FAULT => overflow_of(d, sh).is_some() && s.stop_err.is_some(),
        W_OVF_OK => overflow_of(d, sh).is_some() && s.stop_err.is_none(),
        W_FRAG => matches!(&h.payload, LaxPayloadSlice::Ip(p) if p.fragmented && p.payload.len() > 0),
        W_ERR_CONTENT | W_NEVER_OK => {
            matches!((&h.stop_err, &s.stop_err), (Some((a, _)), Some((b, _))) if !matches!(a, SliceError::Len(_)) && !matches!(b, SliceError::Len(_)))
        }
        W_NET => h.net.is_some(),
        W_EXTS3 => h.link_exts.len() == 3,
        _ => true,
    }
}

fn run_lax_ip(_et: u16, d: &[u8], sh: Shape, w: u8) {
    let h = LaxPacketHeaders::from_ip(d);
    let s = LaxSlicedPacket::from_ip(d);
    witness!(w == W_NEVER_OK || (h.is_ok() && s.is_ok()), "both_accept");
    witness!(h.is_err() && s.is_err(), "both_reject");
    let special = match (&h, &s) {
        (Ok(h), Ok(s)) => lax_special(d, h, s, sh, w),
        // the IP header itself is the content fault
        (Err(_), Err(_)) => w == W_NEVER_OK,
        _ => false,
    };
    witness!(special, "shape_specific");
    match (&h, &s) {
        (Ok(h), Ok(s)) => cmp_lax(d, h, s, sh),
        (Err(a), Err(b)) => {
            // same error type on both sides (ip::LaxHeaderSliceError): kind and values, with the IPv4
            // "fewer than 20 bytes" ordering tolerances of `cmp_err`
            use err::ip::LaxHeaderSliceError as E;
            match (a, b) {
                (E::Len(x), E::Len(y)) => cmp_err(&SliceError::Len(x.clone()), &SliceError::Len(y.clone())),
                (E::Content(x), E::Content(y)) => assert!(x == y, "lax from_ip: content error differs"),
                (E::Len(x), E::Content(err::ip::HeaderError::Ipv4HeaderLengthSmallerThanHeader { .. })) => {
                    assert!(x.layer == Layer::Ipv4Header && x.len < 20 && x.required_len == 20, "lax from_ip: error kind differs")
                }
                _ => assert!(false, "lax from_ip: error kind differs"),
            }
        }
        _ => assert!(false, "lax from_ip: verdict differs"),
    }
}

fn run_lax_et(et: u16, d: &[u8], sh: Shape, w: u8) {
    let h = LaxPacketHeaders::from_ether_type(EtherType(et), d);
    let s = LaxSlicedPacket::from_ether_type(EtherType(et), d);
    witness!(w == W_NEVER_OK || (h.stop_err.is_none() && s.stop_err.is_none()), "both_accept");
    witness!(w == W_NEVER_ERR || (h.stop_err.is_some() && s.stop_err.is_some()), "both_reject");
    witness!(lax_special(d, &h, &s, sh, w), "shape_specific");
    cmp_lax(d, &h, &s, sh);
}

fn run_lax_eth(_et: u16, d: &[u8], sh: Shape, w: u8) {
    let h = LaxPacketHeaders::from_ethernet(d);
    let s = LaxSlicedPacket::from_ethernet(d);
    witness!(h.is_ok() && s.is_ok(), "both_accept");
    witness!(h.is_err() && s.is_err(), "both_reject");
    let special = match (&h, &s) {
        (Ok(h), Ok(s)) => lax_special(d, h, s, sh, w),
        _ => false,
    };
    witness!(special, "shape_specific");
    match (&h, &s) {
        (Ok(h), Ok(s)) => cmp_lax(d, h, s, sh),
        (Err(a), Err(b)) => assert!(a == b, "lax from_ethernet: length error differs"),
        _ => assert!(false, "lax from_ethernet: verdict differs"),
    }
}

// ---------------------------------------------------------------- extension layer, fully symbolic

/// The mechanism behind the permitted difference at the layer where it lives, with NO concrete byte:
/// `Ipv6Extensions::from_slice` (struct) vs `Ipv6ExtensionsSlice::from_slice` (slicing) over the same
/// `N` symbolic bytes, symbolic length and symbolic first header number. The whole-packet decoders
/// hand exactly (next header, payload bytes) to these two functions.
pub fn exts_layer_strict<const N: usize>() {
    let data: [u8; N] = any();
    let len = any_le(N);
    let d = &data[..len];
    let first: u8 = any();
    let h = Ipv6Extensions::from_slice(IpNumber(first), d);
    let s = Ipv6ExtensionsSlice::from_slice(IpNumber(first), d);
    let ovf = walk_chain(d, first, 0, len);
    witness!(ovf.is_some() && s.is_err(), "overflow_fault_behind_unnoticed");
    witness!(ovf.is_some() && s.is_ok(), "overflow_both_ok");
    witness!(ovf.is_none() && matches!((&h, &s), (Ok((_, _, r)), Ok(_)) if r.len() < len), "agree_with_headers");
    witness!(h.is_err() && s.is_err(), "both_reject");
    match ovf {
        Some((o, kind)) => match &h {
            Ok((_, nh, rest)) => {
                assert!(*nh == IpNumber(kind), "overflow: reported protocol is the header that did not fit");
                assert!(rest.as_ptr() == d[o..].as_ptr() && rest.len() == len - o, "overflow: rest starts at the header that did not fit");
            }
            Err(_) => assert!(false, "overflow: struct decoding must stop without an error"),
        },
        None => match (&h, &s) {
            (Ok((he, hn, hr)), Ok((se, sn, sr))) => {
                assert!(hn == sn, "next header differs");
                assert!(same_range(hr, sr), "rest differs");
                assert!(he.is_fragmenting_payload() == se.is_fragmenting_payload(), "fragmentation verdict differs");
                // the struct holds exactly the headers the slice covers
                assert!(he.header_len() == se.slice().len(), "decoded header bytes differ");
                assert!(he.is_empty() == se.is_empty(), "emptiness differs");
            }
            (Err(a), Err(b)) => assert!(a == b, "error differs"),
            _ => assert!(false, "verdict differs"),
        },
    }
}

pub fn exts_layer_lax<const N: usize>() {
    let data: [u8; N] = any();
    let len = any_le(N);
    let d = &data[..len];
    let first: u8 = any();
    let (he, hn, hr, herr) = Ipv6Extensions::from_slice_lax(IpNumber(first), d);
    let (se, sn, sr, serr) = Ipv6ExtensionsSlice::from_slice_lax(IpNumber(first), d);
    let ovf = walk_chain(d, first, 0, len);
    witness!(ovf.is_some() && serr.is_some(), "overflow_fault_behind_unnoticed");
    witness!(ovf.is_none() && herr.is_some() && hr.len() < len, "stop_behind_a_header");
    witness!(ovf.is_none() && herr.is_none() && hr.len() < len, "agree_with_headers");
    match ovf {
        Some((o, kind)) => {
            assert!(herr.is_none(), "lax overflow: struct decoding must stop without an error");
            assert!(hn == IpNumber(kind), "lax overflow: reported protocol is the header that did not fit");
            assert!(hr.as_ptr() == d[o..].as_ptr() && hr.len() == len - o, "lax overflow: rest starts at the header that did not fit");
        }
        None => {
            assert!(hn == sn, "lax: next header differs");
            assert!(same_range(hr, sr), "lax: rest differs");
            assert!(he.is_fragmenting_payload() == se.is_fragmenting_payload(), "lax: fragmentation verdict differs");
            assert!(he.header_len() == se.slice().len(), "lax: decoded header bytes differ");
            match (&herr, &serr) {
                (None, None) => {}
                (Some((a, la)), Some((b, lb))) => {
                    assert!(la == lb, "lax: stop layer differs");
                    assert!(a == b, "lax: stop error differs");
                }
                _ => assert!(false, "lax: stop error present on one side only"),
            }
        }
    }
}

/// Defines a strict and a lax harness body over the same skeleton: `N` symbolic bytes with the listed
/// dispatch bytes overwritten by constants (writing them - an `assume` does not prune the symbolic
/// execution of the other dispatch arms), symbolic slice length `<= N`.
macro_rules! shaped {
    ($strict:ident, $lax:ident, ($rs:ident, $rl:ident), $et:expr, $n:literal, [$($i:literal = $v:expr),*], $kinds:expr, $tr:expr, $ip6:expr, $w:expr) => {
        pub fn $strict() {
            #[allow(unused_mut)]
            let mut data: [u8; $n] = any();
            $( data[$i] = $v; )*
            let len = any_le($n);
            $rs($et, &data[..len], Shape { kinds: $kinds, tr: $tr, ip6: $ip6 }, $w);
        }
        pub fn $lax() {
            #[allow(unused_mut)]
            let mut data: [u8; $n] = any();
            $( data[$i] = $v; )*
            let len = any_le($n);
            $rl($et, &data[..len], Shape { kinds: $kinds, tr: $tr, ip6: $ip6 }, $w);
        }
    };
}

// ---- from_ip, IPv4 (byte 0 = version/IHL, byte 9 = protocol)
shaped!(s_ip4_udp, l_ip4_udp, (run_strict_ip, run_lax_ip), 0, 32, [0 = 0x45, 9 = 17], V4, T_UDP, None, W_TRANSPORT);
shaped!(s_ip4_tcp, l_ip4_tcp, (run_strict_ip, run_lax_ip), 0, 44, [0 = 0x45, 9 = 6], V4, T_TCP, None, W_TRANSPORT);
shaped!(s_ip4_icmp, l_ip4_icmp, (run_strict_ip, run_lax_ip), 0, 32, [0 = 0x45, 9 = 1], V4, T_ICMP4, None, W_TRANSPORT);
shaped!(s_ip4_other, l_ip4_other, (run_strict_ip, run_lax_ip), 0, 24, [0 = 0x45, 9 = 253], V4, 0, None, W_FRAG);
shaped!(s_ip4_opts_udp, l_ip4_opts_udp, (run_strict_ip, run_lax_ip), 0, 36, [0 = 0x46, 9 = 17], V4, T_UDP, None, W_TRANSPORT);
shaped!(s_ip4_auth_udp, l_ip4_auth_udp, (run_strict_ip, run_lax_ip), 0, 42, [0 = 0x45, 9 = 51, 20 = 17], V4, T_UDP, None, W_TRANSPORT);
shaped!(s_ip4_anyproto, l_ip4_anyproto, (run_strict_ip, run_lax_ip), 0, 32, [0 = 0x45], V4, T_ALL, None, W_TRANSPORT);
shaped!(s_ip4_bad_ihl, l_ip4_bad_ihl, (run_strict_ip, run_lax_ip), 0, 24, [0 = 0x44], V4, 0, None, W_NEVER_OK);
shaped!(s_ip_bad_version, l_ip_bad_version, (run_strict_ip, run_lax_ip), 0, 24, [0 = 0x35], 0, 0, None, W_NEVER_OK);

// ---- from_ip, IPv6 (byte 0 = version, byte 6 = next header, extension k at 40 + 8k with length byte 0)
shaped!(s_ip6_udp, l_ip6_udp, (run_strict_ip, run_lax_ip), 0, 52, [0 = 0x60, 6 = 17], V6, T_UDP, None, W_TRANSPORT);
shaped!(s_ip6_icmp6, l_ip6_icmp6, (run_strict_ip, run_lax_ip), 0, 52, [0 = 0x60, 6 = 58], V6, T_ICMP6, None, W_TRANSPORT);
shaped!(s_ip6_tcp, l_ip6_tcp, (run_strict_ip, run_lax_ip), 0, 64, [0 = 0x60, 6 = 6], V6, T_TCP, None, W_TRANSPORT);
shaped!(s_ip6_hbh_udp, l_ip6_hbh_udp, (run_strict_ip, run_lax_ip), 0, 60, [0 = 0x60, 6 = 0, 40 = 17, 41 = 0], V6, T_UDP, Some(0), W_TRANSPORT);
shaped!(s_ip6_frag_udp, l_ip6_frag_udp, (run_strict_ip, run_lax_ip), 0, 60, [0 = 0x60, 6 = 44, 40 = 17], V6, T_UDP, Some(0), W_FRAG);
// routing -> routing -> "no next header": the second routing header does not fit the struct; if it is cut short
// (slice length 48..=55) slicing fails behind the point where struct decoding stopped
shaped!(s_ip6_route_route, l_ip6_route_route, (run_strict_ip, run_lax_ip), 0, 56, [0 = 0x60, 6 = 43, 40 = 43, 41 = 0, 48 = 59, 49 = 0], V6, 0, Some(0), W_OVF_FAULT);
shaped!(s_ip6_dest_dest, l_ip6_dest_dest, (run_strict_ip, run_lax_ip), 0, 56, [0 = 0x60, 6 = 60, 40 = 60, 41 = 0, 48 = 59, 49 = 0], V6, 0, Some(0), W_OVF_OK);
shaped!(s_ip6_frag_frag, l_ip6_frag_frag, (run_strict_ip, run_lax_ip), 0, 56, [0 = 0x60, 6 = 44, 40 = 44, 48 = 59], V6, 0, Some(0), W_OVF_OK);
shaped!(s_ip6_auth_auth, l_ip6_auth_auth, (run_strict_ip, run_lax_ip), 0, 64, [0 = 0x60, 6 = 51, 40 = 51, 41 = 1, 52 = 59, 53 = 1], V6, 0, Some(0), W_OVF_FAULT);
shaped!(s_ip6_route_hbh, l_ip6_route_hbh, (run_strict_ip, run_lax_ip), 0, 56, [0 = 0x60, 6 = 43, 40 = 0, 41 = 0], V6, 0, Some(0), W_NEVER_OK);
shaped!(s_ip6_dest_route_dest_udp, l_ip6_dest_route_dest_udp, (run_strict_ip, run_lax_ip), 0, 72,
    [0 = 0x60, 6 = 60, 40 = 43, 41 = 0, 48 = 60, 49 = 0, 56 = 17, 57 = 0], V6, T_UDP, Some(0), W_TRANSPORT);
shaped!(s_ip6_route_dest_dest, l_ip6_route_dest_dest, (run_strict_ip, run_lax_ip), 0, 72,
    [0 = 0x60, 6 = 43, 40 = 60, 41 = 0, 48 = 60, 49 = 0, 56 = 59, 57 = 0], V6, 0, Some(0), W_OVF_OK);

// ---- from_ether_type (ether type concrete)
shaped!(s_et_ip4_udp, l_et_ip4_udp, (run_strict_et, run_lax_et), 0x0800, 32, [0 = 0x45, 9 = 17], V4, T_UDP, None, W_TRANSPORT);
shaped!(s_et_ip6_udp, l_et_ip6_udp, (run_strict_et, run_lax_et), 0x86dd, 52, [0 = 0x60, 6 = 17], V6, T_UDP, None, W_TRANSPORT);
shaped!(s_et_ip6_route_route, l_et_ip6_route_route, (run_strict_et, run_lax_et), 0x86dd, 64,
    [0 = 0x60, 6 = 43, 40 = 43, 41 = 0, 48 = 17, 49 = 0], V6, T_UDP, Some(0), W_OVF_FAULT);
shaped!(s_et_arp, l_et_arp, (run_strict_et, run_lax_et), 0x0806, 32, [], ARP, 0, None, W_NET);
shaped!(s_et_unknown, l_et_unknown, (run_strict_et, run_lax_et), 0x1234, 8, [], 0, 0, None, W_NEVER_ERR);
shaped!(s_et_vlan_ip4_udp, l_et_vlan_ip4_udp, (run_strict_et, run_lax_et), 0x8100, 36, [2 = 0x08, 3 = 0x00, 4 = 0x45, 13 = 17], V4, T_UDP, None, W_TRANSPORT);
shaped!(s_et_vlan_x4, l_et_vlan_x4, (run_strict_et, run_lax_et), 0x88a8, 20,
    [2 = 0x91, 3 = 0x00, 6 = 0x81, 7 = 0x00, 10 = 0x81, 11 = 0x00], 0, 0, None, W_EXTS3);
// MACsec, TCI/AN byte 0: no SCI, E = C = 0 (unmodified payload, ether type behind the 6 byte SecTag)
shaped!(s_et_macsec_ip4_udp, l_et_macsec_ip4_udp, (run_strict_et, run_lax_et), 0x88e5, 40,
    [0 = 0x00, 6 = 0x08, 7 = 0x00, 8 = 0x45, 17 = 17], V4, T_UDP, None, W_TRANSPORT);
// MACsec with E = 1 (encrypted payload): decoding ends behind the SecTag
shaped!(s_et_macsec_enc, l_et_macsec_enc, (run_strict_et, run_lax_et), 0x88e5, 16, [0 = 0x08], 0, 0, None, W_NONE);
// MACsec (short length symbolic) followed by a VLAN tag
shaped!(s_et_macsec_vlan, l_et_macsec_vlan, (run_strict_et, run_lax_et), 0x88e5, 16, [0 = 0x00, 6 = 0x81, 7 = 0x00, 10 = 0x12, 11 = 0x34], 0, 0, None, W_NONE);

// ---- from_ethernet (ether type at 12..14)
shaped!(s_eth_ip4_udp, l_eth_ip4_udp, (run_strict_eth, run_lax_eth), 0, 46, [12 = 0x08, 13 = 0x00, 14 = 0x45, 23 = 17], V4, T_UDP, None, W_TRANSPORT);
shaped!(s_eth_vlan_ip4_udp, l_eth_vlan_ip4_udp, (run_strict_eth, run_lax_eth), 0, 50,
    [12 = 0x81, 13 = 0x00, 16 = 0x08, 17 = 0x00, 18 = 0x45, 27 = 17], V4, T_UDP, None, W_TRANSPORT);
shaped!(s_eth_arp, l_eth_arp, (run_strict_eth, run_lax_eth), 0, 46, [12 = 0x08, 13 = 0x06], ARP, 0, None, W_NET);
shaped!(s_eth_ip6_udp, l_eth_ip6_udp, (run_strict_eth, run_lax_eth), 0, 66, [12 = 0x86, 13 = 0xdd, 14 = 0x60, 20 = 17], V6, T_UDP, None, W_TRANSPORT);

// unwind 5: no decoder loop needs more inside the bounds used here (link extension loop <= 4 passes, IPv6
// extension loops <= 4 passes for <= 3 extension headers + exit, 4 byte `memcmp` of `[u8; 4]` members)
crate::harnesses! {
    // N = 16: <= 2 extension headers, decoder loops <= 3 passes
    c04_exts_layer_strict_16 = exts_layer_strict::<16>; unwind 4,
    c04_exts_layer_lax_16 = exts_layer_lax::<16>; unwind 4,
    c04_s_ip4_udp = s_ip4_udp; unwind 5,
    c04_l_ip4_udp = l_ip4_udp; unwind 5,
    c04_s_ip4_tcp = s_ip4_tcp; unwind 5,
    c04_l_ip4_tcp = l_ip4_tcp; unwind 5,
    c04_s_ip4_icmp = s_ip4_icmp; unwind 5,
    c04_l_ip4_icmp = l_ip4_icmp; unwind 5,
    c04_s_ip4_other = s_ip4_other; unwind 5,
    c04_l_ip4_other = l_ip4_other; unwind 5,
    c04_s_ip4_opts_udp = s_ip4_opts_udp; unwind 5,
    c04_l_ip4_opts_udp = l_ip4_opts_udp; unwind 5,
    c04_s_ip4_auth_udp = s_ip4_auth_udp; unwind 5,
    c04_l_ip4_auth_udp = l_ip4_auth_udp; unwind 5,
    c04_s_ip4_anyproto = s_ip4_anyproto; unwind 5,
    c04_l_ip4_anyproto = l_ip4_anyproto; unwind 5,
    c04_s_ip4_bad_ihl = s_ip4_bad_ihl; unwind 5,
    c04_l_ip4_bad_ihl = l_ip4_bad_ihl; unwind 5,
    c04_s_ip_bad_version = s_ip_bad_version; unwind 5,
    c04_l_ip_bad_version = l_ip_bad_version; unwind 5,
    c04_s_ip6_udp = s_ip6_udp; unwind 5,
    c04_l_ip6_udp = l_ip6_udp; unwind 5,
    c04_s_ip6_icmp6 = s_ip6_icmp6; unwind 5,
    c04_l_ip6_icmp6 = l_ip6_icmp6; unwind 5,
    c04_s_ip6_tcp = s_ip6_tcp; unwind 5,
    c04_l_ip6_tcp = l_ip6_tcp; unwind 5,
    c04_s_ip6_hbh_udp = s_ip6_hbh_udp; unwind 5,
    c04_l_ip6_hbh_udp = l_ip6_hbh_udp; unwind 5,
    c04_s_ip6_frag_udp = s_ip6_frag_udp; unwind 5,
    c04_l_ip6_frag_udp = l_ip6_frag_udp; unwind 5,
    c04_s_ip6_route_route = s_ip6_route_route; unwind 5,
    c04_l_ip6_route_route = l_ip6_route_route; unwind 5,
    c04_s_ip6_dest_dest = s_ip6_dest_dest; unwind 5,
    c04_l_ip6_dest_dest = l_ip6_dest_dest; unwind 5,
    c04_s_ip6_frag_frag = s_ip6_frag_frag; unwind 5,
    c04_l_ip6_frag_frag = l_ip6_frag_frag; unwind 5,
    c04_s_ip6_auth_auth = s_ip6_auth_auth; unwind 5,
    c04_l_ip6_auth_auth = l_ip6_auth_auth; unwind 5,
    c04_s_ip6_route_hbh = s_ip6_route_hbh; unwind 5,
    c04_l_ip6_route_hbh = l_ip6_route_hbh; unwind 5,
    c04_s_ip6_dest_route_dest_udp = s_ip6_dest_route_dest_udp; unwind 5,
    c04_l_ip6_dest_route_dest_udp = l_ip6_dest_route_dest_udp; unwind 5,
    c04_s_ip6_route_dest_dest = s_ip6_route_dest_dest; unwind 5,
    c04_l_ip6_route_dest_dest = l_ip6_route_dest_dest; unwind 5,
    c04_s_et_ip4_udp = s_et_ip4_udp; unwind 5,
    c04_l_et_ip4_udp = l_et_ip4_udp; unwind 5,
    c04_s_et_ip6_udp = s_et_ip6_udp; unwind 5,
    c04_l_et_ip6_udp = l_et_ip6_udp; unwind 5,
    c04_s_et_ip6_route_route = s_et_ip6_route_route; unwind 5,
    c04_l_et_ip6_route_route = l_et_ip6_route_route; unwind 5,
    c04_s_et_arp = s_et_arp; unwind 5,
    c04_l_et_arp = l_et_arp; unwind 5,
    c04_s_et_unknown = s_et_unknown; unwind 5,
    c04_l_et_unknown = l_et_unknown; unwind 5,
    c04_s_et_vlan_ip4_udp = s_et_vlan_ip4_udp; unwind 5,
    c04_l_et_vlan_ip4_udp = l_et_vlan_ip4_udp; unwind 5,
    c04_s_et_vlan_x4 = s_et_vlan_x4; unwind 5,
    c04_l_et_vlan_x4 = l_et_vlan_x4; unwind 5,
    c04_s_et_macsec_ip4_udp = s_et_macsec_ip4_udp; unwind 5,
    c04_l_et_macsec_ip4_udp = l_et_macsec_ip4_udp; unwind 5,
    c04_s_et_macsec_enc = s_et_macsec_enc; unwind 5,
    c04_l_et_macsec_enc = l_et_macsec_enc; unwind 5,
    c04_s_et_macsec_vlan = s_et_macsec_vlan; unwind 5,
    c04_l_et_macsec_vlan = l_et_macsec_vlan; unwind 5,
    c04_s_eth_ip4_udp = s_eth_ip4_udp; unwind 5,
    c04_l_eth_ip4_udp = l_eth_ip4_udp; unwind 5,
    c04_s_eth_vlan_ip4_udp = s_eth_vlan_ip4_udp; unwind 5,
    c04_l_eth_vlan_ip4_udp = l_eth_vlan_ip4_udp; unwind 5,
    c04_s_eth_arp = s_eth_arp; unwind 5,
    c04_l_eth_arp = l_eth_arp; unwind 5,
    c04_s_eth_ip6_udp = s_eth_ip6_udp; unwind 5,
    c04_l_eth_ip6_udp = l_eth_ip6_udp; unwind 5,
}
