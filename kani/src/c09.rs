//! C09 - checksums equal the RFC 1071 Internet checksum (DESIGN.md section 5, C09).
//!
//! Direct comparison of `add_slice` with a reference sum does not terminate in CBMC, so the
//! claim is decided in four layers; the glue between them is substitution and induction over
//! the call sequence and is written out in reg/c09.py (PROP["claim"]):
//!
//! 1. kernels, real code, full accumulator width, all inputs (`k64_*`, `k32_*`, `k_no_zero`)
//! 2. `add_slice` loop structure with the kernels replaced by UNINTERPRETED functions and a
//!    ghost call log (`slice64_*`, `slice32_*`, `split64`) - stronger and far cheaper than the
//!    reduced arithmetic model DESIGN.md planned for this layer (that query needed 15 min / 8 GB
//!    for N = 41; the structural one is free of arithmetic and reaches N = 64)
//! 3. lemmas about the reference itself (`ref_*`), plus `e2e_small` without any stub
//! 4. protocol composition, kernels + `add_slice` replaced by the reduced 16-bit one's
//!    complement models that 1 and 2 justify (`m64_*`)
//!
//! The reference is written from RFC 1071 / 791 / 768 / 9293 / 3540 / 8200 / 792 / 1191 / 4443 /
//! 4861 / 1112 / 2236 / 3376 / 9776 and shares no code and no constant with etherparse.
//! Target: 64-bit little endian (Kani's host); `Sum16BitWords` uses the u64 module there.

use crate::sym::{any, any_le, assume};
use crate::tight::Tight;
use crate::witness;
use etherparse::checksum::{u32_16bit_word as k32, u64_16bit_word as k64, Sum16BitWords};

// ================================================================= reference (RFC 1071)

/// 16-bit one's complement addition: add, then add the carry back in (end-around carry)
#[inline(always)]
pub fn oadd(x: u16, y: u16) -> u16 {
    let s = (x as u32) + (y as u32);
    ((s & 0xffff) + (s >> 16)) as u16
}

/// the abstraction of a 64-bit accumulator: its one's complement sum so far.
/// Defined through the REAL `ones_complement`, so that "result == !fold(acc)" is a tautology
/// and everything that is proved about `fold` is proved about the value the crate returns.
#[inline(always)]
fn fold64(a: u64) -> u16 {
    !k64::ones_complement(a)
}
#[inline(always)]
fn fold32(a: u32) -> u16 {
    !k32::ones_complement(a)
}

#[inline(always)]
fn limb64(x: u64, i: u32) -> u16 {
    ((x >> (16 * i)) & 0xffff) as u16
}

// ================================================================= layer 1: kernels (real code)

/// fold(add_2bytes(a, v)) == oadd(fold a, word v), every 64-bit accumulator
pub fn k64_add2() {
    let a: u64 = any();
    let v: [u8; 2] = any();
    let r = k64::add_2bytes(a, v);
    witness!(r < a, "carry_out_of_64_bits");
    witness!(fold64(a) == 0xffff && v[0] != 0, "minus_zero_acc");
    assert!(fold64(r) == oadd(fold64(a), u16::from_ne_bytes(v)));
}

/// per-limb lemma: adding one 16-bit word at limb position I with the real 64-bit
/// end-around-carry add is one `oadd` under the abstraction
fn k64_limb(i: u32) {
    let a: u64 = any();
    let w: u16 = any();
    let r = k64::add_8bytes(a, ((w as u64) << (16 * i)).to_ne_bytes());
    witness!(r < a, "carry_out_of_64_bits");
    assert!(fold64(r) == oadd(fold64(a), w));
}
pub fn k64_limb0() {
    k64_limb(0)
}
pub fn k64_limb1() {
    k64_limb(1)
}
pub fn k64_limb2() {
    k64_limb(2)
}
pub fn k64_limb3() {
    k64_limb(3)
}

/// split lemma: one 64-bit end-around-carry add == four adds of the separate limbs
pub fn k64_split8() {
    let a: u64 = any();
    let v: [u8; 8] = any();
    let x = u64::from_ne_bytes(v);
    let l = |i: u32| (x & (0xffffu64 << (16 * i))).to_ne_bytes();
    let direct = k64::add_8bytes(a, v);
    let step = k64::add_8bytes(k64::add_8bytes(k64::add_8bytes(k64::add_8bytes(a, l(0)), l(1)), l(2)), l(3));
    witness!(direct < a, "carry_out_of_64_bits");
    assert!(direct == step);
}

/// add_4bytes is add_8bytes of the zero extended value (so the limb lemmas apply, upper limbs 0)
pub fn k64_add4_widen() {
    let a: u64 = any();
    let v: [u8; 4] = any();
    let wide = u64::from(u32::from_ne_bytes(v));
    witness!(k64::add_4bytes(a, v) < a, "carry_out_of_64_bits");
    assert!(k64::add_4bytes(a, v) == k64::add_8bytes(a, wide.to_ne_bytes()));
    assert!(limb64(wide, 2) == 0 && limb64(wide, 3) == 0);
}

/// the limbs of the native-endian integer are the native-endian 16-bit words of the bytes,
/// in byte order on this (little endian) target; reduced accumulators are their own fold
pub fn k64_words_and_reduced() {
    let v: [u8; 8] = any();
    let x = u64::from_ne_bytes(v);
    #[cfg(target_endian = "little")]
    {
        assert!(limb64(x, 0) == u16::from_ne_bytes([v[0], v[1]]));
        assert!(limb64(x, 1) == u16::from_ne_bytes([v[2], v[3]]));
        assert!(limb64(x, 2) == u16::from_ne_bytes([v[4], v[5]]));
        assert!(limb64(x, 3) == u16::from_ne_bytes([v[6], v[7]]));
    }
    #[cfg(target_endian = "big")]
    {
        assert!(limb64(x, 3) == u16::from_ne_bytes([v[0], v[1]]));
        assert!(limb64(x, 2) == u16::from_ne_bytes([v[2], v[3]]));
        assert!(limb64(x, 1) == u16::from_ne_bytes([v[4], v[5]]));
        assert!(limb64(x, 0) == u16::from_ne_bytes([v[6], v[7]]));
    }
    let r: u16 = any();
    assert!(fold64(r as u64) == r);
    assert!(fold32(r as u32) == r);
    assert!(oadd(r, 0) == r);
    assert!(k64::ones_complement(0) == 0xffff && k32::ones_complement(0) == 0xffff);
}

/// `ones_complement_with_no_zero` never yields 0 and differs from `ones_complement` only there
pub fn k_no_zero() {
    let a: u64 = any();
    let c = k64::ones_complement(a);
    let z = k64::ones_complement_with_no_zero(a);
    witness!(c == 0 && a < 0xffff_ffff, "complement_is_zero_64");
    assert!(z != 0);
    assert!(if c == 0 { z == 0xffff } else { z == c });
    let b: u32 = any();
    let c = k32::ones_complement(b);
    let z = k32::ones_complement_with_no_zero(b);
    witness!(c == 0 && b < 0xffff_ffff, "complement_is_zero_32");
    assert!(z != 0);
    assert!(if c == 0 { z == 0xffff } else { z == c });
}

// ---- 32-bit accumulator module (compiled on every target, public API)

pub fn k32_add2() {
    let a: u32 = any();
    let v: [u8; 2] = any();
    let r = k32::add_2bytes(a, v);
    witness!(r < a, "carry_out_of_32_bits");
    assert!(fold32(r) == oadd(fold32(a), u16::from_ne_bytes(v)));
}

fn k32_limb(i: u32) {
    let a: u32 = any();
    let w: u16 = any();
    let r = k32::add_4bytes(a, ((w as u32) << (16 * i)).to_ne_bytes());
    witness!(r < a, "carry_out_of_32_bits");
    assert!(fold32(r) == oadd(fold32(a), w));
}
pub fn k32_limb0() {
    k32_limb(0)
}
pub fn k32_limb1() {
    k32_limb(1)
}

pub fn k32_split4() {
    let a: u32 = any();
    let v: [u8; 4] = any();
    let x = u32::from_ne_bytes(v);
    let direct = k32::add_4bytes(a, v);
    let step = k32::add_4bytes(k32::add_4bytes(a, (x & 0xffff).to_ne_bytes()), (x & 0xffff_0000).to_ne_bytes());
    witness!(direct < a, "carry_out_of_32_bits");
    assert!(direct == step);
    #[cfg(target_endian = "little")]
    {
        assert!((x & 0xffff) as u16 == u16::from_ne_bytes([v[0], v[1]]));
        assert!((x >> 16) as u16 == u16::from_ne_bytes([v[2], v[3]]));
    }
    #[cfg(target_endian = "big")]
    {
        assert!((x >> 16) as u16 == u16::from_ne_bytes([v[0], v[1]]));
        assert!((x & 0xffff) as u16 == u16::from_ne_bytes([v[2], v[3]]));
    }
}

// ================================================================= reduced models (stubs)
//
// A model works on REDUCED accumulators (<= 0xffff, asserted) and is the abstraction of the
// real kernel: layer 1 proves  fold(real(a, v)) == model(fold a, v)  for every accumulator a,
// and fold(r) == r for reduced r. The control flow of `add_slice` and of every checksum
// function of the crate is independent of the accumulator value, so a run with the models
// from the reduced start fold(a) performs the same kernel calls on the same bytes as the real
// run from a, and by induction over the calls  fold(real state) == model state  throughout;
// the final `ones_complement` (real code in both runs) therefore returns the same value.

#[inline(always)]
fn red(a: u64) -> u16 {
    assert!(a <= 0xffff, "C09 model: accumulator left the reduced domain");
    a as u16
}

pub fn m64_add2(start: u64, v: [u8; 2]) -> u64 {
    oadd(red(start), u16::from_ne_bytes(v)) as u64
}
pub fn m64_add4(start: u64, v: [u8; 4]) -> u64 {
    let x = u64::from(u32::from_ne_bytes(v));
    oadd(oadd(red(start), limb64(x, 0)), limb64(x, 1)) as u64
}
pub fn m64_add8(start: u64, v: [u8; 8]) -> u64 {
    let x = u64::from_ne_bytes(v);
    oadd(oadd(oadd(oadd(red(start), limb64(x, 0)), limb64(x, 1)), limb64(x, 2)), limb64(x, 3)) as u64
}
/// native-endian 16-bit words of a byte string, odd length padded with one zero byte,
/// folded from `start` with `oadd` from left to right
pub fn ref_ne(start: u16, s: &[u8]) -> u16 {
    let mut acc = start;
    let mut i = 0usize;
    while i + 1 < s.len() {
        acc = oadd(acc, u16::from_ne_bytes([s[i], s[i + 1]]));
        i += 2;
    }
    if i < s.len() {
        acc = oadd(acc, u16::from_ne_bytes([s[i], 0]));
    }
    acc
}

// ================================================================= layer 2: add_slice structure
//
// The kernels are replaced by UNINTERPRETED functions: every call returns a fresh
// unconstrained value and is recorded in a ghost log (accumulator passed in, bytes passed in,
// value returned). The real kernels are one instance of "some function", and the control
// flow of `add_slice` never looks at an accumulator, so whatever is proved about the logged
// call sequence holds for the real run. Proved: the calls thread the accumulator from the
// start value to the returned value and consume the slice front to back in consecutive chunks
// of 8/4/2 bytes, the last byte of an odd slice padded with one zero byte, nothing skipped,
// nothing read twice, nothing read outside. With layer 1 (each kernel folds the words of its
// chunk in order) this gives  fold(add_slice(a, s)) == ref_ne(fold a, s)  by induction.

pub mod ghost {
    pub const CAP: usize = 40;
    pub static mut CALLS: usize = 0;
    pub static mut ACC_IN: [u64; CAP] = [0; CAP];
    pub static mut ACC_OUT: [u64; CAP] = [0; CAP];
    pub static mut SIZE: [u8; CAP] = [0; CAP];
    pub static mut BYTES: [[u8; 8]; CAP] = [[0; 8]; CAP];

    pub fn reset() {
        unsafe { CALLS = 0 }
    }
    pub fn record(acc_in: u64, bytes: [u8; 8], size: u8) -> u64 {
        let out: u64 = crate::sym::any();
        unsafe {
            let k = CALLS;
            assert!(k < CAP, "C09 ghost log overflow");
            ACC_IN[k] = acc_in;
            ACC_OUT[k] = out;
            SIZE[k] = size;
            BYTES[k] = bytes;
            CALLS = k + 1;
        }
        out
    }
}
pub fn g64_add8(start: u64, v: [u8; 8]) -> u64 {
    ghost::record(start, v, 8)
}
pub fn g64_add4(start: u64, v: [u8; 4]) -> u64 {
    ghost::record(start, [v[0], v[1], v[2], v[3], 0, 0, 0, 0], 4)
}
pub fn g64_add2(start: u64, v: [u8; 2]) -> u64 {
    ghost::record(start, [v[0], v[1], 0, 0, 0, 0, 0, 0], 2)
}
pub fn g32_add4(start: u32, v: [u8; 4]) -> u32 {
    ghost::record(start as u64, [v[0], v[1], v[2], v[3], 0, 0, 0, 0], 4) as u32
}
pub fn g32_add2(start: u32, v: [u8; 2]) -> u32 {
    ghost::record(start as u64, [v[0], v[1], 0, 0, 0, 0, 0, 0], 2) as u32
}

/// the logged calls are a front-to-back chunking of `s` (zero padded to even length) that
/// threads the accumulator from `start` to `got`; `mask` = accumulator width
fn check_chunking(start: u64, s: &[u8], got: u64, mask: u64, max_chunk: usize) {
    let calls = unsafe { ghost::CALLS };
    let mut acc = start;
    let mut off = 0usize;
    let mut k = 0usize;
    while k < calls {
        let (acc_in, acc_out, size, bytes) =
            unsafe { (ghost::ACC_IN[k], ghost::ACC_OUT[k] & mask, ghost::SIZE[k] as usize, ghost::BYTES[k]) };
        assert!(acc_in == acc, "accumulator is threaded from call to call");
        assert!(size <= max_chunk);
        assert!(off % 2 == 0, "chunks start at even offsets");
        if off + size <= s.len() {
            let mut j = 0usize;
            while j < 8 {
                if j < size {
                    assert!(bytes[j] == s[off + j], "chunk is the next bytes of the slice");
                }
                j += 1;
            }
        } else {
            // only the very last byte of an odd slice may be padded, with exactly one zero
            assert!(size == 2 && off + 1 == s.len());
            assert!(bytes[0] == s[off] && bytes[1] == 0);
        }
        off += size;
        acc = acc_out;
        k += 1;
    }
    assert!(off == s.len() + s.len() % 2, "every byte consumed exactly once");
    assert!(got == acc, "the value of the last call is returned");
}

/// Native replay of a STRUCTURE counterexample (no stubs natively): the data bytes of such a
/// counterexample are don't-cares for the solver, so besides the recorded bytes the end result
/// is compared on the strings that make each single position matter (one non-zero byte).
/// Only confirms an alarm the solver already raised; decides nothing.
#[cfg(not(kani))]
fn native_probe<const N: usize>(l: usize, data: &[u8; N], check: impl Fn(&[u8])) {
    check(&data[..l]);
    for j in 0..l {
        let mut unit = [0u8; N];
        unit[j] = 1;
        check(&unit[..l]);
        unit[j] = 0xff;
        check(&unit[..l]);
    }
}

/// bound of the structure harnesses
pub const STRUCT_N: usize = 64;

fn slice64_case(data: &[u8; STRUCT_N], l: usize, start: u64) {
    // an object of exactly `l` bytes: every `get_unchecked` of the real loop is bounds checked
    let buf = Tight::<STRUCT_N>::from_bytes(&data[..l]);
    #[cfg(kani)]
    {
        ghost::reset();
        let got = k64::add_slice(start, buf.slice());
        check_chunking(start, &data[..l], got, u64::MAX, 8);
    }
    // native replay: no stubs, so compare the end result
    #[cfg(not(kani))]
    native_probe(l, data, |s| {
        assert!(fold64(k64::add_slice(start, s)) == ref_ne(fold64(start), s), "C09 native: add_slice != reference");
    });
    #[cfg(not(kani))]
    let _ = buf;
}

fn slice32_case(data: &[u8; STRUCT_N], l: usize, start: u32) {
    let buf = Tight::<STRUCT_N>::from_bytes(&data[..l]);
    #[cfg(kani)]
    {
        ghost::reset();
        let got = k32::add_slice(start, buf.slice());
        check_chunking(start as u64, &data[..l], got as u64, u32::MAX as u64, 4);
    }
    #[cfg(not(kani))]
    native_probe(l, data, |s| {
        assert!(fold32(k32::add_slice(start, s)) == ref_ne(fold32(start), s), "C09 native: add_slice != reference");
    });
    #[cfg(not(kani))]
    let _ = buf;
}

/// the structure harnesses are cut in two: 0..=STRUCT_MID runs in the quick tier and is all the
/// quick-tier compositions rely on (`m64_add_slice_q`), STRUCT_MID+1..=STRUCT_N in the thorough tier
pub const STRUCT_MID: usize = 40;

/// every length lo..=hi, all bytes, every 64-bit start value. The symbolic length is
/// case-split by the harness (`l` is concrete inside the case), because a heap object of
/// symbolic size costs 7 M variables / 15 min in CBMC's array theory for the same query.
fn slice64_range(lo: usize, hi: usize) {
    let len = any_le(hi);
    assume(len >= lo);
    let data: [u8; STRUCT_N] = any();
    let start: u64 = any();
    witness!(len == hi, "max_len");
    witness!(len == lo, "min_len");
    witness!(len % 8 == 7, "tails_4_2_1");
    witness!(len % 8 == 1, "single_byte_tail");
    let mut l = lo;
    while l <= hi {
        if l == len {
            slice64_case(&data, l, start);
        }
        l += 1;
    }
}
pub fn slice64_lo() {
    slice64_range(0, STRUCT_MID)
}
pub fn slice64_hi() {
    slice64_range(STRUCT_MID + 1, STRUCT_N)
}

fn slice32_range(lo: usize, hi: usize) {
    let len = any_le(hi);
    assume(len >= lo);
    let data: [u8; STRUCT_N] = any();
    let start: u32 = any();
    witness!(len == hi, "max_len");
    witness!(len == lo, "min_len");
    witness!(len % 4 == 3, "tails_2_1");
    witness!(len % 4 == 1, "single_byte_tail");
    let mut l = lo;
    while l <= hi {
        if l == len {
            slice32_case(&data, l, start);
        }
        l += 1;
    }
}
pub fn slice32_lo() {
    slice32_range(0, STRUCT_MID)
}
pub fn slice32_hi() {
    slice32_range(STRUCT_MID + 1, STRUCT_N)
}

// ================================================================= layer 3: the reference itself

/// RFC 1071 section 4.1, transcribed from the C reference: 32-bit deferred-carry sum of the
/// big-endian 16-bit words, a trailing odd byte is the HIGH byte of a zero padded word,
/// carries folded at the end, complemented. This is THE definition the property refers to.
pub fn rfc1071(b: &[u8]) -> u16 {
    let mut sum: u32 = 0;
    let mut i = 0usize;
    while i + 1 < b.len() {
        sum += u32::from(u16::from_be_bytes([b[i], b[i + 1]]));
        i += 2;
    }
    if i < b.len() {
        sum += u32::from(b[i]) << 8;
    }
    !rfc_fold(sum)
}
/// "while (sum>>16) sum = (sum & 0xffff) + (sum >> 16);"
#[inline(always)]
fn rfc_fold(mut sum: u32) -> u16 {
    while (sum >> 16) != 0 {
        sum = (sum & 0xffff) + (sum >> 16);
    }
    sum as u16
}

/// The same checksum computed in native byte order (RFC 1071 section 2 (B), byte order
/// independence): the in-memory bytes of the native-endian complement sum ARE the two wire
/// bytes, i.e. the big-endian field value is `from_be_bytes(to_ne_bytes(!sum))`.
/// `ref_step_lemmas` + `ref_matches_rfc1071` justify  ref_checksum(b) == rfc1071(b).
pub fn ref_checksum(b: &[u8]) -> u16 {
    u16::from_be_bytes((!ref_ne(0, b)).to_ne_bytes())
}

/// step lemmas (all values): byte swap commutes with `oadd`; `oadd` is commutative and
/// associative with neutral element 0 on reduced values; deferred carries fold to `oadd`.
/// By induction over the words:  rfc_fold(sum of BE words) == left fold of `oadd` over the BE
/// words == swap(left fold over the swapped words), for every message below 2^16 words.
pub fn ref_step_lemmas() {
    let x: u16 = any();
    let y: u16 = any();
    let z: u16 = any();
    assert!(oadd(x, y).swap_bytes() == oadd(x.swap_bytes(), y.swap_bytes()));
    assert!(oadd(x, y) == oadd(y, x));
    assert!(oadd(oadd(x, y), z) == oadd(x, oadd(y, z)));
    assert!(oadd(x, 0) == x);
    // the two byte orders of one 16-bit word
    let b: [u8; 2] = any();
    assert!(u16::from_be_bytes(b) == u16::from_le_bytes(b).swap_bytes());
    // deferred carries: adding into the 32-bit sum and folding later == oadd now
    let acc: u32 = any();
    assume(acc <= u32::MAX - 0xffff);
    witness!(((acc + u32::from(x)) & 0xffff) + ((acc + u32::from(x)) >> 16) > 0xffff, "two_fold_rounds");
    assert!(rfc_fold(acc + u32::from(x)) == oadd(rfc_fold(acc), x));
    assert!(rfc_fold(0) == 0);
}

/// bound of the direct comparison below
pub const REF_N: usize = 16;

/// direct comparison of the two formulations of the reference for short messages (the
/// induction above is what carries it to every length; this guards the set-up of it)
pub fn ref_matches_rfc1071() {
    let data: [u8; REF_N] = any();
    let len = any_le(REF_N);
    witness!(len == REF_N, "max_len");
    witness!(len == REF_N - 1, "odd_len");
    assert!(ref_checksum(&data[..len]) == rfc1071(&data[..len]));
}

/// split independence of the reference: folding a prefix of even length first and continuing
/// from its result is folding the whole string
pub fn ref_split() {
    let data: [u8; 24] = any();
    let len = any_le(24);
    let k = any_le(24);
    let start: u16 = any();
    assume(k <= len && k % 2 == 0);
    witness!(k == 10 && len == 23, "even_split_of_odd_string");
    assert!(ref_ne(ref_ne(start, &data[..k]), &data[k..len]) == ref_ne(start, &data[..len]));
}

// ================================================================= layer 4: protocol composition
//
// Kernels = reduced models (layer 1), add_slice = `ref_ne` from the reduced accumulator
// (layers 1+2, asserted bound STRUCT_N). Expected value = ref_checksum over ONE byte string:
// pseudo header || header with zero checksum field || payload, written from the RFCs.

pub fn m64_add_slice(start: u64, slice: &[u8]) -> u64 {
    assert!(slice.len() <= STRUCT_N, "C09 model: add_slice used beyond the bound proved in layer 2");
    ref_ne(red(start), slice) as u64
}
/// the same model for the quick tier, which proves layer 2 only up to STRUCT_MID bytes
pub fn m64_add_slice_q(start: u64, slice: &[u8]) -> u64 {
    assert!(slice.len() <= STRUCT_MID, "C09 model: add_slice used beyond the bound proved in the quick tier");
    ref_ne(red(start), slice) as u64
}

use etherparse::*;

/// payload bound of the composition harnesses
pub const PAY_N: usize = 8;

fn ok<T, E>(r: Result<T, E>) -> T {
    match r {
        Ok(v) => v,
        Err(_) => panic!("C09: Err for a payload of at most 8 bytes"),
    }
}

/// message under construction (pseudo header, header, payload)
pub struct Msg<const M: usize> {
    pub b: [u8; M],
    pub n: usize,
}
impl<const M: usize> Msg<M> {
    pub fn new() -> Self {
        Msg { b: [0u8; M], n: 0 }
    }
    pub fn put(&mut self, s: &[u8]) -> &mut Self {
        self.b[self.n..self.n + s.len()].copy_from_slice(s);
        self.n += s.len();
        self
    }
    pub fn u8(&mut self, v: u8) -> &mut Self {
        self.put(&[v])
    }
    pub fn u16(&mut self, v: u16) -> &mut Self {
        self.put(&v.to_be_bytes())
    }
    pub fn u32(&mut self, v: u32) -> &mut Self {
        self.put(&v.to_be_bytes())
    }
    pub fn bytes(&self) -> &[u8] {
        &self.b[..self.n]
    }
    pub fn checksum(&self) -> u16 {
        ref_checksum(self.bytes())
    }
}

/// RFC 768 / RFC 9293 3.1 pseudo header for IPv4: src, dst, zero, protocol, 16-bit length
fn pseudo_v4<const M: usize>(m: &mut Msg<M>, src: [u8; 4], dst: [u8; 4], proto: u8, len: u16) {
    m.put(&src).put(&dst).u8(0).u8(proto).u16(len);
}
/// RFC 8200 8.1 pseudo header: src, dst, 32-bit upper-layer length, 3 zero bytes, next header
fn pseudo_v6<const M: usize>(m: &mut Msg<M>, src: [u8; 16], dst: [u8; 16], next: u8, len: u32) {
    m.put(&src).put(&dst).u32(len).u8(0).u8(0).u8(0).u8(next);
}

fn payload() -> ([u8; PAY_N], usize) {
    let d: [u8; PAY_N] = any();
    let n = any_le(PAY_N);
    (d, n)
}

// ---------------------------------------------------------------- IPv4 header (RFC 791)

pub struct V4 {
    pub h: Ipv4Header,
    pub odata: [u8; 40],
    pub olen: usize,
}

pub fn sym_ipv4() -> V4 {
    let dscp: u8 = any();
    let ecn: u8 = any();
    let fo: u16 = any();
    assume(dscp < 64 && ecn < 4 && fo < 0x2000);
    let odata: [u8; 40] = any();
    let owords = any_le(10);
    let olen = owords * 4;
    let h = Ipv4Header {
        dscp: IpDscp::try_new(dscp).unwrap(),
        ecn: IpEcn::try_new(ecn).unwrap(),
        total_len: any(),
        identification: any(),
        dont_fragment: any(),
        more_fragments: any(),
        fragment_offset: IpFragOffset::try_new(fo).unwrap(),
        time_to_live: any(),
        protocol: IpNumber(any()),
        header_checksum: any(),
        source: any(),
        destination: any(),
        options: ok(Ipv4Options::try_from(&odata[..olen])),
    };
    V4 { h, odata, olen }
}

/// RFC 791 3.1 header bytes with the checksum field zero
fn ipv4_wire(v: &V4, m: &mut Msg<60>) {
    let h = &v.h;
    m.u8(0x40 | (5 + (v.olen / 4) as u8));
    m.u8((h.dscp.value() << 2) | h.ecn.value());
    m.u16(h.total_len);
    m.u16(h.identification);
    m.u16(((h.dont_fragment as u16) << 14) | ((h.more_fragments as u16) << 13) | h.fragment_offset.value());
    m.u8(h.time_to_live);
    m.u8(h.protocol.0);
    m.u16(0);
    m.put(&h.source);
    m.put(&h.destination);
    m.put(&v.odata[..v.olen]);
}

pub fn ipv4_header() {
    let v = sym_ipv4();
    let mut m = Msg::<60>::new();
    ipv4_wire(&v, &mut m);
    let want = m.checksum();
    witness!(v.olen == 40, "max_options");
    witness!(v.olen == 0, "no_options");
    witness!(want == 0, "checksum_zero");
    assert!(v.h.calc_header_checksum() == want);
}

// ---------------------------------------------------------------- UDP (RFC 768, RFC 8200 8.1)

fn udp_want<const M: usize>(m: &Msg<M>) -> u16 {
    // RFC 768: "If the computed checksum is zero, it is transmitted as all ones"
    let c = m.checksum();
    witness!(c == 0, "computed_zero_sent_as_ffff");
    if c == 0 {
        0xffff
    } else {
        c
    }
}

pub fn udp_ipv4() {
    let sp: u16 = any();
    let dp: u16 = any();
    let length: u16 = any();
    let src: [u8; 4] = any();
    let dst: [u8; 4] = any();
    let (pd, pn) = payload();
    let p = &pd[..pn];
    let ip = Ipv4Header { source: src, destination: dst, ..Default::default() };
    witness!(pn == 7, "odd_payload");
    witness!(pn == 0, "empty_payload");

    // with_*: the length field is header + payload
    let w = ok(UdpHeader::with_ipv4_checksum(sp, dp, &ip, p));
    let mut m = Msg::<28>::new();
    pseudo_v4(&mut m, src, dst, 17, 8 + pn as u16);
    m.u16(sp).u16(dp).u16(8 + pn as u16).u16(0).put(p);
    assert!(w.source_port == sp && w.destination_port == dp && w.length == 8 + pn as u16);
    assert!(w.checksum == udp_want(&m));
    assert!(w.checksum != 0);

    // calc_*: the header's own length field is what RFC 768 puts into the pseudo header
    let h = UdpHeader { source_port: sp, destination_port: dp, length, checksum: any() };
    let mut m = Msg::<28>::new();
    pseudo_v4(&mut m, src, dst, 17, length);
    m.u16(sp).u16(dp).u16(length).u16(0).put(p);
    let want = udp_want(&m);
    let a = ok(h.calc_checksum_ipv4(&ip, p));
    let b = ok(h.calc_checksum_ipv4_raw(src, dst, p));
    assert!(a == want);
    assert!(b == want);
    assert!(a != 0 && b != 0);
}

pub fn udp_ipv6() {
    let sp: u16 = any();
    let dp: u16 = any();
    let length: u16 = any();
    let src: [u8; 16] = any();
    let dst: [u8; 16] = any();
    let (pd, pn) = payload();
    let p = &pd[..pn];
    let ip = Ipv6Header { source: src, destination: dst, ..Default::default() };
    witness!(pn == 7, "odd_payload");
    witness!(pn == 0, "empty_payload");

    let w = ok(UdpHeader::with_ipv6_checksum(sp, dp, &ip, p));
    let mut m = Msg::<56>::new();
    pseudo_v6(&mut m, src, dst, 17, 8 + pn as u32);
    m.u16(sp).u16(dp).u16(8 + pn as u16).u16(0).put(p);
    assert!(w.source_port == sp && w.destination_port == dp && w.length == 8 + pn as u16);
    assert!(w.checksum == udp_want(&m));
    assert!(w.checksum != 0);

    // RFC 8200 8.1: for UDP the upper-layer length of the pseudo header is the Length field
    let h = UdpHeader { source_port: sp, destination_port: dp, length, checksum: any() };
    let mut m = Msg::<56>::new();
    pseudo_v6(&mut m, src, dst, 17, u32::from(length));
    m.u16(sp).u16(dp).u16(length).u16(0).put(p);
    let want = udp_want(&m);
    let a = ok(h.calc_checksum_ipv6(&ip, p));
    let b = ok(h.calc_checksum_ipv6_raw(src, dst, p));
    assert!(a == want);
    assert!(b == want);
    assert!(a != 0 && b != 0);
}

// ---------------------------------------------------------------- TCP (RFC 9293 3.1)

pub struct Tcp {
    pub h: TcpHeader,
    pub odata: [u8; 40],
    pub olen: usize,
}

pub fn sym_tcp() -> Tcp {
    let odata: [u8; 40] = any();
    let olen = any_le(40);
    let h = TcpHeader {
        source_port: any(),
        destination_port: any(),
        sequence_number: any(),
        acknowledgment_number: any(),
        ns: any(),
        fin: any(),
        syn: any(),
        rst: any(),
        psh: any(),
        ack: any(),
        urg: any(),
        ece: any(),
        cwr: any(),
        window_size: any(),
        checksum: any(),
        urgent_pointer: any(),
        options: ok(TcpOptions::try_from_slice(&odata[..olen])),
    };
    Tcp { h, odata, olen }
}

/// header length on the wire: options padded with zeros to a multiple of 4 (documented
/// behaviour of `TcpOptions::try_from_slice`, RFC 9293: padding is zeros)
fn tcp_hlen(t: &Tcp) -> usize {
    20 + (t.olen + 3) / 4 * 4
}

/// RFC 9293 3.1 header bytes with the checksum field zero, followed by the payload
fn tcp_wire<const M: usize>(t: &Tcp, m: &mut Msg<M>, pd: &[u8; PAY_N], pn: usize) {
    let h = &t.h;
    let hlen = tcp_hlen(t);
    m.u16(h.source_port).u16(h.destination_port).u32(h.sequence_number).u32(h.acknowledgment_number);
    // data offset (4 bit), reserved (3 bit, zero), NS (RFC 3540)
    m.u8((((hlen / 4) as u8) << 4) | (h.ns as u8));
    m.u8(((h.cwr as u8) << 7)
        | ((h.ece as u8) << 6)
        | ((h.urg as u8) << 5)
        | ((h.ack as u8) << 4)
        | ((h.psh as u8) << 3)
        | ((h.rst as u8) << 2)
        | ((h.syn as u8) << 1)
        | (h.fin as u8));
    m.u16(h.window_size).u16(0).u16(h.urgent_pointer);
    // options, zero padding to the data offset, payload: written position by position (constant
    // positions, selected values) - a copy to a symbolic offset is far more expensive in CBMC
    let base = m.n;
    let pad_end = hlen - 20;
    let mut j = 0usize;
    while j < 40 + PAY_N {
        m.b[base + j] = if j < t.olen {
            t.odata[j]
        } else if j < pad_end {
            0
        } else if j - pad_end < pn {
            pd[j - pad_end]
        } else {
            0
        };
        j += 1;
    }
    m.n = base + pad_end + pn;
}

pub fn tcp_ipv4() {
    let t = sym_tcp();
    let src: [u8; 4] = any();
    let dst: [u8; 4] = any();
    let (pd, pn) = payload();
    let p = &pd[..pn];
    let ip = Ipv4Header { source: src, destination: dst, ..Default::default() };
    let hlen = tcp_hlen(&t);
    witness!(t.olen == 40 && pn == 7, "max_options_odd_payload");
    witness!(t.olen == 0 && pn == 0, "bare_header");
    witness!(t.olen == 5, "options_padded");
    let mut m = Msg::<80>::new();
    pseudo_v4(&mut m, src, dst, 6, (hlen + pn) as u16);
    tcp_wire(&t, &mut m, &pd, pn);
    let want = m.checksum();
    witness!(want == 0, "checksum_zero");
    assert!(t.h.header_len() == hlen);
    assert!(ok(t.h.calc_checksum_ipv4(&ip, p)) == want);
    assert!(ok(t.h.calc_checksum_ipv4_raw(src, dst, p)) == want);
}

pub fn tcp_ipv6() {
    let t = sym_tcp();
    let src: [u8; 16] = any();
    let dst: [u8; 16] = any();
    let (pd, pn) = payload();
    let p = &pd[..pn];
    let ip = Ipv6Header { source: src, destination: dst, ..Default::default() };
    let hlen = tcp_hlen(&t);
    witness!(t.olen == 40 && pn == 7, "max_options_odd_payload");
    witness!(t.olen == 0 && pn == 0, "bare_header");
    let mut m = Msg::<108>::new();
    pseudo_v6(&mut m, src, dst, 6, (hlen + pn) as u32);
    tcp_wire(&t, &mut m, &pd, pn);
    let want = m.checksum();
    witness!(want == 0, "checksum_zero");
    assert!(ok(t.h.calc_checksum_ipv6(&ip, p)) == want);
    assert!(ok(t.h.calc_checksum_ipv6_raw(src, dst, p)) == want);
}

// ---------------------------------------------------------------- TCP from slices

/// pseudo header already in `m`; appends the raw TCP header `raw[..hlen]` with bytes 16,17
/// (checksum field) zeroed and the payload, position by position
fn tcp_raw_wire<const M: usize>(m: &mut Msg<M>, raw: &[u8; 60 + PAY_N], hlen: usize, total: usize) {
    let base = m.n;
    let mut j = 0usize;
    while j < 60 + PAY_N {
        m.b[base + j] = if j < total && j != 16 && j != 17 { raw[j] } else { 0 };
        j += 1;
    }
    assert!(hlen <= total);
    m.n = base + total;
}

/// raw header + payload in one array (as `TcpSlice` wants it); the data offset is whatever
/// the symbolic byte 12 says (>= 5, else the slice types reject the header)
fn sym_tcp_raw() -> ([u8; 60 + PAY_N], usize, usize) {
    let raw: [u8; 60 + PAY_N] = any();
    let hlen = usize::from(raw[12] >> 4) * 4;
    assume(hlen >= 20);
    let pn = any_le(PAY_N);
    (raw, hlen, pn)
}

fn sym_ipv4_raw(src: [u8; 4], dst: [u8; 4]) -> [u8; 20] {
    let mut r: [u8; 20] = any();
    r[0] = 0x45;
    r[12..16].copy_from_slice(&src);
    r[16..20].copy_from_slice(&dst);
    r
}
fn sym_ipv6_raw(src: [u8; 16], dst: [u8; 16]) -> [u8; 40] {
    let mut r: [u8; 40] = any();
    r[0] = 0x60 | (r[0] & 0xf);
    r[8..24].copy_from_slice(&src);
    r[24..40].copy_from_slice(&dst);
    r
}

pub fn tcp_header_slice_ipv4() {
    let (raw, hlen, pn) = sym_tcp_raw();
    let src: [u8; 4] = any();
    let dst: [u8; 4] = any();
    let ipraw = sym_ipv4_raw(src, dst);
    let ip = ok(Ipv4HeaderSlice::from_slice(&ipraw));
    // the payload of a header slice is a separate buffer
    let (pd, _) = payload();
    let p = &pd[..pn];
    let mut both = raw;
    both[hlen..hlen + pn].copy_from_slice(p);
    let s = ok(TcpHeaderSlice::from_slice(&raw[..hlen]));
    witness!(hlen == 60 && pn == 7, "max_options_odd_payload");
    witness!(hlen == 20 && pn == 0, "bare_header");
    let mut m = Msg::<80>::new();
    pseudo_v4(&mut m, src, dst, 6, (hlen + pn) as u16);
    tcp_raw_wire(&mut m, &both, hlen, hlen + pn);
    let want = m.checksum();
    assert!(ok(s.calc_checksum_ipv4(&ip, p)) == want);
    assert!(ok(s.calc_checksum_ipv4_raw(src, dst, p)) == want);
}

pub fn tcp_header_slice_ipv6() {
    let (raw, hlen, pn) = sym_tcp_raw();
    let src: [u8; 16] = any();
    let dst: [u8; 16] = any();
    let ipraw = sym_ipv6_raw(src, dst);
    let ip = ok(Ipv6HeaderSlice::from_slice(&ipraw));
    let (pd, _) = payload();
    let p = &pd[..pn];
    let mut both = raw;
    both[hlen..hlen + pn].copy_from_slice(p);
    let s = ok(TcpHeaderSlice::from_slice(&raw[..hlen]));
    witness!(hlen == 60 && pn == 7, "max_options_odd_payload");
    witness!(hlen == 20 && pn == 0, "bare_header");
    let mut m = Msg::<108>::new();
    pseudo_v6(&mut m, src, dst, 6, (hlen + pn) as u32);
    tcp_raw_wire(&mut m, &both, hlen, hlen + pn);
    let want = m.checksum();
    assert!(ok(s.calc_checksum_ipv6(&ip, p)) == want);
    assert!(ok(s.calc_checksum_ipv6_raw(src, dst, p)) == want);
}

pub fn tcp_slice_ipv4() {
    let (raw, hlen, pn) = sym_tcp_raw();
    let src: [u8; 4] = any();
    let dst: [u8; 4] = any();
    let s = ok(TcpSlice::from_slice(&raw[..hlen + pn]));
    witness!(hlen == 60 && pn == 7, "max_options_odd_payload");
    witness!(hlen == 20 && pn == 0, "bare_header");
    let mut m = Msg::<80>::new();
    pseudo_v4(&mut m, src, dst, 6, (hlen + pn) as u16);
    tcp_raw_wire(&mut m, &raw, hlen, hlen + pn);
    assert!(ok(s.calc_checksum_ipv4(src, dst)) == m.checksum());
}

pub fn tcp_slice_ipv6() {
    let (raw, hlen, pn) = sym_tcp_raw();
    let src: [u8; 16] = any();
    let dst: [u8; 16] = any();
    let s = ok(TcpSlice::from_slice(&raw[..hlen + pn]));
    witness!(hlen == 60 && pn == 7, "max_options_odd_payload");
    witness!(hlen == 20 && pn == 0, "bare_header");
    let mut m = Msg::<108>::new();
    pseudo_v6(&mut m, src, dst, 6, (hlen + pn) as u32);
    tcp_raw_wire(&mut m, &raw, hlen, hlen + pn);
    assert!(ok(s.calc_checksum_ipv6(src, dst)) == m.checksum());
}

// ---------------------------------------------------------------- ICMPv4 (RFC 792, 1191, 1122, 1812)

/// every variant of `Icmpv4Type` with symbolic content, and its RFC wire bytes (checksum 0)
pub fn sym_icmpv4() -> (Icmpv4Type, [u8; 20], usize) {
    use etherparse::icmpv4::*;
    let sel: u8 = any();
    let c: u8 = any();
    let a: u16 = any();
    let b: u16 = any();
    let q: [u8; 4] = any();
    let ts: [u32; 3] = [any(), any(), any()];
    let mut w = [0u8; 20];
    let mut n = 8usize;
    assume(sel < 9);
    let ab = |w: &mut [u8; 20]| {
        w[4..6].copy_from_slice(&a.to_be_bytes());
        w[6..8].copy_from_slice(&b.to_be_bytes());
    };
    let t = match sel {
        0 => {
            let ty: u8 = any();
            w[0] = ty;
            w[1] = c;
            w[4..8].copy_from_slice(&q);
            Icmpv4Type::Unknown { type_u8: ty, code_u8: c, bytes5to8: q }
        }
        1 => {
            w[0] = 0;
            ab(&mut w);
            Icmpv4Type::EchoReply(IcmpEchoHeader { id: a, seq: b })
        }
        2 => {
            use DestUnreachableHeader::*;
            assume(c < 16);
            w[0] = 3;
            w[1] = c;
            let h = match c {
                0 => Network,
                1 => Host,
                2 => Protocol,
                3 => Port,
                4 => {
                    // RFC 1191 section 4: unused (16 bit, zero), next-hop MTU (16 bit)
                    w[6..8].copy_from_slice(&a.to_be_bytes());
                    FragmentationNeeded { next_hop_mtu: a }
                }
                5 => SourceRouteFailed,
                6 => NetworkUnknown,
                7 => HostUnknown,
                8 => Isolated,
                9 => NetworkProhibited,
                10 => HostProhibited,
                11 => TosNetwork,
                12 => TosHost,
                13 => FilterProhibited,
                14 => HostPrecedenceViolation,
                _ => PrecedenceCutoff,
            };
            Icmpv4Type::DestinationUnreachable(h)
        }
        3 => {
            use RedirectCode::*;
            assume(c < 4);
            w[0] = 5;
            w[1] = c;
            w[4..8].copy_from_slice(&q);
            let code = match c {
                0 => RedirectForNetwork,
                1 => RedirectForHost,
                2 => RedirectForTypeOfServiceAndNetwork,
                _ => RedirectForTypeOfServiceAndHost,
            };
            Icmpv4Type::Redirect(RedirectHeader { code, gateway_internet_address: q })
        }
        4 => {
            w[0] = 8;
            ab(&mut w);
            Icmpv4Type::EchoRequest(IcmpEchoHeader { id: a, seq: b })
        }
        5 => {
            assume(c < 2);
            w[0] = 11;
            w[1] = c;
            Icmpv4Type::TimeExceeded(if c == 0 {
                TimeExceededCode::TtlExceededInTransit
            } else {
                TimeExceededCode::FragmentReassemblyTimeExceeded
            })
        }
        6 => {
            use ParameterProblemHeader::*;
            assume(c < 3);
            w[0] = 12;
            w[1] = c;
            Icmpv4Type::ParameterProblem(match c {
                0 => {
                    // RFC 792: pointer (8 bit), unused (24 bit)
                    w[4] = q[0];
                    PointerIndicatesError(q[0])
                }
                1 => MissingRequiredOption,
                _ => BadLength,
            })
        }
        _ => {
            // RFC 792 timestamp / timestamp reply: id, seq, originate, receive, transmit
            w[0] = if sel == 7 { 13 } else { 14 };
            ab(&mut w);
            w[8..12].copy_from_slice(&ts[0].to_be_bytes());
            w[12..16].copy_from_slice(&ts[1].to_be_bytes());
            w[16..20].copy_from_slice(&ts[2].to_be_bytes());
            n = 20;
            let msg = TimestampMessage {
                id: a,
                seq: b,
                originate_timestamp: ts[0],
                receive_timestamp: ts[1],
                transmit_timestamp: ts[2],
            };
            if sel == 7 {
                Icmpv4Type::TimestampRequest(msg)
            } else {
                Icmpv4Type::TimestampReply(msg)
            }
        }
    };
    witness!(sel == 0, "v4_unknown");
    witness!(sel == 2 && c == 4, "v4_frag_needed");
    witness!(sel == 2 && c == 15, "v4_precedence_cutoff");
    witness!(sel == 3 && c == 3, "v4_redirect");
    witness!(sel == 6 && c == 0, "v4_param_pointer");
    witness!(sel == 8, "v4_timestamp_reply");
    (t, w, n)
}

/// header bytes `w[..n]` followed by the payload, position by position
fn put_hdr_payload<const M: usize>(m: &mut Msg<M>, w: &[u8; 20], n: usize, pd: &[u8; PAY_N], pn: usize) {
    let base = m.n;
    let mut j = 0usize;
    while j < 20 + PAY_N {
        m.b[base + j] = if j < n {
            w[j]
        } else if j - n < pn {
            pd[j - n]
        } else {
            0
        };
        j += 1;
    }
    m.n = base + n + pn;
}

/// the crate's own serialisation with a zero checksum is the RFC header the oracle summed
fn same_bytes(got: &[u8], w: &[u8; 20], n: usize) {
    assert!(got.len() == n);
    let mut j = 0usize;
    while j < 20 {
        if j < n {
            assert!(got[j] == w[j]);
        }
        j += 1;
    }
}

pub fn icmpv4() {
    let (t, w, n) = sym_icmpv4();
    let (pd, pn) = payload();
    let p = &pd[..pn];
    let mut m = Msg::<28>::new();
    put_hdr_payload(&mut m, &w, n, &pd, pn);
    let want = m.checksum();
    witness!(pn == 7, "odd_payload");
    witness!(want == 0, "checksum_zero");
    assert!(t.calc_checksum(p) == want);
    let h = Icmpv4Header::with_checksum(t.clone(), p);
    assert!(h.checksum == want && h.icmp_type == t);
    let mut h = Icmpv4Header { icmp_type: t.clone(), checksum: any() };
    h.update_checksum(p);
    assert!(h.checksum == want && h.icmp_type == t);
    assert!(t.header_len() == n);
    same_bytes(&Icmpv4Header { icmp_type: t, checksum: 0 }.to_bytes(), &w, n);
}

// ---------------------------------------------------------------- ICMPv6 (RFC 4443, 4861)

pub fn sym_icmpv6() -> (Icmpv6Type, [u8; 20]) {
    use etherparse::icmpv6::*;
    let sel: u8 = any();
    let c: u8 = any();
    let a: u16 = any();
    let b: u16 = any();
    let q: [u8; 4] = any();
    let f: [bool; 3] = [any(), any(), any()];
    let mut w = [0u8; 20];
    assume(sel < 12);
    let t = match sel {
        0 => {
            let ty: u8 = any();
            w[0] = ty;
            w[1] = c;
            w[4..8].copy_from_slice(&q);
            Icmpv6Type::Unknown { type_u8: ty, code_u8: c, bytes5to8: q }
        }
        1 => {
            use DestUnreachableCode::*;
            assume(c < 7);
            w[0] = 1;
            w[1] = c;
            Icmpv6Type::DestinationUnreachable(match c {
                0 => NoRoute,
                1 => Prohibited,
                2 => BeyondScope,
                3 => Address,
                4 => Port,
                5 => SourceAddressFailedPolicy,
                _ => RejectRoute,
            })
        }
        2 => {
            w[0] = 2;
            w[4..8].copy_from_slice(&q);
            Icmpv6Type::PacketTooBig { mtu: u32::from_be_bytes(q) }
        }
        3 => {
            assume(c < 2);
            w[0] = 3;
            w[1] = c;
            Icmpv6Type::TimeExceeded(if c == 0 {
                TimeExceededCode::HopLimitExceeded
            } else {
                TimeExceededCode::FragmentReassemblyTimeExceeded
            })
        }
        4 => {
            use ParameterProblemCode::*;
            assume(c < 11);
            w[0] = 4;
            w[1] = c;
            w[4..8].copy_from_slice(&q);
            let code = match c {
                0 => ErroneousHeaderField,
                1 => UnrecognizedNextHeader,
                2 => UnrecognizedIpv6Option,
                3 => Ipv6FirstFragmentIncompleteHeaderChain,
                4 => SrUpperLayerHeaderError,
                5 => UnrecognizedNextHeaderByIntermediateNode,
                6 => ExtensionHeaderTooBig,
                7 => ExtensionHeaderChainTooLong,
                8 => TooManyExtensionHeaders,
                9 => TooManyOptionsInExtensionHeader,
                _ => OptionTooBig,
            };
            Icmpv6Type::ParameterProblem(ParameterProblemHeader { code, pointer: u32::from_be_bytes(q) })
        }
        5 | 6 => {
            w[0] = if sel == 5 { 128 } else { 129 };
            w[4..6].copy_from_slice(&a.to_be_bytes());
            w[6..8].copy_from_slice(&b.to_be_bytes());
            let e = IcmpEchoHeader { id: a, seq: b };
            if sel == 5 {
                Icmpv6Type::EchoRequest(e)
            } else {
                Icmpv6Type::EchoReply(e)
            }
        }
        7 => {
            w[0] = 133;
            Icmpv6Type::RouterSolicitation
        }
        8 => {
            // RFC 4861 4.2: cur hop limit, M, O, reserved (6 bit), router lifetime
            w[0] = 134;
            w[4] = c;
            w[5] = ((f[0] as u8) << 7) | ((f[1] as u8) << 6);
            w[6..8].copy_from_slice(&a.to_be_bytes());
            Icmpv6Type::RouterAdvertisement(RouterAdvertisementHeader {
                cur_hop_limit: c,
                managed_address_config: f[0],
                other_config: f[1],
                router_lifetime: a,
            })
        }
        9 => {
            w[0] = 135;
            Icmpv6Type::NeighborSolicitation
        }
        10 => {
            // RFC 4861 4.4: R, S, O, reserved (29 bit)
            w[0] = 136;
            w[4] = ((f[0] as u8) << 7) | ((f[1] as u8) << 6) | ((f[2] as u8) << 5);
            Icmpv6Type::NeighborAdvertisement(NeighborAdvertisementHeader {
                router: f[0],
                solicited: f[1],
                r#override: f[2],
            })
        }
        _ => {
            w[0] = 137;
            Icmpv6Type::Redirect
        }
    };
    witness!(sel == 0, "v6_unknown");
    witness!(sel == 1 && c == 6, "v6_reject_route");
    witness!(sel == 2, "v6_packet_too_big");
    witness!(sel == 4 && c == 10, "v6_param_option_too_big");
    witness!(sel == 8, "v6_router_advertisement");
    witness!(sel == 10, "v6_neighbor_advertisement");
    witness!(sel == 11, "v6_redirect");
    (t, w)
}

pub fn icmpv6() {
    let (t, w) = sym_icmpv6();
    let src: [u8; 16] = any();
    let dst: [u8; 16] = any();
    let (pd, pn) = payload();
    let p = &pd[..pn];
    let mut m = Msg::<68>::new();
    // RFC 4443 2.3: pseudo header with next header 58 and the length of the ICMPv6 message
    pseudo_v6(&mut m, src, dst, 58, (8 + pn) as u32);
    put_hdr_payload(&mut m, &w, 8, &pd, pn);
    let want = m.checksum();
    witness!(pn == 7, "odd_payload");
    witness!(want == 0, "checksum_zero");
    assert!(ok(t.calc_checksum(src, dst, p)) == want);
    let h = ok(Icmpv6Header::with_checksum(t, src, dst, p));
    assert!(h.checksum == want && h.icmp_type == t);
    let mut h = Icmpv6Header { icmp_type: t, checksum: any() };
    ok(h.update_checksum(src, dst, p));
    assert!(h.checksum == want && h.icmp_type == t);
    let h = ok(t.to_header(src, dst, p));
    assert!(h.checksum == want && h.icmp_type == t);
    assert!(t.header_len() == 8);
    same_bytes(&Icmpv6Header { icmp_type: t, checksum: 0 }.to_bytes(), &w, 8);
}

/// validation accepts exactly the messages whose complete sum (pseudo header and the
/// message INCLUDING its checksum field) is 0xffff
pub fn icmpv6_valid() {
    let raw: [u8; 8 + PAY_N] = any();
    let len = any_le(8 + PAY_N);
    assume(len >= 8);
    let src: [u8; 16] = any();
    let dst: [u8; 16] = any();
    let s = ok(Icmpv6Slice::from_slice(&raw[..len]));
    let mut m = Msg::<56>::new();
    pseudo_v6(&mut m, src, dst, 58, len as u32);
    let base = m.n;
    m.b[base..base + 8 + PAY_N].copy_from_slice(&raw);
    m.n = base + len;
    let complete = ref_ne(0, m.bytes());
    let valid = s.is_checksum_valid(src, dst);
    witness!(valid, "accepted");
    witness!(!valid, "rejected");
    witness!(valid && len == 15, "accepted_odd_len");
    assert!(valid == (complete == 0xffff));
}

// ---------------------------------------------------------------- IGMP (RFC 1112, 2236, 3376, 9776)

pub fn sym_igmp() -> (IgmpType, [u8; 20], usize) {
    use etherparse::igmp::*;
    let sel: u8 = any();
    let c: u8 = any();
    let d: u8 = any();
    let e: u8 = any();
    let a: u16 = any();
    let q: [u8; 4] = any();
    let mut w = [0u8; 20];
    let mut n = 8usize;
    assume(sel < 7);
    let ga = GroupAddress { octets: q };
    let t = match sel {
        0 => {
            // RFC 2236 2: type 0x11, max resp time, checksum, group address
            w[0] = 0x11;
            w[1] = c;
            w[4..8].copy_from_slice(&q);
            IgmpType::MembershipQuery(MembershipQueryType { max_response_time: c, group_address: ga })
        }
        1 => {
            // RFC 3376 4.1: ... Resv|S|QRV, QQIC, number of sources
            w[0] = 0x11;
            w[1] = c;
            w[4..8].copy_from_slice(&q);
            w[8] = d;
            w[9] = e;
            w[10..12].copy_from_slice(&a.to_be_bytes());
            n = 12;
            IgmpType::MembershipQueryWithSources(MembershipQueryWithSourcesHeader {
                max_response_code: MaxResponseCode(c),
                group_address: ga,
                raw_byte_8: d,
                qqic: e,
                num_of_sources: a,
            })
        }
        2 => {
            // RFC 1112 appendix I: version 1, type 2, unused (zero)
            w[0] = 0x12;
            w[4..8].copy_from_slice(&q);
            IgmpType::MembershipReportV1(MembershipReportV1Type { group_address: ga })
        }
        3 => {
            // RFC 2236 2.2: max resp time is zero in reports
            w[0] = 0x16;
            w[4..8].copy_from_slice(&q);
            IgmpType::MembershipReportV2(MembershipReportV2Type { group_address: ga })
        }
        4 => {
            // RFC 3376 4.2 / RFC 9776: type 0x22, reserved, checksum, flags, number of records
            w[0] = 0x22;
            w[4] = c;
            w[5] = d;
            w[6..8].copy_from_slice(&a.to_be_bytes());
            IgmpType::MembershipReportV3(MembershipReportV3Header { flags: [c, d], num_of_records: a })
        }
        5 => {
            w[0] = 0x17;
            w[4..8].copy_from_slice(&q);
            IgmpType::LeaveGroup(LeaveGroupType { group_address: ga })
        }
        _ => {
            w[0] = c;
            w[1] = d;
            w[4..8].copy_from_slice(&q);
            IgmpType::Unknown(UnknownHeader { igmp_type: c, raw_byte_1: d, raw_bytes_4_7: q })
        }
    };
    witness!(sel == 1, "igmp_query_with_sources");
    witness!(sel == 4, "igmp_report_v3");
    witness!(sel == 6, "igmp_unknown");
    (t, w, n)
}

pub fn igmp() {
    let (t, w, n) = sym_igmp();
    let (pd, pn) = payload();
    let p = &pd[..pn];
    let mut m = Msg::<28>::new();
    put_hdr_payload(&mut m, &w, n, &pd, pn);
    let want = m.checksum();
    witness!(pn == 7, "odd_payload");
    witness!(want == 0, "checksum_zero");
    let h = IgmpHeader { igmp_type: t.clone(), checksum: any() };
    assert!(h.calc_checksum(p) == want);
    let h = IgmpHeader::with_checksum(t.clone(), p);
    assert!(h.checksum == want && h.igmp_type == t);
    assert!(h.header_len() == n);
    same_bytes(&IgmpHeader { igmp_type: t, checksum: 0 }.to_bytes(), &w, n);
}

// ---------------------------------------------------------------- TransportHeader dispatch

pub fn transport_ipv4_udp_icmp() {
    let src: [u8; 4] = any();
    let dst: [u8; 4] = any();
    let ip = Ipv4Header { source: src, destination: dst, ..Default::default() };
    let (pd, pn) = payload();
    let p = &pd[..pn];
    let sel: u8 = any();
    assume(sel < 3);
    witness!(sel == 0, "udp");
    witness!(sel == 1, "icmpv4");
    witness!(sel == 2, "icmpv6_in_ipv4");
    if sel == 0 {
        let (sp, dp, length): (u16, u16, u16) = (any(), any(), any());
        let mut t = TransportHeader::Udp(UdpHeader { source_port: sp, destination_port: dp, length, checksum: any() });
        let r = t.update_checksum_ipv4(&ip, p);
        let mut m = Msg::<28>::new();
        pseudo_v4(&mut m, src, dst, 17, length);
        m.u16(sp).u16(dp).u16(length).u16(0).put(p);
        let want = udp_want(&m);
        assert!(r.is_ok());
        assert!(t == TransportHeader::Udp(UdpHeader { source_port: sp, destination_port: dp, length, checksum: want }));
    } else if sel == 1 {
        let (ty, w, n) = sym_icmpv4();
        let mut t = TransportHeader::Icmpv4(Icmpv4Header { icmp_type: ty.clone(), checksum: any() });
        let r = t.update_checksum_ipv4(&ip, p);
        let mut m = Msg::<28>::new();
        put_hdr_payload(&mut m, &w, n, &pd, pn);
        assert!(r.is_ok());
        assert!(t == TransportHeader::Icmpv4(Icmpv4Header { icmp_type: ty, checksum: m.checksum() }));
    } else {
        // ICMPv6 has no defined checksum over an IPv4 pseudo header: documented error, header untouched
        let (ty, _) = sym_icmpv6();
        let c: u16 = any();
        let mut t = TransportHeader::Icmpv6(Icmpv6Header { icmp_type: ty, checksum: c });
        let r = t.update_checksum_ipv4(&ip, p);
        assert!(r == Err(err::packet::TransportChecksumError::Icmpv6InIpv4));
        assert!(t == TransportHeader::Icmpv6(Icmpv6Header { icmp_type: ty, checksum: c }));
    }
}

pub fn transport_ipv4_tcp() {
    let src: [u8; 4] = any();
    let dst: [u8; 4] = any();
    let ip = Ipv4Header { source: src, destination: dst, ..Default::default() };
    let (pd, pn) = payload();
    let tcp = sym_tcp();
    let hlen = tcp_hlen(&tcp);
    witness!(tcp.olen == 40 && pn == 7, "max_options_odd_payload");
    let mut m = Msg::<80>::new();
    pseudo_v4(&mut m, src, dst, 6, (hlen + pn) as u16);
    tcp_wire(&tcp, &mut m, &pd, pn);
    let mut want = tcp.h.clone();
    want.checksum = m.checksum();
    let mut t = TransportHeader::Tcp(tcp.h);
    let r = t.update_checksum_ipv4(&ip, &pd[..pn]);
    assert!(r.is_ok());
    assert!(t == TransportHeader::Tcp(want));
}

pub fn transport_ipv6_udp_icmp() {
    let src: [u8; 16] = any();
    let dst: [u8; 16] = any();
    let ip = Ipv6Header { source: src, destination: dst, ..Default::default() };
    let (pd, pn) = payload();
    let p = &pd[..pn];
    let sel: u8 = any();
    assume(sel < 3);
    witness!(sel == 0, "udp");
    witness!(sel == 1, "icmpv4_in_ipv6");
    witness!(sel == 2, "icmpv6");
    if sel == 0 {
        let (sp, dp, length): (u16, u16, u16) = (any(), any(), any());
        let mut t = TransportHeader::Udp(UdpHeader { source_port: sp, destination_port: dp, length, checksum: any() });
        let r = t.update_checksum_ipv6(&ip, p);
        let mut m = Msg::<56>::new();
        pseudo_v6(&mut m, src, dst, 17, u32::from(length));
        m.u16(sp).u16(dp).u16(length).u16(0).put(p);
        let want = udp_want(&m);
        assert!(r.is_ok());
        assert!(t == TransportHeader::Udp(UdpHeader { source_port: sp, destination_port: dp, length, checksum: want }));
    } else if sel == 1 {
        // ICMPv4 has no pseudo header (RFC 792), whatever carries it
        let (ty, w, n) = sym_icmpv4();
        let mut t = TransportHeader::Icmpv4(Icmpv4Header { icmp_type: ty.clone(), checksum: any() });
        let r = t.update_checksum_ipv6(&ip, p);
        let mut m = Msg::<28>::new();
        put_hdr_payload(&mut m, &w, n, &pd, pn);
        assert!(r.is_ok());
        assert!(t == TransportHeader::Icmpv4(Icmpv4Header { icmp_type: ty, checksum: m.checksum() }));
    } else {
        let (ty, w) = sym_icmpv6();
        let mut t = TransportHeader::Icmpv6(Icmpv6Header { icmp_type: ty, checksum: any() });
        let r = t.update_checksum_ipv6(&ip, p);
        let mut m = Msg::<68>::new();
        pseudo_v6(&mut m, src, dst, 58, (8 + pn) as u32);
        put_hdr_payload(&mut m, &w, 8, &pd, pn);
        assert!(r.is_ok());
        assert!(t == TransportHeader::Icmpv6(Icmpv6Header { icmp_type: ty, checksum: m.checksum() }));
    }
}

pub fn transport_ipv6_tcp() {
    let src: [u8; 16] = any();
    let dst: [u8; 16] = any();
    let ip = Ipv6Header { source: src, destination: dst, ..Default::default() };
    let (pd, pn) = payload();
    let tcp = sym_tcp();
    let hlen = tcp_hlen(&tcp);
    witness!(tcp.olen == 40 && pn == 7, "max_options_odd_payload");
    let mut m = Msg::<108>::new();
    pseudo_v6(&mut m, src, dst, 6, (hlen + pn) as u32);
    tcp_wire(&tcp, &mut m, &pd, pn);
    let mut want = tcp.h.clone();
    want.checksum = m.checksum();
    let mut t = TransportHeader::Tcp(tcp.h);
    let r = t.update_checksum_ipv6(&ip, &pd[..pn]);
    assert!(r.is_ok());
    assert!(t == TransportHeader::Tcp(want));
}

// ---------------------------------------------------------------- split independence (real code)

/// bound of the split harness
pub const SPLIT_N: usize = 24;

fn split64_case(data: &[u8; SPLIT_N], l: usize, k: usize, start: u64) {
    #[cfg(kani)]
    {
        ghost::reset();
        let first = k64::add_slice(start, &data[..k]);
        let got = k64::add_slice(first, &data[k..l]);
        // the two calls together are ONE front-to-back chunking of the whole string
        check_chunking(start, &data[..l], got, u64::MAX, 8);
    }
    #[cfg(not(kani))]
    native_probe(l, data, |s| {
        let two = k64::add_slice(k64::add_slice(start, &s[..k]), &s[k..]);
        assert!(fold64(two) == ref_ne(fold64(start), s), "C09 native: split add_slice != reference");
    });
}

/// successive additions of the two parts of a string split at ANY even offset consume
/// exactly the words of the whole string in order (kernels uninterpreted, as in layer 2);
/// by induction this covers any number of even splits
pub fn split64() {
    let len = any_le(SPLIT_N);
    let cut = any_le(SPLIT_N);
    assume(cut <= len && cut % 2 == 0);
    let data: [u8; SPLIT_N] = any();
    let start: u64 = any();
    witness!(len == SPLIT_N - 1 && cut == 10, "odd_string_cut_in_the_middle");
    witness!(len == SPLIT_N && cut == SPLIT_N, "cut_at_the_end");
    let mut l = 0usize;
    while l <= SPLIT_N {
        let mut k = 0usize;
        while k <= l {
            if l == len && k == cut {
                split64_case(&data, l, k, start);
            }
            k += 2;
        }
        l += 1;
    }
}

// ---------------------------------------------------------------- Sum16BitWords (public wrapper)

/// the accumulator type forwards to the module functions of the pointer-width's module
pub fn sum16_api() {
    let a2: [u8; 2] = any();
    let a4: [u8; 4] = any();
    let a8: [u8; 8] = any();
    let a16: [u8; 16] = any();
    let data: [u8; 9] = any();
    let n = any_le(9);
    let s = &data[..n];
    let x = Sum16BitWords::new().add_2bytes(a2).add_4bytes(a4).add_8bytes(a8).add_16bytes(a16).add_slice(s);
    let lo: [u8; 8] = [a16[0], a16[1], a16[2], a16[3], a16[4], a16[5], a16[6], a16[7]];
    let hi: [u8; 8] = [a16[8], a16[9], a16[10], a16[11], a16[12], a16[13], a16[14], a16[15]];
    #[cfg(target_pointer_width = "64")]
    let (c, z) = {
        let y = k64::add_2bytes(0, a2);
        let y = k64::add_4bytes(y, a4);
        let y = k64::add_8bytes(y, a8);
        let y = k64::add_8bytes(k64::add_8bytes(y, lo), hi);
        let y = k64::add_slice(y, s);
        (k64::ones_complement(y), k64::ones_complement_with_no_zero(y))
    };
    #[cfg(not(target_pointer_width = "64"))]
    let (c, z) = {
        let h = |v: &[u8; 8], o: usize| [v[o], v[o + 1], v[o + 2], v[o + 3]];
        let y = k32::add_2bytes(0, a2);
        let y = k32::add_4bytes(y, a4);
        let y = k32::add_4bytes(k32::add_4bytes(y, h(&a8, 0)), h(&a8, 4));
        let y = k32::add_4bytes(k32::add_4bytes(y, h(&lo, 0)), h(&lo, 4));
        let y = k32::add_4bytes(k32::add_4bytes(y, h(&hi, 0)), h(&hi, 4));
        let y = k32::add_slice(y, s);
        (k32::ones_complement(y), k32::ones_complement_with_no_zero(y))
    };
    witness!(n == 9, "slice_with_8_byte_word_and_tail");
    assert!(x.ones_complement() == c);
    assert!(x.to_ones_complement_with_no_zero() == z);
    assert!(Sum16BitWords::new().ones_complement() == 0xffff);
    assert!(Sum16BitWords::default() == Sum16BitWords::new());
}

/// no stub, no model: real kernels, real add_slice, against the literal RFC 1071 routine for
/// short strings (what the layered argument must reproduce where a direct query is feasible)
pub const E2E_N: usize = 8;
pub fn e2e_small() {
    let data: [u8; E2E_N] = any();
    let n = any_le(E2E_N);
    witness!(n == E2E_N, "max_len");
    witness!(n == E2E_N - 1, "odd_len");
    let s = &data[..n];
    assert!(Sum16BitWords::new().add_slice(s).ones_complement().to_be() == rfc1071(s));
    assert!(k32::ones_complement(k32::add_slice(0, s)).to_be() == rfc1071(s));
}

// ---------------------------------------------------------------- checksums filled in on write

pub fn ipv4_write() {
    let v = sym_ipv4();
    let mut m = Msg::<60>::new();
    ipv4_wire(&v, &mut m);
    let want = m.checksum();
    let mut out = [0u8; 60];
    let left = {
        let mut cur = &mut out[..];
        let r = v.h.write(&mut cur);
        assert!(r.is_ok());
        cur.len()
    };
    witness!(v.olen == 40, "max_options");
    assert!(60 - left == 20 + v.olen);
    assert!(out[10] == (want >> 8) as u8 && out[11] == want as u8);
}

fn be16(b: &[u8], i: usize) -> u16 {
    u16::from_be_bytes([b[i], b[i + 1]])
}

/// PacketBuilder IPv4 + UDP: both checksums in the emitted bytes are the RFC values over the
/// emitted bytes (receiver's view: everything is read back from the output)
pub fn builder_ipv4_udp() {
    let src: [u8; 4] = any();
    let dst: [u8; 4] = any();
    let ttl: u8 = any();
    let sp: u16 = any();
    let dp: u16 = any();
    let (pd, pn) = payload();
    let b = PacketBuilder::ipv4(src, dst, ttl).udp(sp, dp);
    let mut out = [0u8; 28 + PAY_N];
    let left = {
        let mut cur = &mut out[..];
        let r = b.write(&mut cur, &pd[..pn]);
        assert!(r.is_ok());
        cur.len()
    };
    witness!(pn == 7, "odd_payload");
    assert!(28 + PAY_N - left == 28 + pn);
    // IPv4 header checksum over the 20 emitted header bytes
    let mut h = Msg::<20>::new();
    h.put(&out[..10]).u16(0).put(&out[12..20]);
    assert!(be16(&out, 10) == h.checksum());
    assert!(out[0] == 0x45 && out[9] == 17 && out[12..16] == src && out[16..20] == dst);
    assert!(be16(&out, 2) == 28 + pn as u16);
    // UDP checksum over pseudo header, emitted UDP header and payload
    assert!(be16(&out, 20) == sp && be16(&out, 22) == dp && be16(&out, 24) == 8 + pn as u16);
    let mut m = Msg::<28>::new();
    pseudo_v4(&mut m, src, dst, 17, be16(&out, 24));
    m.put(&out[20..26]).u16(0).put(&pd[..pn]);
    assert!(be16(&out, 26) == udp_want(&m));
    assert!(be16(&out, 26) != 0);
}

crate::harnesses! {
    c09_k64_add2 = k64_add2; unwind 2,
    c09_k64_limb0 = k64_limb0; unwind 2,
    c09_k64_limb1 = k64_limb1; unwind 2,
    c09_k64_limb2 = k64_limb2; unwind 2,
    c09_k64_limb3 = k64_limb3; unwind 2,
    c09_k64_split8 = k64_split8; unwind 2,
    c09_k64_add4_widen = k64_add4_widen; unwind 2,
    c09_k64_words_and_reduced = k64_words_and_reduced; unwind 2,
    c09_k_no_zero = k_no_zero; unwind 2,
    c09_k32_add2 = k32_add2; unwind 2,
    c09_k32_limb0 = k32_limb0; unwind 2,
    c09_k32_limb1 = k32_limb1; unwind 2,
    c09_k32_split4 = k32_split4; unwind 2,
    #[kani::stub(etherparse::checksum::u64_16bit_word::add_8bytes, crate::c09::g64_add8)]
    #[kani::stub(etherparse::checksum::u64_16bit_word::add_4bytes, crate::c09::g64_add4)]
    #[kani::stub(etherparse::checksum::u64_16bit_word::add_2bytes, crate::c09::g64_add2)]
    c09_slice64_lo = slice64_lo; unwind 43,
    #[kani::stub(etherparse::checksum::u64_16bit_word::add_8bytes, crate::c09::g64_add8)]
    #[kani::stub(etherparse::checksum::u64_16bit_word::add_4bytes, crate::c09::g64_add4)]
    #[kani::stub(etherparse::checksum::u64_16bit_word::add_2bytes, crate::c09::g64_add2)]
    c09_slice64_hi = slice64_hi; unwind 27,
    #[kani::stub(etherparse::checksum::u32_16bit_word::add_4bytes, crate::c09::g32_add4)]
    #[kani::stub(etherparse::checksum::u32_16bit_word::add_2bytes, crate::c09::g32_add2)]
    c09_slice32_lo = slice32_lo; unwind 43,
    #[kani::stub(etherparse::checksum::u32_16bit_word::add_4bytes, crate::c09::g32_add4)]
    #[kani::stub(etherparse::checksum::u32_16bit_word::add_2bytes, crate::c09::g32_add2)]
    c09_slice32_hi = slice32_hi; unwind 27,
    c09_ref_step_lemmas = ref_step_lemmas; unwind 4,
    c09_ref_matches_rfc1071 = ref_matches_rfc1071; unwind 10,
    c09_ref_split = ref_split; unwind 14,
    #[kani::stub(etherparse::checksum::u64_16bit_word::add_8bytes, crate::c09::m64_add8)]
    #[kani::stub(etherparse::checksum::u64_16bit_word::add_4bytes, crate::c09::m64_add4)]
    #[kani::stub(etherparse::checksum::u64_16bit_word::add_2bytes, crate::c09::m64_add2)]
    #[kani::stub(etherparse::checksum::u64_16bit_word::add_slice, crate::c09::m64_add_slice_q)]
    c09_ipv4_header = ipv4_header; unwind 32,
    #[kani::stub(etherparse::checksum::u64_16bit_word::add_8bytes, crate::c09::m64_add8)]
    #[kani::stub(etherparse::checksum::u64_16bit_word::add_4bytes, crate::c09::m64_add4)]
    #[kani::stub(etherparse::checksum::u64_16bit_word::add_2bytes, crate::c09::m64_add2)]
    #[kani::stub(etherparse::checksum::u64_16bit_word::add_slice, crate::c09::m64_add_slice_q)]
    c09_udp_ipv4 = udp_ipv4; unwind 30,
    #[kani::stub(etherparse::checksum::u64_16bit_word::add_8bytes, crate::c09::m64_add8)]
    #[kani::stub(etherparse::checksum::u64_16bit_word::add_4bytes, crate::c09::m64_add4)]
    #[kani::stub(etherparse::checksum::u64_16bit_word::add_2bytes, crate::c09::m64_add2)]
    #[kani::stub(etherparse::checksum::u64_16bit_word::add_slice, crate::c09::m64_add_slice_q)]
    c09_udp_ipv6 = udp_ipv6; unwind 30,
    #[kani::stub(etherparse::checksum::u64_16bit_word::add_8bytes, crate::c09::m64_add8)]
    #[kani::stub(etherparse::checksum::u64_16bit_word::add_4bytes, crate::c09::m64_add4)]
    #[kani::stub(etherparse::checksum::u64_16bit_word::add_2bytes, crate::c09::m64_add2)]
    #[kani::stub(etherparse::checksum::u64_16bit_word::add_slice, crate::c09::m64_add_slice_q)]
    c09_tcp_ipv4 = tcp_ipv4; unwind 56,
    #[kani::stub(etherparse::checksum::u64_16bit_word::add_8bytes, crate::c09::m64_add8)]
    #[kani::stub(etherparse::checksum::u64_16bit_word::add_4bytes, crate::c09::m64_add4)]
    #[kani::stub(etherparse::checksum::u64_16bit_word::add_2bytes, crate::c09::m64_add2)]
    #[kani::stub(etherparse::checksum::u64_16bit_word::add_slice, crate::c09::m64_add_slice_q)]
    c09_tcp_ipv6 = tcp_ipv6; unwind 56,
    #[kani::stub(etherparse::checksum::u64_16bit_word::add_8bytes, crate::c09::m64_add8)]
    #[kani::stub(etherparse::checksum::u64_16bit_word::add_4bytes, crate::c09::m64_add4)]
    #[kani::stub(etherparse::checksum::u64_16bit_word::add_2bytes, crate::c09::m64_add2)]
    #[kani::stub(etherparse::checksum::u64_16bit_word::add_slice, crate::c09::m64_add_slice)]
    c09_tcp_header_slice_ipv4 = tcp_header_slice_ipv4; unwind 70,
    #[kani::stub(etherparse::checksum::u64_16bit_word::add_8bytes, crate::c09::m64_add8)]
    #[kani::stub(etherparse::checksum::u64_16bit_word::add_4bytes, crate::c09::m64_add4)]
    #[kani::stub(etherparse::checksum::u64_16bit_word::add_2bytes, crate::c09::m64_add2)]
    #[kani::stub(etherparse::checksum::u64_16bit_word::add_slice, crate::c09::m64_add_slice)]
    c09_tcp_header_slice_ipv6 = tcp_header_slice_ipv6; unwind 70,
    #[kani::stub(etherparse::checksum::u64_16bit_word::add_8bytes, crate::c09::m64_add8)]
    #[kani::stub(etherparse::checksum::u64_16bit_word::add_4bytes, crate::c09::m64_add4)]
    #[kani::stub(etherparse::checksum::u64_16bit_word::add_2bytes, crate::c09::m64_add2)]
    #[kani::stub(etherparse::checksum::u64_16bit_word::add_slice, crate::c09::m64_add_slice)]
    c09_tcp_slice_ipv4 = tcp_slice_ipv4; unwind 70,
    #[kani::stub(etherparse::checksum::u64_16bit_word::add_8bytes, crate::c09::m64_add8)]
    #[kani::stub(etherparse::checksum::u64_16bit_word::add_4bytes, crate::c09::m64_add4)]
    #[kani::stub(etherparse::checksum::u64_16bit_word::add_2bytes, crate::c09::m64_add2)]
    #[kani::stub(etherparse::checksum::u64_16bit_word::add_slice, crate::c09::m64_add_slice)]
    c09_tcp_slice_ipv6 = tcp_slice_ipv6; unwind 70,
    #[kani::stub(etherparse::checksum::u64_16bit_word::add_8bytes, crate::c09::m64_add8)]
    #[kani::stub(etherparse::checksum::u64_16bit_word::add_4bytes, crate::c09::m64_add4)]
    #[kani::stub(etherparse::checksum::u64_16bit_word::add_2bytes, crate::c09::m64_add2)]
    #[kani::stub(etherparse::checksum::u64_16bit_word::add_slice, crate::c09::m64_add_slice)]
    c09_icmpv4 = icmpv4; unwind 30,
    #[kani::stub(etherparse::checksum::u64_16bit_word::add_8bytes, crate::c09::m64_add8)]
    #[kani::stub(etherparse::checksum::u64_16bit_word::add_4bytes, crate::c09::m64_add4)]
    #[kani::stub(etherparse::checksum::u64_16bit_word::add_2bytes, crate::c09::m64_add2)]
    #[kani::stub(etherparse::checksum::u64_16bit_word::add_slice, crate::c09::m64_add_slice)]
    c09_icmpv6 = icmpv6; unwind 36,
    #[kani::stub(etherparse::checksum::u64_16bit_word::add_8bytes, crate::c09::m64_add8)]
    #[kani::stub(etherparse::checksum::u64_16bit_word::add_4bytes, crate::c09::m64_add4)]
    #[kani::stub(etherparse::checksum::u64_16bit_word::add_2bytes, crate::c09::m64_add2)]
    #[kani::stub(etherparse::checksum::u64_16bit_word::add_slice, crate::c09::m64_add_slice)]
    c09_icmpv6_valid = icmpv6_valid; unwind 30,
    #[kani::stub(etherparse::checksum::u64_16bit_word::add_8bytes, crate::c09::m64_add8)]
    #[kani::stub(etherparse::checksum::u64_16bit_word::add_4bytes, crate::c09::m64_add4)]
    #[kani::stub(etherparse::checksum::u64_16bit_word::add_2bytes, crate::c09::m64_add2)]
    #[kani::stub(etherparse::checksum::u64_16bit_word::add_slice, crate::c09::m64_add_slice)]
    c09_igmp = igmp; unwind 30,
    #[kani::stub(etherparse::checksum::u64_16bit_word::add_8bytes, crate::c09::m64_add8)]
    #[kani::stub(etherparse::checksum::u64_16bit_word::add_4bytes, crate::c09::m64_add4)]
    #[kani::stub(etherparse::checksum::u64_16bit_word::add_2bytes, crate::c09::m64_add2)]
    #[kani::stub(etherparse::checksum::u64_16bit_word::add_slice, crate::c09::m64_add_slice)]
    c09_transport_ipv4_udp_icmp = transport_ipv4_udp_icmp; unwind 30,
    #[kani::stub(etherparse::checksum::u64_16bit_word::add_8bytes, crate::c09::m64_add8)]
    #[kani::stub(etherparse::checksum::u64_16bit_word::add_4bytes, crate::c09::m64_add4)]
    #[kani::stub(etherparse::checksum::u64_16bit_word::add_2bytes, crate::c09::m64_add2)]
    #[kani::stub(etherparse::checksum::u64_16bit_word::add_slice, crate::c09::m64_add_slice)]
    c09_transport_ipv4_tcp = transport_ipv4_tcp; unwind 56,
    #[kani::stub(etherparse::checksum::u64_16bit_word::add_8bytes, crate::c09::m64_add8)]
    #[kani::stub(etherparse::checksum::u64_16bit_word::add_4bytes, crate::c09::m64_add4)]
    #[kani::stub(etherparse::checksum::u64_16bit_word::add_2bytes, crate::c09::m64_add2)]
    #[kani::stub(etherparse::checksum::u64_16bit_word::add_slice, crate::c09::m64_add_slice)]
    c09_transport_ipv6_udp_icmp = transport_ipv6_udp_icmp; unwind 36,
    #[kani::stub(etherparse::checksum::u64_16bit_word::add_8bytes, crate::c09::m64_add8)]
    #[kani::stub(etherparse::checksum::u64_16bit_word::add_4bytes, crate::c09::m64_add4)]
    #[kani::stub(etherparse::checksum::u64_16bit_word::add_2bytes, crate::c09::m64_add2)]
    #[kani::stub(etherparse::checksum::u64_16bit_word::add_slice, crate::c09::m64_add_slice)]
    c09_transport_ipv6_tcp = transport_ipv6_tcp; unwind 56,
    #[kani::stub(etherparse::checksum::u64_16bit_word::add_8bytes, crate::c09::g64_add8)]
    #[kani::stub(etherparse::checksum::u64_16bit_word::add_4bytes, crate::c09::g64_add4)]
    #[kani::stub(etherparse::checksum::u64_16bit_word::add_2bytes, crate::c09::g64_add2)]
    c09_split64 = split64; unwind 27,
    c09_sum16_api = sum16_api; unwind 8,
    c09_e2e_small = e2e_small; unwind 8,
    #[kani::stub(etherparse::checksum::u64_16bit_word::add_8bytes, crate::c09::m64_add8)]
    #[kani::stub(etherparse::checksum::u64_16bit_word::add_4bytes, crate::c09::m64_add4)]
    #[kani::stub(etherparse::checksum::u64_16bit_word::add_2bytes, crate::c09::m64_add2)]
    #[kani::stub(etherparse::checksum::u64_16bit_word::add_slice, crate::c09::m64_add_slice)]
    c09_ipv4_write = ipv4_write; unwind 32,
    #[kani::stub(etherparse::checksum::u64_16bit_word::add_8bytes, crate::c09::m64_add8)]
    #[kani::stub(etherparse::checksum::u64_16bit_word::add_4bytes, crate::c09::m64_add4)]
    #[kani::stub(etherparse::checksum::u64_16bit_word::add_2bytes, crate::c09::m64_add2)]
    #[kani::stub(etherparse::checksum::u64_16bit_word::add_slice, crate::c09::m64_add_slice)]
    c09_builder_ipv4_udp = builder_ipv4_udp; unwind 30,
}
