//! C17 - typed control-message views (ICMPv4, ICMPv6 + NDP, IGMP, ARP) follow their formats.
//!
//! Every oracle below is written from the wire formats and code tables of RFC 792 / 1122 / 1812
//! / 1191 (ICMPv4), RFC 4443 / 4861 / 7112 / 8754 / 8883 (ICMPv6, NDP), RFC 2236 / 3376 / 9776
//! (IGMP) and RFC 826 (ARP) with literal numbers; no constant and no decoding helper of
//! etherparse is used on the oracle side. Where the RFCs are silent the documented conventions
//! of the crate are used (what is "header" and what is "payload", `Unknown`/`Raw` fall-back,
//! which error value names which fault).
//!
//! Inputs: the bytes are symbolic, the length is symbolic (`len <= N`), the decoder sees them
//! in a heap object of exactly `len` bytes (`Tight`), the oracle reads the source array.
//! Exceptions, because the solver cannot afford the symbolic-size object there: the multi-step
//! NDP iterator harnesses and the quick-tier twin of the single-step one place the input
//! end-aligned in its own object (`tail_copy`; reads past the end still fail), and the harnesses
//! that look into the *owned* `ArpPacket` use concrete address sizes on a plain array (a copy
//! of symbolic length followed by a read of the copy never finished).
//! Positions are compared as (offset, length) pairs relative to the input start, never by
//! content, so a result that points at the wrong bytes with equal content cannot pass.

use crate::sym::{any, any_le, assume};
use crate::tight::{inside, off, Tight};
use crate::witness;
use core::net::Ipv6Addr;
use etherparse::err::{Layer, LenError};
use etherparse::icmpv6::{
    Icmpv6Payload, Icmpv6PayloadSlice, MtuOptionSlice, NdpOptionHeader, NdpOptionReadError,
    NdpOptionSlice, NdpOptionType, NdpOptionsIterator, NeighborAdvertisementPayloadSlice,
    NeighborSolicitationPayloadSlice, PrefixInformation, PrefixInformationOptionSlice,
    RedirectPayloadSlice, RedirectedHeaderOptionSlice, RouterAdvertisementPayloadSlice,
    RouterSolicitationPayloadSlice, SourceLinkLayerAddressOptionSlice,
    TargetLinkLayerAddressOptionSlice, UnknownNdpOptionSlice,
};
use etherparse::*;

// ------------------------------------------------------------------------------ helpers

/// the decoder must accept: `Ok(v)` -> `v`, `Err` -> failed assertion with a readable message
/// (instead of the anonymous `unwrap_failed` of `expect`)
macro_rules! must_accept {
    ($e:expr, $msg:literal) => {
        match $e {
            Ok(v) => v,
            Err(_) => {
                assert!(false, $msg);
                unreachable!()
            }
        }
    };
}

/// symbolic bytes + symbolic length + the exact-size copy handed to the decoder
fn input<const N: usize>() -> ([u8; N], usize, Tight<N>) {
    let data: [u8; N] = any();
    let len = any_le(N);
    let buf = Tight::<N>::from_bytes(&data[..len]);
    (data, len, buf)
}

/// End-aligned placement (used where the exact-size heap object is too expensive for the
/// solver): the decoder input is `&data[N - len..]`, so it ends exactly where the object `data`
/// ends and every read past the end of the input fails a pointer check; reads in front of the
/// input stay inside `data` and are NOT flagged (the `Tight` harnesses of the same decoders
/// cover that side). Returns the start-aligned copy of those bytes for the oracle.
fn tail_copy<const N: usize>(data: &[u8; N], len: usize) -> [u8; N] {
    let base = N - len;
    let mut d = [0u8; N];
    let mut i = 0;
    while i < N {
        if i < len {
            d[i] = data[base + i];
        }
        i += 1;
    }
    d
}

/// `sub` is exactly the byte range `[o, o + l)` of `outer`
fn at(outer: &[u8], sub: &[u8], o: usize, l: usize) -> bool {
    inside(outer, sub) && off(outer, sub) == o && sub.len() == l
}

fn be16(a: u8, b: u8) -> u16 {
    ((a as u16) << 8) | (b as u16)
}

fn be32(a: u8, b: u8, c: u8, d: u8) -> u32 {
    ((a as u32) << 24) | ((b as u32) << 16) | ((c as u32) << 8) | (d as u32)
}

/// "the slice itself is too short" error of `layer`
fn short(required_len: usize, len: usize, layer: Layer) -> LenError {
    LenError {
        required_len,
        len,
        len_source: LenSource::Slice,
        layer,
        layer_start_offset: 0,
    }
}

// ------------------------------------------------------------------------------ ICMPv4

const N_ICMP4: usize = 28;

/// RFC 792 (types 0, 3, 5, 8, 11, 12, 13, 14), RFC 1122 3.2.2.1 (unreachable codes 6-12),
/// RFC 1812 5.2.7.1 (codes 13-15), RFC 1191 (next-hop MTU in the low 16 bits of word 2 of
/// code 4), RFC 1108 / IANA (parameter problem codes 1, 2). Everything else: raw.
/// `d` must hold at least 8 bytes (20 for an accepted timestamp message).
fn ref_icmpv4_type(d: &[u8; N_ICMP4]) -> Icmpv4Type {
    use etherparse::icmpv4::*;
    let (t, c) = (d[0], d[1]);
    let w = [d[4], d[5], d[6], d[7]];
    let echo = IcmpEchoHeader {
        id: be16(d[4], d[5]),
        seq: be16(d[6], d[7]),
    };
    let ts = TimestampMessage {
        id: be16(d[4], d[5]),
        seq: be16(d[6], d[7]),
        originate_timestamp: be32(d[8], d[9], d[10], d[11]),
        receive_timestamp: be32(d[12], d[13], d[14], d[15]),
        transmit_timestamp: be32(d[16], d[17], d[18], d[19]),
    };
    let unknown = Icmpv4Type::Unknown {
        type_u8: t,
        code_u8: c,
        bytes5to8: w,
    };
    match t {
        0 if c == 0 => Icmpv4Type::EchoReply(echo),
        3 => {
            use DestUnreachableHeader::*;
            let h = match c {
                0 => Network,
                1 => Host,
                2 => Protocol,
                3 => Port,
                4 => FragmentationNeeded {
                    next_hop_mtu: be16(d[6], d[7]),
                },
                5 => SourceRouteFailed,
                6 => NetworkUnknown,
                7 => HostUnknown,
                8 => Isolated,
                9 => NetworkProhibited,
                10 => HostProhibited,
                11 => TosNetwork,
                12 => TosHost,
                13 => FilterProhibited,
                14 => HostPrecedenceViolation,
                15 => PrecedenceCutoff,
                _ => return unknown,
            };
            Icmpv4Type::DestinationUnreachable(h)
        }
        5 => {
            use RedirectCode::*;
            let code = match c {
                0 => RedirectForNetwork,
                1 => RedirectForHost,
                2 => RedirectForTypeOfServiceAndNetwork,
                3 => RedirectForTypeOfServiceAndHost,
                _ => return unknown,
            };
            Icmpv4Type::Redirect(RedirectHeader {
                code,
                gateway_internet_address: w,
            })
        }
        8 if c == 0 => Icmpv4Type::EchoRequest(echo),
        11 => match c {
            0 => Icmpv4Type::TimeExceeded(TimeExceededCode::TtlExceededInTransit),
            1 => Icmpv4Type::TimeExceeded(TimeExceededCode::FragmentReassemblyTimeExceeded),
            _ => unknown,
        },
        12 => match c {
            0 => Icmpv4Type::ParameterProblem(ParameterProblemHeader::PointerIndicatesError(d[4])),
            1 => Icmpv4Type::ParameterProblem(ParameterProblemHeader::MissingRequiredOption),
            2 => Icmpv4Type::ParameterProblem(ParameterProblemHeader::BadLength),
            _ => unknown,
        },
        13 if c == 0 => Icmpv4Type::TimestampRequest(ts),
        14 if c == 0 => Icmpv4Type::TimestampReply(ts),
        _ => unknown,
    }
}

/// is (type, code) one of the typed (non-raw) ICMPv4 messages?
fn icmpv4_is_typed(t: u8, c: u8) -> bool {
    match t {
        0 | 8 | 13 | 14 => c == 0,
        3 => c <= 15,
        5 => c <= 3,
        11 => c <= 1,
        12 => c <= 2,
        _ => false,
    }
}

/// expected rejection of an ICMPv4 message: shorter than the 8 byte header, or a timestamp /
/// timestamp reply (RFC 792: exactly 20 bytes) of any other length
fn ref_icmpv4_reject(d: &[u8; N_ICMP4], len: usize) -> Option<LenError> {
    if len < 8 {
        return Some(short(8, len, Layer::Icmpv4));
    }
    if d[0] == 13 && d[1] == 0 && len != 20 {
        return Some(short(20, len, Layer::Icmpv4Timestamp));
    }
    if d[0] == 14 && d[1] == 0 && len != 20 {
        return Some(short(20, len, Layer::Icmpv4TimestampReply));
    }
    None
}

/// `Icmpv4Slice`: acceptance, every accessor, type/code dispatch over all 65536 pairs
pub fn icmpv4_slice() {
    let (d, len, buf) = input::<N_ICMP4>();
    let s = buf.slice();
    let want_err = ref_icmpv4_reject(&d, len);
    match Icmpv4Slice::from_slice(s) {
        Err(e) => {
            witness!(len < 8, "icmpv4_too_short");
            witness!(len >= 8 && d[0] == 13, "icmpv4_timestamp_wrong_size");
            witness!(len >= 8 && d[0] == 14, "icmpv4_timestamp_reply_wrong_size");
            assert!(want_err.is_some());
            assert!(Some(e) == want_err);
        }
        Ok(v) => {
            assert!(want_err.is_none());
            let (t, c) = (d[0], d[1]);
            let is_ts = (t == 13 || t == 14) && c == 0;
            let hl = if is_ts { 20 } else { 8 };
            assert!(at(s, v.slice(), 0, len));
            assert!(v.type_u8() == t);
            assert!(v.code_u8() == c);
            assert!(v.checksum() == be16(d[2], d[3]));
            assert!(v.bytes5to8() == [d[4], d[5], d[6], d[7]]);
            assert!(v.header_len() == hl);
            // fixed / variable split: everything behind the header is payload
            assert!(at(s, v.payload(), hl, len - hl));
            let want = ref_icmpv4_type(&d);
            let got = v.icmp_type();
            assert!(got == want);
            // raw fall-back exactly for the pairs outside the table
            let got_unknown = matches!(got, Icmpv4Type::Unknown { .. });
            assert!(got_unknown == !icmpv4_is_typed(t, c));
            assert!(got.header_len() == hl);
            assert!(got.fixed_payload_size() == if is_ts { Some(0) } else { None });
            let h = v.header();
            assert!(h.icmp_type == want);
            assert!(h.checksum == be16(d[2], d[3]));
            witness!(is_ts && t == 13, "icmpv4_timestamp_ok");
            witness!(is_ts && t == 14, "icmpv4_timestamp_reply_ok");
            witness!(t == 3 && c == 4, "icmpv4_frag_needed");
            witness!(t == 3 && c == 16, "icmpv4_unreachable_unassigned_code");
            witness!(t == 0 && c == 1, "icmpv4_echo_reply_nonzero_code_is_raw");
            witness!(t == 13 && c == 1 && len == 9, "icmpv4_timestamp_nonzero_code_is_raw");
            witness!(t == 12 && c == 0, "icmpv4_param_problem_pointer");
            witness!(t == 5 && c == 3, "icmpv4_redirect_tos_host");
            witness!(t == 42 && len == N_ICMP4, "icmpv4_unassigned_type_with_payload");
        }
    }
}

/// `Icmpv4Header::from_slice`: same acceptance, same dispatch, rest = bytes behind the header
pub fn icmpv4_header() {
    let (d, len, buf) = input::<N_ICMP4>();
    let s = buf.slice();
    let want_err = ref_icmpv4_reject(&d, len);
    match Icmpv4Header::from_slice(s) {
        Err(e) => {
            witness!(len >= 8, "icmpv4_header_timestamp_rejected");
            assert!(Some(e) == want_err);
        }
        Ok((h, rest)) => {
            assert!(want_err.is_none());
            let is_ts = (d[0] == 13 || d[0] == 14) && d[1] == 0;
            let hl = if is_ts { 20 } else { 8 };
            assert!(h.icmp_type == ref_icmpv4_type(&d));
            assert!(h.checksum == be16(d[2], d[3]));
            assert!(h.header_len() == hl);
            assert!(h.fixed_payload_size() == if is_ts { Some(0) } else { None });
            assert!(at(s, rest, hl, len - hl));
            witness!(is_ts, "icmpv4_header_timestamp_ok");
            witness!(!is_ts && len > 8, "icmpv4_header_with_payload");
        }
    }
}

// ------------------------------------------------------------------------------ ICMPv6

const N_ICMP6: usize = 48;

/// RFC 4443 (types 1-4, 128, 129; unreachable codes 0-6, time exceeded 0-1, parameter problem
/// 0-2), parameter problem codes 3 (RFC 7112), 4 (RFC 8754), 5-10 (RFC 8883), RFC 4861 (133-137,
/// "ICMP Code is 0"; RA word 2 = cur hop limit, M, O, router lifetime; NA word 2 = R, S, O).
fn ref_icmpv6_type(d: &[u8; N_ICMP6]) -> Icmpv6Type {
    use etherparse::icmpv6::*;
    let (t, c) = (d[0], d[1]);
    let w = [d[4], d[5], d[6], d[7]];
    let w32 = be32(d[4], d[5], d[6], d[7]);
    let echo = IcmpEchoHeader {
        id: be16(d[4], d[5]),
        seq: be16(d[6], d[7]),
    };
    let unknown = Icmpv6Type::Unknown {
        type_u8: t,
        code_u8: c,
        bytes5to8: w,
    };
    match t {
        1 => {
            use DestUnreachableCode::*;
            Icmpv6Type::DestinationUnreachable(match c {
                0 => NoRoute,
                1 => Prohibited,
                2 => BeyondScope,
                3 => Address,
                4 => Port,
                5 => SourceAddressFailedPolicy,
                6 => RejectRoute,
                _ => return unknown,
            })
        }
        2 if c == 0 => Icmpv6Type::PacketTooBig { mtu: w32 },
        3 => match c {
            0 => Icmpv6Type::TimeExceeded(TimeExceededCode::HopLimitExceeded),
            1 => Icmpv6Type::TimeExceeded(TimeExceededCode::FragmentReassemblyTimeExceeded),
            _ => unknown,
        },
        4 => {
            use ParameterProblemCode::*;
            let code = match c {
                0 => ErroneousHeaderField,
                1 => UnrecognizedNextHeader,
                2 => UnrecognizedIpv6Option,
                3 => Ipv6FirstFragmentIncompleteHeaderChain,
                4 => SrUpperLayerHeaderError,
                5 => UnrecognizedNextHeaderByIntermediateNode,
                6 => ExtensionHeaderTooBig,
                7 => ExtensionHeaderChainTooLong,
                8 => TooManyExtensionHeaders,
                9 => TooManyOptionsInExtensionHeader,
                10 => OptionTooBig,
                _ => return unknown,
            };
            Icmpv6Type::ParameterProblem(ParameterProblemHeader { code, pointer: w32 })
        }
        128 if c == 0 => Icmpv6Type::EchoRequest(echo),
        129 if c == 0 => Icmpv6Type::EchoReply(echo),
        133 if c == 0 => Icmpv6Type::RouterSolicitation,
        134 if c == 0 => Icmpv6Type::RouterAdvertisement(RouterAdvertisementHeader {
            cur_hop_limit: d[4],
            managed_address_config: d[5] & 0x80 != 0,
            other_config: d[5] & 0x40 != 0,
            router_lifetime: be16(d[6], d[7]),
        }),
        135 if c == 0 => Icmpv6Type::NeighborSolicitation,
        136 if c == 0 => Icmpv6Type::NeighborAdvertisement(NeighborAdvertisementHeader {
            router: d[4] & 0x80 != 0,
            solicited: d[4] & 0x40 != 0,
            r#override: d[4] & 0x20 != 0,
        }),
        137 if c == 0 => Icmpv6Type::Redirect,
        _ => unknown,
    }
}

/// kinds of structured ICMPv6 payloads (0 = raw)
const K_RAW: u8 = 0;
const K_UNREACH: u8 = 1;
const K_TOO_BIG: u8 = 2;
const K_TIME_EXCEEDED: u8 = 3;
const K_PARAM_PROBLEM: u8 = 4;
const K_ECHO_REQUEST: u8 = 5;
const K_ECHO_REPLY: u8 = 6;
const K_RS: u8 = 7;
const K_RA: u8 = 8;
const K_NS: u8 = 9;
const K_NA: u8 = 10;
const K_REDIRECT: u8 = 11;

/// (type, code) -> payload kind, from the same RFC tables as `ref_icmpv6_type`
fn ref_icmpv6_kind(t: u8, c: u8) -> u8 {
    match t {
        1 if c <= 6 => K_UNREACH,
        2 if c == 0 => K_TOO_BIG,
        3 if c <= 1 => K_TIME_EXCEEDED,
        4 if c <= 10 => K_PARAM_PROBLEM,
        128 if c == 0 => K_ECHO_REQUEST,
        129 if c == 0 => K_ECHO_REPLY,
        133 if c == 0 => K_RS,
        134 if c == 0 => K_RA,
        135 if c == 0 => K_NS,
        136 if c == 0 => K_NA,
        137 if c == 0 => K_REDIRECT,
        _ => K_RAW,
    }
}

/// bytes of the payload (behind the 8 byte ICMPv6 header) that have a fixed layout:
/// RFC 4861 4.1 none, 4.2 reachable time + retrans timer, 4.3 / 4.4 target address,
/// 4.5 target + destination address
fn ref_icmpv6_fixed_part(kind: u8) -> usize {
    match kind {
        K_RA => 8,
        K_NS | K_NA => 16,
        K_REDIRECT => 32,
        _ => 0,
    }
}

/// `Icmpv6Slice` + `Icmpv6Header::from_slice`: acceptance, accessors, (type, code) dispatch
pub fn icmpv6_slice() {
    let (d, len, buf) = input::<N_ICMP6>();
    let s = buf.slice();
    let r = Icmpv6Slice::from_slice(s);
    let rh = Icmpv6Header::from_slice(s);
    if len < 8 {
        witness!(len == 7, "icmpv6_too_short");
        assert!(r.err() == Some(short(8, len, Layer::Icmpv6)));
        assert!(rh.err() == Some(short(8, len, Layer::Icmpv6)));
        return;
    }
    let v = must_accept!(r, "Icmpv6Slice rejected a complete 8 byte header");
    let (t, c) = (d[0], d[1]);
    assert!(at(s, v.slice(), 0, len));
    assert!(v.type_u8() == t);
    assert!(v.code_u8() == c);
    assert!(v.checksum() == be16(d[2], d[3]));
    assert!(v.bytes5to8() == [d[4], d[5], d[6], d[7]]);
    assert!(v.header_len() == 8);
    assert!(at(s, v.payload(), 8, len - 8));
    let want = ref_icmpv6_type(&d);
    let got = v.icmp_type();
    assert!(got == want);
    let got_unknown = matches!(got, Icmpv6Type::Unknown { .. });
    assert!(got_unknown == (ref_icmpv6_kind(t, c) == K_RAW));
    // the typed value names the (type, code) it was decoded from
    assert!(got.type_u8() == t);
    assert!(got.code_u8() == c);
    assert!(got.header_len() == 8);
    assert!(got.fixed_payload_size().is_none());
    let h = v.header();
    assert!(h.icmp_type == want);
    assert!(h.checksum == be16(d[2], d[3]));
    let (h2, rest) = must_accept!(rh, "Icmpv6Header::from_slice rejected a complete 8 byte header");
    assert!(h2.icmp_type == want);
    assert!(h2.checksum == be16(d[2], d[3]));
    assert!(h2.header_len() == 8);
    assert!(at(s, rest, 8, len - 8));
    witness!(t == 1 && c == 6, "icmpv6_unreachable_reject_route");
    witness!(t == 1 && c == 7, "icmpv6_unreachable_code7_is_raw");
    witness!(t == 4 && c == 10, "icmpv6_param_problem_option_too_big");
    witness!(t == 4 && c == 11, "icmpv6_param_problem_code11_is_raw");
    witness!(t == 134 && c == 0 && d[5] == 0x40, "icmpv6_router_advertisement_o_flag");
    witness!(t == 136 && c == 0 && d[4] == 0x20, "icmpv6_neighbor_advertisement_override");
    witness!(t == 137 && c == 1, "icmpv6_redirect_nonzero_code_is_raw");
    witness!(t == 130, "icmpv6_mld_query_is_raw");
    witness!(t == 2 && c == 0 && len == N_ICMP6, "icmpv6_packet_too_big_max_len");
}

/// (kind, fixed part accessor results) of a structured payload, positions relative to `p`
struct PayloadDigest {
    kind: u8,
    whole: (usize, usize),
    variable: (usize, usize),
}

fn pos(outer: &[u8], sub: &[u8]) -> (usize, usize) {
    assert!(inside(outer, sub));
    (off(outer, sub), sub.len())
}

fn digest_payload(p: &[u8], v: &Icmpv6PayloadSlice) -> PayloadDigest {
    use Icmpv6PayloadSlice::*;
    let (kind, whole, variable) = match v {
        DestinationUnreachable(x) => (K_UNREACH, x.slice(), x.invoking_packet()),
        PacketTooBig(x) => (K_TOO_BIG, x.slice(), x.invoking_packet()),
        TimeExceeded(x) => (K_TIME_EXCEEDED, x.slice(), x.invoking_packet()),
        ParameterProblem(x) => (K_PARAM_PROBLEM, x.slice(), x.invoking_packet()),
        EchoRequest(x) => (K_ECHO_REQUEST, x.slice(), x.data()),
        EchoReply(x) => (K_ECHO_REPLY, x.slice(), x.data()),
        RouterSolicitation(x) => (K_RS, x.slice(), x.options()),
        RouterAdvertisement(x) => (K_RA, x.slice(), x.options()),
        NeighborSolicitation(x) => (K_NS, x.slice(), x.options()),
        NeighborAdvertisement(x) => (K_NA, x.slice(), x.options()),
        Redirect(x) => (K_REDIRECT, x.slice(), x.options()),
        Raw(x) => (K_RAW, *x, *x),
        _ => {
            assert!(false, "payload variant unknown to the oracle");
            unreachable!()
        }
    };
    // the enum level accessor returns the same bytes as the variant level one
    assert!(pos(p, v.slice()) == pos(p, whole));
    PayloadDigest {
        kind,
        whole: pos(p, whole),
        variable: pos(p, variable),
    }
}

/// `Icmpv6Slice::payload_slice` (-> `Icmpv6PayloadSlice::from_type_u8`),
/// `Icmpv6PayloadSlice::from_slice`, `Icmpv6Type::{payload_slice, payload_from_slice}`,
/// `Icmpv6PayloadSlice::to_payload`: kind per (type, code), fixed / variable split, rejection
/// exactly when the fixed part does not fit
pub fn icmpv6_payload_dispatch() {
    let (d, len, buf) = input::<N_ICMP6>();
    assume(len >= 8);
    let s = buf.slice();
    let v = must_accept!(Icmpv6Slice::from_slice(s), "Icmpv6Slice rejected a complete 8 byte header");
    let p = v.payload();
    assert!(at(s, p, 8, len - 8));
    let plen = len - 8;
    let (t, c) = (d[0], d[1]);
    let kind = ref_icmpv6_kind(t, c);
    let fixed = ref_icmpv6_fixed_part(kind);
    let ty = v.icmp_type();
    let a = v.payload_slice();
    let b = Icmpv6PayloadSlice::from_slice(&ty, p);
    let b2 = ty.payload_slice(p);
    let owned = ty.payload_from_slice(p);
    if plen < fixed {
        // error names the fixed part that did not fit and the bytes that were there
        let want = short(fixed, plen, Layer::Icmpv6);
        assert!(a.err() == Some(want.clone()));
        assert!(b.err() == Some(want.clone()));
        assert!(b2.err() == Some(want.clone()));
        assert!(owned.err() == Some(want));
        witness!(kind == K_RA && plen == 7, "payload_ra_fixed_part_cut");
        witness!(kind == K_NS && plen == 15, "payload_ns_fixed_part_cut");
        witness!(kind == K_NA && plen == 0, "payload_na_empty");
        witness!(kind == K_REDIRECT && plen == 31, "payload_redirect_fixed_part_cut");
        return;
    }
    let a = must_accept!(a, "payload_slice rejected a payload whose fixed part fits");
    let b = must_accept!(b, "Icmpv6PayloadSlice::from_slice rejected a payload whose fixed part fits");
    let b2 = must_accept!(b2, "Icmpv6Type::payload_slice rejected a payload whose fixed part fits");
    let owned = must_accept!(owned, "payload_from_slice rejected a payload whose fixed part fits");
    let da = digest_payload(p, &a);
    let db = digest_payload(p, &b);
    let db2 = digest_payload(p, &b2);
    assert!(da.kind == kind);
    assert!(da.whole == (0, plen));
    assert!(da.variable == (fixed, plen - fixed));
    assert!(db.kind == kind && db.whole == da.whole && db.variable == da.variable);
    assert!(db2.kind == kind && db2.whole == da.whole && db2.variable == da.variable);
    // owned form: exists exactly for the five neighbour discovery messages, trailing bytes are
    // the option area
    let ndp = matches!(kind, K_RS | K_RA | K_NS | K_NA | K_REDIRECT);
    assert!(a.to_payload().is_some() == ndp);
    assert!(owned.is_some() == ndp);
    if let Some((pl, opts)) = owned {
        assert!(at(p, opts, fixed, plen - fixed));
        assert!(pl.len() == fixed);
        assert!(pl.is_empty() == (kind == K_RS));
        let k = match pl {
            Icmpv6Payload::RouterSolicitation(_) => K_RS,
            Icmpv6Payload::RouterAdvertisement(_) => K_RA,
            Icmpv6Payload::NeighborSolicitation(_) => K_NS,
            Icmpv6Payload::NeighborAdvertisement(_) => K_NA,
            Icmpv6Payload::Redirect(_) => K_REDIRECT,
            _ => K_RAW,
        };
        assert!(k == kind);
    }
    witness!(kind == K_RAW && t == 1, "payload_unreachable_unassigned_code_raw");
    witness!(kind == K_RAW && t == 133, "payload_rs_nonzero_code_raw");
    witness!(kind == K_RAW && t == 200 && plen == 40, "payload_unassigned_type_raw");
    witness!(kind == K_UNREACH && plen == 40, "payload_unreachable");
    witness!(kind == K_TOO_BIG, "payload_too_big");
    witness!(kind == K_TIME_EXCEEDED, "payload_time_exceeded");
    witness!(kind == K_PARAM_PROBLEM && c == 10, "payload_param_problem");
    witness!(kind == K_ECHO_REQUEST && plen == 0, "payload_echo_request_empty");
    witness!(kind == K_ECHO_REPLY, "payload_echo_reply");
    witness!(kind == K_RS && plen == 8, "payload_rs_one_option");
    witness!(kind == K_RA && plen == 8, "payload_ra_no_options");
    witness!(kind == K_NS && plen == 24, "payload_ns_one_option");
    witness!(kind == K_NA && plen == 16, "payload_na_no_options");
    witness!(kind == K_REDIRECT && plen == 40, "payload_redirect_one_option");
}

/// `Icmpv4Header::read` / `Icmpv6Header::read` from an in-memory reader: same dispatch as the
/// slice decoders; exactly the header is consumed (8 bytes, 20 for a timestamp message - a
/// reader, unlike a slice, does not say where the message ends); too few bytes: `UnexpectedEof`
pub fn icmp_header_read() {
    use std::io::{Cursor, ErrorKind};
    // ICMPv4
    {
        let d: [u8; N_ICMP4] = any();
        let len = any_le(N_ICMP4);
        let mut c = Cursor::new(&d[..len]);
        let r = Icmpv4Header::read(&mut c);
        let is_ts = len >= 8 && (d[0] == 13 || d[0] == 14) && d[1] == 0;
        let need = if is_ts { 20 } else { 8 };
        match r {
            Err(e) => {
                assert!(len < need);
                assert!(e.kind() == ErrorKind::UnexpectedEof);
                witness!(len == 7, "read_v4_header_cut");
                witness!(len == 19, "read_v4_timestamp_cut");
            }
            Ok(h) => {
                assert!(len >= need);
                assert!(h.icmp_type == ref_icmpv4_type(&d));
                assert!(h.checksum == be16(d[2], d[3]));
                assert!(c.position() == need as u64);
                witness!(is_ts && len == N_ICMP4, "read_v4_timestamp_followed_by_more_bytes");
                witness!(d[0] == 3 && d[1] == 4, "read_v4_frag_needed");
                witness!(d[0] == 13 && d[1] == 1 && len == 8, "read_v4_timestamp_nonzero_code_raw");
            }
        }
    }
    // ICMPv6
    {
        let d: [u8; N_ICMP6] = any();
        let len = any_le(16);
        let mut c = Cursor::new(&d[..len]);
        match Icmpv6Header::read(&mut c) {
            Err(e) => {
                assert!(len < 8);
                assert!(e.kind() == ErrorKind::UnexpectedEof);
                witness!(len == 7, "read_v6_header_cut");
            }
            Ok(h) => {
                assert!(len >= 8);
                assert!(h.icmp_type == ref_icmpv6_type(&d));
                assert!(h.checksum == be16(d[2], d[3]));
                assert!(c.position() == 8);
                witness!(d[0] == 134 && d[1] == 0 && len == 16, "read_v6_router_advertisement");
                witness!(d[0] == 134 && d[1] == 1, "read_v6_router_advertisement_nonzero_code_raw");
            }
        }
    }
}

// ------------------------------------------------------------------------------ NDP payloads

const N_NDP_PAYLOAD: usize = 40;

fn ipv6_at<const N: usize>(d: &[u8; N], o: usize) -> Ipv6Addr {
    let mut a = [0u8; 16];
    a.copy_from_slice(&d[o..o + 16]);
    Ipv6Addr::from(a)
}

/// RFC 4861 4.1 / 4.2: router solicitation (options only) and router advertisement
/// (reachable time, retrans timer, options)
pub fn ndp_router_payloads() {
    let (d, len, buf) = input::<N_NDP_PAYLOAD>();
    let s = buf.slice();
    // router solicitation: never rejected, everything is option area
    let rs = must_accept!(RouterSolicitationPayloadSlice::from_slice(s), "router solicitation payload rejected (it has no fixed part)");
    assert!(at(s, rs.slice(), 0, len));
    assert!(at(s, rs.options(), 0, len));
    assert!(at(s, rs.options_iterator().rest(), 0, len));
    let (_, o) = rs.to_payload();
    assert!(at(s, o, 0, len));
    // router advertisement
    match RouterAdvertisementPayloadSlice::from_slice(s) {
        Err(e) => {
            witness!(len == 7, "ra_payload_too_short");
            assert!(len < 8);
            assert!(e == short(8, len, Layer::Icmpv6));
        }
        Ok(ra) => {
            assert!(len >= 8);
            let reach = be32(d[0], d[1], d[2], d[3]);
            let retrans = be32(d[4], d[5], d[6], d[7]);
            assert!(at(s, ra.slice(), 0, len));
            assert!(ra.reachable_time() == reach);
            assert!(ra.retrans_timer() == retrans);
            assert!(at(s, ra.options(), 8, len - 8));
            assert!(at(s, ra.options_iterator().rest(), 8, len - 8));
            let (pl, o) = ra.to_payload();
            assert!(pl.reachable_time == reach);
            assert!(pl.retrans_timer == retrans);
            assert!(at(s, o, 8, len - 8));
            witness!(len == 8, "ra_payload_no_options");
            witness!(len == N_NDP_PAYLOAD && reach != retrans, "ra_payload_with_options");
        }
    }
}

/// RFC 4861 4.3 / 4.4: neighbour solicitation / advertisement (target address, options)
pub fn ndp_neighbor_payloads() {
    let (d, len, buf) = input::<N_NDP_PAYLOAD>();
    let s = buf.slice();
    let ns = NeighborSolicitationPayloadSlice::from_slice(s);
    let na = NeighborAdvertisementPayloadSlice::from_slice(s);
    if len < 16 {
        witness!(len == 15, "neighbor_payload_too_short");
        assert!(ns.err() == Some(short(16, len, Layer::Icmpv6)));
        assert!(na.err() == Some(short(16, len, Layer::Icmpv6)));
        return;
    }
    let target = ipv6_at(&d, 0);
    let ns = must_accept!(ns, "neighbor solicitation payload with a complete target address rejected");
    assert!(at(s, ns.slice(), 0, len));
    assert!(ns.target_address() == target);
    assert!(at(s, ns.options(), 16, len - 16));
    assert!(at(s, ns.options_iterator().rest(), 16, len - 16));
    let (pl, o) = ns.to_payload();
    assert!(pl.target_address == target);
    assert!(at(s, o, 16, len - 16));
    let na = must_accept!(na, "neighbor advertisement payload with a complete target address rejected");
    assert!(at(s, na.slice(), 0, len));
    assert!(na.target_address() == target);
    assert!(at(s, na.options(), 16, len - 16));
    assert!(at(s, na.options_iterator().rest(), 16, len - 16));
    let (pl, o) = na.to_payload();
    assert!(pl.target_address == target);
    assert!(at(s, o, 16, len - 16));
    witness!(len == 16, "neighbor_payload_no_options");
    witness!(len == 24 && d[0] != d[15], "neighbor_payload_one_option");
}

/// RFC 4861 4.5: redirect (target address, destination address, options)
pub fn ndp_redirect_payload() {
    let (d, len, buf) = input::<N_NDP_PAYLOAD>();
    let s = buf.slice();
    match RedirectPayloadSlice::from_slice(s) {
        Err(e) => {
            witness!(len == 31, "redirect_payload_too_short");
            assert!(len < 32);
            assert!(e == short(32, len, Layer::Icmpv6));
        }
        Ok(r) => {
            assert!(len >= 32);
            let target = ipv6_at(&d, 0);
            let dest = ipv6_at(&d, 16);
            assert!(at(s, r.slice(), 0, len));
            assert!(r.target_address() == target);
            assert!(r.destination_address() == dest);
            assert!(at(s, r.options(), 32, len - 32));
            assert!(at(s, r.options_iterator().rest(), 32, len - 32));
            let (pl, o) = r.to_payload();
            assert!(pl.target_address == target);
            assert!(pl.destination_address == dest);
            assert!(at(s, o, 32, len - 32));
            witness!(len == 32, "redirect_payload_no_options");
            witness!(len == 40 && d[0] != d[16], "redirect_payload_one_option");
        }
    }
}

// ------------------------------------------------------------------------------ NDP options
//
// RFC 4861 4.6: every option is | type | length | ... | with the length in units of 8 octets
// (type and length included); length 0 is invalid. 4.6.1 source / target link-layer address
// (types 1, 2, variable), 4.6.2 prefix information (type 3, length 4), 4.6.3 redirected header
// (type 4, 8 fixed bytes + packet), 4.6.4 MTU (type 5, length 1). Every other type: raw form.
//
// Which of several simultaneous faults an error names is prescribed nowhere, so the oracles
// accept any error value that is a TRUE statement about the input (exact field values) and
// demand rejection exactly when at least one fault is present.

/// length (in units) RFC 4861 fixes for an option type
fn ndp_fixed_units(t: u8) -> Option<u8> {
    match t {
        3 => Some(4),
        5 => Some(1),
        _ => None,
    }
}

const NK_SLLA: u8 = 1;
const NK_TLLA: u8 = 2;
const NK_PREFIX: u8 = 3;
const NK_REDIRECTED: u8 = 4;
const NK_MTU: u8 = 5;
const NK_UNKNOWN: u8 = 0;

/// typed form per option type; raw form for 0 and everything above 5
fn ref_ndp_kind(t: u8) -> u8 {
    if t >= 1 && t <= 5 {
        t
    } else {
        NK_UNKNOWN
    }
}

fn ndp_kind_of(o: &NdpOptionSlice) -> u8 {
    match o {
        NdpOptionSlice::SourceLinkLayerAddress(_) => NK_SLLA,
        NdpOptionSlice::TargetLinkLayerAddress(_) => NK_TLLA,
        NdpOptionSlice::PrefixInformation(_) => NK_PREFIX,
        NdpOptionSlice::RedirectedHeader(_) => NK_REDIRECTED,
        NdpOptionSlice::Mtu(_) => NK_MTU,
        NdpOptionSlice::Unknown(_) => NK_UNKNOWN,
        _ => 0xff,
    }
}

/// the option starting `rem >= 1` bytes before the end of the area with first bytes (t, u)
/// cannot be handed out
fn ndp_iter_faulty(t: u8, u: u8, rem: usize) -> bool {
    if rem < 2 {
        return true; // not even type + length
    }
    let olen = (u as usize) * 8;
    u == 0
        || olen > rem
        || match ndp_fixed_units(t) {
            Some(fu) => fu != u,
            None => false,
        }
}

/// `e` is a true statement about that option
fn ndp_iter_err_truthful(e: &NdpOptionReadError, t: u8, u: u8, rem: usize) -> bool {
    use NdpOptionReadError::*;
    let olen = (u as usize) * 8;
    if rem < 2 {
        // only the type byte is there: 2 bytes needed, `rem` present
        return match *e {
            UnexpectedSize {
                option_id,
                expected_size,
                actual_size,
            }
            | UnexpectedEndOfSlice {
                option_id,
                expected_size,
                actual_size,
            } => option_id.0 == t && expected_size == 2 && actual_size == rem,
            _ => false,
        };
    }
    match *e {
        ZeroLength { option_id } => option_id.0 == t && u == 0,
        UnexpectedEndOfSlice {
            option_id,
            expected_size,
            actual_size,
        } => option_id.0 == t && olen > rem && expected_size == olen && actual_size == rem,
        UnexpectedSize {
            option_id,
            expected_size,
            actual_size,
        } => match ndp_fixed_units(t) {
            Some(fu) => {
                fu != u && option_id.0 == t && expected_size == (fu as usize) * 8 && actual_size == olen
            }
            None => false,
        },
        UnexpectedHeader {
            expected_option_id,
            actual_option_id,
            expected_length_units,
            actual_length_units,
        } => match ndp_fixed_units(t) {
            Some(fu) => {
                fu != u
                    && expected_option_id.0 == t
                    && actual_option_id.0 == t
                    && expected_length_units == fu
                    && actual_length_units == u
            }
            None => false,
        },
        _ => false,
    }
}

/// typed view of one accepted option: variant per type, fixed / variable split, field values
fn check_ndp_option<const N: usize>(d: &[u8; N], s: &[u8], o: &NdpOptionSlice, p: usize, olen: usize, i16: usize) {
    let t = d[p];
    assert!(at(s, o.as_bytes(), p, olen));
    assert!(o.option_type().0 == t);
    assert!(ndp_kind_of(o) == ref_ndp_kind(t));
    match o {
        NdpOptionSlice::SourceLinkLayerAddress(x) => {
            assert!(x.option_type().0 == 1);
            assert!(at(s, x.as_bytes(), p, olen));
            assert!(at(s, x.link_layer_address(), p + 2, olen - 2));
        }
        NdpOptionSlice::TargetLinkLayerAddress(x) => {
            assert!(x.option_type().0 == 2);
            assert!(at(s, x.as_bytes(), p, olen));
            assert!(at(s, x.link_layer_address(), p + 2, olen - 2));
        }
        NdpOptionSlice::PrefixInformation(x) => {
            assert!(olen == 32);
            assert!(x.option_type().0 == 3);
            assert!(at(s, &x.as_bytes()[..], p, 32));
            let valid = be32(d[p + 4], d[p + 5], d[p + 6], d[p + 7]);
            let preferred = be32(d[p + 8], d[p + 9], d[p + 10], d[p + 11]);
            assert!(x.prefix_length() == d[p + 2]);
            assert!(x.on_link() == (d[p + 3] & 0x80 != 0));
            assert!(x.autonomous_address_configuration() == (d[p + 3] & 0x40 != 0));
            assert!(x.valid_lifetime() == valid);
            assert!(x.preferred_lifetime() == preferred);
            assert!(x.prefix()[i16] == d[p + 16 + i16]);
            let pi = x.prefix_information();
            assert!(pi.prefix_length == d[p + 2]);
            assert!(pi.on_link == (d[p + 3] & 0x80 != 0));
            assert!(pi.autonomous_address_configuration == (d[p + 3] & 0x40 != 0));
            assert!(pi.valid_lifetime == valid);
            assert!(pi.preferred_lifetime == preferred);
            assert!(pi.prefix[i16] == d[p + 16 + i16]);
        }
        NdpOptionSlice::RedirectedHeader(x) => {
            assert!(x.option_type().0 == 4);
            assert!(at(s, x.as_bytes(), p, olen));
            assert!(at(s, x.redirected_packet(), p + 8, olen - 8));
        }
        NdpOptionSlice::Mtu(x) => {
            assert!(olen == 8);
            assert!(x.option_type().0 == 5);
            assert!(at(s, x.as_bytes(), p, 8));
            assert!(x.mtu() == be32(d[p + 4], d[p + 5], d[p + 6], d[p + 7]));
        }
        NdpOptionSlice::Unknown(x) => {
            assert!(x.option_type().0 == t);
            assert!(at(s, x.as_bytes(), p, olen));
            assert!(at(s, x.data(), p + 2, olen - 2));
        }
        _ => assert!(false, "option variant unknown to the oracle"),
    }
}

const N_NDP_OPT: usize = 40;

/// first `next()` of `NdpOptionsIterator` on an arbitrary area: dispatch per option type, all
/// field values of the typed option, rest, error values, exhaustion after an error
fn ndp_iter_first_on(d: &[u8; N_NDP_OPT], s: &[u8], len: usize) {
    let i16 = any_le(15);
    let mut it = NdpOptionsIterator::from_slice(s);
    assert!(at(s, it.rest(), 0, len));
    let r = it.next();
    let (t, u) = (d[0], if len >= 2 { d[1] } else { 0 });
    let faulty = len > 0 && ndp_iter_faulty(t, u, len);
    // is the iterator at its end after this call (end of the area or an error)?
    let mut at_end = true;
    match r {
        None => {
            assert!(len == 0);
            witness!(true, "first_none_on_empty_area");
        }
        Some(Err(e)) => {
            assert!(len > 0 && faulty);
            assert!(ndp_iter_err_truthful(&e, t, u, len));
            witness!(len == 1, "first_err_single_byte");
            witness!(len >= 2 && u == 0, "first_err_zero_length");
            witness!(len == 39 && u == 5, "first_err_one_byte_missing");
            witness!(len >= 32 && t == 3 && u == 3, "first_err_prefix_info_3_units");
            witness!(len >= 40 && t == 3 && u == 5, "first_err_prefix_info_5_units");
            witness!(len >= 16 && t == 5 && u == 2, "first_err_mtu_2_units");
        }
        Some(Ok(o)) => {
            assert!(len > 0 && !faulty);
            let olen = (u as usize) * 8;
            check_ndp_option(d, s, &o, 0, olen, i16);
            assert!(at(s, it.rest(), olen, len - olen));
            at_end = olen == len;
            witness!(t == 1 && olen == 8 && len == 8, "first_ok_source_lla");
            witness!(t == 2 && olen == 16, "first_ok_target_lla_16");
            witness!(t == 3 && len == 40, "first_ok_prefix_info_then_more");
            witness!(t == 4 && olen == 8, "first_ok_redirected_header_empty");
            witness!(t == 4 && olen == 40, "first_ok_redirected_header_32");
            witness!(t == 5, "first_ok_mtu");
            witness!(t == 0, "first_ok_type0_raw");
            witness!(t == 6 && olen == 24, "first_ok_type6_raw");
        }
    }
    if at_end {
        // nothing left (an error empties the iterator): it stays exhausted
        assert!(it.rest().is_empty());
        assert!(it.next().is_none());
        assert!(it.rest().is_empty());
    }
}

/// end-aligned placement (quick tier)
pub fn ndp_iter_first() {
    let data: [u8; N_NDP_OPT] = any();
    let len = any_le(N_NDP_OPT);
    let d = tail_copy(&data, len);
    ndp_iter_first_on(&d, &data[N_NDP_OPT - len..], len)
}

/// exact-size heap object (thorough tier)
pub fn ndp_iter_first_tight() {
    let (d, len, buf) = input::<N_NDP_OPT>();
    ndp_iter_first_on(&d, buf.slice(), len)
}

/// `NdpOptionsIterator` over the whole area: the options handed out tile the option area from
/// offset 0 without gap or overlap up to the first rejected option; rejection exactly for a
/// truncated header, zero length, length running past the end, wrong fixed length; exhausted
/// for good after an error. (Field values of the typed options: `ndp_iter_first` and the
/// stand-alone option harnesses.)
fn ndp_iter<const N: usize>() {
    let data: [u8; N] = any();
    let len = any_le(N);
    // end-aligned placement: the area ends exactly where the object `data` ends
    let s = &data[N - len..];
    let d = tail_copy(&data, len);
    let mut it = NdpOptionsIterator::from_slice(s);
    assert!(at(s, it.rest(), 0, len));
    let mut p = 0usize; // end of the previous option = expected start of the next one
    let mut n_ok = 0usize;
    let mut finished = false;
    let mut errored = false;
    // every accepted option has at least 8 bytes: at most N/8 of them, then None or an error
    let mut round = 0;
    while round < N / 8 + 1 {
        round += 1;
        let r = it.next();
        if p == len {
            assert!(r.is_none());
            witness!(n_ok == 0, "iter_empty_area");
            witness!(n_ok == 2, "iter_two_options_fill_area");
            witness!(n_ok == N / 8, "iter_max_number_of_options");
            finished = true;
            break;
        }
        let rem = len - p;
        let t = d[p];
        let u = if rem >= 2 { d[p + 1] } else { 0 };
        let faulty = ndp_iter_faulty(t, u, rem);
        match r {
            None => {
                assert!(false, "iterator stopped in front of unconsumed bytes");
                return;
            }
            Some(Err(e)) => {
                assert!(faulty);
                assert!(ndp_iter_err_truthful(&e, t, u, rem));
                witness!(n_ok == 1 && rem == 1, "iter_err_trailing_byte_after_option");
                witness!(n_ok == 1 && rem >= 2 && u == 0, "iter_err_zero_length_after_option");
                witness!(n_ok == 1 && u == 2 && rem == 15, "iter_err_one_byte_missing_in_second");
                witness!(n_ok == 1 && rem == 16 && t == 3 && u == 2, "iter_err_prefix_info_2_units_second");
                witness!(n_ok == 1 && rem == 16 && t == 5 && u == 2, "iter_err_mtu_2_units_second");
                errored = true;
                finished = true;
                break;
            }
            Some(Ok(o)) => {
                assert!(!faulty);
                let olen = (u as usize) * 8;
                // starts where the previous one ended, covers exactly its length units
                assert!(at(s, o.as_bytes(), p, olen));
                assert!(o.option_type().0 == t);
                assert!(ndp_kind_of(&o) == ref_ndp_kind(t));
                // remaining area starts exactly behind the option
                assert!(at(s, it.rest(), p + olen, len - p - olen));
                witness!(n_ok == 0 && t == 3, "iter_ok_prefix_info_first");
                witness!(n_ok == 1 && t == 5, "iter_ok_mtu_second");
                witness!(n_ok == 1 && t == 4 && olen == 16, "iter_ok_redirected_header_second");
                witness!(n_ok == 1 && t == 9 && olen == 16, "iter_ok_raw_second");
                witness!(n_ok == 2 && t == 1, "iter_ok_source_lla_third");
                p += olen;
                n_ok += 1;
            }
        }
    }
    assert!(finished, "N/8 + 1 calls are enough to reach the end or the first error");
    // behind the end of the area and behind an error alike: empty, and it stays that way
    assert!(it.rest().is_empty());
    assert!(it.next().is_none());
    assert!(it.rest().is_empty());
    witness!(errored, "iter_exhausted_after_error");
    witness!(!errored && n_ok > 0, "iter_exhausted_after_last_option");
}

pub fn ndp_iter_32() {
    ndp_iter::<32>()
}

pub fn ndp_iter_48() {
    ndp_iter::<48>()
}

pub fn ndp_iter_72() {
    ndp_iter::<72>()
}

/// the slice (`len` bytes, first bytes d0, d1) is a well-formed stand-alone option for the decoder
/// of type `want` (`None`: raw decoder, any type) with `fixed` fixed bytes in front
fn ndp_slice_ok(want: Option<u8>, fixed: usize, d0: u8, d1: u8, len: usize) -> bool {
    len >= 2
        && len >= fixed
        && match want {
            Some(w) => d0 == w,
            None => true,
        }
        && d1 != 0
        && (d1 as usize) * 8 == len
        && match want.and_then(ndp_fixed_units) {
            Some(fu) => d1 == fu,
            None => true,
        }
}

/// `e` is a true statement about that slice
fn ndp_slice_err_truthful(e: &NdpOptionReadError, want: Option<u8>, fixed: usize, d0: u8, d1: u8, len: usize) -> bool {
    use NdpOptionReadError::*;
    let olen = (d1 as usize) * 8;
    let fu = want.and_then(ndp_fixed_units);
    match *e {
        UnexpectedSize {
            option_id,
            expected_size,
            actual_size,
        } => {
            actual_size == len
                && (
                    // no complete type + length: the id is the first byte if there is one
                    (len < 2 && expected_size == 2 && option_id.0 == if len > 0 { d0 } else { 0 })
                    // fixed part of the wanted type does not fit
                    || (len < fixed && expected_size == fixed && Some(option_id.0) == want)
                    // fixed-size option of another size
                    || match fu {
                        Some(fu) => {
                            len != (fu as usize) * 8
                                && expected_size == (fu as usize) * 8
                                && Some(option_id.0) == want
                        }
                        None => false,
                    }
                    // length field and slice length disagree
                    || (len >= 2 && olen != len && expected_size == olen && option_id.0 == d0)
                )
        }
        UnexpectedEndOfSlice {
            option_id,
            expected_size,
            actual_size,
        } => len >= 2 && olen > len && option_id.0 == d0 && expected_size == olen && actual_size == len,
        ZeroLength { option_id } => len >= 2 && d1 == 0 && option_id.0 == d0,
        UnexpectedHeader {
            expected_option_id,
            actual_option_id,
            expected_length_units,
            actual_length_units,
        } => {
            len >= 2
                && Some(expected_option_id.0) == want
                && actual_option_id.0 == d0
                && actual_length_units == d1
                && match fu {
                    // fixed-size option: type or length differ from the prescribed pair
                    Some(fu) => expected_length_units == fu && (Some(d0) != want || d1 != fu),
                    // variable-size option: only the type can be wrong (no length is "expected")
                    None => Some(d0) != want,
                }
        }
        _ => false,
    }
}

/// `NdpOptionHeader` + stand-alone decoders of the link-layer address options (types 1, 2)
pub fn ndp_lla_option_slices() {
    let (d, len, buf) = input::<N_NDP_OPT>();
    let s = buf.slice();
    let (d0, d1) = (d[0], d[1]);

    // common header
    match NdpOptionHeader::from_slice(s) {
        Err(e) => {
            assert!(len < 2);
            assert!(ndp_slice_err_truthful(&e, None, 0, d0, d1, len));
            witness!(len == 0, "option_header_empty");
            witness!(len == 1, "option_header_single_byte");
        }
        Ok((h, rest)) => {
            assert!(len >= 2);
            assert!(h.option_type.0 == d0 && h.length_units == d1);
            assert!(h.byte_len() == (d1 as usize) * 8);
            assert!(h.to_bytes() == [d0, d1]);
            assert!(NdpOptionHeader::from_bytes([d0, d1]) == h);
            assert!(at(s, rest, 2, len - 2));
            witness!(d1 == 255, "option_header_max_units");
        }
    }

    let ok = ndp_slice_ok(Some(1), 2, d0, d1, len);
    match SourceLinkLayerAddressOptionSlice::from_slice(s) {
        Err(e) => {
            assert!(!ok);
            assert!(ndp_slice_err_truthful(&e, Some(1), 2, d0, d1, len));
            witness!(len >= 2 && d0 == 1 && d1 != 0, "slla_length_mismatch");
            witness!(len == 16 && d0 == 2 && d1 == 2, "slla_wrong_type");
            witness!(len == 8 && d0 == 1 && d1 == 0, "slla_zero_length");
        }
        Ok(x) => {
            assert!(ok);
            assert!(x.option_type().0 == 1);
            assert!(at(s, x.as_bytes(), 0, len));
            assert!(at(s, x.link_layer_address(), 2, len - 2));
            witness!(len == 8, "slla_ok_ethernet");
            witness!(len == 40, "slla_ok_40");
        }
    }
    let ok = ndp_slice_ok(Some(2), 2, d0, d1, len);
    match TargetLinkLayerAddressOptionSlice::from_slice(s) {
        Err(e) => {
            assert!(!ok);
            assert!(ndp_slice_err_truthful(&e, Some(2), 2, d0, d1, len));
            witness!(len == 8 && d0 == 1 && d1 == 1, "tlla_wrong_type");
            witness!(len == 9 && d0 == 2 && d1 == 1, "tlla_one_byte_too_long");
        }
        Ok(x) => {
            assert!(ok);
            assert!(x.option_type().0 == 2);
            assert!(at(s, x.as_bytes(), 0, len));
            assert!(at(s, x.link_layer_address(), 2, len - 2));
            witness!(len == 16, "tlla_ok_16");
        }
    }
}

/// stand-alone decoders of the redirected header option (type 4) and of the raw option
pub fn ndp_redirected_unknown_option_slices() {
    let (d, len, buf) = input::<N_NDP_OPT>();
    let s = buf.slice();
    let (d0, d1) = (d[0], d[1]);

    // 8 fixed bytes (type, length, 6 reserved), then the packet
    let ok = ndp_slice_ok(Some(4), 8, d0, d1, len);
    match RedirectedHeaderOptionSlice::from_slice(s) {
        Err(e) => {
            assert!(!ok);
            assert!(ndp_slice_err_truthful(&e, Some(4), 8, d0, d1, len));
            witness!(len == 7, "redirected_header_too_short");
            witness!(len >= 8 && d0 == 4 && d1 == 0, "redirected_header_zero_length");
            witness!(len == 16 && d0 == 4 && d1 == 3, "redirected_header_length_mismatch");
            witness!(len == 16 && d0 == 3 && d1 == 2, "redirected_header_wrong_type");
        }
        Ok(x) => {
            assert!(ok);
            assert!(x.option_type().0 == 4);
            assert!(at(s, x.as_bytes(), 0, len));
            assert!(at(s, x.redirected_packet(), 8, len - 8));
            witness!(len == 8, "redirected_header_ok_empty");
            witness!(len == N_NDP_OPT, "redirected_header_ok_32");
        }
    }

    // raw option: any type
    let ok = ndp_slice_ok(None, 2, d0, d1, len);
    match UnknownNdpOptionSlice::from_slice(s) {
        Err(e) => {
            assert!(!ok);
            assert!(ndp_slice_err_truthful(&e, None, 2, d0, d1, len));
            witness!(len == 1, "unknown_option_single_byte");
            witness!(len == 0, "unknown_option_empty");
            witness!(len == 8 && d1 == 0, "unknown_option_zero_length");
            witness!(len == 8 && d1 == 2, "unknown_option_length_mismatch");
        }
        Ok(x) => {
            assert!(ok);
            assert!(x.option_type().0 == d0);
            assert!(at(s, x.as_bytes(), 0, len));
            assert!(at(s, x.data(), 2, len - 2));
            witness!(len == 24 && d0 == 200, "unknown_option_ok_24");
            witness!(len == 8 && d0 == 5, "unknown_option_accepts_any_type");
        }
    }
}

/// stand-alone decoder of the MTU option (RFC 4861 4.6.4: 8 bytes, length 1)
pub fn ndp_mtu_option_slice() {
    let (d, len, buf) = input::<N_NDP_OPT>();
    let s = buf.slice();
    let (d0, d1) = (d[0], d[1]);
    let ok = len == 8 && d0 == 5 && d1 == 1;
    assert!(ok == ndp_slice_ok(Some(5), 8, d0, d1, len));
    match MtuOptionSlice::from_slice(s) {
        Err(e) => {
            assert!(!ok);
            assert!(ndp_slice_err_truthful(&e, Some(5), 8, d0, d1, len));
            witness!(len == 8 && d0 == 5, "mtu_wrong_units");
            witness!(len == 8 && d1 == 1, "mtu_wrong_type");
            witness!(len == 16 && d0 == 5 && d1 == 2, "mtu_wrong_size");
            witness!(len == 0, "mtu_empty");
        }
        Ok(x) => {
            assert!(ok);
            assert!(x.option_type().0 == 5);
            assert!(at(s, x.as_bytes(), 0, 8));
            assert!(x.mtu() == be32(d[4], d[5], d[6], d[7]));
            witness!(d[2] != 0, "mtu_ok_reserved_nonzero");
        }
    }
}

/// prefix information option (RFC 4861 4.6.2: 32 bytes, length 4): slice view,
/// `PrefixInformation::{from_slice, from_bytes, to_bytes}`
pub fn ndp_prefix_information() {
    let (d, len, buf) = input::<N_NDP_OPT>();
    let i16 = any_le(15);
    let i32_ = any_le(31);
    let s = buf.slice();
    let (d0, d1) = (d[0], d[1]);
    let ok = len == 32 && d0 == 3 && d1 == 4;
    assert!(ok == ndp_slice_ok(Some(3), 32, d0, d1, len));
    let valid = be32(d[4], d[5], d[6], d[7]);
    let preferred = be32(d[8], d[9], d[10], d[11]);
    let r_slice = PrefixInformationOptionSlice::from_slice(s);
    let r_struct = PrefixInformation::from_slice(s);
    match r_slice {
        Err(e) => {
            assert!(!ok);
            assert!(ndp_slice_err_truthful(&e, Some(3), 32, d0, d1, len));
            witness!(len == 32 && d0 == 3, "prefix_info_wrong_units");
            witness!(len == 32 && d1 == 4, "prefix_info_wrong_type");
            witness!(len == 31, "prefix_info_wrong_size");
            witness!(len == 40 && d0 == 3 && d1 == 5, "prefix_info_5_units");
            // both entry points reject the same inputs with a true fault
            match r_struct {
                Err(e2) => assert!(ndp_slice_err_truthful(&e2, Some(3), 32, d0, d1, len)),
                Ok(_) => assert!(false, "PrefixInformation::from_slice accepted what the slice view rejects"),
            }
        }
        Ok(x) => {
            assert!(ok);
            assert!(x.option_type().0 == 3);
            assert!(at(s, &x.as_bytes()[..], 0, 32));
            assert!(x.prefix_length() == d[2]);
            assert!(x.on_link() == (d[3] & 0x80 != 0));
            assert!(x.autonomous_address_configuration() == (d[3] & 0x40 != 0));
            assert!(x.valid_lifetime() == valid);
            assert!(x.preferred_lifetime() == preferred);
            assert!(x.prefix()[i16] == d[16 + i16]);
            let pi = match r_struct {
                Ok(pi) => pi,
                Err(_) => {
                    assert!(false, "PrefixInformation::from_slice rejected what the slice view accepts");
                    return;
                }
            };
            let pi2 = x.prefix_information();
            assert!(pi.prefix_length == d[2] && pi2.prefix_length == d[2]);
            assert!(pi.on_link == (d[3] & 0x80 != 0) && pi2.on_link == pi.on_link);
            assert!(pi.autonomous_address_configuration == (d[3] & 0x40 != 0));
            assert!(pi2.autonomous_address_configuration == pi.autonomous_address_configuration);
            assert!(pi.valid_lifetime == valid && pi2.valid_lifetime == valid);
            assert!(pi.preferred_lifetime == preferred && pi2.preferred_lifetime == preferred);
            assert!(pi.prefix[i16] == d[16 + i16] && pi2.prefix[i16] == d[16 + i16]);
            // the struct re-encodes to the same option with the reserved fields cleared
            let b = pi.to_bytes();
            let reserved2 = i32_ >= 12 && i32_ < 16;
            let want = if reserved2 {
                0
            } else if i32_ == 3 {
                d[3] & 0xc0
            } else {
                d[i32_]
            };
            assert!(b[i32_] == want);
            witness!(d[3] == 0xff && d[12] != 0, "prefix_info_ok_reserved_bits_set");
            witness!(d[3] == 0x40, "prefix_info_ok_autonomous_only");
            witness!(d[3] == 0x80 && valid == 0xffff_ffff, "prefix_info_ok_on_link_infinite");
        }
    }
}

// ------------------------------------------------------------------------------ IGMP

const N_IGMP: usize = 24;

/// `IgmpHeader::from_slice`: RFC 2236 2 (8 byte messages 0x11, 0x12, 0x16, 0x17), RFC 9776 4
/// (0x22 report, 0x11 query of >= 12 bytes), 7.1 (query version by length: 8 = v1/v2,
/// >= 12 = v3, anything else is dropped)
pub fn igmp_header() {
    use etherparse::igmp::*;
    let (d, len, buf) = input::<N_IGMP>();
    let s = buf.slice();
    let r = IgmpHeader::from_slice(s);
    if len < 8 {
        witness!(len == 7, "igmp_too_short");
        assert!(r.err() == Some(short(8, len, Layer::Igmp)));
        return;
    }
    let t = d[0];
    if t == 0x11 && len > 8 && len < 12 {
        witness!(len == 9, "igmp_query_9_bytes");
        witness!(len == 11, "igmp_query_11_bytes");
        assert!(r.err() == Some(short(12, len, Layer::Igmp)));
        return;
    }
    let (h, rest) = match r {
        Ok(x) => x,
        Err(_) => {
            assert!(false, "complete IGMP message rejected");
            return;
        }
    };
    let group = GroupAddress {
        octets: [d[4], d[5], d[6], d[7]],
    };
    let want = match t {
        0x11 if len == 8 => IgmpType::MembershipQuery(MembershipQueryType {
            max_response_time: d[1],
            group_address: group,
        }),
        0x11 => IgmpType::MembershipQueryWithSources(MembershipQueryWithSourcesHeader {
            max_response_code: MaxResponseCode(d[1]),
            group_address: group,
            raw_byte_8: d[8],
            qqic: d[9],
            num_of_sources: be16(d[10], d[11]),
        }),
        0x12 => IgmpType::MembershipReportV1(MembershipReportV1Type { group_address: group }),
        0x16 => IgmpType::MembershipReportV2(MembershipReportV2Type { group_address: group }),
        0x17 => IgmpType::LeaveGroup(LeaveGroupType { group_address: group }),
        0x22 => IgmpType::MembershipReportV3(MembershipReportV3Header {
            flags: [d[4], d[5]],
            num_of_records: be16(d[6], d[7]),
        }),
        _ => IgmpType::Unknown(UnknownHeader {
            igmp_type: t,
            raw_byte_1: d[1],
            raw_bytes_4_7: [d[4], d[5], d[6], d[7]],
        }),
    };
    assert!(h.igmp_type == want);
    assert!(h.checksum == be16(d[2], d[3]));
    let hl = if t == 0x11 && len >= 12 { 12 } else { 8 };
    assert!(h.header_len() == hl);
    assert!(at(s, rest, hl, len - hl));
    if let IgmpType::MembershipQueryWithSources(q) = &h.igmp_type {
        // RFC 9776 4.1: | Flags(4) | S | QRV(3) |
        assert!(q.flags() == d[8] >> 4);
        assert!(q.s_flag() == (d[8] & 0x08 != 0));
        assert!(q.qrv().value() == d[8] & 0x07);
        witness!(len == 12, "igmp_v3_query_no_sources");
        witness!(len == 16 && d[11] == 1, "igmp_v3_query_one_source");
    }
    witness!(t == 0x11 && len == 8 && d[1] == 0, "igmp_v1_query");
    witness!(t == 0x11 && len == 8 && d[1] != 0, "igmp_v2_query");
    witness!(t == 0x12, "igmp_v1_report");
    witness!(t == 0x16 && len == N_IGMP, "igmp_v2_report_trailing_bytes");
    witness!(t == 0x17, "igmp_leave");
    witness!(t == 0x22 && len == 16, "igmp_v3_report_one_record");
    witness!(t == 0x13, "igmp_unassigned_type_raw");
    witness!(t == 0x10 && len == 10, "igmp_unassigned_type_any_length");
}

/// `ReportGroupRecordV3Header::from_slice` (RFC 9776 4.2.x group record) + re-encoding
pub fn igmp_group_record() {
    use etherparse::igmp::*;
    let (d, len, buf) = input::<N_IGMP>();
    let s = buf.slice();
    match ReportGroupRecordV3Header::from_slice(s) {
        Err(e) => {
            witness!(len == 7, "group_record_too_short");
            assert!(len < 8);
            assert!(e == short(8, len, Layer::Igmp));
        }
        Ok((h, rest)) => {
            assert!(len >= 8);
            assert!(h.record_type.0 == d[0]);
            assert!(h.aux_data_len == d[1]);
            assert!(h.num_of_sources == be16(d[2], d[3]));
            assert!(h.multicast_address == [d[4], d[5], d[6], d[7]]);
            assert!(at(s, rest, 8, len - 8));
            let b = h.to_bytes();
            let i = any_le(7);
            assert!(b[i] == d[i]);
            witness!(len == 8, "group_record_header_only");
            witness!(len == 16 && d[3] == 2 && d[0] == 7, "group_record_unassigned_type_with_sources");
        }
    }
}

/// `MaxResponseCode::as_10th_secs` for all 256 codes (RFC 9776 4.1.1: < 128 verbatim, otherwise
/// 1|exp(3)|mant(4) -> (mant | 0x10) << (exp + 3))
pub fn igmp_max_resp_code() {
    let c: u8 = any();
    let got = etherparse::igmp::MaxResponseCode(c).as_10th_secs();
    let want: u32 = if c < 128 {
        c as u32
    } else {
        let mant = (c % 16) as u32;
        let exp = ((c / 16) % 8) as u32;
        // (16 + mant) * 2^(exp + 3)
        let mut v = 16 + mant;
        let mut k = 0;
        while k < exp + 3 {
            v *= 2;
            k += 1;
        }
        v
    };
    assert!(got as u32 == want);
    witness!(c == 127 && got == 127, "max_resp_code_linear_max");
    witness!(c == 128 && got == 128, "max_resp_code_float_min");
    witness!(c == 255 && got == 31744, "max_resp_code_float_max");
}

// ------------------------------------------------------------------------------ ARP

const N_ARP: usize = 36;

/// `ArpPacketSlice` (RFC 826 packet format: hrd, pro, hln, pln, op, sha, spa, tha, tpa)
pub fn arp_slice() {
    let (d, len, buf) = input::<N_ARP>();
    let s = buf.slice();
    let r = ArpPacketSlice::from_slice(s);
    if len < 8 {
        witness!(len == 7, "arp_fixed_part_too_short");
        assert!(r.err() == Some(short(8, len, Layer::Arp)));
        return;
    }
    let hl = d[4] as usize;
    let pl = d[5] as usize;
    let need = 8 + 2 * hl + 2 * pl;
    if len < need {
        witness!(len + 1 == need, "arp_addresses_cut_by_one");
        witness!(d[4] == 255 && d[5] == 255, "arp_max_address_sizes");
        let e = match r {
            Err(e) => e,
            Ok(_) => {
                assert!(false, "ARP packet with truncated addresses accepted");
                return;
            }
        };
        assert!(e.required_len == need);
        assert!(e.len == len);
        assert!(e.layer == Layer::Arp);
        assert!(e.layer_start_offset == 0);
        // which length source this error should name is C07's subject (known finding there:
        // the crate names the address length fields that demanded the length, `len` is the slice)
        assert!(e.len_source == LenSource::ArpAddrLengths || e.len_source == LenSource::Slice);
        return;
    }
    let v = match r {
        Ok(v) => v,
        Err(_) => {
            assert!(false, "complete ARP packet rejected");
            return;
        }
    };
    // the view ends with the last address, trailing bytes are not part of it
    assert!(at(s, v.slice(), 0, need));
    assert!(v.hw_addr_type().0 == be16(d[0], d[1]));
    assert!(v.proto_addr_type().0 == be16(d[2], d[3]));
    assert!(v.hw_addr_size() == d[4]);
    assert!(v.proto_addr_size() == d[5]);
    assert!(v.operation().0 == be16(d[6], d[7]));
    assert!(at(s, v.sender_hw_addr(), 8, hl));
    assert!(at(s, v.sender_protocol_addr(), 8 + hl, pl));
    assert!(at(s, v.target_hw_addr(), 8 + hl + pl, hl));
    assert!(at(s, v.target_protocol_addr(), 8 + 2 * hl + pl, pl));
    witness!(hl == 6 && pl == 4 && len == 28, "arp_eth_ipv4_exact");
    witness!(hl == 6 && pl == 4 && len == N_ARP, "arp_eth_ipv4_trailing_bytes");
    witness!(hl == 0 && pl == 0 && len == 8, "arp_zero_length_addresses");
    witness!(hl == 1 && pl == 13, "arp_odd_sizes_max_sum");
    witness!(hl == 14 && pl == 0, "arp_hw_only");
}

/// true statement about why a packet (hrd, pro, hln, pln) is not the Ethernet / IPv4 form
fn arp_eth_ipv4_err_truthful(e: &err::arp::ArpEthIpv4FromError, hrd: u16, pro: u16, hln: u8, pln: u8) -> bool {
    use etherparse::err::arp::ArpEthIpv4FromError::*;
    match *e {
        NonMatchingHwType(x) => x.0 == hrd && hrd != 1,
        NonMatchingProtocolType(x) => x.0 == pro && pro != 0x0800,
        NonMatchingHwAddrSize(x) => x == hln && hln != 6,
        NonMatchingProtoAddrSize(x) => x == pln && pln != 4,
    }
}

/// `ArpPacketSlice::to_packet` -> `ArpPacket::try_eth_ipv4`: the Ethernet / IPv4 view
/// exists exactly for hrd = 1, pro = 0x0800, hln = 6, pln = 4 (RFC 826), otherwise the error
/// names a field that really differs. All address sizes symbolic; field *contents* of the owned
/// packet are checked in `arp_eth_ipv4_fields` (a copy of symbolic length followed by a read
/// is beyond the solver).
pub fn arp_eth_ipv4_classify() {
    let (d, len, buf) = input::<N_ARP>();
    let s = buf.slice();
    let hl = d[4] as usize;
    let pl = d[5] as usize;
    assume(len >= 8);
    assume(len >= 8 + 2 * hl + 2 * pl);
    let v = must_accept!(ArpPacketSlice::from_slice(s), "complete ARP packet rejected");
    let pkt = v.to_packet();
    let hrd = be16(d[0], d[1]);
    let pro = be16(d[2], d[3]);
    let op = be16(d[6], d[7]);
    assert!(pkt.hw_addr_type.0 == hrd);
    assert!(pkt.proto_addr_type.0 == pro);
    assert!(pkt.operation.0 == op);
    assert!(pkt.hw_addr_size() == d[4]);
    assert!(pkt.protocol_addr_size() == d[5]);
    assert!(pkt.packet_len() == 8 + 2 * hl + 2 * pl);
    assert!(pkt.sender_hw_addr().len() == hl);
    assert!(pkt.target_hw_addr().len() == hl);
    assert!(pkt.sender_protocol_addr().len() == pl);
    assert!(pkt.target_protocol_addr().len() == pl);
    let is_eth_ipv4 = hrd == 1 && pro == 0x0800 && hl == 6 && pl == 4;
    let r = pkt.try_eth_ipv4();
    assert!(r.is_ok() == is_eth_ipv4);
    match r {
        Err(e) => {
            assert!(arp_eth_ipv4_err_truthful(&e, hrd, pro, d[4], d[5]));
            witness!(hrd == 1 && pro == 0x0800 && hl == 6 && pl == 5, "arp_not_eth_ipv4_proto_size");
            witness!(hrd == 1 && pro == 0x0800 && hl == 5 && pl == 4, "arp_not_eth_ipv4_hw_size");
            witness!(hrd == 1 && pro == 0x86dd && hl == 6 && pl == 4, "arp_not_eth_ipv4_proto_type");
            witness!(hrd == 6 && pro == 0x0800 && hl == 6 && pl == 4, "arp_not_eth_ipv4_hw_type");
            witness!(hrd == 1 && pro == 0x0800 && hl == 4 && pl == 6, "arp_not_eth_ipv4_sizes_swapped");
        }
        Ok(p) => {
            assert!(p.operation.0 == op);
            witness!(len == 28, "arp_eth_ipv4_exact_size");
            witness!(len == N_ARP, "arp_eth_ipv4_with_trailing_bytes");
        }
    }
}

/// owned ARP packet with the concrete address sizes (HL, PL), everything else symbolic:
/// `ArpPacket` holds the field values and address bytes of the slice; for (6, 4) the
/// Ethernet / IPv4 view carries sha, spa, tha, tpa from bytes 8.., 14.., 18.., 24.. (RFC 826)
fn arp_owned<const HL: usize, const PL: usize>() -> ([u8; 64], usize, Result<ArpEthIpv4Packet, err::arp::ArpEthIpv4FromError>) {
    let mut d: [u8; 64] = any();
    d[4] = HL as u8;
    d[5] = PL as u8;
    let need = 8 + 2 * HL + 2 * PL;
    assert!(need + 4 <= 64);
    let len = need + any_le(4);
    let s = &d[..len];
    let v = must_accept!(ArpPacketSlice::from_slice(s), "complete ARP packet rejected");
    let pkt = v.to_packet();
    let hrd = be16(d[0], d[1]);
    let pro = be16(d[2], d[3]);
    let op = be16(d[6], d[7]);
    // One compound assertion per group of fields: with assertion reachability checks on, Kani
    // keeps a solver trace behind every single assertion, and each trace step that moves an
    // `ArpPacket` prints its four 255 byte buffers (a field-by-field version of this harness
    // produced 2 GB of solver output).
    assert!(
        pkt.hw_addr_type.0 == hrd && pkt.proto_addr_type.0 == pro && pkt.operation.0 == op,
        "owned ARP packet: hrd / pro / op differ from bytes 0-3, 6-7"
    );
    assert!(
        pkt.hw_addr_size() as usize == HL && pkt.protocol_addr_size() as usize == PL && pkt.packet_len() == need,
        "owned ARP packet: address sizes / packet length"
    );
    assert!(
        pkt.sender_hw_addr().len() == HL
            && pkt.target_hw_addr().len() == HL
            && pkt.sender_protocol_addr().len() == PL
            && pkt.target_protocol_addr().len() == PL,
        "owned ARP packet: address slice lengths"
    );
    // every address byte (symbolic position inside the concrete sizes)
    let i = any_le(HL.saturating_sub(1));
    let j = any_le(PL.saturating_sub(1));
    assert!(
        HL == 0 || (pkt.sender_hw_addr()[i] == d[8 + i] && pkt.target_hw_addr()[i] == d[8 + HL + PL + i]),
        "owned ARP packet: sha / tha bytes"
    );
    assert!(
        PL == 0 || (pkt.sender_protocol_addr()[j] == d[8 + HL + j] && pkt.target_protocol_addr()[j] == d[8 + 2 * HL + PL + j]),
        "owned ARP packet: spa / tpa bytes"
    );
    let r = pkt.try_eth_ipv4();
    let is_eth_ipv4 = hrd == 1 && pro == 0x0800 && HL == 6 && PL == 4;
    let truthful = match &r {
        Ok(_) => true,
        Err(e) => arp_eth_ipv4_err_truthful(e, hrd, pro, HL as u8, PL as u8),
    };
    assert!(r.is_ok() == is_eth_ipv4 && truthful, "try_eth_ipv4: wrong verdict or untrue error value");
    // the `TryFrom<ArpPacket>` conversion is the same function
    assert!(ArpEthIpv4Packet::try_from(v.to_packet()) == r, "TryFrom<ArpPacket> differs from try_eth_ipv4");
    (d, len, r)
}

pub fn arp_eth_ipv4_fields() {
    let (d, len, r) = arp_owned::<6, 4>();
    let hrd = be16(d[0], d[1]);
    let pro = be16(d[2], d[3]);
    let op = be16(d[6], d[7]);
    let k6 = any_le(5);
    let k4 = any_le(3);
    let k28 = any_le(27);
    match r {
        Err(_) => {
            witness!(hrd == 1 && pro == 0x0806, "arp_6_4_other_protocol");
            witness!(hrd == 0x0100 && pro == 0x0800, "arp_6_4_hw_type_byte_swapped");
        }
        Ok(p) => {
            // RFC 826 with hln = 6, pln = 4: sha 8.., spa 14.., tha 18.., tpa 24..
            assert!(
                p.operation.0 == op
                    && p.sender_mac[k6] == d[8 + k6]
                    && p.sender_ipv4[k4] == d[14 + k4]
                    && p.target_mac[k6] == d[18 + k6]
                    && p.target_ipv4[k4] == d[24 + k4],
                "Ethernet/IPv4 view: op, sha, spa, tha or tpa taken from the wrong bytes"
            );
            assert!(
                p.sender_ipv4_addr().octets()[k4] == d[14 + k4] && p.target_ipv4_addr().octets()[k4] == d[24 + k4],
                "Ethernet/IPv4 view: Ipv4Addr accessors"
            );
            // re-encoding gives back the 28 bytes of the RFC 826 packet
            assert!(p.to_bytes()[k28] == d[k28], "Ethernet/IPv4 view: to_bytes differs from the decoded bytes");
            witness!(op == 1 && len == 28, "arp_eth_ipv4_request");
            witness!(op == 2 && len == 32, "arp_eth_ipv4_reply_trailing_bytes");
            witness!(op == 0x1234, "arp_eth_ipv4_unassigned_operation");
        }
    }
}

/// the Ethernet / IPv4 sizes swapped (hln = 4, pln = 6): owned packet holds the right bytes,
/// never the Ethernet / IPv4 view, whatever hrd / pro say
pub fn arp_owned_4_6() {
    let (d, len, r) = arp_owned::<4, 6>();
    assert!(r.is_err());
    witness!(be16(d[0], d[1]) == 1 && be16(d[2], d[3]) == 0x0800 && len == 28, "arp_owned_eth_ipv4_types_swapped_sizes");
    witness!(be16(d[0], d[1]) == 6, "arp_owned_other_hw_type");
}

crate::harnesses! {
    c17_icmpv4_slice = icmpv4_slice; unwind 40,
    c17_icmpv4_header = icmpv4_header; unwind 40,
    c17_icmpv6_slice = icmpv6_slice; unwind 40,
    c17_icmpv6_payload_dispatch = icmpv6_payload_dispatch; unwind 40,
    c17_icmp_header_read = icmp_header_read; unwind 40,
    c17_ndp_router_payloads = ndp_router_payloads; unwind 40,
    c17_ndp_neighbor_payloads = ndp_neighbor_payloads; unwind 40,
    c17_ndp_redirect_payload = ndp_redirect_payload; unwind 40,
    c17_ndp_iter_first = ndp_iter_first; unwind 42,
    c17_ndp_iter_first_tight = ndp_iter_first_tight; unwind 42,
    c17_ndp_iter_32 = ndp_iter_32; unwind 34,
    c17_ndp_iter_48 = ndp_iter_48; unwind 50,
    c17_ndp_iter_72 = ndp_iter_72; unwind 74,
    c17_ndp_lla_option_slices = ndp_lla_option_slices; unwind 40,
    c17_ndp_redirected_unknown_option_slices = ndp_redirected_unknown_option_slices; unwind 40,
    c17_ndp_mtu_option_slice = ndp_mtu_option_slice; unwind 40,
    c17_ndp_prefix_information = ndp_prefix_information; unwind 40,
    c17_igmp_header = igmp_header; unwind 40,
    c17_igmp_group_record = igmp_group_record; unwind 40,
    c17_igmp_max_resp_code = igmp_max_resp_code; unwind 40,
    c17_arp_slice = arp_slice; unwind 40,
    c17_arp_eth_ipv4_classify = arp_eth_ipv4_classify; unwind 40,
    c17_arp_eth_ipv4_fields = arp_eth_ipv4_fields; unwind 40,
    c17_arp_owned_4_6 = arp_owned_4_6; unwind 40,
}
