#!/usr/bin/env python3
"""Regenerates the 'as built' per-property table of DESIGN.md (between the AS-BUILT markers) from the registry."""
import os, re, sys
root = os.path.join(os.path.dirname(os.path.abspath(__file__)), "..")
sys.path.insert(0, root)
import registry
rows = ["| id | quick / all harnesses | stubs | what is decided (claim) | outside the claim |", "|---|---|---|---|---|"]
for pid in sorted(registry.PROPS):
    if pid == "SELFTEST":
        continue
    p = registry.PROPS[pid]
    hs = p["harnesses"]
    q = len(registry.select(pid, "quick", 0))
    stubs = sorted(set(s for h in hs for s in h.get("stubs", [])))
    st = ("%d stub(s): " % len(stubs) + "; ".join(x[:60] for x in stubs[:4]) + (" ..." if len(stubs) > 4 else "")) if stubs else "-"
    feat = sorted(set(f for h in hs for f in h.get("features", [])))
    if feat:
        st += " / cargo feature " + ",".join(feat)
    rows.append("| %s | %d / %d | %s | %s | %s |" % (pid, q, len(hs), st.replace("|", "/"),
                                                   re.sub(r"\s+", " ", p.get("claim", "")).replace("|", "/"),
                                                   re.sub(r"\s+", " ", p.get("outside", "")).replace("|", "/")))
table = "\n".join(rows)
d = open(os.path.join(root, "DESIGN.md")).read()
# complete list of stubs in force
srows = ["| property | stub (real function -> replacement, justification) | harnesses using it |", "|---|---|---|"]
for pid in sorted(registry.PROPS):
    if pid == "SELFTEST":
        continue
    seen = {}
    for h in registry.PROPS[pid]["harnesses"]:
        if not h["name"].startswith(pid.lower()):
            continue
        for st in h.get("stubs", []):
            seen.setdefault(st, []).append(h["name"])
    for st, hs in seen.items():
        srows.append("| %s | %s | %d: %s%s |" % (pid, re.sub(r"\s+", " ", st).replace("|", "/"), len(hs), ", ".join(hs[:3]), " ..." if len(hs) > 3 else ""))
stable = "\n".join(srows)
a, b = "<!-- AS-BUILT:BEGIN -->", "<!-- AS-BUILT:END -->"
if a in d:
    d = d[:d.index(a) + len(a)] + "\n" + table + "\n" + d[d.index(b):]
    sa, sb = "<!-- STUBS:BEGIN -->", "<!-- STUBS:END -->"
    if sa in d:
        d = d[:d.index(sa) + len(sa)] + "\n" + stable + "\n" + d[d.index(sb):]
    open(os.path.join(root, "DESIGN.md"), "w").write(d)
else:
    print(table)
