#!/usr/bin/env python3
"""Folds result_<tier>.json of every seeded change into its meta.json and prints the catch matrix (markdown)."""
import json, os, re, sys
sys.path.insert(0, os.path.join(os.path.dirname(os.path.abspath(__file__)), ".."))
import registry
REGISTERED = {h["name"] for pid in registry.PROPS for h in registry.PROPS[pid]["harnesses"]} if hasattr(registry, "PROPS") else None
root = os.path.join(os.path.dirname(os.path.abspath(__file__)), "..", "seeded")
rows = []
for d in sorted(os.listdir(root)):
    p = os.path.join(root, d)
    if not os.path.isfile(os.path.join(p, "meta.json")):
        continue
    m = json.load(open(os.path.join(p, "meta.json")))
    det = {}
    for tier in ("quick", "thorough"):
        f = os.path.join(p, "result_%s.json" % tier)
        if os.path.exists(f):
            r = json.load(open(f))
            for prop, x in r["results"].items():
                hs = sorted(set(re.sub(r"violated: (\S+) .*", r"\1", v) for v in x["violated"]))
                if REGISTERED is not None and any(h in REGISTERED for h in hs):
                    hs = [h for h in hs if h in REGISTERED]   # harnesses unregistered since that run are not credited
                det["%s/%s" % (prop, tier)] = {"exit": x["exit"], "harnesses": hs, "wall_s": x["wall_s"]}
    m["checks_run"] = det
    json.dump(m, open(os.path.join(p, "meta.json"), "w"), indent=1)
    caught = [k + ": " + ", ".join(v["harnesses"]) for k, v in det.items() if v["exit"] == 1]
    missed = [k for k, v in det.items() if v["exit"] == 0]
    inconc = [k for k, v in det.items() if v["exit"] == 2]
    rows.append("| %s | %s | %s | %s |" % (d, m.get("summary", "")[:140].replace("|", "/"),
                                         "; ".join(caught) or "-", "; ".join(["MISSED " + x for x in missed] + ["inconclusive " + x for x in inconc]) or ""))
table = "| seeded change | what it does | caught by (exit 1, reproduced natively) | not caught |\n|---|---|---|---|\n" + "\n".join(rows)
print(table)
dp = os.path.join(root, "..", "DESIGN.md")
d = open(dp).read()
a, b = "<!-- CATCH:BEGIN -->", "<!-- CATCH:END -->"
if a in d:
    d = d[:d.index(a) + len(a)] + "\n" + table + "\n" + d[d.index(b):]
    open(dp, "w").write(d)
