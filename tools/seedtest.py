#!/usr/bin/env python3
"""Run checks against a seeded change without touching /repo (other jobs may be building from it).

  tools/seedtest.py <dir with patch.diff> <PROP>[,<PROP>...] [--tier quick|thorough] [--jobs N]

Creates a scratch worktree of /repo with the patch applied and a scratch copy of /verif whose harness
crate depends on that worktree, runs ./check there, stores result.json next to the patch and removes the
scratch trees again. (Equivalent to `git -C /repo apply`, `./check`, `git -C /repo checkout -- .`.)
"""
import json, os, re, shutil, subprocess, sys, time

def sh(cmd, **kw):
    return subprocess.run(cmd, shell=True, capture_output=True, text=True, **kw)

def main():
    d = os.path.abspath(sys.argv[1])
    props = sys.argv[2].split(",")
    tier = "quick"
    jobs = "6"
    if "--tier" in sys.argv:
        tier = sys.argv[sys.argv.index("--tier") + 1]
    if "--jobs" in sys.argv:
        jobs = sys.argv[sys.argv.index("--jobs") + 1]
    tag = re.sub(r"[^a-zA-Z0-9]", "_", d)[-40:]
    wt = "/tmp/mut_%s" % tag
    vf = "/tmp/mut_%s_verif" % tag
    sh("git -C /repo worktree remove --force %s" % wt)
    shutil.rmtree(vf, ignore_errors=True)
    r = sh("git -C /repo worktree add -q --detach %s HEAD" % wt)
    assert r.returncode == 0, r.stderr
    out = {"patch": d, "tier": tier, "results": {}}
    try:
        r = sh("git -C %s apply %s/patch.diff" % (wt, d))
        if r.returncode != 0:
            out["error"] = "patch does not apply: " + r.stderr
            print(out["error"])
            return 2
        sh("rsync -a --exclude '/kani/target*' --exclude '.git' --exclude '/replays' /verif/ %s/" % vf)
        ct = open(vf + "/kani/Cargo.toml").read().replace('path = "/repo/etherparse"', 'path = "%s/etherparse"' % wt)
        open(vf + "/kani/Cargo.toml", "w").write(ct)
        for p in props:
            t0 = time.time()
            env = dict(os.environ, VERIF_JOBS=jobs)
            r = subprocess.run(["./check", p, "--tier", tier], cwd=vf, env=env, capture_output=True, text=True)
            lines = r.stdout.splitlines()
            out["results"][p] = {
                "exit": r.returncode,
                "wall_s": round(time.time() - t0, 1),
                "violations": [l for l in lines if l.startswith("VIOLATION")],
                "violated": [l.strip() for l in lines if l.strip().startswith("violated:")],
                "inconclusive": [l for l in lines if l.startswith("INCONCLUSIVE")][:10],
                "tail": lines[-3:],
            }
            print(p, "exit", r.returncode, "%.0fs" % (time.time() - t0))
            for l in out["results"][p]["violated"][:4]:
                print("   ", l[:300])
            for l in out["results"][p]["inconclusive"][:4]:
                print("   ", l[:300])
            # keep the tapes of reproduced violations next to the patch
            rp = os.path.join(vf, "replays")
            if os.path.isdir(rp):
                os.makedirs(os.path.join(d, "replays"), exist_ok=True)
                for f in os.listdir(rp):
                    shutil.copy(os.path.join(rp, f), os.path.join(d, "replays", f))
    finally:
        json.dump(out, open(os.path.join(d, "result_%s.json" % tier), "w"), indent=1)
        sh("git -C /repo worktree remove --force %s" % wt)
        shutil.rmtree(vf, ignore_errors=True)
    return 0

if __name__ == "__main__":
    sys.exit(main())
