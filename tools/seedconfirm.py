#!/usr/bin/env python3
"""Confirm seeded changes independently: for each directory (patch.diff, demo.rs, meta.json)
  1. unchanged tree + demo  -> demo passes
  2. patched tree           -> full existing suite passes (cargo test --workspace --offline)
  3. patched tree + demo    -> demo fails
Uses ONE scratch worktree (/tmp/conf_wt) with its own target dir; never touches /repo's working tree.
Writes the outcome into meta.json ("confirmed": {...}). usage: tools/seedconfirm.py <dir> [<dir> ...]
"""
import json, os, shutil, subprocess, sys

WT = "/tmp/conf_wt"

def sh(cmd, cwd=None):
    env = dict(os.environ, CARGO_TARGET_DIR=WT + "/target", CARGO_NET_OFFLINE="true")
    r = subprocess.run(cmd, shell=True, cwd=cwd, env=env, capture_output=True, text=True)
    return r.returncode, r.stdout + r.stderr

def main():
    dirs = [os.path.abspath(d) for d in sys.argv[1:]]
    if not os.path.isdir(WT):
        rc, out = sh("git -C /repo worktree add -q --detach %s HEAD" % WT)
        assert rc == 0, out
    for d in dirs:
        sh("git -C %s checkout -q --detach %s && git -C %s checkout -- . && git -C %s clean -fdq -e target" % (WT, sh("git -C /repo rev-parse HEAD")[1].strip(), WT, WT))
        res = {}
        demo_dst = WT + "/etherparse/tests/demo.rs"
        shutil.copy(d + "/demo.rs", demo_dst)
        rc, out = sh("cargo test --offline -p etherparse --test demo", cwd=WT)
        res["demo_unchanged_passes"] = (rc == 0)
        os.remove(demo_dst)
        rc, out = sh("git apply %s/patch.diff" % d, cwd=WT)
        res["patch_applies"] = (rc == 0)
        if rc == 0:
            rc, out = sh("cargo test --workspace --offline 2>&1", cwd=WT)
            ok = rc == 0 and "FAILED" not in out and out.count("test result: ok") >= 3
            res["suite_passes_with_change"] = ok
            res["suite_summary"] = [l for l in out.splitlines() if l.startswith("test result")][:6]
            shutil.copy(d + "/demo.rs", demo_dst)
            rc, out = sh("cargo test --offline -p etherparse --test demo", cwd=WT)
            res["demo_fails_with_change"] = (rc != 0 and "error: could not compile" not in out)
            os.remove(demo_dst)
        sh("git -C %s checkout -- ." % WT)
        res["all_confirmed"] = all(res.get(k) for k in ["demo_unchanged_passes", "patch_applies", "suite_passes_with_change", "demo_fails_with_change"])
        m = json.load(open(d + "/meta.json"))
        m["confirmed"] = res
        m["confirmed_at_repo_commit"] = sh("git -C /repo rev-parse --short HEAD")[1].strip()
        json.dump(m, open(d + "/meta.json", "w"), indent=1)
        print(os.path.basename(d), "CONFIRMED" if res["all_confirmed"] else "NOT CONFIRMED", res)
    return 0

if __name__ == "__main__":
    sys.exit(main())
