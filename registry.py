"""Harness registry: which Kani harnesses decide which property, in which tier, within which bound.

The bounds written here are copied into the evidence; the unwind values are the ones in the
harness source (kani/src/<module>.rs, `harnesses!` table) and are enforced by CBMC's unwinding
assertions - a bound that is too small makes the check INCONCLUSIVE (exit 2), never green.
"""

COMMON_ASSUMPTIONS = [
    "bounded claim: holds for every input inside the per-harness bound (buffer length, counts, loop unwindings); "
    "nothing is claimed outside it",
    "Kani 0.68 MIR->goto translation and its models of core/alloc intrinsics, CBMC 6.11 bit-precise semantics "
    "and memory model (16 object bits), CaDiCaL",
    "dev profile semantics (debug assertions and overflow checks on); counterexamples are replayed natively in "
    "dev and release",
    "allocation never fails (assume(!ptr.is_null()) after alloc; CBMC --no-malloc-may-fail)",
    "reads of uninitialised memory are not checked (Kani -Z uninit-checks crashes on this toolchain)",
]


def H(name, module, tier="quick", timeout=600, unwind=None, bounds="", encodes=(), stubs=(), stubbing=False,
      features=(), seed_group=None, mem_gb=20):
    return {"name": name, "module": module, "tier": tier, "timeout": timeout, "unwind": unwind, "mem_gb": mem_gb,
            "bounds": bounds, "encodes": list(encodes), "stubs": list(stubs), "stubbing": stubbing,
            "features": list(features), "seed_group": seed_group}


def full_name(h):
    return "%s::proofs::%s" % (h["module"], h["name"])


def select(prop, tier, seed=0):
    hs = PROPS[prop]["harnesses"]
    if tier == "quick":
        out = []
        groups = {}
        for h in hs:
            if h["tier"] != "quick":
                continue
            if h["seed_group"]:
                groups.setdefault(h["seed_group"], []).append(h)
            else:
                out.append(h)
        # VERIF_SEED rotates which member of a group of equivalent-strength optional harnesses runs in quick
        for g, members in sorted(groups.items()):
            out.append(members[seed % len(members)])
        return out
    return list(hs)




PROPS = {}
NOT_APPLICABLE = {}


def _load():
    import importlib, os, sys
    here = os.path.dirname(os.path.abspath(__file__))
    sys.modules.setdefault("registry", sys.modules[__name__])
    for f in sorted(os.listdir(os.path.join(here, "reg"))):
        if f.endswith(".py") and not f.startswith("_"):
            m = importlib.import_module("reg." + f[:-3])
            PROPS[m.ID] = m.PROP
            if getattr(m, "NOT_APPLICABLE", None):
                NOT_APPLICABLE[m.ID] = m.NOT_APPLICABLE
    for i in range(1, 18):
        p = "C%02d" % i
        if p not in PROPS or not PROPS[p].get("harnesses"):
            NOT_APPLICABLE.setdefault(p, "harnesses for this property are not built yet (work in progress; planned in DESIGN.md section 5)")


_load()
