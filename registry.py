"""Harness registry: which Kani harnesses decide which property, in which tier, within which bound.

The bounds written here are copied into the evidence; the unwind values are the ones in the
harness source (kani/src/<module>.rs, `harnesses!` table) and are enforced by CBMC's unwinding
assertions - a bound that is too small makes the check INCONCLUSIVE (exit 2), never green.
"""

COMMON_ASSUMPTIONS = [
    "bounded claim: holds for every input inside the per-harness bound (buffer length, counts, loop unwindings); "
    "nothing is claimed outside it",
    "Kani 0.68 MIR->goto translation and its models of core/alloc intrinsics, CBMC 6.11 bit-precise semantics "
    "and memory model (16 object bits), CaDiCaL",
    "dev profile semantics (debug assertions and overflow checks on); counterexamples are replayed natively in "
    "dev and release",
    "allocation never fails (assume(!ptr.is_null()) after alloc; CBMC --no-malloc-may-fail)",
    "reads of uninitialised memory are not checked (Kani -Z uninit-checks crashes on this toolchain)",
]


def H(name, module, tier="quick", timeout=600, unwind=None, bounds="", encodes=(), stubs=(), stubbing=False,
      features=(), seed_group=None):
    return {"name": name, "module": module, "tier": tier, "timeout": timeout, "unwind": unwind,
            "bounds": bounds, "encodes": list(encodes), "stubs": list(stubs), "stubbing": stubbing,
            "features": list(features), "seed_group": seed_group}


def full_name(h):
    return "%s::proofs::%s" % (h["module"], h["name"])


PROPS = {}

# ----------------------------------------------------------------------------- SELFTEST (driver only)
PROPS["SELFTEST"] = {
    "claim": "must-fail harnesses; exercises counterexample extraction and native replay",
    "harnesses": [
        H("selftest_fail_assert", "selftest", unwind=10),
        H("selftest_fail_oob", "selftest", unwind=10),
    ],
}

# ----------------------------------------------------------------------------- C15
_C15_CTORS = [
    ("c15_ctor_vlan_id", "VlanId::try_new / TryFrom<u16>", "all 2^16 values"),
    ("c15_ctor_vlan_pcp", "VlanPcp::try_new / TryFrom<u8>", "all 2^8 values"),
    ("c15_ctor_ip_dscp", "IpDscp::try_new / TryFrom<u8>", "all 2^8 values"),
    ("c15_ctor_ip_ecn", "IpEcn::try_new / TryFrom<u8>", "all 2^8 values"),
    ("c15_ctor_ip_frag_offset", "IpFragOffset::try_new / TryFrom<u16>", "all 2^16 values"),
    ("c15_ctor_ipv6_flow_label", "Ipv6FlowLabel::try_new / TryFrom<u32>", "all 2^32 values"),
    ("c15_ctor_macsec_an", "MacsecAn::try_new / TryFrom<u8>", "all 2^8 values"),
    ("c15_ctor_macsec_short_len", "MacsecShortLen::try_from_u8 / TryFrom<u8>", "all 2^8 values"),
    ("c15_ctor_igmp_qrv", "igmp::Qrv::try_new / TryFrom<u8>", "all 2^8 values"),
]
PROPS["C15"] = {
    "claim": "complete value domains (no bound beyond the type widths): checked constructors accept exactly the values "
             "that fit and report (actual, max, type) otherwise; to_bytes of each header equals the reference bit "
             "layout written from the standards, so no field can touch a neighbouring bit; decoding arbitrary bytes "
             "yields exactly the reference extraction (hence in-range values)",
    "outside": "nothing inside the listed functions; headers not listed carry no bounded bit-field type",
    "assumptions": ["reference bit layouts in kani/src/c15.rs are transcribed from IEEE 802.1Q/802.1AE, RFC 791/2474/"
                    "3168/8200/9776 and share no constant with etherparse"],
    "harnesses": [H(n, "c15", unwind=20, bounds=b, encodes=[e]) for (n, e, b) in _C15_CTORS] + [
        H("c15_frag_offset_bytes", "c15", unwind=20, bounds="all 2^13 offsets", encodes=["IpFragOffset::byte_offset"]),
        H("c15_vlan_pack", "c15", unwind=20, bounds="all field values",
          encodes=["SingleVlanHeader::to_bytes", "SingleVlanHeader::from_bytes", "SingleVlanHeaderSlice::*"]),
        H("c15_vlan_unpack", "c15", unwind=20, bounds="all 2^32 byte strings",
          encodes=["SingleVlanHeaderSlice::*", "SingleVlanHeader::from_bytes", "SingleVlanHeader::to_bytes"]),
        H("c15_ipv4_pack", "c15", unwind=20, bounds="all field values, no options",
          encodes=["Ipv4Header::to_bytes", "Ipv4HeaderSlice::{dcp,ecn,dont_fragment,more_fragments,fragments_offset,..}"]),
        H("c15_ipv4_unpack", "c15", unwind=20, bounds="all 20-byte headers with IHL 5",
          encodes=["Ipv4HeaderSlice::from_slice", "Ipv4HeaderSlice::to_header"]),
        H("c15_ipv6_pack", "c15", unwind=20, bounds="all field values",
          encodes=["Ipv6Header::to_bytes", "Ipv6HeaderSlice::{traffic_class,flow_label,dscp,ecn,..}", "Ipv6Header::{dscp,ecn}"]),
        H("c15_ipv6_unpack", "c15", unwind=20, bounds="all values of the first 8 bytes",
          encodes=["Ipv6HeaderSlice::from_slice", "Ipv6HeaderSlice::to_header"]),
        H("c15_ipv6_set_dscp_ecn", "c15", unwind=20, bounds="all values", encodes=["Ipv6Header::set_dscp", "Ipv6Header::set_ecn"]),
        H("c15_ipv6_frag_pack", "c15", unwind=20, bounds="all field values",
          encodes=["Ipv6FragmentHeader::to_bytes", "Ipv6FragmentHeaderSlice::*"]),
        H("c15_ipv6_frag_unpack", "c15", unwind=20, bounds="all 2^64 byte strings",
          encodes=["Ipv6FragmentHeaderSlice::*", "Ipv6FragmentHeader::is_fragmenting_payload"]),
        H("c15_macsec_pack", "c15", unwind=20, bounds="all field values, all 4 payload types, with/without SCI",
          encodes=["MacsecHeader::to_bytes", "MacsecHeader::header_len"]),
        H("c15_macsec_unpack", "c15", unwind=20, bounds="all 16-byte strings",
          encodes=["MacsecHeaderSlice::from_slice", "MacsecHeaderSlice::*", "MacsecHeaderSlice::to_header"]),
        H("c15_igmp_query_bits", "c15", unwind=20, bounds="all values of byte 8 and of every setter argument",
          encodes=["MembershipQueryWithSourcesHeader::{flags,set_flags,s_flag,set_s_flag,qrv,set_qrv}"]),
    ],
}


def select(prop, tier, seed=0):
    hs = PROPS[prop]["harnesses"]
    if tier == "quick":
        out = []
        groups = {}
        for h in hs:
            if h["tier"] != "quick":
                continue
            if h["seed_group"]:
                groups.setdefault(h["seed_group"], []).append(h)
            else:
                out.append(h)
        # VERIF_SEED rotates which member of a group of equivalent-strength optional harnesses runs in quick
        for g, members in sorted(groups.items()):
            out.append(members[seed % len(members)])
        return out
    return list(hs)


# properties not (yet) claimed: property id -> one-line reason (kept current; copied into MANIFEST.json)
NOT_APPLICABLE = {}
for _p in ["C01", "C02", "C03", "C04", "C05", "C06", "C07", "C08", "C09", "C10", "C11", "C12", "C13", "C14", "C16", "C17"]:
    if _p not in PROPS:
        NOT_APPLICABLE[_p] = "harnesses for this property are not built yet (work in progress; planned in DESIGN.md section 5)"
