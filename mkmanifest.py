#!/usr/bin/env python3
"""Regenerates MANIFEST.json from registry.py (single source of truth for what is claimed)."""
import json, os, subprocess, sys
sys.path.insert(0, os.path.dirname(os.path.abspath(__file__)))
import registry

LEVEL_TEXT = ("bounded model checking of the real compiled code: Kani translates /repo/etherparse (current working tree) "
              "to a CBMC goto program, inputs are kani::any() variables, the property is a set of assertions plus "
              "Kani's built-in pointer/panic/overflow/unwinding checks, and CaDiCaL decides every obligation for ALL "
              "values inside the stated bound; not a proof beyond the bound. ")

def main():
    hooks_commits = []
    try:
        out = subprocess.run(["git", "-C", "/repo", "log", "--format=%H %s"], capture_output=True, text=True).stdout
        hooks_commits = [l.split()[0] for l in out.splitlines() if " verif-hooks" in l or l.split(" ", 1)[1].startswith("hook:")]
    except Exception:
        pass
    checks = []
    for pid in sorted(registry.PROPS):
        if pid == "SELFTEST" or pid in registry.NOT_APPLICABLE:
            continue
        p = registry.PROPS[pid]
        checks.append({
            "property_id": pid,
            "quick_cmd": "./check %s --tier quick" % pid,
            "thorough_cmd": "./check %s --tier thorough" % pid,
            "evidence_file": "/verif/evidence/%s.json" % pid,
            "replay_cmd_template": "./check --replay {path}",
            "engine": "kani-cbmc",
            "level_claimed": {"category": "model_checking", "text": LEVEL_TEXT + p.get("claim", ""),
                              "design_ref": "DESIGN.md section 5 " + pid},
            "level_note": "Trusted: rustc MIR, Kani 0.68 goto translation and intrinsic models, CBMC 6.11, CaDiCaL, the "
                          "reference oracles in /verif/kani/src. Outside the claim: " + p.get("outside", "-"),
            "technique": p.get("technique", "bounded symbolic execution of the compiled crate (Kani -> CBMC -> SAT), "
                                            "counterexamples replayed natively")
            + ("; some harnesses run with function stubs (kani::stub), each listed with its justification in DESIGN.md 9.4"
               if any(h.get("stubs") for h in p["harnesses"]) else "")
            + ("; differential against an independent reference decoder (kani/src/refm.rs)" if pid in ("C03", "C05", "C07") else ""),
        })
    m = {
        "version": 1,
        "setup_cmd": "./check --setup",
        "hooks": {
            "guard": "cargo feature `verif-hooks` of the etherparse crate (off by default)",
            "enable": "harness crate /verif/kani built with --features hooks (forwards etherparse/verif-hooks); only C11 uses it",
            "baseline_off_cmd": "cd /repo && cargo test --workspace --no-fail-fast --offline",
            "source_commits": hooks_commits,
            "add_only": True,
        },
        "engines": [{"name": "kani-cbmc", "path": "/verif/check",
                     "serves_properties": [c["property_id"] for c in checks],
                     "kind_free_text": "Kani 0.68.0 (MIR -> goto) + CBMC 6.11.0 + CaDiCaL; harness crate /verif/kani, "
                                       "driver /verif/check, registry /verif/registry.py"}],
        "checks": checks,
        "not_applicable": [{"property_id": k, "reason": v} for k, v in sorted(registry.NOT_APPLICABLE.items())],
        "notes": "exit 2 = inconclusive (timeout, OOM, unwinding assertion, unsatisfied vacuity witness, counterexample "
                 "not reproducing natively); never reported as success. ./check --selftest proves the alarm path.",
    }
    with open(os.path.join(os.path.dirname(os.path.abspath(__file__)), "MANIFEST.json"), "w") as f:
        json.dump(m, f, indent=1)
        f.write("\n")

if __name__ == "__main__":
    main()
