from registry import H

ID = "C06"

# ----------------------------------------------------------------------------- (a) IP boundary implementations
IP = [
    H("c06_ip4_strict_slices", "c06", unwind=2, timeout=900,
      bounds="every byte string of length 0..=44 whose version nibble is not 6 (IPv4 with IHL 5..=11, empty slice, "
             "unsupported versions); authentication header <= 24 bytes",
      encodes=["IpSlice::from_slice", "Ipv4Slice::from_slice"]),
    H("c06_ip4_lax_slices", "c06", unwind=2, timeout=900,
      bounds="every byte string of length 0..=44 whose version nibble is not 6",
      encodes=["LaxIpSlice::from_slice", "LaxIpv4Slice::from_slice"]),
    H("c06_ip6_strict_slices_48", "c06", unwind=2, timeout=900,
      bounds="every byte string of length 0..=48 whose version nibble is not 4 (IPv6 with <= 1 complete extension "
             "header, empty slice, unsupported versions)",
      encodes=["IpSlice::from_slice", "Ipv6Slice::from_slice", "Ipv6ExtensionsSlice::from_slice"]),
    H("c06_ip6_lax_slices_48", "c06", unwind=2, timeout=900,
      bounds="every byte string of length 0..=48 whose version nibble is not 4 (<= 1 complete extension header)",
      encodes=["LaxIpSlice::from_slice", "LaxIpv6Slice::from_slice", "Ipv6ExtensionsSlice::from_slice_lax"]),
    H("c06_ip6_strict_slices_56", "c06", unwind=3, timeout=900,
      bounds="every byte string of length 0..=56 whose version nibble is not 4 (<= 2 complete extension headers)",
      encodes=["IpSlice::from_slice", "Ipv6Slice::from_slice", "Ipv6ExtensionsSlice::from_slice"]),
    H("c06_ip6_lax_slices_56", "c06", unwind=3, timeout=900,
      bounds="every byte string of length 0..=56 whose version nibble is not 4 (<= 2 complete extension headers)",
      encodes=["LaxIpSlice::from_slice", "LaxIpv6Slice::from_slice", "Ipv6ExtensionsSlice::from_slice_lax"]),
    # struct doors: one IpHeaders-returning door per harness (3-14 GB each), compared with the slice door
    H("c06_ip4_hdr_strict", "c06", tier="quick", seed_group="ipheaders-doors", unwind=1, timeout=2400,
      bounds="every byte string of length 0..=44; header values, option and ICV bytes, payload range, errors",
      encodes=["IpHeaders::from_ipv4_slice", "Ipv4Slice::from_slice"]),
    H("c06_ip4_hdr_lax", "c06", tier="quick", seed_group="ipheaders-doors", unwind=1, timeout=2400,
      bounds="every byte string of length 0..=44; header values, option and ICV bytes, payload, incomplete, stop error",
      encodes=["IpHeaders::from_ipv4_slice_lax", "LaxIpv4Slice::from_slice"]),
    H("c06_ip6_hdr_strict", "c06", tier="quick", seed_group="ipheaders-doors", unwind=1, timeout=2400,
      bounds="every byte string of length 0..=47: no complete extension header fits (extension faults are length faults "
             "of the first extension header); base header values, payload range, len_source, errors",
      encodes=["IpHeaders::from_ipv6_slice", "Ipv6Slice::from_slice", "Ipv6Extensions::from_slice (first pass)"]),
    H("c06_ip6_hdr_lax", "c06", tier="quick", seed_group="ipheaders-doors", unwind=1, timeout=2400,
      bounds="every byte string of length 0..=47: no complete extension header fits",
      encodes=["IpHeaders::from_ipv6_slice_lax", "LaxIpv6Slice::from_slice", "Ipv6Extensions::from_slice_lax (first pass)"]),
    H("c06_ip_hdr_lax_dispatch", "c06", tier="thorough", unwind=1, timeout=2400,
      bounds="every byte string of length 0..=47, all version nibbles; IPv4: scalar header fields and LENGTHS of options/ICV "
             "(their bytes: c06_ip4_hdr_lax), IPv6: no complete extension header",
      encodes=["IpHeaders::from_slice_lax", "LaxIpSlice::from_slice"]),
]

# ----------------------------------------------------------------------------- (c) readers
RD = [
    H("c06_rd_fixed", "c06", unwind=2, timeout=900, bounds="std::io::Cursor over every byte string of length 0..=16",
      encodes=["Ethernet2Header::read / from_slice", "SingleVlanHeader::read / from_slice", "UdpHeader::read / from_slice",
               "Ipv6FragmentHeader::read / from_slice"]),
    H("c06_rd_sll", "c06", unwind=2, timeout=900, bounds="Cursor over every byte string of length 0..=18",
      encodes=["LinuxSllHeader::read", "LinuxSllHeader::from_slice"]),
    H("c06_rd_macsec", "c06", unwind=2, timeout=900, bounds="Cursor over every byte string of length 0..=18 (all 4 header sizes)",
      encodes=["MacsecHeader::read", "MacsecHeader::from_slice"]),
    H("c06_rd_ipv4_header", "c06", unwind=2, timeout=900, bounds="Cursor over every byte string of length 0..=64 (every IHL)",
      encodes=["Ipv4Header::read", "Ipv4Header::read_without_version", "Ipv4Header::from_slice"]),
    H("c06_rd_ipv6_header", "c06", unwind=2, timeout=900, bounds="Cursor over every byte string of length 0..=42",
      encodes=["Ipv6Header::read", "Ipv6Header::read_without_version", "Ipv6Header::from_slice"]),
    H("c06_rd_tcp", "c06", unwind=2, timeout=900, bounds="Cursor over every byte string of length 0..=64 (every data offset); options compared as bytes, not iterated",
      encodes=["TcpHeader::read", "TcpHeader::from_slice"]),
    H("c06_rd_icmpv4", "c06", unwind=6, timeout=900,
      bounds="Cursor over every byte string of length 0..=24; timestamp / timestamp reply (code 0): the slice door gets the slice that ends with the 20-byte header",
      encodes=["Icmpv4Header::read", "Icmpv4Header::from_slice"]),
    H("c06_rd_icmpv6", "c06", unwind=6, timeout=900, bounds="Cursor over every byte string of length 0..=12",
      encodes=["Icmpv6Header::read", "Icmpv6Header::from_slice"]),
    H("c06_rd_limited_frag", "c06", unwind=2, timeout=900,
      bounds="LimitedReader(max_len <= len <= 12, any len_source, start offset <= 1000) vs the slice cut to max_len",
      encodes=["Ipv6FragmentHeader::read_limited", "Ipv6FragmentHeader::from_slice", "LimitedReader::read_exact / start_layer"]),
    H("c06_rd_raw_ext", "c06", tier="thorough", unwind=2, timeout=2400, bounds="Cursor over every byte string of length 0..=26 (header sizes 8, 16, 24)",
      encodes=["Ipv6RawExtHeader::read", "Ipv6RawExtHeader::from_slice"]),
    H("c06_rd_auth", "c06", unwind=2, timeout=900, bounds="Cursor over every byte string of length 0..=28 (ICV 0..=16 bytes)",
      encodes=["IpAuthHeader::read", "IpAuthHeader::from_slice"]),
    H("c06_rd_ipv4_exts", "c06", unwind=2, timeout=900, bounds="every start ip number x Cursor over every byte string of length 0..=28",
      encodes=["Ipv4Extensions::read", "Ipv4Extensions::from_slice"]),
    H("c06_rd_arp", "c06", tier="thorough", unwind=2, timeout=2400, bounds="Cursor over every byte string of length 0..=30 (accept path: 8+2h+2p <= 30)",
      encodes=["ArpPacket::read", "ArpPacket::from_slice"]),
    H("c06_rd_limited_raw", "c06", tier="thorough", unwind=2, timeout=2400,
      bounds="LimitedReader(max_len <= len <= 26, any len_source, start offset <= 1000) vs the slice cut to max_len",
      encodes=["Ipv6RawExtHeader::read_limited", "Ipv6RawExtHeader::from_slice", "LimitedReader::read_exact / start_layer"]),
    H("c06_rd_limited_auth", "c06", unwind=2, timeout=900,
      bounds="LimitedReader(max_len <= len <= 28, any len_source, start offset <= 1000) vs the slice cut to max_len",
      encodes=["IpAuthHeader::read_limited", "IpAuthHeader::from_slice", "LimitedReader::read_exact / start_layer"]),
]

# ----------------------------------------------------------------------------- (b) whole-packet doors (slice based families)
PK = [
    H("c06_pk_sliced_ip4", "c06", unwind=2, timeout=900,
      bounds="every byte string of length 0..=44 whose version nibble is not 6 (IPv4 + UDP/TCP/ICMP start)",
      encodes=["SlicedPacket::from_ether_type(IPV4, ..)", "SlicedPacket::from_ip"]),
    H("c06_pk_sliced_ip6", "c06", unwind=3, timeout=900,
      bounds="every byte string of length 0..=56 whose version nibble is not 4 (IPv6, <= 2 extension headers or a transport start)",
      encodes=["SlicedPacket::from_ether_type(IPV6, ..)", "SlicedPacket::from_ip"]),
    H("c06_pk_lax_ip", "c06", unwind=3, timeout=900,
      bounds="every byte string of length 0..=56, all version nibbles",
      encodes=["LaxSlicedPacket::from_ether_type(IPV4, ..)", "LaxSlicedPacket::from_ether_type(IPV6, ..)", "LaxSlicedPacket::from_ip"]),
    H("c06_pk_sliced_eth_21", "c06", tier="thorough", unwind=2, timeout=2400,
      bounds="every frame of length 14..=21, any ether type: <= 1 complete VLAN/MACsec header, everything behind it truncated "
             "(length faults at offsets 14..=20 -> the +14 fix-up)",
      encodes=["SlicedPacket::from_ethernet", "SlicedPacket::from_ether_type"]),
    H("c06_pk_lax_eth_21", "c06", tier="thorough", unwind=2, timeout=2400,
      bounds="every frame of length 14..=21, any ether type (<= 1 complete link extension)",
      encodes=["LaxSlicedPacket::from_ethernet", "LaxSlicedPacket::from_ether_type"]),
    H("c06_pk_sliced_eth_ip4", "c06", tier="thorough", unwind=2, timeout=2400,
      bounds="shaped: ether type 0x0800 concrete, every frame of length 14..=58 (IPv4 header, options, auth, transport start)",
      encodes=["SlicedPacket::from_ethernet", "SlicedPacket::from_ether_type(IPV4, ..)"]),
    H("c06_pk_lax_eth_ip4", "c06", tier="thorough", unwind=2, timeout=2400,
      bounds="shaped: ether type 0x0800 concrete, every frame of length 14..=58",
      encodes=["LaxSlicedPacket::from_ethernet", "LaxSlicedPacket::from_ether_type(IPV4, ..)"]),
    H("c06_pk_sliced_eth_ip6", "c06", tier="thorough", unwind=2, timeout=2400,
      bounds="shaped: ether type 0x86dd concrete, every frame of length 14..=62 (IPv6, <= 1 complete extension header or 8 transport bytes)",
      encodes=["SlicedPacket::from_ethernet", "SlicedPacket::from_ether_type(IPV6, ..)"]),
    H("c06_pk_lax_eth_ip6", "c06", tier="thorough", unwind=2, timeout=2400,
      bounds="shaped: ether type 0x86dd concrete, every frame of length 14..=62",
      encodes=["LaxSlicedPacket::from_ethernet", "LaxSlicedPacket::from_ether_type(IPV6, ..)"]),
]

PROP = {
    "max_jobs": 6,  # parallel CBMC jobs (memory profile of these harnesses)
    "claim": "pure differential checks on identical symbolic bytes (no reference model), for every input inside the per-harness bound: "
             "(a) 11 of the 12 IP boundary implementations agree pairwise along the chain IpSlice = Ipv4Slice/Ipv6Slice = "
             "from_ipv4_slice/from_ipv6_slice, and LaxIpSlice = LaxIpv4Slice/LaxIpv6Slice = from_ipv4_slice_lax/from_ipv6_slice_lax = "
             "IpHeaders::from_slice_lax: same verdict, same canonical error (LenError field by field), same header "
             "ranges / values, payload range by pointer+len, ip_number, fragmented, len_source, incomplete, stop error + layer; "
             "(b) SlicedPacket and LaxSlicedPacket: from_ethernet = from_ether_type(ether type, bytes after 14) with error offsets +14, "
             "from_ether_type(IPV4|IPV6) = from_ip; (c) read / read_limited from a slice-backed reader = from_slice for 15 header types: "
             "equal header, reader position == header length, Len <-> io UnexpectedEof / limit error, equal content errors. "
             "Tolerated (enumerated TOL-1..5 in kani/src/c06.rs, verdict still required equal): order of coexisting faults on slices shorter "
             "than the minimum IP header (dispatching doors and stream readers see byte 0 first), struct doors stopping in front of a "
             "repeated IPv6 extension header (documented), chunked length demand of Ipv6RawExtHeader::read_limited below 8 bytes",
    "outside": "NOT decided (~9 KB IpHeaders/NetHeaders-returning doors exceed the 20 GB cap under CBMC, measured): "
               "IpHeaders::from_slice (strict dispatching struct door) vs IpSlice - the harness exists but fits the cap only sometimes "
               "and is not registered; "
               "PacketHeaders::from_ethernet_slice vs from_ether_type, LaxPacketHeaders::from_ethernet vs from_ether_type, "
               "PacketHeaders::from_ether_type(IPV4|IPV6) vs from_ip_slice, LaxPacketHeaders::from_ether_type vs from_ip, "
               "Ipv6Extensions::read / read_limited and Ipv4Extensions::read_limited vs from_slice, IpHeaders::read vs from_slice "
               "(hence also the documented IPv6 payload-length-0 reader difference is not exercised). "
               "Struct doors on IPv6: only inputs in which no extension header is complete (N = 47); contents of IPv6 extension headers "
               "behind struct doors are not compared. IpHeaders::from_slice(_lax) vs IpSlice compares option/ICV lengths, not their bytes. "
               "from_ethernet with more than one link extension, or with a link extension in front of a complete IP header, is not "
               "compared (N = 21 unshaped; shaped harnesses have no link extension). IgmpHeader has no reader in the pinned tree (no pair). "
               "TCP options are compared as bytes, never iterated. Larger buffers than the per-harness N.",
    "assumptions": [
        "the reader is std::io::Cursor<&[u8]> over the same bytes; other Read implementations (short reads, faults) are C16's subject",
        "equality along a chain of pairwise comparisons is transitive because every link compares the same observables",
        "error types of different doors are identified through the canonical reason mapping F in kani/src/c06.rs "
        "(version, IHL, auth zero payload length, hop-by-hop not at start, TCP/MACsec/SLL content error, LenError)",
    ],
    "harnesses": IP + RD + PK,
}
