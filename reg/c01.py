from registry import H

ID = "C01"

LINK = [
    H("c01_eth2_header_slice", "c01", unwind=4, bounds="every byte string of length 0..=20, exact-size object",
      encodes=["Ethernet2HeaderSlice::from_slice + all accessors", "Ethernet2Header::from_slice"]),
    H("c01_eth2_slice", "c01", unwind=4, bounds="every byte string of length 0..=24, both FCS modes",
      encodes=["Ethernet2Slice::from_slice_without_fcs", "Ethernet2Slice::from_slice_with_crc32_fcs", "all accessors, payload(), to_header()"]),
    H("c01_vlan_slice", "c01", unwind=4, bounds="every byte string of length 0..=12",
      encodes=["SingleVlanHeaderSlice::from_slice", "SingleVlanSlice::from_slice", "SingleVlanHeader::from_slice", "all accessors"]),
    H("c01_macsec_slice", "c01", unwind=4, bounds="every byte string of length 0..=32",
      encodes=["MacsecHeaderSlice::from_slice", "MacsecHeader::from_slice", "MacsecSlice::from_slice", "all accessors"]),
    H("c01_lax_macsec_slice", "c01", unwind=4, bounds="every byte string of length 0..=32",
      encodes=["LaxMacsecSlice::from_slice", "all accessors"]),
    H("c01_sll_slice", "c01", unwind=4, bounds="every byte string of length 0..=24",
      encodes=["LinuxSllHeaderSlice::from_slice", "LinuxSllHeader::from_slice", "LinuxSllSlice::from_slice", "all accessors"]),
    H("c01_sll_from_bytes", "c01", unwind=4, bounds="all 2^128 byte strings", encodes=["LinuxSllHeader::from_bytes", "LinuxSllHeader::to_bytes"]),
    H("c01_arp_slice", "c01", unwind=40, bounds="every byte string of length 0..=36 (accept path: 8+2h+2p <= 36)",
      encodes=["ArpPacketSlice::from_slice + all accessors", "ArpPacketSlice::to_packet", "ArpPacket::from_slice", "ArpPacket accessors", "ArpPacket::try_eth_ipv4"]),
    H("c01_link_readers", "c01", unwind=24, bounds="std::io::Cursor over every byte string of length 0..=20",
      encodes=["Ethernet2Header::read", "SingleVlanHeader::read", "LinuxSllHeader::read", "MacsecHeader::read"]),
]

NET = [
    H("c01_ipv4_header_slice", "c01", unwind=4, bounds="every byte string of length 0..=64",
      encodes=["Ipv4HeaderSlice::from_slice + all accessors + to_header", "Ipv4Header::from_slice"]),
    H("c01_ipv4_slice", "c01", unwind=4, bounds="every byte string of length 0..=44",
      encodes=["Ipv4Slice::from_slice", "IpAuthHeaderSlice::from_slice", "all accessors"]),
    H("c01_lax_ipv4_slice", "c01", unwind=4, bounds="every byte string of length 0..=44",
      encodes=["LaxIpv4Slice::from_slice", "all accessors"]),
    H("c01_ipv4_exts", "c01", unwind=4, bounds="every start ip number x every byte string of length 0..=28",
      encodes=["Ipv4ExtensionsSlice::from_slice", "Ipv4ExtensionsSlice::from_slice_lax"]),
    H("c01_auth_slice", "c01", unwind=4, bounds="every byte string of length 0..=28",
      encodes=["IpAuthHeaderSlice::from_slice + accessors"]),
    H("c01_ipv6_header_slice", "c01", unwind=4, bounds="every byte string of length 0..=48",
      encodes=["Ipv6HeaderSlice::from_slice + all accessors + to_header", "Ipv6Header::from_slice"]),
    H("c01_raw_ext_slice", "c01", unwind=4, bounds="every byte string of length 0..=32",
      encodes=["Ipv6RawExtHeaderSlice::from_slice", "Ipv6FragmentHeaderSlice::from_slice", "Ipv6FragmentHeader::from_slice", "accessors"]),
    H("c01_ipv6_exts_strict_16", "c01", unwind=4, timeout=900, bounds="every start ip number x every byte string of length 0..=16 (<= 2 headers)",
      encodes=["Ipv6ExtensionsSlice::from_slice", "Ipv6ExtensionSliceIter::next (to exhaustion)", "accessors of every yielded header"]),
    H("c01_ipv6_exts_lax_16", "c01", unwind=4, timeout=900, bounds="every start ip number x every byte string of length 0..=16 (<= 2 headers)",
      encodes=["Ipv6ExtensionsSlice::from_slice_lax", "Ipv6ExtensionSliceIter::next (to exhaustion, also after an early stop)"]),
    H("c01_ipv6_slice_56", "c01", unwind=4, timeout=900, bounds="every byte string of length 0..=56 (<= 2 extension headers), strict and lax constructor",
      encodes=["Ipv6Slice::from_slice", "Ipv6Slice::from_slice_lax", "extension iterator", "all accessors"]),
    H("c01_lax_ipv6_slice_56", "c01", unwind=4, timeout=900, bounds="every byte string of length 0..=56",
      encodes=["LaxIpv6Slice::from_slice", "extension iterator", "all accessors"]),
    H("c01_ip_slice_56", "c01", unwind=4, timeout=900, bounds="every byte string of length 0..=56",
      encodes=["IpSlice::from_slice", "all accessors", "IpSlice::header"]),
    H("c01_lax_ip_slice_56", "c01", unwind=4, timeout=900, bounds="every byte string of length 0..=56",
      encodes=["LaxIpSlice::from_slice", "all accessors"]),
    H("c01_ipv6_exts_strict_24", "c01", tier="thorough", unwind=5, timeout=3000, bounds="every start ip number x every byte string of length 0..=24 (<= 3 headers)",
      encodes=["Ipv6ExtensionsSlice::from_slice", "Ipv6ExtensionSliceIter::next (to exhaustion)"]),
    H("c01_ipv6_exts_lax_24", "c01", tier="thorough", unwind=5, timeout=3000, bounds="every start ip number x every byte string of length 0..=24 (<= 3 headers)",
      encodes=["Ipv6ExtensionsSlice::from_slice_lax", "Ipv6ExtensionSliceIter::next (to exhaustion, also after an early stop)"]),
    H("c01_ipv6_slice_64", "c01", tier="thorough", unwind=5, timeout=3600, bounds="every byte string of length 0..=64 (<= 3 extension headers), strict and lax constructor",
      encodes=["Ipv6Slice::from_slice", "Ipv6Slice::from_slice_lax", "extension iterator", "all accessors"]),
    H("c01_lax_ipv6_slice_64", "c01", tier="thorough", unwind=5, timeout=3600, bounds="every byte string of length 0..=64",
      encodes=["LaxIpv6Slice::from_slice", "extension iterator", "all accessors"]),
    H("c01_ip_slice_64", "c01", tier="thorough", unwind=5, timeout=3600, bounds="every byte string of length 0..=64",
      encodes=["IpSlice::from_slice", "all accessors", "IpSlice::header"]),
    H("c01_lax_ip_slice_64", "c01", tier="thorough", unwind=5, timeout=3600, bounds="every byte string of length 0..=64",
      encodes=["LaxIpSlice::from_slice", "all accessors"]),
]

TRANSPORT = [
    H("c01_udp_slice", "c01::transport", unwind=4, bounds="every byte string of length 0..=16, strict and lax",
      encodes=["UdpHeaderSlice::from_slice", "UdpHeader::from_slice", "UdpSlice::from_slice", "UdpSlice::from_slice_lax", "all accessors"]),
    H("c01_tcp_header_slice_64_noiter", "c01::transport", unwind=4, timeout=900, bounds="every byte string of length 0..=64 (all data offsets); option iterator: see C13 harnesses",
      encodes=["TcpHeaderSlice::from_slice + all accessors"]),
    H("c01_tcp_slice_64_noiter", "c01::transport", unwind=4, timeout=900, bounds="every byte string of length 0..=64 (all data offsets); option iterator not run here",
      encodes=["TcpSlice::from_slice + all accessors", "TcpHeader::from_slice"]),
    H("c01_icmpv4_slice", "c01::transport", unwind=4, bounds="every byte string of length 0..=28",
      encodes=["Icmpv4Slice::from_slice + accessors + icmp_type + header", "Icmpv4Header::from_slice"]),
    H("c01_icmpv6_slice", "c01::transport", unwind=4, bounds="every byte string of length 0..=28",
      encodes=["Icmpv6Slice::from_slice + accessors + icmp_type + header + payload_slice", "Icmpv6Header::from_slice"]),
]

PACKET = [
    H("c01_pk_sliced_ip_44", "c01::packet", unwind=5, timeout=1500, bounds="every byte string of length 0..=44, exact-size object", encodes=["SlicedPacket::from_ip (slices cut by the cursor)"]),
    H("c01_pk_sliced_ip", "c01::packet", tier="thorough", unwind=5, timeout=7200, bounds="every byte string of length 0..=56, exact-size object", encodes=["SlicedPacket::from_ip"]),
    H("c01_pk_lax_sliced_ip", "c01::packet", tier="thorough", unwind=5, timeout=7200, bounds="every byte string of length 0..=48, exact-size object", encodes=["LaxSlicedPacket::from_ip"]),
]

READERS = [
    H("c01_rd_ipv4", "c01::readers", unwind=4, bounds="std::io::Cursor over every byte string of length 0..=64", encodes=["Ipv4Header::read", "Ipv4Header::to_bytes"]),
    H("c01_rd_ipv4_without_version", "c01::readers", unwind=4, bounds="every first byte x every byte string of length 0..=64", encodes=["Ipv4Header::read_without_version (version not checked: every first byte is legal)"]),
    H("c01_rd_ipv6", "c01::readers", unwind=4, bounds="every byte string of length 0..=44, every version-rest nibble", encodes=["Ipv6Header::read", "Ipv6Header::read_without_version"]),
    H("c01_rd_auth", "c01::readers", unwind=4, bounds="every byte string of length 0..=28", encodes=["IpAuthHeader::read"]),
    H("c01_rd_raw_ext", "c01::readers", unwind=4, bounds="every byte string of length 0..=28", encodes=["Ipv6RawExtHeader::read"]),
    H("c01_rd_frag_udp", "c01::readers", unwind=4, bounds="every byte string of length 0..=12", encodes=["Ipv6FragmentHeader::read", "UdpHeader::read"]),
    H("c01_rd_tcp", "c01::readers", unwind=4, bounds="every byte string of length 0..=64", encodes=["TcpHeader::read"]),
    H("c01_rd_icmp", "c01::readers", unwind=4, bounds="every byte string of length 0..=24", encodes=["Icmpv4Header::read", "Icmpv6Header::read"]),
]

# harnesses of other modules that run the same kind of decoder over an exact-size buffer; C01 / C02 read their
# memory-safety / panic class results (DESIGN 2.2), the owning property reads its oracle assertions
def _shared():
    out = []
    try:
        from reg import c13
        want = ("c13_iter_step", "c13_iter_progress", "c13_iter_exhausted", "c13_iter_walk_6", "c13_header_set_options_raw",
                "c13_header_slice_options", "c13_options_from_slice")
        out += [h for h in c13.PROP["harnesses"] if h["name"] in want]
    except Exception:
        pass
    try:
        from reg import c17
        out += [h for h in c17.PROP["harnesses"] if h["tier"] == "quick"]
    except Exception:
        pass
    return out


SHARED = _shared()

PROP = {
    "claim": "for every byte string up to the per-harness length N, placed in a heap object of exactly its length, the "
             "decoder, all accessors, conversions and iterators perform no access outside the object (CBMC pointer "
             "checks), violate no unsafe precondition (get_unchecked, from_raw_parts, unwrap_unchecked, "
             "unreachable_unchecked, debug_assert in *_unchecked) and every returned sub-slice lies inside the input",
    "outside": "inputs longer than N; reads of uninitialised memory; aliasing-model UB; whole-packet entry points other than "
               "from_ip over an exact-size buffer (SlicedPacket / LaxSlicedPacket from_ethernet, from_linux_sll, from_ether_type and all "
               "PacketHeaders / LaxPacketHeaders entry points exceed the 20 GB cap; their cursor code runs on plain arrays in the C03 / C05 "
               "glue harnesses, where CBMC still checks every unsafe precondition but not tightness)",
    "assumptions": [],
    "harnesses": LINK + NET + TRANSPORT + READERS + SHARED + PACKET,
}
