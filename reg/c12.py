from registry import H

# ----------------------------------------------------------------------------- C12
ID = "C12"

_SIZES = ("raw headers 8 bytes (6 payload bytes, first one symbolic), authentication header 16 bytes (4 byte ICV, "
          "first byte symbolic), fragment header: all field values, SPI / sequence number symbolic")
_STUBS = ["Ipv6RawExtHeader::to_bytes -> wire image model, exact for 6 byte payloads (proved equal to the real function "
          "on that value set by c12_stub_raw_to_bytes)",
          "IpAuthHeader::to_bytes -> wire image model, exact for 4 byte ICVs (proved equal to the real function on that "
          "value set by c12_stub_auth_to_bytes)"]

PROP = {
    "claim": "IPv6, all 48 structurally possible presence patterns of hop-by-hop, destination options, routing, final "
             "destination options (needs a routing header: member of Ipv6RoutingExtensions), fragment, authentication "
             "header, at the sizes " + _SIZES + ". (1) LINKING: for arbitrary stale links and every final number n that is "
             "not in the IANA list of IPv6 extension header types, set_next_headers(n) changes nothing but the links, links "
             "every present header to the next present one in RFC 8200 4.1 order and the last to n, returns the number of "
             "the first present header (n for the empty set), and next_header(returned) == Ok(n); header_len is the sum of "
             "the present headers. (2) ARBITRARY CHAINS: for arbitrary next_header bytes in every header and every first "
             "number (256 values), next_header() and write() each give exactly the verdict of a reference linked-list walk "
             "(written from RFC 8200 4/4.1 and the documented conventions of the struct): Ok(final number) iff every present "
             "header is reached exactly once and a hop-by-hop header only directly behind the IPv6 header; otherwise an "
             "error that is truthful (HopByHopNotAtStart only if link 0 is met later while a hop-by-hop header waits; "
             "ExtNotReferenced names a header that is present and was not reached); hence write succeeds exactly when "
             "next_header succeeds (also asserted directly), neither panics, and on success write emits exactly "
             "header_len() bytes = the reference wire image (RFC 8200 4.3-4.6, RFC 4302 2) of every present header exactly "
             "once in walk order (nothing dropped, nothing doubled; content with the capturing writer, verdict and length "
             "also with a counting writer and, without authentication header, the real serialisers). (3) DECODING, only "
             "for the chains CBMC can afford (Ipv6Extensions::from_slice is the expensive kernel): the empty set and the "
             "single-header chains authentication / hop-by-hop / destination options -> n, contents and every final number "
             "outside 0/43/44/51/60 symbolic: from_slice(first, reference wire image) returns the same set, the same "
             "final number and an empty rest - by (2) that image is what write emits. "
             "is_fragmenting_payload == fragment header present and (offset != 0 or M). IPv4 (optional authentication "
             "header): same three clauses for Ipv4Extensions with the REAL serialiser, every first number, every link, "
             "every final number != 51. IpHeaders: next_header / header_len agree with the same references for both versions "
             "(IPv6: all 48 patterns); write: IPv4 all cases (base header, protocol byte, extension bytes behind it), IPv6 "
             "for the presence patterns none / all six / dest+routing+final dest+fragment with arbitrary links and first "
             "number (verdict, base header first, total length; symbolic presence exceeds 20 GB); set_next_headers stores the "
             "first number in the base header, links the chain so that next_header() == Ok(n) and returns the ether type "
             "of the IP version (0x0800 / 0x86dd). NetHeaders::try_set_next_headers: same, ARP is refused unchanged.",
    "outside": "Ipv6Extensions::write of a chain WITH authentication header through the real IpAuthHeader::to_bytes (only "
               "through its model, which is proved equal on the value set; a six-header run with the real serialisers passed "
               "15 GB after 10 minutes and was dropped); DECODE-BACK of chains with two or more extension headers (symbolic presence/order with <= 2 headers and the "
               "fixed shapes routing -> final destination options, hop-by-hop -> fragment all exceeded 20 GB in CBMC): in "
               "particular the destination options / final destination options distinction on the decode side is NOT decided "
               "here (C08 has member-wise decode harnesses for a few RFC-order chains in its thorough tier); IpHeaders::write "
               "for IPv6 presence patterns other than the three listed; header contents beyond the sizes above (raw payloads > 6 bytes, ICV != 4 bytes): the bookkeeping never reads "
               "them, their serialisation is C08; Ipv6Extensions::{read, read_limited, from_slice_lax} and the slice types "
               "(C06/C08); decoding of chains that end on 0/43/44/51/60 (the decoder continues or stops by its own documented "
               "rules); which of several unreferenced headers an error names (not ranked by the documentation: any is "
               "accepted); Debug/Display of the errors (C02); the known finding cases listed by the KF witnesses",
    "assumptions": ["reference walk, reference wire images and the protocol / ether type numbers in kani/src/c12.rs are "
                    "written from RFC 8200, RFC 4302, the IANA registries and the doc comments of Ipv6Extensions; they "
                    "share no code or constant with etherparse",
                    "write harnesses with symbolic links run with the two serialiser models of DESIGN 2.5 (IpAuthHeader::"
                    "to_bytes has a fixed 1016 trip loop, the walker a symbolic exit: no common unwind bound); the models "
                    "are proved equal to the real functions on the value set used (c12_stub_*), and the real serialisers run "
                    "in c12_v6_write_verdict_noauth_real (symbolic links, no authentication header) and c12_v4_chain"],
    "harnesses": [
        H("c12_stub_raw_to_bytes", "c12", unwind=4, timeout=300,
          bounds="every next header and first payload byte, 6 byte payload",
          encodes=["Ipv6RawExtHeader::{new_raw,to_bytes,header_len,payload}"]),
        H("c12_stub_auth_to_bytes", "c12", unwind=1018, timeout=900,
          bounds="every next header, SPI, sequence number, first ICV byte; 4 byte ICV; unwind 1018 = fixed 1016 trip loop + slack",
          encodes=["IpAuthHeader::{new,to_bytes,header_len,raw_icv}"]),
        H("c12_v6_link_order", "c12", unwind=7, timeout=600,
          bounds="all 48 presence patterns x arbitrary stale links x every n outside the IANA extension header list",
          encodes=["Ipv6Extensions::{set_next_headers,next_header,header_len,is_empty}"]),
        H("c12_v6_walk_any", "c12", unwind=7, timeout=600,
          bounds="all 48 presence patterns x 256^6 link values x 256 first numbers",
          encodes=["Ipv6Extensions::{next_header,header_len,is_fragmenting_payload}"]),
        H("c12_v6_write_verdict", "c12", unwind=7, timeout=900, stubbing=True, stubs=_STUBS,
          bounds="all 48 presence patterns x 256^6 link values x 256 first numbers; counting writer",
          encodes=["Ipv6Extensions::{write,write_internal,next_header,header_len}", "Ipv6FragmentHeader::to_bytes"]),
        H("c12_v6_write_verdict_noauth_real", "c12", unwind=7, timeout=1500,
          bounds="24 presence patterns without authentication header x arbitrary links x 256 first numbers; real "
                 "serialisers; counting writer",
          encodes=["Ipv6Extensions::{write,write_internal,next_header,header_len}", "Ipv6RawExtHeader::to_bytes",
                   "Ipv6FragmentHeader::to_bytes"]),
        H("c12_v6_write_bytes", "c12", unwind=7, timeout=1800, stubbing=True, stubs=_STUBS,
          bounds="all 48 presence patterns x 256^6 link values x 256 first numbers; capturing writer (8 byte words)",
          encodes=["Ipv6Extensions::{write,write_internal,header_len}", "Ipv6FragmentHeader::to_bytes"]),
        H("c12_v6_decode_empty", "c12", unwind=2, timeout=900,
          bounds="empty set, every first number outside 0/43/44/51/60",
          encodes=["Ipv6Extensions::{from_slice,header_len}"]),
        H("c12_v6_decode_auth", "c12", unwind=3, timeout=1500,
          bounds="chain: authentication header -> n; contents and every n outside 0/43/44/51/60 symbolic; unwind 3 = "
                 "1 header + stop + 1",
          encodes=["Ipv6Extensions::{from_slice,header_len}"]),
        H("c12_v4_chain", "c12", unwind=1018, timeout=900,
          bounds="authentication header present or not x every link x every first number x every n != 51; real serialiser",
          encodes=["Ipv4Extensions::{set_next_headers,next_header,write,write_internal,header_len,is_empty}",
                   "IpAuthHeader::to_bytes"]),
        H("c12_v4_decode", "c12", unwind=8, timeout=300,
          bounds="authentication header present or not, every link, first number 51 iff present",
          encodes=["Ipv4Extensions::from_slice"]),
        H("c12_ip_headers_v4", "c12", unwind=7, timeout=900, stubbing=True, stubs=_STUBS[1:],
          bounds="IPv4 base header without options (addresses, id, ttl, total length symbolic) x authentication header "
                 "present or not x every protocol / link / n != 51",
          encodes=["IpHeaders::{next_header,header_len,write,set_next_headers}", "Ipv4Header::write"]),
        H("c12_ip_headers_v6", "c12", unwind=7, timeout=900,
          bounds="all 48 presence patterns x arbitrary links x 256 first numbers; n outside the IANA extension header list",
          encodes=["IpHeaders::{next_header,header_len,is_fragmenting_payload,set_next_headers}"]),
        H("c12_ip_headers_v6_write_full", "c12", unwind=7, timeout=1500, stubbing=True, stubs=_STUBS,
          bounds="all six extension headers present x arbitrary links x 256 first numbers; counting writer that keeps "
                 "the first chunk",
          encodes=["IpHeaders::{write,header_len}", "Ipv6Header::write", "Ipv6Extensions::write"]),
        H("c12_ip_headers_v6_write_none", "c12", unwind=7, timeout=900, stubbing=True, stubs=_STUBS,
          bounds="no extension header x 256 first numbers",
          encodes=["IpHeaders::{write,header_len}", "Ipv6Header::write", "Ipv6Extensions::write"]),
        H("c12_net_headers", "c12", unwind=7, timeout=600,
          bounds="IPv4 (authentication header or not), IPv6 (all 48 presence patterns, stale links), ARP; every n that is "
                 "no extension header of the version",
          encodes=["NetHeaders::{try_set_next_headers,header_len}"]),
        # ---- thorough
        H("c12_v6_decode_hbh", "c12", tier="thorough", unwind=2, timeout=1800,
          bounds="chain: hop-by-hop -> n; contents and every n outside 0/43/44/51/60 symbolic",
          encodes=["Ipv6Extensions::{from_slice,header_len}"]),
        H("c12_v6_decode_dest", "c12", tier="thorough", unwind=3, timeout=1800,
          bounds="chain: destination options -> n (must come back as the first destination options member)",
          encodes=["Ipv6Extensions::{from_slice,header_len}"]),
        H("c12_ip_headers_v6_write_mid", "c12", tier="thorough", unwind=7, timeout=1800, stubbing=True, stubs=_STUBS,
          bounds="destination options, routing, final destination options, fragment present x arbitrary links x 256 "
                 "first numbers",
          encodes=["IpHeaders::{write,header_len}", "Ipv6Header::write", "Ipv6Extensions::write"]),
    ],
}
